#!/bin/sh
# Build the framework from files on disk only (offline): regenerate Gen/* from
# /repo, build every proof module and the compiled model driver.
set -e
cd "$(dirname "$0")"
mkdir -p .work .cache evidence replays
/venv/bin/python tools/gen_model.py --report .work/gen_report.json
cd lean
lake build 2>&1 | tail -5
