#!/venv/bin/python
"""Write MANIFEST.json from harness/registry.py (claimed properties) + the list of all properties."""
import json, os, sys
VERIF = os.path.dirname(os.path.dirname(os.path.abspath(__file__)))
sys.path.insert(0, VERIF)
from harness.registry import PROPS, MANIFEST_TEXT  # noqa

ids = [json.loads(l)["id"] for l in open(os.path.join(VERIF, "properties.jsonl"))]
checks = []
na = []
for i in ids:
    if i in PROPS:
        t = MANIFEST_TEXT[i]
        checks.append({
            "property_id": i,
            "quick_cmd": "./check %s --tier quick" % i,
            "thorough_cmd": "./check %s --tier thorough" % i,
            "evidence_file": "evidence/%s.json" % i,
            "replay_cmd_template": "./check replay {path}",
            "engine": "lean-proof+correspondence",
            "level_claimed": {"category": "proof", "text": t["text"], "design_ref": t.get("design_ref", "DESIGN.md §5 " + i)},
            "level_note": t["note"],
            "technique": t["technique"],
        })
    else:
        na.append({"property_id": i, "reason": MANIFEST_TEXT.get(i, {}).get("na", "check not built yet in this session; see DESIGN.md §11 staging")})
m = {
    "version": 1,
    "setup_cmd": "./setup.sh",
    "hooks": {"guard": "PYFATFS_VERIF", "enable": "no source hooks: the harness owns the device object, locks and scheduler from outside; nothing in /repo is guarded",
              "baseline_off_cmd": "cd /repo && /venv/bin/python -m pytest -ra -q -p no:cacheprovider --timeout=900 --continue-on-collection-errors",
              "source_commits": [], "add_only": True},
    "engines": [{"name": "lean-proof+correspondence", "path": "check",
                 "serves_properties": [c["property_id"] for c in checks],
                 "kind_free_text": "Lean 4 theorems over a model that is partly regenerated from /repo (tools/gen_model.py -> lean/PyFatModel/Gen) and partly hand-written and tied by differential execution (compiled Lean driver vs real pyfatfs); executable specifications double as oracles for failing-input search on the real code"}],
    "checks": checks,
    "not_applicable": na,
    "notes": "exit 2 = infrastructure failure (never a verdict). VERIF_SEED seeds every generator. Known findings: known_findings.json.",
}
json.dump(m, open(os.path.join(VERIF, "MANIFEST.json"), "w"), indent=1)
print("claimed", len(checks), "not_applicable", len(na))
