#!/usr/bin/env python3
"""Rewrite the seeded-changes table of DESIGN.md (§11) from seeded/*/meta.json and .work/seedreg.log."""
import json, os, re, sys
V = os.path.dirname(os.path.dirname(os.path.abspath(__file__)))
log = {}
p = os.path.join(V, ".work", "seedreg.all.log")
if os.path.exists(p):
    for line in open(p):
        m = re.match(r"(\S+) \((C\d\d)\): (.*)", line)
        if m:
            log[m.group(1)] = m.group(3)
rows = ["| change | property | what it needs to manifest | result of `./check <property> --tier quick` with the change applied |", "|---|---|---|---|"]
for d in sorted(os.listdir(os.path.join(V, "seeded"))):
    mp = os.path.join(V, "seeded", d, "meta.json")
    if not os.path.exists(mp):
        continue
    m = json.load(open(mp))
    needs = (m.get("needs") or "").replace("\n", " ").replace("|", "/")
    needs = needs[:170] + ("…" if len(needs) > 170 else "")
    if m.get("obsolete"):
        res = "— obsolete: " + str(m.get("obsolete"))[:120].replace("|", "/")
    elif m.get("status_after_repairs"):
        res = "HELD, correctly — " + str(m.get("status_after_repairs"))[:260].replace("|", "/")
    else:
        r = log.get(d, "")
        if "PATCH DOES NOT APPLY" in r:
            res = "patch no longer applies (source repaired since)"
        elif "VIOLATION" in r:
            nf = "no-failing-input-found" in r and r.count("VIOLATION") == r.count("no-failing-input-found")
            mm = re.search(r"(\d+)/(\d+) obligations discharged, (\d+) evaluations \(\d+ distinct non-trivial\), (\d+) divergences", r)
            extra = ""
            if mm:
                extra = " (%s/%s obligations, %s divergences)" % (mm.group(1), mm.group(2), mm.group(4))
            res = ("VIOLATION, tie broken, no failing input found" if nf else "VIOLATION with failing input") + extra
        elif "HELD" in r:
            res = "**missed** (HELD)"
        else:
            res = "not run"
    det = m.get("detection")
    if det:
        res += " — " + det[:260].replace("|", "/")
    rows.append("| %s | %s | %s | %s |" % (d, m.get("property"), needs, res))
table = "\n".join(rows)
dp = os.path.join(V, "DESIGN.md")
s = open(dp).read()
a = s.index("<!-- SEED_TABLE_BEGIN -->") if "<!-- SEED_TABLE_BEGIN -->" in s else None
if a is None:
    s = s.replace("SEED_TABLE_PLACEHOLDER", "<!-- SEED_TABLE_BEGIN -->\n" + table + "\n<!-- SEED_TABLE_END -->")
else:
    b = s.index("<!-- SEED_TABLE_END -->")
    s = s[:a] + "<!-- SEED_TABLE_BEGIN -->\n" + table + "\n" + s[b:]
open(dp, "w").write(s)
print(len(rows) - 2, "rows")
