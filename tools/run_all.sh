#!/bin/bash
# run every registered quick (or $1) check on the current tree; summary in .work/all-<tier>.log
cd /verif
tier=${1:-quick}
out=.work/all-$tier.log; : > $out
for p in C01 C02 C03 C04 C05 C06 C07 C08 C09 C10 C11 C12 C13 C14 C15 C16 C17 C18 C19 C20; do
  ./check $p --tier $tier 2>&1 | grep -E "^(VIOLATION|KNOWN-FINDING|C[0-9][0-9]:|infrastructure|AUDIT)" | cut -c1-220 >> $out
done
echo done >> $out
