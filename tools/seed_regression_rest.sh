#!/bin/bash
# like seed_regression.sh, but appends to .work/seedreg.all.log and skips seeds that already have a line there
cd /verif
out=.work/seedreg.all.log
for d in /verif/seeded/*/; do
  id=$(basename $d)
  grep -q "^$id (" $out && continue
  prop=$(python3 -c "import json;print(json.load(open('$d/meta.json'))['property'])")
  if python3 -c "import json,sys;sys.exit(0 if json.load(open('$d/meta.json')).get('obsolete') else 1)"; then echo "$id ($prop): obsolete, skipped" >> $out; continue; fi
  git -C /repo diff --quiet || { echo "/repo not clean" >> $out; exit 2; }
  if ! git -C /repo apply --check $d/patch.diff 2>/dev/null; then echo "$id ($prop): PATCH DOES NOT APPLY" >> $out; continue; fi
  git -C /repo apply $d/patch.diff
  res=$(./check $prop --tier quick 2>&1 | grep -E "VIOLATION|HELD|VIOLATED|infrastructure" | cut -c1-160 | tr '\n' '|')
  git -C /repo checkout -- .
  echo "$id ($prop): $res" >> $out
done
git -C /verif checkout -- evidence 2>/dev/null
echo RESTDONE >> .work/seed_rest.done
