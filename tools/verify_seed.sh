#!/bin/bash
# verify one seeded change in its own scratch worktree of /repo HEAD: demo fails with it, passes without, test suite stays green
# usage: tools/verify_seed.sh <id> [<dir with patch.diff demo.py>]   (default dir /tmp/seed/out/<id>)
id=$1
src=${2:-/tmp/seed/out/$id}
wt=/tmp/seedverify/$id
mkdir -p /tmp/seedverify
rm -rf $wt; git -C /repo worktree prune
git -C /repo worktree add -q --detach $wt HEAD || exit 2
cd $wt
out=/tmp/seedverify/$id.result
{
echo "base=$(git rev-parse --short HEAD)"
PYTHONPATH=$wt timeout 900 /venv/bin/python -W ignore $src/demo.py > /tmp/seedverify/$id.clean.log 2>&1; echo "demo_clean_exit=$?"
if git apply --check $src/patch.diff 2>/dev/null; then
  git apply $src/patch.diff; echo "patch_applies=yes"
  PYTHONPATH=$wt timeout 900 /venv/bin/python -W ignore $src/demo.py > /tmp/seedverify/$id.seeded.log 2>&1; echo "demo_seeded_exit=$?"
  PYTHONPATH=$wt /venv/bin/python -m pytest -q -p no:cacheprovider --timeout=900 tests 2>&1 | tail -1
else
  echo "patch_applies=no"
fi
} > $out 2>&1
cd /; git -C /repo worktree remove --force $wt
cat $out
