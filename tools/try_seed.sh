#!/bin/bash
# usage: tools/try_seed.sh <dir with patch.diff> <prop> [more props]  — applies the seeded change to /repo, runs the checks, restores /repo
d=$(realpath $1); shift
cd /repo || exit 2
git diff --quiet || { echo "/repo not clean"; exit 2; }
git apply --check "$d/patch.diff" || { echo "patch does not apply"; exit 3; }
git apply "$d/patch.diff"
cd /verif
for p in "$@"; do
  VERIF_NOCACHE= ./check $p --tier quick 2>&1 | grep -E "VIOLATION|HELD|VIOLATED|infrastructure|KNOWN" | cut -c1-220
  echo "exit=$? ($p)"
done
git -C /repo checkout -- .
git -C /repo status --short | head -3
