"""Suite `names` (C15, C05): legal long names of every length and shape x OEM code
pages x preserve_case.  Oracle (real code): create succeeds, the name is found by
exactly the name given, listed verbatim, never shadows an earlier name, also after
a remount.  Correspondence: stored short name bytes and the long-name decision
against `Model.Names.newName` (CharEnv facts supplied by CPython).
"""
from harness.common import Driver, Result, rng, natlist, hexs, exc_class
from harness import specfat
from harness.fatdev import Dev, mount
from harness.fsrun import make_image

CPS = ["ibm437", "cp850", "cp866", "cp1252"]


def cp_def(cp):
    dec = []
    for b in range(256):
        try:
            dec.append(ord(bytes([b]).decode(cp)))
        except UnicodeDecodeError:
            dec.append(0xFFFD)
    spaces = sorted({c for c in dec if chr(c).isspace()})
    up = []
    for c in sorted(set(dec) | set(range(128))):
        u = chr(c).upper()
        if u != chr(c):
            up.append("%d:%s" % (c, ".".join(str(ord(x)) for x in u)))
    return "cp %s %s %s %s" % (cp, natlist(dec), natlist(spaces), ";".join(up) or "-")


def env_for(name, cp):
    chars = set(name) | set(name.upper())
    up = []
    enc = []
    sp = []
    for ch in sorted(chars):
        u = ch.upper()
        if u != ch:
            up.append("%d:%s" % (ord(ch), ".".join(str(ord(x)) for x in u)))
        try:
            b = ch.encode(cp)
            if len(b) == 1:
                enc.append("%d:%d" % (ord(ch), b[0]))
        except UnicodeEncodeError:
            pass
        if ch.isspace():
            sp.append(ord(ch))
    # alias characters come back through the code page: provide their encodings too
    for b in range(256):
        try:
            ch = bytes([b]).decode(cp)
        except UnicodeDecodeError:
            continue
        try:
            if ch.encode(cp) == bytes([b]) and ch not in chars:
                enc.append("%d:%d" % (ord(ch), b))
        except UnicodeEncodeError:
            pass
    return "up=%s sp=%s enc=%s" % (";".join(up) or "-", natlist(sp), ";".join(enc) or "-")


def legal(name):
    return specfat.lfn_legal(name) and not name.startswith(" ")


def name_pool(r, tier):
    names = []
    # every length 1..255 (quick: a stride that still hits every 13-boundary ±1)
    lens = list(range(1, 256)) if tier != "quick" else sorted(set(
        [1, 2, 7, 8, 9, 11, 12, 127, 128, 129, 200, 254, 255] + [k * 13 + d for k in range(1, 20) for d in (-1, 0, 1)]))
    for ln in lens:
        if ln > 255:
            continue
        body = "".join(chr(97 + (i * 7 + ln) % 26) for i in range(ln))
        names.append(body)
    names += ["A", "AB.C", "ABCDEFGH.TXT", "ABCDEFGHI.TXT", "ABCDEFGH.TXTX", "abc.txt", "Abc.Txt", "MiXeD", "lower", "UPPER",
              "a b.txt", "A B.TXT", "AB .TXT", "A.B.C", "a.b.c.d.e", ".hidden", "..twodots", ".a.b", "x.", "trailing.dot.ok",
              "with space", "UP SPACE", "many   spaces", "tab\tname"[:3] + "x", "dot.in.middle.of.name",
              "ÄÖÜ", "äöü.txt", "ÀÉÎ.TXT", "ß.txt", "Õ.TXT", "õ.txt", "ΩMEGA", "файл", "ФАЙЛ.TXT", "日本語", "한글.txt",
              "emoji😀", "😀", "a😀b.😀", "Ñandú.doc", "naïve.txt", "ı.txt", "ǅ.txt", "ﬃ.txt",
              "+plus", "a+b.txt", "semi;colon", "a=b", "[brackets]", "comma,name", "A+B.TXT",
              "~tilde", "FOO~1", "FOO~1.TXT", "_under", "$dollar%percent", "(paren)", "{brace}", "'quote'", "`back`", "^caret", "#hash", "@at", "&and", "!bang", "-dash"]
    # non-BMP characters (two UTF-16 units each) around every slot boundary: the unit count, not the
    # character count, decides terminator and padding
    for units in (12, 13, 14, 25, 26, 27, 38, 39, 40, 129, 130, 131, 254, 255):
        for nsurr in (1, 2):
            base = units - 2 * nsurr
            if base >= 1:
                names.append("s" * (base - 1) + "\U0001F600" * nsurr + "z")
                names.append("\U0001F431" * nsurr + "q" * base)
    # UTF-16 units whose high or low byte looks like padding (0xFF), a terminator (0x00) or a space (0x20),
    # as the last unit of a set that fills its slots exactly, next to it, and across a slot boundary
    for ch in ("\uFF21", "\uFF76", "\u00FF", "\uFFFD", "\u0100", "\u20AC", "\u2100"):
        for units in (12, 13, 14, 26, 39, 255):
            names.append("e" * (units - 1) + ch)
            names.append(ch + "f" * (units - 1))
        names.append("g" * 12 + ch + "h" * 5)
        names.append("i" * 13 + ch + "j" * 12)
    # alias-collision families
    for i in range(14 if tier == "quick" else 140):
        names.append("collide_family_%04d.data" % i)
    for i in range(6):
        names.append("AB~%d" % i)
    return [n for n in names if legal(n)]


def run(tier):
    res = Result("names")
    d = Driver()
    pend = []
    r = rng("names")
    pool = name_pool(r, tier)
    cps = CPS if tier != "quick" else CPS[:2] + CPS[3:]
    defined = set()
    for cpi, cp in enumerate(cps):
        for pc in (True, False):
            if cp not in defined:
                d.ask(cp_def(cp))
                pend.append((len(d.lines) - 1, "cp", None, "ok", None))
                defined.add(cp)
            cfg = {"fmt": "spec", "geom": dict(totsec=12000, spc=2, rootent=64, nfats=1), "cp": cp}
            data, off, size = make_image(cfg)
            dev = Dev(data=data)
            f = mount(dev, encoding=cp, preserve_case=pc)
            f.makedir("/D")
            created = []
            stored_upper = []
            made = [0]
            sub = pool if (cpi == 0 and pc) or tier != "quick" else pool[::3]
            for nm in sub:
                path = "/D/" + nm
                rep = {"suite": "names", "cp": cp, "preserve_case": pc, "name": nm, "before": list(created)}
                res.case("n:%s:%s:len%d:%s" % (cp, pc, len(nm), "ascii" if nm.isascii() else "uni"))
                if len(res.samples) < 5 and len(nm) < 30:
                    res.sample({"cp": cp, "preserve_case": pc, "name": nm})
                parent = f.fs.root_dir.get_entry("/D")
                existing = [e.get_short_name() for e in parent.get_entries()[0] + parent.get_entries()[1]]
                already = None
                try:
                    already = f.exists(path)
                except Exception as e:  # noqa
                    res.fail(["C15"], "names:exists-raises:" + exc_class(e), "exists(%r) raised %s" % (nm, exc_class(e)), rep)
                if already and any(prev.upper() == nm for prev in created + stored_upper):
                    # the 8.3 alias is FAT's second lookup key: an upper-case 8.3 name equal to the alias of an
                    # earlier (differently cased) name denotes that same entry — outside the property's name pools
                    res.count("alias-key-skipped")
                    continue
                if already:
                    # the name is already reachable although it was never created: an earlier name shadows it
                    res.fail(["C15"], "names:ambiguous:%s" % classify(nm), "%r resolves to an entry created under another name" % nm, rep)
                    continue
                try:
                    f.create(path)
                    err = None
                except Exception as e:  # noqa
                    err = exc_class(e)
                # ---- correspondence of the naming decision
                req = "name newname cp=%s pc=%d name=%s %s ex=%s" % (
                    cp, 1 if pc else 0, natlist([ord(c) for c in nm]), env_for(nm, cp),
                    "|".join(natlist([ord(c) for c in x]) for x in existing) or "-")
                if err is None:
                    try:
                        ent = parent._get_entries_raw()[-1]
                        ln = ent.lfn_entry
                        impl = "ok %s %s" % (hexs(bytes(ent.name.name)), "-" if ln is None else
                                             "L" + natlist(list(memoryview(str(ln).encode("utf-16-le")).cast("H"))))
                    except Exception as e:  # noqa
                        impl = "err-inspect " + exc_class(e)
                else:
                    impl = "err " + err
                i = d.ask(req)
                pend.append((i, "newname", req, impl, rep))
                if err is None and impl.startswith("ok") and ent.lfn_entry is not None:
                    try:
                        u = list(memoryview(nm.encode("utf-16-le")).cast("H"))
                        cks = ent.name.checksum()
                        raw = bytes(ent.lfn_entry)
                        j = d.ask("vol lfn_make %s %d" % (natlist(u), cks))
                        pend.append((j, "lfn_make", "lfn_make %r" % nm[:40], "ok %s %s" % (hexs(raw), natlist(u)), rep))
                    except Exception as e:  # noqa
                        res.notes.append("lfn inspect failed: " + exc_class(e))
                # ---- oracle C15
                if err is not None:
                    res.fail(["C15"], "names:create-fails:%s:%s" % (err, classify(nm)),
                             "create(%r) raised %s (cp=%s, preserve_case=%s)" % (nm, err, cp, pc), rep)
                    continue
                made[0] += 1
                try:
                    if not f.exists(path):
                        if not pc and nm != nm.upper():
                            res.fail(["C15"], "names:not-found-by-given-name:preserve_case=off:non-upper-name",
                                     "%r created (stored upper-cased) but not found by the name given" % nm, rep)
                            stored_upper.append(nm)     # the entry exists, under the upper-cased name
                            continue
                        res.fail(["C15"], "names:not-found:%s" % classify(nm, cp), "%r not found after create" % nm, rep)
                except Exception as e:  # noqa
                    res.fail(["C15"], "names:lookup-raises:%s:%s" % (exc_class(e), classify(nm, cp)), exc_class(e), rep)
                    continue
                created.append(nm)
                try:
                    lst = f.listdir("/D")
                    ok_list = nm in lst or (not pc and nm.upper() in lst)
                    if not ok_list:
                        res.fail(["C15"], "names:listed-differently:%s" % classify(nm),
                                 "%r listed as %r" % (nm, [x for x in lst if x.upper()[:4] == nm.upper()[:4]][:3]), rep)
                    if len(lst) != len(set(lst)) or len(lst) != made[0]:
                        res.fail(["C15"], "names:listing-count:%s" % classify(nm), "%d names created, %d listed (%d distinct)"
                                 % (made[0], len(lst), len(set(lst))), rep)
                except Exception as e:  # noqa
                    res.fail(["C15"], "names:lookup-raises:%s:%s" % (exc_class(e), classify(nm)), exc_class(e), rep)
            # every earlier name still reachable, live and after remount
            for which in ("live", "remount"):
                if which == "remount":
                    f.close()
                    for code, detail in specfat.fsck(bytes(dev.data), 0, cp=cp):
                        if not code.startswith(("fat.", "chain.")):
                            # a short name whose first OEM byte is 0xE5 is stored with 0xE5 (finding D2: the 0x05 escape
                            # is undone in place), so an independent reader sees a free slot and the long-name slots
                            # before it are orphans
                            if code == "lfn.orphan" and "free slot" in detail and \
                                    any("lead-byte-0xE5" in classify(n_, cp) for n_ in created):
                                code = code + ":lead-byte-0xE5"
                            res.fail(["C05", "C15"], "names:fsck:%s:%s" % (code, cp), detail,
                                     {"suite": "names", "cp": cp, "preserve_case": pc, "created": created[:50]})
                            break
                    f = mount(Dev(data=bytes(dev.data), writable=False), encoding=cp, preserve_case=pc)
                try:
                    lst = f.listdir("/D")
                except Exception as e:  # noqa
                    res.fail(["C15", "C03"], "names:%s-listdir-raises:%s" % (which, exc_class(e)), exc_class(e),
                             {"suite": "names", "cp": cp, "preserve_case": pc, "created": created[:50]})
                    lst = []
                for nm in created:
                    try:
                        found = f.exists("/D/" + nm)
                    except Exception as e:  # noqa
                        found = False
                    if not found or not (nm in lst or (not pc and nm.upper() in lst)):
                        res.fail(["C15"] + (["C03"] if which == "remount" else []),
                                 "names:%s-lost:%s:%s" % (which, classify(nm, cp), cp), "%r unreachable or unlisted (%s)" % (nm, which),
                                 {"suite": "names", "cp": cp, "preserve_case": pc, "name": nm, "created": created[:80]})
            f.fs.initialized = False
            res.count("runs")
            res.count("names", len(created))
    out = d.run()
    for i, kind, req, impl, rep in pend:
        if kind == "cp":
            continue
        res.count("cmp:" + kind)
        if out[i] != impl:
            res.diverge(kind, req, out[i], impl, ["C15", "C05"])
    return res


def classify(nm, cp=None):
    """stable class of a name for signatures"""
    parts = []
    if cp is not None:
        try:
            if nm.upper().encode(cp)[:1] == b"\xe5":
                parts.append("lead-byte-0xE5")
        except UnicodeEncodeError:
            pass
    n16 = len(nm.encode("utf-16-le")) // 2
    parts.append("len>127" if n16 > 127 else "len<=127")
    if not nm.isascii():
        parts.append("nonascii")
    if " " in nm:
        parts.append("space")
    if nm.startswith("."):
        parts.append("leading-dot")
    if nm == nm.upper():
        parts.append("upper")
    if "~" in nm:
        parts.append("tilde")
    if any(c in nm for c in "+,;=[]"):
        parts.append("sfn-illegal-char")
    return "+".join(parts)


def replay(rep, signature=None):
    cp, pc = rep["cp"], rep["preserve_case"]
    cfg = {"fmt": "spec", "geom": dict(totsec=12000, spc=2, rootent=64, nfats=1), "cp": cp}
    data, off, size = make_image(cfg)
    f = mount(Dev(data=data), encoding=cp, preserve_case=pc)
    f.makedir("/D")
    msgs = []
    bad = False
    try:
        for nm in rep.get("before", rep.get("created", [])):
            try:
                f.create("/D/" + nm)
            except Exception as e:  # noqa
                msgs.append("create(%r): %s" % (nm, exc_class(e)))
        if "name" in rep:
            nm = rep["name"]
            try:
                pre = f.exists("/D/" + nm)
                f.create("/D/" + nm)
                lst = f.listdir("/D")
                ok = f.exists("/D/" + nm) and (nm in lst or (not pc and nm.upper() in lst)) and not pre
                bad = not ok
                msgs.append("create(%r): found=%s listed=%s pre-existing=%s" % (nm, f.exists("/D/" + nm), nm in lst, pre))
            except Exception as e:  # noqa
                bad = True
                msgs.append("create(%r) raised %s" % (nm, exc_class(e)))
    finally:
        f.fs.initialized = False
    return bad, "\n".join(msgs[-5:])
