"""Suite `identity` (C16): valid images from the independent builder — every FAT12 size
1..12 sectors, FAT16/32 tables with arbitrary values in entries beyond the cluster count,
bad-cluster marks, reserved FAT32 bits, arbitrary boot code and OEM fields — opened
read-write and closed without any operation must be byte-identical; after operations only
the flag fields, FAT entries and clusters those operations need may differ: reserved
boot-sector bytes, boot code, reserved FAT bits, bad marks and FAT entries beyond the data
area are preserved.
"""
import struct

from harness.common import Result, rng, exc_class
from harness import specfat
from harness.fatdev import Dev, mount
from harness.fsrun import run_op
from harness.suites.foreign import rand_tree


def geoms(tier):
    out = []
    # FAT12 with FAT sizes 1..12 sectors (cluster count chosen to need exactly that many)
    for fatsz in range(1, 13):
        clusters = min(4084, max(3, fatsz * 512 * 2 // 3 - 2 - (7 if fatsz % 2 else 0)))
        out.append(dict(totsec=1 + 2 * fatsz + 4 + clusters, spc=1, rootent=64, nfats=2, fatsz=fatsz))
    out += [dict(totsec=9000, spc=2, rootent=128, nfats=2), dict(totsec=20000, spc=1, rootent=512, nfats=3, fatsz=90),
            dict(totsec=70000, spc=1, rootent=0, rsvd=32, nfats=2), dict(totsec=70000, spc=1, rootent=0, rsvd=32, nfats=1, fatsz=600),
            dict(totsec=3000, spc=1, rootent=32, nfats=2, bps=1024), dict(totsec=1500, spc=2, rootent=128, nfats=2, bps=4096)]
    return out


def regions(img, off):
    v = specfat.Volume(img, off)
    g = v.g
    return v, g


def run(tier):
    res = Result("identity")
    r = rng("identity")
    n = 0
    for gi, gd in enumerate(geoms(tier)):
        g = specfat.Geom(**gd)
        if not g.valid():
            res.notes.append("invalid geometry skipped: %s" % g.describe())
            continue
        for variant in range(2 if tier == "quick" else 5):
            tree = rand_tree(r, 0, g.bpc, [min(g.count - 6, 60)])
            b = specfat.Builder(g, r, placement=r.choice(["seq", "frag"]), fat_garbage=True, boot_garbage=True, res1_garbage=True)
            try:
                img = b.build(tree)
            except MemoryError:
                continue
            # valid images carry 0 in the half entry at the end of a FAT12 table (length = 2 mod 3)
            if g.type == 12 and (g.fatsz * g.bps) % 3 == 2:
                ba = bytearray(img)
                for i in range(g.nfats):
                    e = (g.rsvd + (i + 1) * g.fatsz) * g.bps - 1
                    ba[e] &= 0x0F
                img = bytes(ba)
            off = r.choice([0, 512])
            data = bytes(0x11 for _ in range(off)) + img
            n += 1
            res.case("g%d:v%d:t%d" % (gi, variant, g.type))
            res.count("images")
            rep = {"suite": "identity", "geom": gd, "variant": variant, "offset": off}
            if n <= 2:
                res.sample({"geom": g.describe(), "bad_clusters": b.bad[:3], "offset": off})
            # ---- (1) mount + close, nothing else
            for lazy in (True, False):
                dev = Dev(data=data)
                try:
                    f = mount(dev, offset=off, lazy_load=lazy)
                    f.close()
                except Exception as e:  # noqa
                    res.fail(["C16"], "identity:mount-close-raises:%s:type%d" % (exc_class(e), g.type), repr(e)[:200], rep)
                    break
                after = bytes(dev.data)
                if after != data:
                    diffs = [i for i in range(min(len(after), len(data))) if after[i] != data[i]]
                    where = classify(diffs[0] - off, g) if diffs else "length"
                    res.fail(["C16"], "identity:noop-session-changed-image:type%d:%s" % (g.type, where),
                             "%d bytes differ, first at volume offset %d (%s); lengths %d -> %d"
                             % (len(diffs), diffs[0] - off if diffs else -1, where, len(data), len(after)), rep)
                    break
            # ---- (2) frame after operations
            dev = Dev(data=data)
            try:
                f = mount(dev, offset=off)
                for op in (["makedir", "/newdir"], ["writebytes", "/newdir/some long file name.bin", 1, 3 * g.bpc + 5], ["create", "/E.TXT"],
                           ["writebytes", "/E.TXT", 2, 10], ["remove", "/E.TXT"]):
                    run_op(f, op, {})
                f.close()
            except Exception as e:  # noqa
                res.fail(["C16"], "identity:ops-raise:%s:type%d" % (exc_class(e), g.type), repr(e)[:200], rep)
                continue
            after = bytes(dev.data)[off:]
            v0, v1 = specfat.Volume(img, 0), specfat.Volume(after, 0)
            # boot sector(s): only the flag byte may differ (and it must be back to its value)
            if specfat.geometry_fields(img, 0) != specfat.geometry_fields(after, 0) or img[:g.bps] != after[:g.bps]:
                res.fail(["C16", "C05"], "identity:boot-sector-changed:type%d" % g.type, "boot sector bytes differ after a session with operations", rep)
            top = {12: 0xFFF, 16: 0xFFFF, 32: 0x0FFFFFFF}[g.type]
            total = {12: g.fatsz * g.bps * 2 // 3, 16: g.fatsz * g.bps // 2, 32: g.fatsz * g.bps // 4}[g.type]
            bad = None
            for k in list(range(0, 2)) + list(range(g.count + 2, total)):
                if v0.entry(k) != v1.entry(k):
                    bad = "entry %d (outside the data area): %s -> %s" % (k, hex(v0.entry(k)), hex(v1.entry(k)))
                    break
            if bad is None:
                for c in b.bad:
                    if v1.entry(c) != v0.entry(c):
                        bad = "bad-cluster mark of cluster %d: %s -> %s" % (c, hex(v0.entry(c)), hex(v1.entry(c)))
            if bad is None and g.type == 32:
                for k in range(total):
                    if (v0.raw_entry32(k) >> 28) != (v1.raw_entry32(k) >> 28):
                        bad = "reserved bits of entry %d: %s -> %s" % (k, hex(v0.raw_entry32(k)), hex(v1.raw_entry32(k)))
                        break
            if bad is None:
                for i in range(1, g.nfats):
                    if v1.fats[i] != v1.fats[0]:
                        bad = "FAT copy %d differs from copy 0 after the session" % i
            if bad:
                res.fail(["C16", "C04"], "identity:fat-frame:type%d:%s" % (g.type, bad.split(":")[0].split(" (")[0].split(" of ")[0].replace(" ", "-")[:40]), bad, rep)
            # untouched files keep their clusters and bytes
            try:
                t1 = specfat.read_tree(after, 0)
                for name, val in tree.items():
                    if t1.get(name) != val:
                        res.fail(["C16", "C02"], "identity:untouched-file-changed:type%d" % g.type, "%r differs after unrelated operations" % name, rep)
                        break
            except specfat.FatError as e:
                res.fail(["C16", "C04"], "identity:image-unreadable-after-ops:type%d" % g.type, str(e), rep)
    return res


def classify(pos, g):
    if pos < 0:
        return "before-volume"
    if pos < g.rsvd * g.bps:
        return "reserved-region" if pos >= 512 else ("boot-code" if 62 <= pos < 510 else "boot-fields")
    if pos < (g.rsvd + g.nfats * g.fatsz) * g.bps:
        rel = (pos - g.rsvd * g.bps) % (g.fatsz * g.bps)
        ent = {12: rel * 2 // 3, 16: rel // 2, 32: rel // 4}[g.type]
        return "fat-entry-beyond-data-area" if ent >= g.count + 2 else ("fat-reserved-entry" if ent < 2 else "fat-data-entry")
    if pos < g.firstdata * g.bps:
        return "root-directory"
    return "data-area"
