"""Suite `ro` (C10): clean and dirty images x both ways of requesting read-only x
FAT types; programs mixing reads with every mutating call.  Oracle: mount
succeeds, no write/truncate ever reaches the device and its bytes are unchanged
after close, every mutator raises, and what reads return never changes.
"""
from unittest import mock

from harness.common import Result, rng, exc_class
from harness import specfat
from harness.fatdev import Dev
from harness.fsrun import run_op, walk_fs, walk_spec, diff_walks, is_sanctioned
from harness.suites.foreign import rand_tree

from pyfatfs.PyFatFS import PyFatFS, PyFatBytesIOFS


def mutators(r, tree_paths_files, tree_paths_dirs):
    f = r.choice(tree_paths_files) if tree_paths_files else "/nofile"
    dd = r.choice(tree_paths_dirs) if tree_paths_dirs else "/nodir"
    return [
        ["create", "/NEW.TXT"], ["create", "/a new long name.txt"], ["create", f, True], ["touch", f],
        ["makedir", "/NEWDIR"], ["makedirs", dd + "/x/y"], ["writebytes", f, 1, 10], ["writebytes", "/W.BIN", 2, 600],
        ["appendbytes", f, 3, 5], ["remove", f], ["removedir", dd], ["removetree", dd],
        ["copy", f, "/COPY.BIN"], ["move", f, "/MOVED.BIN"], ["setinfo", f, {"modified": 1000000000}],
        ["open", "hw", f, "w"], ["open", "ha", f, "a"], ["write", "ha", 9, 4], ["close", "ha"], ["open", "hx", "/X.BIN", "x"],
        ["open", "hr", f, "r+"], ["write", "hr", 4, 3], ["truncate", "hr", 0], ["truncate", "hr", 1], ["close", "hr"],
    ]


def run(tier):
    res = Result("ro")
    r = rng("ro")
    geoms = [dict(totsec=400, spc=1, rootent=64, nfats=2), dict(totsec=9000, spc=2, rootent=128, nfats=2),
             dict(totsec=70000, spc=1, rootent=0, rsvd=32, nfats=2)]
    n = 0
    for gi, gd in enumerate(geoms):
        g = specfat.Geom(**gd)
        for dirty in (False, True):
            for way in ("device-not-writable", "read_only=True"):
                for rep_i in range(1 if tier == "quick" else 4):
                    tree = rand_tree(r, 0, g.bpc, [min(g.count - 3, 120)])
                    img = specfat.Builder(g, r, dirty=dirty).build(tree)
                    n += 1
                    res.case("g%d:%s:%s" % (gi, dirty, way))
                    res.count("images")
                    rep = {"suite": "ro", "geom": gd, "dirty": dirty, "way": way, "n": n}
                    if way == "device-not-writable":
                        dev = Dev(data=img, writable=False)
                        try:
                            f = PyFatBytesIOFS(dev)
                        except Exception as e:  # noqa
                            res.fail(["C10"], "ro:mount-raises:%s:%s" % (exc_class(e), "dirty" if dirty else "clean"), exc_class(e), rep)
                            continue
                    else:
                        holder = {}

                        def fake_open(name, mode="rb", **kw):
                            holder["dev"] = Dev(data=img, writable="+" in mode or "w" in mode)
                            return holder["dev"]
                        try:
                            with mock.patch("pyfatfs.PyFat.open", side_effect=fake_open):
                                f = PyFatFS("verif.img", read_only=True)
                            dev = holder["dev"]
                        except Exception as e:  # noqa
                            res.fail(["C10"], "ro:mount-raises:%s:%s" % (exc_class(e), "dirty" if dirty else "clean"), exc_class(e), rep)
                            continue
                    dev.fail_writes = True
                    try:
                        base = walk_fs(f, with_times=True)
                        d = diff_walks(walk_spec(tree), {k: v[:3] if v[0] == "f" else v[:1] for k, v in base.items()}, "builder", "read-only-mount")
                        if d:
                            res.fail(["C10", "C07"], "ro:reads-wrong:" + d[0][0], str(d[:3]), rep)
                        files = sorted(p for p, v in base.items() if v[0] == "f")
                        dirs = sorted(p for p, v in base.items() if v[0] == "d")
                        handles = {}
                        for op in mutators(r, files, dirs):
                            if op[0] in ("write", "truncate", "close") and op[1] not in handles:
                                continue
                            got = run_op(f, op, handles)
                            res.count("op:" + op[0])
                            opened_rw = op[0] == "open" and got[0] == "ok"
                            if op[0] == "open" and op[3] in ("r+", "a") and got[0] == "ok":
                                pass   # opening an existing file r+/a changes nothing; writes through it must fail
                            elif op[0] in ("close",):
                                pass
                            elif got[0] == "ok":
                                res.fail(["C10"], "ro:mutator-accepted:%s" % op[0], "%s returned %s on a read-only volume" % (op[:2], got), rep)
                            elif not is_sanctioned(got[1]):
                                res.fail(["C10"], "ro:internal-error:%s:%s" % (op[0], got[1]), "%s raised %s" % (op[:2], got[1]), rep)
                            try:
                                now = walk_fs(f, with_times=True)
                            except Exception as e:  # noqa
                                res.fail(["C10"], "ro:reads-raise-after:%s" % op[0], "%s after rejected %s" % (exc_class(e), op[:2]), rep)
                                break
                            d = diff_walks(base, now, "before", "after")
                            if d:
                                k = op[0] + ("(wipe)" if op[0] == "create" and len(op) > 2 and op[2] else "") + \
                                    ("(%s)" % op[3] if op[0] == "open" else "")
                                res.fail(["C10"], "ro:rejected-mutation-visible:%s:%s" % (k, d[0][0]),
                                         "after rejected %s reads differ: %s" % (op[:3], d[:2]), dict(rep, op=op))
                                base = now
                            del opened_rw
                        for h in list(handles.values()):
                            try:
                                h.close()
                            except Exception:  # noqa
                                pass
                        f.close()
                    except Exception as e:  # noqa
                        res.fail(["C10"], "ro:exception:" + exc_class(e), repr(e)[:200], rep)
                        f.fs.initialized = False
                    ws = [e for e in dev.log if e[0] in "WT"]
                    if ws:
                        res.fail(["C10"], "ro:write-attempted", "%d write/truncate calls reached the device, first %s" % (len(ws), ws[0]), rep)
                    if bytes(dev.data) != img:
                        res.fail(["C10"], "ro:image-changed", "device bytes differ after close", rep)
    # opener parameter conversion: total on the documented spellings
    from pyfatfs.PyFatFSOpener import PyFatFSOpener
    conv = PyFatFSOpener._PyFatFSOpener__convert_bool
    for sp, exp in (("true", True), ("True", True), ("1", True), ("t", True), ("y", True), ("TRUE", True), ("Y", True),
                    ("false", False), ("False", False), ("0", False), ("f", False), ("n", False), ("N", False)):
        res.case("opener:" + sp)
        try:
            if conv(sp) is not exp:
                res.fail(["C10"], "ro:opener-bool:" + sp, "%r -> %r" % (sp, conv(sp)), {"spelling": sp})
        except Exception as e:  # noqa
            res.fail(["C10"], "ro:opener-bool-raises:" + sp, exc_class(e), {"spelling": sp})
    res.sample({"geom": geoms[0], "ways": ["device-not-writable", "read_only=True"], "mutators": 23})
    return res
