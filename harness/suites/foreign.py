"""Suite `foreign` (C07, also C13-lite): volumes laid out by the independent
builder — every sector size, 1..128 sectors per cluster, 1..3 FATs, arbitrary
reserved-sector and root-entry counts, cluster counts on both sides of the
4085 / 65525 thresholds, partition offsets, fragmented / reversed / maximal
placements, directory debris — are mounted by the real code and compared with
the tree given to the builder; then written to and re-checked (C04-C06).
"""
from harness.common import Result, rng, exc_class
from harness import specfat, histcheck
from harness.fatdev import Dev, mount
from harness.fsrun import walk_fs, walk_spec, diff_walks

NAMES = ["A.TXT", "readme.md", "a long file name.txt", "another long file name.txt", "ÄÖÜ.txt", "SUBDIR",
         "deep directory name", "x.y.z", ".hidden", "UPPER.CAS", "MiXeD.cAsE", "thirteen_char", "exactly26characters_long__",
         "n" * 60 + ".bin", "ångström.dat",
         # long names that fill their last slot exactly (13 / 26 / 39 UTF-16 units: no terminator, no padding) and
         # end in a unit whose bytes look like padding (U+FFxx: fullwidth forms) or contain 0xFF / 0x00 bytes
         "abcdefghijkl\uff01", "abcdefghijklmnopqrstuvwxy\uff09", "\uff58" * 13, "budget report 2024 \uff08final\uff09.xlsx\uff01"[:39],
         "twelve chars\u00ff", "ends with nul-ish \u0100"]


def rand_tree(r, depth, bpc, budget):
    t = {}
    for nm in r.sample(NAMES, r.randint(2, 7)):
        if budget[0] <= 2:
            break
        if depth < 3 and r.random() < 0.3:
            budget[0] -= 1
            t[nm] = rand_tree(r, depth + 1, bpc, budget)
        else:
            sz = r.choice([0, 1, bpc - 1, bpc, bpc + 1, 3 * bpc + 7, 9 * bpc])
            need = (sz + bpc - 1) // bpc
            if need > budget[0] - 2:
                sz = 1
                need = 1
            budget[0] -= need
            t[nm] = bytes((i * 7 + len(nm)) & 0xFF | 1 for i in range(sz))
    return t


def threshold_geoms():
    """cluster counts just below / at the type thresholds, by construction"""
    out = []
    for target in (4083, 4084, 4085, 4086):
        for spc in (1, 4):
            rootent, rsvd, nfats = 112, 1, 2
            # FAT16-sized FAT keeps the count independent of the type decision
            fatsz = (target + 2) * 2 // 512 + 1
            totsec = rsvd + nfats * fatsz + (rootent * 32 + 511) // 512 + target * spc
            out.append(dict(totsec=totsec, spc=spc, rootent=rootent, rsvd=rsvd, nfats=nfats, fatsz=fatsz))
    for target in (65523, 65524, 65525, 65526):
        rsvd, nfats = 32, 2
        fatsz = (target + 2) * 4 // 512 + 1
        # FAT16 layout below the threshold, FAT32 layout at/above it
        if target < 65525:
            rootent = 512
            out.append(dict(totsec=1 + nfats * fatsz + 32 + target, spc=1, rootent=rootent, rsvd=1, nfats=nfats, fatsz=fatsz))
        else:
            out.append(dict(totsec=rsvd + nfats * fatsz + target, spc=1, rootent=0, rsvd=rsvd, nfats=nfats, fatsz=fatsz))
    return out


def geoms(r, tier):
    out = []
    base = [
        dict(totsec=2880, spc=1, rootent=224),
        dict(totsec=720, spc=2, rootent=112, nfats=2),
        dict(totsec=5000, spc=8, rootent=64, nfats=1, rsvd=4),
        dict(totsec=3000, spc=1, rootent=32, nfats=3, bps=1024, rsvd=2),
        dict(totsec=900, spc=1, rootent=64, nfats=2, bps=2048),
        dict(totsec=700, spc=2, rootent=128, nfats=2, bps=4096, rsvd=3),
        dict(totsec=40000, spc=4, rootent=512, nfats=2),
        dict(totsec=9000, spc=1, rootent=240, nfats=1, rsvd=7),
        dict(totsec=66000, spc=64, rootent=16, nfats=2),
        dict(totsec=300000, spc=128, rootent=512, nfats=2),
        dict(totsec=70000, spc=1, rootent=0, rsvd=32, nfats=2),
        dict(totsec=69000, spc=1, rootent=0, rsvd=40, nfats=1, bkboot=6, fsinfo=1),
    ]
    out += base
    out += threshold_geoms()
    if tier != "quick":
        for _ in range(40):
            bps = r.choice([512, 1024, 2048, 4096])
            spc = r.choice([1, 2, 4, 8, 16, 32, 64, 128])
            nf = r.choice([1, 2, 3])
            rootent = r.choice([16, 32, 64, 112, 224, 512]) * (bps // 512)
            rsvd = r.choice([1, 2, 5, 32])
            clusters = r.choice([20, 300, 3000, 4000, 5000, 20000])
            out.append(dict(bps=bps, spc=spc, nfats=nf, rootent=rootent, rsvd=rsvd,
                            totsec=rsvd + 64 * nf + rootent * 32 // bps + clusters * spc))
    return out


def run(tier):
    res = Result("foreign")
    r = rng("foreign")
    n = 0
    for gi, gd in enumerate(geoms(r, tier)):
        g = specfat.Geom(**gd)
        if not g.valid():
            res.notes.append("skipped invalid geometry %s" % g.describe())
            continue
        variants = [("seq", False, 0), ("frag", True, 1024), ("rev", False, 0), ("max", True, 512)]
        if tier == "quick":
            variants = variants[gi % 2::2]
        for placement, debris, off in variants:
            budget = [min(g.count - 3, 400)]
            tree = rand_tree(r, 0, g.bpc, budget)
            b = specfat.Builder(g, r, placement=placement, debris=debris, fat_garbage=debris, lead05=True, res1_garbage=True)
            try:
                img = b.build(tree, label="VERIFLABEL" if debris else None)
            except MemoryError:
                continue
            data = bytes(0xEE for _ in range(off)) + img + bytes(0x77 for _ in range(off))
            # does the placement use cluster numbers in the range 0x..F0-0x..F6 that only exist on
            # volumes within 6 clusters of a type threshold?
            maxd = {12: 0xFEF, 16: 0xFFEF, 32: 0x0FFFFFEF}[g.type]
            high = any(b.fat[c] != 0 and c > maxd for c in range(2, g.count + 2))
            hi = ":uses-clusters-above-0x%X" % maxd if high else ""
            n += 1
            res.case("g%d:%s:%s:%d" % (gi, placement, debris, g.type))
            res.count("type%d" % g.type)
            res.count("images")
            if n <= 3:
                res.sample({"geom": g.describe(), "placement": placement, "debris": debris, "names": sorted(tree)[:5]})
            rep = {"suite": "foreign", "geom": gd, "placement": placement, "debris": debris, "offset": off,
                   "seed_tag": n, "tree_names": sorted(tree)}
            for lazy in (True, False):
                dev = Dev(data=data)
                dev.vol = (off, len(img))
                try:
                    f = mount(dev, offset=off, lazy_load=lazy)
                except Exception as e:  # noqa
                    res.fail(["C07"], "foreign:mount-raises:%s:type%d" % (exc_class(e), g.type),
                             "mount of a valid %s volume raised %s" % (g.describe(), exc_class(e)), rep)
                    break
                try:
                    if f.fs.fat_type != g.type:
                        res.fail(["C07"], "foreign:fat-type:count=%d:got%d:spec%d" % (g.count, f.fs.fat_type, g.type),
                                 "cluster count %d: pyfatfs says FAT%d, the specification's rule FAT%d" % (g.count, f.fs.fat_type, g.type), rep)
                        break
                    try:
                        live = walk_fs(f)
                    except Exception as e:  # noqa
                        res.fail(["C07"], ("foreign:reserved-range-clusters-rejected" + hi) if high else
                                 "foreign:walk-raises:%s:%s" % (exc_class(e), "debris" if debris else "clean"),
                                 "walking a valid volume raised %s (lazy=%s)" % (exc_class(e), lazy), rep)
                        break
                    d = diff_walks(walk_spec(tree), live, "builder", "pyfatfs")
                    if d:
                        res.fail(["C07"], ("foreign:reserved-range-clusters-rejected" + hi) if high else
                                 "foreign:tree:%s:%s" % (d[0][0], "debris" if debris else "clean"),
                                 "lazy=%s: %s" % (lazy, d[:3]), rep)
                        break
                finally:
                    try:
                        f.close()
                    except Exception as e:  # noqa
                        res.fail(["C07"], "foreign:close-raises:" + exc_class(e), exc_class(e), rep)
                after = bytes(dev.data)
                if after != data:
                    diffs = [i for i in range(min(len(after), len(data))) if after[i] != data[i]]
                    res.fail(["C16", "C07"], "foreign:mount-close-changed-image:type%d:%s" % (g.type, "garbage" if debris else "clean"),
                             "mount+close changed %d bytes (first at %s)" % (len(diffs) + abs(len(after) - len(data)), diffs[:3]), rep)
                if dev.oob:
                    res.fail(["C08", "C07"], "foreign:out-of-volume", str(dev.oob[:2]), rep)
    return res


def replay(rep, signature=None):
    return False, "re-run `./check C07`; the image is rebuilt from the seed (geom=%s placement=%s)" % (rep.get("geom"), rep.get("placement"))
