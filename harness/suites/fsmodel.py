"""Suite `fsmodel` (C01, C03, C04, C09): the filesystem-level Lean model (Model.Fs)
in lock step with the real code.

For every program the same calls go to the real PyFatFS (on an instrumented
device) and, as `fs op …` lines, to the compiled Lean driver.  After every call
the harness compares

  * the result class (value / PyFilesystem2 error class / ENOSPC) with the model's
    *and* with the Lean reference filesystem's (`Model.Fs.specStep`, a set of paths);
  * the real in-memory FAT (every entry) and allocation hint with the model's;
  * every in-memory directory entry — directory it is in (first cluster), position in
    that directory, kind, cluster chain (real follower on the real table), size, number
    of 32-byte slots — with the model's nodes;
  * the device, read by the independent reader (`specfat.Volume`): FAT copy 0 and every
    directory entry reachable from the root, with the model's `dfat` / `disk`.

A disagreement is a *divergence* (the model no longer describes the code).  At the
first divergence of a program the real state is judged by the oracles that do not
depend on the model (remount == live walk, independent checker, reference
filesystem); what they find is reported as a failure with the program as replay.
"""
import json

from harness import common, specfat
from harness.common import Result, rng
from harness.fsrun import World, walk_fs, remount_walk, diff_walks, RefFS, data_for

PROPS = ["C01", "C03", "C04", "C09"]

PLAIN = ["A.TXT", "FILE1.BIN", "README", "DATA", "X.Y", "NUM123.DAT", "DIR1", "SUB", "B", "C.D"]
MIXED = ["readme.md", "Foo.txt", "lower", "Mixed.Case"]
LONG = ["a long file name.txt", "directory with a long name", "thirteen_char", "exactly26characters_long__",
        "x" * 40 + ".bin", "y" * 100, "z" * 200 + ".dat", "w" * 255]


def nslots_of(name, cp="ibm437"):
    """slots of the entry pyfatfs creates for `name` (preserve_case=True): one, plus the long-name slots
    unless the name is an upper-case 8.3 name"""
    if specfat.is_plain_83(name, cp):
        return 1
    units = len(name.encode("utf-16-le")) // 2
    return 1 + (units + 12) // 13


class Keys:
    def __init__(self):
        self.k = {}

    def of(self, name):
        if name not in self.k:
            self.k[name] = len(self.k) + 1
        return self.k[name]

    def path(self, p):
        return [self.of(seg) for seg in p.split("/") if seg]


def natl(xs):
    return ",".join(str(x) for x in xs) if xs else "-"


# ---------------------------------------------------------------------------
# real side
# ---------------------------------------------------------------------------

def real_op(fsys, op):
    """-> 'ok True|False' | 'err <class>'"""
    k = op[0]
    h = None
    try:
        if k == "create":
            return "ok %s" % str(bool(fsys.create(op[1], wipe=bool(op[2])))).lower()
        if k == "makedir":
            fsys.makedir(op[1])
            return "ok true"
        if k == "remove":
            fsys.remove(op[1])
            return "ok true"
        if k == "removedir":
            fsys.removedir(op[1])
            return "ok true"
        if k == "removetree":
            fsys.removetree(op[1])
            return "ok true"
        if k == "writebytes":
            fsys.writebytes(op[1], data_for(op[3], op[2]))
            return "ok true"
        if k == "appendbytes":
            fsys.appendbytes(op[1], data_for(op[3], op[2]))
            return "ok true"
        if k == "fwrite":
            h = fsys.openbin(op[1], "r+b")
            h.seek(op[2])
            h.write(data_for(op[4], op[3]))
            return "ok true"
        if k == "ftrunc":
            h = fsys.openbin(op[1], "r+b")
            h.truncate(op[2])
            return "ok true"
        raise ValueError(k)
    except Exception as e:  # noqa
        return "err " + common.exc_class(e)
    finally:
        if h is not None:
            try:
                h.close()
            except Exception:  # noqa
                pass


def sparse(fat):
    return ",".join("%d:%d" % (i, v) for i, v in enumerate(fat) if i >= 2 and v) or "-"


def real_state(w, keys):
    """the real in-memory state in the model's vocabulary; a state pyfatfs itself cannot walk is a state of its own"""
    try:
        return _real_state(w, keys)
    except Exception as e:  # noqa
        return {"hint": -1, "len": -1, "fat": "unwalkable:" + common.exc_class(e), "root": "-", "dirs": {}}


def _real_state(w, keys):
    pf = w.fs.fs
    out = {"hint": pf.first_free_cluster, "len": len(pf.fat), "fat": sparse(pf.fat)}
    is32 = pf.fat_type == 32
    out["root"] = natl(list(pf.get_cluster_chain(pf.root_dir.get_cluster()))) if is32 else "-"
    dirs = {}

    def walk(d, did, path):
        lst = []
        for e in d._get_entries_raw():
            if e.is_special() or e.is_volume_id():
                continue
            name = repr(e)
            c = e.get_cluster()
            chain = list(pf.get_cluster_chain(c)) if c != 0 else []
            slots = 1 + (len(e.lfn_entry.lfn_entries) if e.lfn_entry is not None else 0)
            p = path + [keys.of(name)]
            lst.append("%s/%d/%d/%d/%s/%d/%d" % (natl(p), did, keys.of(name), 1 if e.is_directory() else 0, natl(chain),
                                                  e.filesize, slots))
            if e.is_directory():
                walk(e, c, p)
        dirs[did] = lst

    walk(pf.root_dir, 0, [])
    out["dirs"] = dirs
    return out


def device_state(w, keys, cp="ibm437"):
    """the device through the independent reader; an image it cannot read is a state of its own"""
    try:
        return _device_state(w, keys, cp)
    except Exception as e:  # noqa  (FatError, struct.error on a damaged image)
        return {"dlen": -1, "dfat": "unreadable:" + common.exc_class(e) + ":" + str(e)[:80].replace(" ", "_"), "dirs": {}}


def _device_state(w, keys, cp="ibm437"):
    v = specfat.Volume(w.dev.snapshot(), w.off)
    nent = len(v.fats[0]) * 8 // v.type
    out = {"dlen": nent, "dfat": ",".join("%d:%d" % (i, v.entry(i)) for i in range(2, nent) if v.entry(i)) or "-"}
    dirs = {}

    def walk(first, is_root, depth):
        lst = []
        did = 0 if is_root else first
        for e in v.parse_dir(first, is_root, cp):
            if e["short"] in (".", ".."):
                continue
            isd = bool(e["attr"] & 0x10)
            lst.append("%d/%d/%d/%d/%d/%d" % (did, keys.of(e["name"]), 1 if isd else 0, e["cluster"], e["size"], e["nslots"]))
            if isd and depth < 30:
                walk(e["cluster"], False, depth + 1)
        dirs[did] = lst

    walk(v.rootclus, True, 0)
    out["dirs"] = dirs
    return out


def fnv(xs):
    h = 14695981039346656037
    for x in xs:
        h = ((h ^ x) * 1099511628211) % (1 << 64)
    return h


def real_contents(w, keys):
    """{path keys: fnv of the file's bytes} through the public API"""
    out = {}
    stack = ["/"]
    try:
        while stack:
            d = stack.pop()
            for n in w.fs.listdir(d):
                p = d.rstrip("/") + "/" + n
                if w.fs.isdir(p):
                    stack.append(p)
                else:
                    out[natl(keys.path(p))] = fnv(w.fs.readbytes(p))
    except Exception as e:  # noqa
        out["unreadable"] = common.exc_class(e)
    return out


def parse_dump(line):
    if not line.startswith("ok "):
        return None
    d = {}
    for part in line[3:].split(" "):
        k, _, val = part.partition("=")
        d[k] = val
    nodes = [] if d["nodes"] == "-" else d["nodes"].split("|")
    disk = [] if d["disk"] == "-" else d["disk"].split("|")
    mdirs = {}
    for n in nodes:
        mdirs.setdefault(int(n.split("/")[1]), []).append(n)
    ddirs = {}
    for e in disk:
        ddirs.setdefault(int(e.split("/")[0]), []).append(e)
    d["mdirs"], d["ddirs"] = mdirs, ddirs
    return d


def compare(model, real, dev):
    """-> list of (what, model, impl)"""
    out = []
    for k in ("hint", "len", "fat", "root"):
        if str(model[k]) != str(real[k]):
            out.append(("memory." + k, str(model[k])[:300], str(real[k])[:300]))
    rd = {k: v for k, v in real["dirs"].items() if v}
    if model["mdirs"] != rd:
        for did in sorted(set(model["mdirs"]) | set(rd)):
            if model["mdirs"].get(did, []) != rd.get(did, []):
                out.append(("memory.dir[%d]" % did, "|".join(model["mdirs"].get(did, []))[:300], "|".join(rd.get(did, []))[:300]))
                break
    if dev is not None:
        if str(model["dlen"]) != str(dev["dlen"]):
            out.append(("device.fatlen", model["dlen"], dev["dlen"]))
        if model["dfat"] != dev["dfat"]:
            out.append(("device.fat", model["dfat"][:300], dev["dfat"][:300]))
        dd = {k: v for k, v in dev["dirs"].items() if v}
        if model["ddirs"] != dd:
            for did in sorted(set(model["ddirs"]) | set(dd)):
                if model["ddirs"].get(did, []) != dd.get(did, []):
                    out.append(("device.dir[%d]" % did, "|".join(model["ddirs"].get(did, []))[:300], "|".join(dd.get(did, []))[:300]))
                    break
    return out


# ---------------------------------------------------------------------------
# one program
# ---------------------------------------------------------------------------

def init_lines(w, keys):
    pf = w.fs.fs
    is32 = pf.fat_type == 32
    count = pf._get_cluster_count()
    bound = min(len(pf.fat), count + 2)
    rootbase = 0
    for e in pf.root_dir._get_entries_raw():
        if e.is_special() or e.is_volume_id():
            rootbase += 1 + (len(e.lfn_entry.lfn_entries) if e.lfn_entry is not None else 0)
    rootcap = 0 if is32 else pf.root_dir_sectors * pf.bpb_header["BPB_BytsPerSec"]
    st = real_state(w, keys)
    lines = ["fs init ty=%d bound=%d bpc=%d fixed=%d rootcap=%d rootbase=%d hint=%d root=%s fat=%s"
             % (pf.fat_type, bound, pf.bytes_per_cluster, 0 if is32 else 1, rootcap, rootbase, pf.first_free_cluster,
                st["root"], natl(pf.fat))]
    # initial nodes, parents before children, each directory's entries in order
    order = []

    def walk(did):
        for n in st["dirs"].get(did, []):
            order.append(n)
            f = n.split("/")
            if f[3] == "1":
                walk(int(f[4].split(",")[0]))
    walk(0)
    for n in order:
        f = n.split("/")
        lines.append("fs node %s %s %s %s %s %s %s" % tuple(f))
    # the data area: the bytes of every cluster a file of the initial tree owns (everything else reads as zeros;
    # bytes behind a file's size never show)
    if pf._get_cluster_count() <= 5000:
        img = w.dev.snapshot()
        for n in order:
            f = n.split("/")
            if f[3] == "0" and f[4] != "-":
                for c in f[4].split(","):
                    o = w.off + pf.get_data_cluster_address(int(c))
                    lines.append("fs data %s %s" % (c, common.hexs(img[o:o + pf.bytes_per_cluster])))
    return lines


def op_lines(op, keys, size_of):
    """the primitive calls of the model that one real call amounts to.  fs.base's helpers:
    writebytes = openbin("wb") [create if missing; truncate to 0] + write + close;
    appendbytes = openbin("ab") [create if missing] + write at the end + close"""
    k = op[0]
    pk = natl(keys.path(op[1]))

    def wdata(pos, tag, n):
        return "fs wdata %s %d %s" % (pk, pos, common.hexs(data_for(tag, n)))
    if k == "writebytes":
        ls = [op_line(["create", op[1], False], keys), op_line(["ftrunc", op[1], 0], keys)]
        if op[2] > 0:
            ls += ["fs mark", op_line(["fwrite", op[1], 0, op[2], 0], keys), wdata(0, op[3], op[2])]
        return ls
    if k == "appendbytes":
        ls = [op_line(["create", op[1], False], keys)]
        if op[2] > 0:
            sz = size_of(op[1])
            ls += ["fs mark", op_line(["fwrite", op[1], sz, op[2], 0], keys), wdata(sz, op[3], op[2])]
        else:
            ls.append(op_line(["fwrite", op[1], 0, 0, 0], keys))
        return ls
    if k == "fwrite" and op[3] > 0:
        return ["fs mark", op_line(op, keys), wdata(op[2], op[4], op[3])]
    if k == "ftrunc":
        sz = size_of(op[1])
        if op[2] > sz:
            return ["fs mark", op_line(op, keys), "fs wdata %s %d %s" % (pk, sz, "00" * (op[2] - sz))]
    return [op_line(op, keys)]


def op_line(op, keys):
    k = op[0]
    p = natl(keys.path(op[1]))
    name = [s for s in op[1].split("/") if s]
    sl = nslots_of(name[-1]) if name else 1
    if k == "create":
        return "fs op create %s %d %d" % (p, sl, 1 if op[2] else 0)
    if k == "makedir":
        return "fs op makedir %s %d" % (p, sl)
    if k in ("remove", "removedir", "removetree"):
        return "fs op %s %s" % (k, p)
    if k == "fwrite":
        return "fs op fwrite %s %d %d" % (p, op[2], op[3])
    if k == "ftrunc":
        return "fs op ftrunc %s %d" % (p, op[2])
    raise ValueError(k)


def footprint_violations(op, keys, pre, post, wlog, geo):
    """clusters the call wrote data to that belong (before the call) to an entry outside its footprint"""
    base, bpc = geo
    P = keys.path(op[1])
    allowed_paths = {natl(P), natl(P[:-1])}
    owner = {}          # cluster -> path of the entry owning it before the call
    for lst in pre["dirs"].values():
        for n in lst:
            f = n.split("/")
            if f[4] != "-":
                for c in f[4].split(","):
                    owner[int(c)] = f[0]
    bad = []
    for pos, n in wlog:
        if pos < base or n == 0:
            continue
        first = 2 + (pos - base) // bpc
        last = 2 + (pos + n - 1 - base) // bpc
        for c in range(first, last + 1):
            o = owner.get(c)
            if o is not None and o not in allowed_paths:
                bad.append((c, o))
    return bad[:3]


def run_program(cfg, ops, res, device_every=1, stop_after=None):
    """-> (divergences [(step, what, model, impl)], stats, world-closed image)"""
    keys = Keys()
    w = World(cfg)
    drv = common.Driver()
    for ln in init_lines(w, keys):
        drv.ask(ln)
    i0 = drv.ask("fs dump")
    count = w.fs.fs._get_cluster_count()
    want_check = count <= 5000          # the checker's "every other cluster is free" clause is quadratic
    c0 = drv.ask("fs check %d" % count) if want_check else None
    checks = []
    contents = []
    reals = [(real_state(w, keys), device_state(w, keys))]
    results = []
    idx = []
    wlogs = []
    pf0 = w.fs.fs
    geo = (w.off + pf0.get_data_cluster_address(2), pf0.bytes_per_cluster)
    try:
        for i, op in enumerate(ops):
            if stop_after is not None and i >= stop_after:
                break
            w.dev.log.clear()
            r = real_op(w.fs, op)
            results.append(r)
            wlogs.append([(e[1], e[2]) for e in w.dev.log if e[0] == "W"])
            def size_of(path_, st=reals[-1][0]):
                want = natl(keys.path(path_))
                for lst in st["dirs"].values():
                    for nd in lst:
                        f_ = nd.split("/")
                        if f_[0] == want:
                            return int(f_[5])
                return 0
            a = []
            for ln in op_lines(op, keys, size_of):
                q = drv.ask(ln)
                if ln.startswith("fs op"):
                    a.append(q)
            b = drv.ask("fs dump")
            idx.append((a, b))
            if want_check:
                contents.append((i, drv.ask("fs contents"), real_contents(w, keys)))
            if want_check:
                checks.append((i, drv.ask("fs check %d" % count)))
            dev = device_state(w, keys) if (i % device_every == 0 or r.startswith("err")) else None
            reals.append((real_state(w, keys), dev))
    finally:
        w.abandon()
    out = drv.run(timeout=900)
    divs = []
    d0 = parse_dump(out[i0])
    if d0 is None:
        divs.append((-1, "init", out[i0], "-"))
    else:
        for what, m, im in compare(d0, reals[0][0], reals[0][1]):
            divs.append((-1, "init:" + what, m, im))
    # the hypotheses of the theorems (Inv, Shape, Sync) on the states actually visited
    if c0 is not None and out[c0] != "ok":
        divs.append((-1, "hypotheses-of-the-theorems(initial state)", out[c0], "ok"))
    for i, ci in checks:
        if out[ci] != "ok":
            divs.append((i, "hypotheses-of-the-theorems", out[ci], "ok"))
            break
    # contents of every file: Model.Fs.contentOf on the model's data area vs readbytes through the real API
    ncont = 0
    for i, ci, rc in contents:
        ans = out[ci]
        mc = {}
        if ans.startswith("ok ") and ans != "ok -":
            for ent in ans[3:].split("|"):
                pth, _, hv = ent.rpartition(":")
                mc[pth] = int(hv)
        ncont += len(mc)
        if mc != rc:
            bad = sorted(set(mc) ^ set(rc)) or [k_ for k_ in mc if mc[k_] != rc.get(k_)]
            divs.append((i, "contents", str(bad[:3]), "model %d files, real %d files" % (len(mc), len(rc))))
            break
    divs.sort(key=lambda d: d[0])
    stats = {"ops": len(results), "err": {}, "inv_checked": (1 if c0 is not None else 0) + len(checks), "footprint": [], "contents": ncont}
    # C12's premise per primitive: data-area writes of a call go only to clusters of its target, of the target's
    # parent directory (the root's chain on FAT32) and to clusters that were free before the call
    for i, op in enumerate(ops[:len(results)]):
        if op[0] == "removetree":
            continue        # a compound call: its footprint is the subtree
        bad = footprint_violations(op, keys, reals[i][0], reals[i + 1][0], wlogs[i], geo)
        stats["data_writes"] = stats.get("data_writes", 0) + sum(1 for p_, n_ in wlogs[i] if p_ >= geo[0])
        if bad:
            stats["footprint"].append((i, bad))
    for i, (a, b) in enumerate(idx):
        # a compound call answers with the first refusal of its primitive calls ("created: no" is not a refusal)
        answers = [out[x] for x in a]
        ans = next((x for x in answers if x.startswith("err")), answers[-1])
        if len(answers) > 1 and not ans.startswith("err"):
            ans = "ok true spec=ok true"
        model_res, _, spec_res = ans.partition(" spec=")
        real = results[i]
        if real.startswith("err"):
            stats["err"][real[4:]] = stats["err"].get(real[4:], 0) + 1
        if model_res != real:
            divs.append((i, "result", model_res, real))
        if spec_res and spec_res != real and real != "err PyFAT:28":
            divs.append((i, "reference-result", spec_res, real))
        d = parse_dump(out[b])
        if d is None:
            divs.append((i, "dump", out[b][:200], "-"))
            continue
        for what, m, im in compare(d, reals[i + 1][0], reals[i + 1][1]):
            divs.append((i, what, m, im))
        if divs and divs[0][0] < i - 1:
            break
    return divs, stats


def oracle_at(cfg, ops, upto):
    """model-independent judgement of the real code after ops[:upto+1]: -> list of (props, kind, detail)"""
    from harness.fsrun import run_op
    found = []
    w = World(cfg)
    ref = RefFS()
    try:
        for i, op in enumerate(ops[:upto + 1]):
            r = real_op(w.fs, op)
            if op[0] == "remove" and not op[1].strip("/"):
                continue        # remove("/"): FileExpected (pyfatfs, OSFS) vs MemoryFS' ResourceNotFound — a quirk of the reference
            # the same call on the reference filesystem
            if op[0] == "fwrite":
                pos = op[2]
                try:
                    pos = min(pos, ref.getsize(op[1]))   # C02's domain: positions inside the file (beyond: known finding D17c)
                except Exception:  # noqa
                    pass
                seq = [["open", "h", op[1], "r+"], ["seek", "h", pos, 0], ["write", "h", op[4], op[3]], ["close", "h"]]
            elif op[0] == "ftrunc":
                seq = [["open", "h", op[1], "r+"], ["truncate", "h", op[2]], ["close", "h"]]
            elif op[0] in ("writebytes", "appendbytes"):
                seq = [[op[0], op[1], op[3], op[2]]]
            else:
                seq = [op]
            hs = {}
            rr = None
            for o in seq:
                rr = run_op(ref, o, hs)
                if rr[0] == "err":
                    break
            for hh in hs.values():
                hh.close()
            want = ("ok " + str(rr[1]).lower() if isinstance(rr[1], bool) else "ok true") if rr[0] == "ok" else "err " + rr[1]
            if r != want and r != "err PyFAT:28":
                found.append((["C01"], "result-differs", "step %d %s: real %s, reference %s" % (i, op[0], r, want)))
                break
        try:
            live = walk_fs(w.fs)
            refw = walk_fs(ref)
            d = diff_walks(refw, live, "ref", "live")
            if d and not found:
                found.append((["C01", "C09"], "tree-differs-from-reference", str(d[:3])))
            for lazy in (True, False):
                rm = remount_walk(w, lazy)
                d = diff_walks(live, rm, "live", "remount")
                if d:
                    found.append((["C03"], "remount-differs", str(d[:3])))
                    break
        except Exception as e:  # noqa
            found.append((["C01", "C03"], "walk-raises", common.exc_class(e) + ": " + str(e)[:120]))
        # the allocator's hint must not have moved past free clusters: everything that is free can be had
        try:
            pf = w.fs.fs
            bound = min(len(pf.fat), pf._get_cluster_count() + 2)
            free = [i for i in range(2, bound) if pf.fat[i] == 0]
            skipped = [i for i in free if i < pf.first_free_cluster]
            if skipped and len(free) > 3:
                r1 = real_op(w.fs, ["create", "/PROBE.BIN", False])
                r2 = real_op(w.fs, ["fwrite", "/PROBE.BIN", 0, (len(free) - 3) * pf.bytes_per_cluster, 99])
                if r1 == "err PyFAT:28" or r2 == "err PyFAT:28":
                    found.append((["C01"], "enospc-spurious", "%d clusters are free (e.g. %s) but the allocation hint is %d: writing %d clusters is "
                                  "refused with ENOSPC" % (len(free), skipped[:4], pf.first_free_cluster, len(free) - 3)))
        except Exception as e:  # noqa
            found.append((["C01"], "probe-raises", common.exc_class(e)))
        try:
            problems = specfat.fsck(w.dev.snapshot(), w.off)
            if problems:
                found.append((["C04"], "fsck", str(problems[:3])[:300]))
        except specfat.FatError as e:
            found.append((["C04"], "image-unreadable", str(e)[:200]))
    finally:
        w.abandon()
    return found


# ---------------------------------------------------------------------------
# generators
# ---------------------------------------------------------------------------

def gen_program(r, nops, bpc, pool, deep=False):
    dirs = ["/"]
    files = {}           # path -> size (tracked optimistically; the real result decides)
    ops = []
    tagc = [0]

    def fresh(parent=None):
        parent = parent if parent is not None else r.choice(dirs)
        return parent.rstrip("/") + "/" + r.choice(pool)

    sizes = [1, 7, bpc - 1, bpc, bpc + 1, 2 * bpc, 3 * bpc + 5, 5 * bpc]
    for _ in range(nops):
        c = r.random()
        if c < 0.20:
            p = fresh(dirs[-1] if deep and r.random() < 0.6 else None)
            ops.append(["makedir", p])
            if p not in files and p not in dirs:
                dirs.append(p)
        elif c < 0.40:
            p = fresh() if r.random() < 0.75 or not files else r.choice(sorted(files))
            ops.append(["create", p, r.random() < 0.3])
            if p not in dirs:
                files[p] = 0 if (p not in files or ops[-1][2]) else files[p]
        elif c < 0.50:
            p = fresh() if r.random() < 0.5 or not files else r.choice(sorted(files))
            n = r.choice(sizes + [0])
            tagc[0] += 1
            if r.random() < 0.6:
                ops.append(["writebytes", p, n, tagc[0]])
                if p not in dirs:
                    files[p] = n
            else:
                ops.append(["appendbytes", p, n, tagc[0]])
                if p not in dirs:
                    files[p] = files.get(p, 0) + n
        elif c < 0.62 and files:
            p = r.choice(sorted(files))
            size = files[p]
            pos = r.choice([0, size, size // 2, max(0, size - 1), min(size, bpc), min(size, (size // bpc) * bpc), size + r.choice([1, bpc])])
            n = r.choice(sizes + [0])
            tagc[0] += 1
            ops.append(["fwrite", p, pos, n, tagc[0]])
            files[p] = max(size, min(pos, size) + n)
        elif c < 0.74 and files:
            p = r.choice(sorted(files))
            size = files[p]
            m = r.choice([0, size, size // 2, size + 1, size + bpc, max(0, size - bpc), (size // bpc) * bpc, bpc, 1])
            ops.append(["ftrunc", p, m])
            files[p] = m
        elif c < 0.86:
            p = r.choice(sorted(files)) if files and r.random() < 0.85 else fresh()
            ops.append(["remove", p])
            files.pop(p, None)
        elif c < 0.93:
            ds = [d for d in dirs if d != "/"]
            p = r.choice(ds) if ds and r.random() < 0.85 else fresh()
            ops.append(["removedir", p])
            if p in dirs and not any(x.startswith(p + "/") for x in list(files) + dirs):
                dirs.remove(p)
        elif c < 0.96:
            p = r.choice(dirs) if r.random() < 0.8 else (r.choice(sorted(files)) if files and r.random() < 0.5 else fresh())
            ops.append(["removetree", p])
            if p in dirs:
                pre = p.rstrip("/") + "/"
                for x in [x for x in files if x.startswith(pre)]:
                    files.pop(x)
                dirs[:] = [d for d in dirs if d == "/" or not (d == p or d.startswith(pre))]
        else:
            # wrong-kind / missing-parent calls
            p = (r.choice(sorted(files)) + "/" + r.choice(pool)) if files else fresh() + "/x"
            ops.append(r.choice([["create", p, False], ["makedir", p], ["fwrite", p, 0, 3, 0], ["remove", "/"], ["removedir", "/"],
                                 ["ftrunc", r.choice(dirs), 0]]))
    return ops


def grow_program(kind, n, bpc):
    """push one directory over several clusters, thin it out, refill it"""
    ops = [["makedir", "/grow"]]
    names = ["/grow/entry number %03d with a long name.txt" % i for i in range(n)]
    for nm in names:
        ops.append(["makedir", nm] if kind == "makedir" else ["create", nm, False])
    for nm in names[::2]:
        ops.append(["removedir", nm] if kind == "makedir" else ["remove", nm])
    for i, nm in enumerate(names[:n // 2]):
        ops.append(["create", nm + "x", False])
        ops.append(["fwrite", nm + "x", 0, bpc + i, i])
    return ops


def fill_program(r, bpc, nclus):
    """run the volume out of clusters in the middle of several kinds of call, then make room"""
    ops = [["makedir", "/D"], ["create", "/D/BIG", False], ["create", "/small", False], ["fwrite", "/small", 0, 10, 1]]
    ops.append(["fwrite", "/D/BIG", 0, max(1, (nclus - r.randint(2, 6)) * bpc), 2])
    for i in range(8):
        ops.append(["makedir", "/D/sub directory number %d" % i])
        ops.append(["create", "/D/a file with a long name %d.txt" % i, False])
        ops.append(["fwrite", "/small", 10 + i * bpc, bpc, 3 + i])
    ops.append(["ftrunc", "/D/BIG", 3 * bpc])
    ops.append(["makedir", "/D/after"])
    ops.append(["fwrite", "/small", 0, 4 * bpc, 20])
    ops.append(["remove", "/D/BIG"])
    ops.append(["ftrunc", "/small", 9 * bpc + 1])
    return ops


def frag_program(r, bpc):
    """chains that run backwards into freed space, then are freed themselves; finally everything is claimed again"""
    ops = [["makedir", "/d"]]
    names = ["/A.BIN", "/d/B.BIN", "/C.BIN", "/d/a long name for d.bin", "/E.BIN"]
    for i, nm in enumerate(names):
        ops.append(["create", nm, False])
        ops.append(["fwrite", nm, 0, r.choice([1, 2, 3]) * bpc + r.choice([0, 1]), i])
    victims = r.sample(names, 3)
    ops.append(["remove", victims[0]])
    keep = [n for n in names if n not in victims[:1]]
    g = r.choice(keep)
    ops.append(["fwrite", g, 0, 9 * bpc, 10])            # grows into the hole and beyond
    ops.append(["ftrunc", g, r.choice([0, 1, bpc, 2 * bpc + 1])])
    ops.append(["remove", victims[1]] if victims[1] in keep else ["makedir", "/d/sub"])
    ops.append(["fwrite", g, 0, 12 * bpc, 11])
    ops.append(["remove", g])
    ops.append(["create", "/Z.BIN", False])
    ops.append(["fwrite", "/Z.BIN", 0, 20 * bpc, 12])
    ops.append(["create", g, True])
    return ops


def rootfull_program(rootent):
    ops = []
    for i in range(rootent // 2 + 3):
        ops.append(["create", "/root entry with a long name %03d" % i, False])      # 3-4 slots each
    ops.append(["makedir", "/LAST"])
    ops.append(["remove", "/root entry with a long name 001"])
    ops.append(["makedir", "/LAST"])
    ops.append(["create", "/LAST/F", False])
    return ops


def configs(tier):
    out = [
        {"fmt": "spec", "geom": dict(totsec=120, spc=1, rootent=32, nfats=2), "lazy": False},
        {"fmt": "spec", "geom": dict(totsec=400, spc=2, rootent=64, nfats=2), "lazy": True},
        {"fmt": "spec", "geom": dict(totsec=300, spc=1, rootent=32, nfats=1, bps=1024), "lazy": False, "offset": 2048, "guard": 1024},
        {"fmt": "pyfatfs", "type": 12, "size": 1 << 20, "lazy": False},
        {"fmt": "spec", "geom": dict(totsec=9000, spc=2, rootent=128, nfats=2), "lazy": True},
        {"fmt": "pyfatfs", "type": 16, "size": 5 << 20, "lazy": True},
        {"fmt": "spec", "geom": dict(totsec=70000, spc=1, rootent=0, rsvd=32, nfats=2), "lazy": False},
    ]
    if tier != "quick":
        out += [
            {"fmt": "pyfatfs", "type": 32, "size": 34 << 20, "lazy": True},
            {"fmt": "spec", "geom": dict(totsec=66000 * 2 + 2000, spc=2, rootent=0, rsvd=32, nfats=1), "lazy": True},
            {"fmt": "spec", "geom": dict(totsec=200, spc=1, rootent=64, nfats=3, bps=2048), "lazy": False},
            {"fmt": "spec", "geom": dict(totsec=800, spc=4, rootent=48, nfats=2), "lazy": True,
             "tree": {"OLD": {"A.TXT": list(b"hello"), "sub dir": {"inner file.bin": [7] * 3000}}, "readme.md": [1] * 600}},
        ]
    return out


def geometry_of(cfg):
    w = World(cfg)
    try:
        pf = w.fs.fs
        return pf.bytes_per_cluster, pf._get_cluster_count(), pf.fat_type, (pf.bpb_header["BPB_RootEntCnt"])
    finally:
        w.abandon()


def judge(res, cfg, ops, divs, seen):
    """divergences of one program -> failure (if an oracle that does not use the model agrees) or divergence"""
    step = max(0, divs[0][0])
    found = oracle_at(cfg, ops, step)
    if not found and step + 1 < len(ops):
        found = oracle_at(cfg, ops, len(ops) - 1)
    what = divs[0][1]
    if found:
        for props, kind, detail in found:
            sig = "fsmodel:%s|%s" % (kind, ops[step][0])
            if sig in seen:
                continue
            seen.add(sig)
            res.fail(props, sig, "%s after %d calls (model/implementation disagree on %s): %s" % (kind, step + 1, what, detail),
                     {"cfg": cfg, "ops": ops[:step + 1] if kind != "result-differs" else ops, "step": step})
    for st, wh, m, im in divs[:2]:
        res.diverge(wh, "cfg=%s step %d %s" % (json.dumps(cfg)[:120], st, json.dumps(ops[st] if st >= 0 else "init")[:160]), m, im, PROPS)


def run(tier):
    res = Result("fsmodel")
    r = rng("fsmodel")
    cfgs = configs(tier)
    seen = set()
    nprog = 42 if tier == "quick" else 600
    geo = {}
    for ci, cfg in enumerate(cfgs):
        geo[ci] = geometry_of(dict(cfg, seed=0))

    def one(ci, ops, tag, device_every=1):
        cfg = dict(cfgs[ci], seed=ci)
        divs, stats = run_program(cfg, ops, res, device_every=device_every)
        res.case("%s:cfg%d:%s" % (tag, ci, ",".join(sorted({o[0] for o in ops}))))
        res.count("programs")
        res.count("ops", stats["ops"])
        res.count("states-checked-against-Inv/Shape/Sync", stats.get("inv_checked", 0))
        res.count("file contents compared (Model.Fs.contentOf vs readbytes)", stats.get("contents", 0))
        res.count("cfg%d(fat%d,bpc%d)" % (ci, geo[ci][2], geo[ci][0]))
        for k, v in stats["err"].items():
            res.count("err:" + k, v)
        for o in ops[:stats["ops"]]:
            res.count("op:" + o[0])
        res.count("data-area writes checked against the footprint", stats.get("data_writes", 0))
        for step, bad in stats.get("footprint", [])[:1]:
            sig = "fsmodel:write-outside-footprint|%s" % ops[step][0]
            if sig not in seen:
                seen.add(sig)
                res.fail(["C12", "C02"], sig, "call %d (%s) wrote data to clusters owned by entries outside its footprint: %s"
                         % (step, ops[step][0], bad), {"cfg": cfg, "ops": ops[:step + 1], "step": step})
        if divs:
            judge(res, cfg, ops, divs, seen)
        return divs

    # structured: directory growth, volume full, fixed root full
    for ci in range(len(cfgs)):
        bpc, count, ty, rootent = geo[ci]
        big = count > 5000
        for kind in ("create", "makedir"):
            one(ci, grow_program(kind, 12 if tier == "quick" else 40, bpc), "grow-" + kind, device_every=4 if big else 1)
        for _ in range(2 if tier == "quick" else 12):
            one(ci, frag_program(r, bpc), "frag", device_every=4 if big else 1)
        if count <= 1200:
            one(ci, fill_program(r, bpc, count), "fill")
        if ty != 32 and rootent <= 64:
            one(ci, rootfull_program(rootent), "rootfull")
    # random
    for i in range(nprog):
        ci = i % len(cfgs)
        bpc, count, ty, rootent = geo[ci]
        pool = r.sample(PLAIN, 5) + r.sample(MIXED, 2) + r.sample(LONG, r.randint(2, len(LONG)))
        nops = r.choice([8, 20, 40]) if count <= 5000 else r.choice([8, 16])
        ops = gen_program(r, nops, bpc, pool, deep=(i % 5 == 0))
        divs = one(ci, ops, "rand", device_every=1 if count <= 5000 else 4)
        if i < 2:
            res.sample({"cfg": cfgs[ci], "ops": ops[:6]})
    res.notes.append("every call: result vs Model.Fs.step and vs Model.Fs.specStep; whole in-memory FAT + hint + every entry "
                     "(directory, position, kind, chain, size, slots) vs the model; device FAT copy 0 + every directory entry "
                     "(independent reader) vs the model's device state")
    return res


def replay(rep, signature=None):
    cfg, ops = rep["cfg"], rep["ops"]
    found = oracle_at(cfg, ops, len(ops) - 1)
    divs, _ = run_program(cfg, ops, Result("fsmodel"))
    txt = "oracles: %s\nmodel/implementation divergences: %s" % (found, divs[:3])
    return bool(found), txt
