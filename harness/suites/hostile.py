"""Suite `hostile` (C13): structure-aware mutations of valid images — cyclic,
cross-linked, out-of-range and truncated cluster chains, directory self/parent
loops, damaged boot-sector fields, broken long-name sequences, truncated devices,
random flips — mounted with default (lazy) loading and exercised with a bounded
series of listings, lookups and reads under a deterministic work counter
(profile call events + device reads) and a wall-clock fence.  Every outcome must
be success or a pyfatfs / PyFilesystem2 / OSError / ValueError error.
"""
import signal
import struct
import sys

from harness.common import Result, rng, exc_class
from harness import specfat
from harness.fatdev import Dev, mount
from harness.fsrun import is_sanctioned

INTERNAL = ("IndexError", "KeyError", "error", "StopIteration", "RuntimeError", "RecursionError", "AssertionError",
            "UnicodeDecodeError", "UnicodeEncodeError", "UnicodeError", "TypeError", "AttributeError", "ZeroDivisionError",
            "OverflowError", "MemoryError")


class WorkLimit(BaseException):
    pass


class Fence:
    """deterministic work counter (function-call events) + wall-clock alarm"""

    def __init__(self, limit, seconds=20):
        self.limit, self.seconds, self.n = limit, seconds, 0

    def _prof(self, frame, event, arg):
        if event == "call" or event == "c_call":
            self.n += 1
            if self.n > self.limit:
                sys.setprofile(None)
                raise WorkLimit()

    def _alarm(self, *a):
        sys.setprofile(None)
        raise WorkLimit()

    def __enter__(self):
        self.n = 0
        signal.signal(signal.SIGALRM, self._alarm)
        signal.alarm(self.seconds)
        sys.setprofile(self._prof)
        return self

    def __exit__(self, *a):
        sys.setprofile(None)
        signal.alarm(0)
        return False


TREE = {"FILE.TXT": b"A" * 1500, "long file name one.txt": b"B" * 700, "DIR": {"INNER.BIN": b"C" * 3000, "sub directory": {"X": b"x"}},
        "EMPTY": b"", "second long name.dat": b"D" * 5000}


def base_images(r):
    out = []
    for gd in (dict(totsec=400, spc=1, rootent=64, nfats=2), dict(totsec=9000, spc=2, rootent=128, nfats=2),
               dict(totsec=70000, spc=1, rootent=0, rsvd=32, nfats=2)):
        g = specfat.Geom(**gd)
        img = specfat.Builder(g, r, placement="seq").build(TREE)
        out.append((gd, g, bytearray(img)))
    return out


def set_fat(img, g, k, val, copies=True):
    for i in range(g.nfats if copies else 1):
        o = (g.rsvd + i * g.fatsz) * g.bps
        if g.type == 12:
            a = o + k + k // 2
            w = img[a] | img[a + 1] << 8
            w = (w & 0x000F) | ((val & 0xFFF) << 4) if k & 1 else (w & 0xF000) | (val & 0xFFF)
            img[a], img[a + 1] = w & 0xFF, w >> 8
        elif g.type == 16:
            struct.pack_into("<H", img, o + 2 * k, val & 0xFFFF)
        else:
            struct.pack_into("<L", img, o + 4 * k, val & 0xFFFFFFFF)


def find_entry(img, g, v, path):
    """(absolute offset of the short slot, entry dict) of a path, by the independent reader"""
    first, is_root = (v.rootclus, True)
    ent = None
    for seg in [s for s in path.split("/") if s]:
        ents = v.parse_dir(first, is_root, "ibm437")
        ent = next(e for e in ents if e["name"] == seg)
        slot_first, slot_root = first, is_root
        first, is_root = ent["cluster"], False
    if slot_root and v.type != 32:
        base = (g.rsvd + g.nfats * g.fatsz) * g.bps + ent["slot"] * 32
    else:
        cs = v.chain(slot_first)
        per = g.bpc // 32
        base = g.clus_off(cs[ent["slot"] // per]) + (ent["slot"] % per) * 32
    return base, ent


def mutants(r, gd, g, img0, tier):
    """yield (kind, mutated image)"""
    v = specfat.Volume(bytes(img0), 0)
    fo, fe = find_entry(img0, g, v, "/second long name.dat")
    do, de = find_entry(img0, g, v, "/DIR")
    so, se = find_entry(img0, g, v, "/DIR/sub directory")
    fchain = v.chain(fe["cluster"])
    dchain = v.chain(de["cluster"])
    top = {12: 0xFFF, 16: 0xFFFF, 32: 0x0FFFFFFF}[g.type]
    nfat = {12: g.fatsz * g.bps * 2 // 3, 16: g.fatsz * g.bps // 2, 32: g.fatsz * g.bps // 4}[g.type]

    def m(kind, fn):
        img = bytearray(img0)
        fn(img)
        return kind, img
    # --- chains
    yield m("chain-cycle-file", lambda i: set_fat(i, g, fchain[-1], fchain[0]))
    yield m("chain-self-loop-file", lambda i: set_fat(i, g, fchain[1], fchain[1]))
    yield m("chain-cycle-dir", lambda i: set_fat(i, g, dchain[-1], dchain[0]))
    yield m("chain-crosslink", lambda i: set_fat(i, g, fchain[0], dchain[0]))
    yield m("chain-into-free", lambda i: set_fat(i, g, fchain[1], 0))
    yield m("chain-bad-cluster", lambda i: set_fat(i, g, fchain[1], top - 8))
    yield m("chain-next-eq-table-length", lambda i: set_fat(i, g, fchain[1], min(nfat, top - 0x10)))
    yield m("chain-next-beyond-table", lambda i: set_fat(i, g, fchain[1], min(nfat + 5, top - 0x10)))
    yield m("chain-next-beyond-data-area", lambda i: set_fat(i, g, fchain[1], min(g.count + 2, top - 0x10)))
    yield m("chain-next-one", lambda i: set_fat(i, g, fchain[1], 1))
    yield m("chain-too-short-for-size", lambda i: set_fat(i, g, fchain[0], top))
    yield m("dir-chain-into-free", lambda i: set_fat(i, g, dchain[0], 0))
    if g.count < 1000:
        # a directory whose only cluster is full of entries (no end mark) and whose chain is a cycle
        def cyc(i):
            i[g.clus_off(dchain[0]):g.clus_off(dchain[0]) + g.bpc] = bytes(i[do:do + 32]) * (g.bpc // 32)
            set_fat(i, g, dchain[-1], dchain[0])
        yield m("dir-cycle-no-end-mark", cyc)
    # --- first clusters
    yield m("file-first-cluster-0", lambda i: (struct.pack_into("<H", i, fo + 26, 0), struct.pack_into("<H", i, fo + 20, 0)))
    yield m("file-first-cluster-1", lambda i: (struct.pack_into("<H", i, fo + 26, 1), struct.pack_into("<H", i, fo + 20, 0)))
    yield m("file-first-cluster-huge", lambda i: (struct.pack_into("<H", i, fo + 26, 0xFFF0), struct.pack_into("<H", i, fo + 20, 0x0FFF)))
    yield m("file-size-huge", lambda i: struct.pack_into("<L", i, fo + 28, 0xFFFFFFFF))
    yield m("dir-first-cluster-0", lambda i: (struct.pack_into("<H", i, do + 26, 0), struct.pack_into("<H", i, do + 20, 0)))
    yield m("dir-first-cluster-beyond", lambda i: (struct.pack_into("<H", i, do + 26, (g.count + 10) & 0xFFFF),
                                                   struct.pack_into("<H", i, do + 20, (g.count + 10) >> 16)))
    # --- directory loops
    yield m("dir-self-loop", lambda i: (struct.pack_into("<H", i, so + 26, de["cluster"] & 0xFFFF),
                                        struct.pack_into("<H", i, so + 20, de["cluster"] >> 16)))
    if g.type == 32:
        yield m("dir-points-to-root", lambda i: (struct.pack_into("<H", i, do + 26, v.rootclus & 0xFFFF),
                                                 struct.pack_into("<H", i, do + 20, v.rootclus >> 16)))
    # --- long-name damage (the set in front of "second long name.dat")
    nsl = 2
    yield m("lfn-duplicate-ordinal", lambda i: i.__setitem__(fo - 32, i[fo - 64]))
    yield m("lfn-ordinal-zero", lambda i: i.__setitem__(fo - 32, 0x40))
    yield m("lfn-ordinal-large", lambda i: i.__setitem__(fo - 64, 0x7F))
    yield m("lfn-cluster-nonzero", lambda i: struct.pack_into("<H", i, fo - 32 + 26, 7))
    yield m("lfn-lone-surrogate", lambda i: struct.pack_into("<H", i, fo - 32 + 1, 0xD800))
    yield m("lfn-low-surrogate-first", lambda i: struct.pack_into("<H", i, fo - 32 + 1, 0xDC00))
    yield m("lfn-bad-checksum", lambda i: i.__setitem__(fo - 32 + 13, (i[fo - 32 + 13] + 1) & 0xFF))
    yield m("lfn-orphan-then-set", lambda i: i.__setitem__(slice(fo - 32 * nsl, fo - 32 * nsl), b""))   # placeholder, replaced below
    yield m("lfn-without-short", lambda i: i.__setitem__(slice(fo, fo + 32), bytes(i[fo - 32:fo])))
    yield m("short-name-lowercase-bytes", lambda i: i.__setitem__(slice(fo, fo + 3), b"abc"))
    yield m("short-name-high-bytes", lambda i: i.__setitem__(slice(fo, fo + 11), bytes([0x80, 0xFF, 0xE5, 0x05, 0x7F, 0x01, 0x1F, 0x20, 0x2E, 0x2E, 0x00])))
    yield m("attr-volume-and-dir", lambda i: i.__setitem__(do + 11, 0x18))
    yield m("attr-all-bits", lambda i: i.__setitem__(do + 11, 0xFF))
    yield m("dot-entries-damaged", lambda i: i.__setitem__(slice(g.clus_off(dchain[0]), g.clus_off(dchain[0]) + 64), bytes(r.getrandbits(8) | 1 for _ in range(64))))
    yield m("dir-cluster-no-end-mark", lambda i: i.__setitem__(slice(g.clus_off(dchain[0]), g.clus_off(dchain[0]) + g.bpc),
                                                                 (bytes(i[do:do + 32]) * (g.bpc // 32))))
    # --- boot sector
    def bs(off, fmt, val):
        return lambda i: struct.pack_into(fmt, i, off, val)
    yield m("bpb-bytes-per-sector-0", bs(11, "<H", 0))
    yield m("bpb-bytes-per-sector-513", bs(11, "<H", 513))
    yield m("bpb-sectors-per-cluster-0", bs(13, "<B", 0))
    yield m("bpb-sectors-per-cluster-3", bs(13, "<B", 3))
    yield m("bpb-reserved-0", bs(14, "<H", 0))
    yield m("bpb-reserved-huge", bs(14, "<H", 0xFFFF))
    yield m("bpb-numfats-0", bs(16, "<B", 0))
    yield m("bpb-numfats-255", bs(16, "<B", 255))
    yield m("bpb-rootent-odd", bs(17, "<H", 17))
    yield m("bpb-rootent-huge", bs(17, "<H", 0xFFF0))
    yield m("bpb-totsec-0", lambda i: (struct.pack_into("<H", i, 19, 0), struct.pack_into("<L", i, 32, 0)))
    yield m("bpb-totsec-tiny", lambda i: (struct.pack_into("<H", i, 19, 3), struct.pack_into("<L", i, 32, 0)))
    yield m("bpb-totsec-huge", lambda i: (struct.pack_into("<H", i, 19, 0), struct.pack_into("<L", i, 32, 0xFFFFFFFF)))
    # two damages that are each handled: a cycle, and a size field every derived bound is computed from
    huge = lambda i: (struct.pack_into("<H", i, 19, 0), struct.pack_into("<L", i, 32, 0xFFFFFFFF))  # noqa: E731
    yield m("chain-cycle-file+bpb-totsec-huge", lambda i: (set_fat(i, g, fchain[-1], fchain[0]), huge(i)))
    yield m("chain-self-loop-file+bpb-totsec-huge", lambda i: (set_fat(i, g, fchain[1], fchain[1]), huge(i)))
    yield m("chain-cycle-dir+bpb-totsec-huge", lambda i: (set_fat(i, g, dchain[-1], dchain[0]), huge(i)))
    bigsize = lambda i: struct.pack_into("<L", i, fo + 28, 0xFFFFFFFF)  # noqa: E731
    yield m("chain-cycle-file+size-huge", lambda i: (set_fat(i, g, fchain[-1], fchain[0]), bigsize(i)))
    yield m("chain-cycle-file+size-huge+bpb-totsec-huge", lambda i: (set_fat(i, g, fchain[-1], fchain[0]), bigsize(i), huge(i)))
    yield m("chain-cycle-file+bpb-fatsz-huge", lambda i: (set_fat(i, g, fchain[-1], fchain[0]),
                                                          (bs(22, "<H", 0xFFFF) if g.type != 32 else bs(36, "<L", 0x00FFFFFF))(i)))
    yield m("bpb-media-0", bs(21, "<B", 0))
    yield m("bpb-fatsz16-0", bs(22, "<H", 0))
    yield m("bpb-fatsz-huge", (bs(22, "<H", 0xFFFF) if g.type != 32 else bs(36, "<L", 0x00FFFFFF)))
    yield m("bpb-fatsz32-0", (bs(36, "<L", 0) if g.type == 32 else bs(22, "<H", 1)))
    yield m("bpb-jump-invalid", lambda i: i.__setitem__(0, 0x00))
    yield m("bpb-signature-missing", lambda i: i.__setitem__(slice(510, 512), b"\\0\\0"))
    if g.type == 32:
        yield m("bpb-rootclus-0", bs(44, "<L", 0))
        yield m("bpb-rootclus-1", bs(44, "<L", 1))
        yield m("bpb-rootclus-beyond", bs(44, "<L", g.count + 100))
        yield m("bpb-rootclus-huge", bs(44, "<L", 0x0FFFFFF0))
    yield m("fat-entry0-entry1-zero", lambda i: (set_fat(i, g, 0, 0), set_fat(i, g, 1, 0)))
    yield m("fat-all-ones", lambda i: i.__setitem__(slice(g.rsvd * g.bps, (g.rsvd + g.fatsz) * g.bps), b"\\xff" * (g.fatsz * g.bps)))
    yield m("fat-all-zero", lambda i: i.__setitem__(slice(g.rsvd * g.bps, (g.rsvd + g.fatsz) * g.bps), b"\\0" * (g.fatsz * g.bps)))
    # --- truncated devices
    for cut, nm in ((0, "empty"), (100, "100"), (511, "511"), (512, "512"), (g.rsvd * g.bps + 10, "inside-fat"),
                    ((g.rsvd + g.nfats * g.fatsz) * g.bps + 40, "inside-root"), (g.clus_off(dchain[0]) + 70, "inside-dir-cluster"),
                    (g.clus_off(fchain[1]) + 5, "inside-file")):
        yield "truncated-" + nm, bytearray(img0[:cut])
    # --- random flips
    nflip = 6 if tier == "quick" else 60
    regions = [(0, 64), (g.rsvd * g.bps, g.rsvd * g.bps + 96), ((g.rsvd + g.nfats * g.fatsz) * g.bps, (g.rsvd + g.nfats * g.fatsz) * g.bps + 512),
               (g.clus_off(dchain[0]), g.clus_off(dchain[0]) + 256)]
    for k in range(nflip):
        lo, hi = regions[k % len(regions)]
        img = bytearray(img0)
        for _ in range(r.randint(1, 6)):
            p = r.randrange(lo, min(hi, len(img)))
            img[p] = r.getrandbits(8)
        yield "random-flips-region%d" % (k % len(regions)), img


def orphan_then_set(img0, g, fo):
    """an orphaned long-name set directly followed by the valid set (no free slot between)"""
    img = bytearray(img0)
    # overwrite the entry in front of the set (if any) with a copy of the set's first slot carrying another checksum
    s = bytearray(img[fo - 64:fo - 32])
    s[13] ^= 0x55
    s[0] = 0x42
    img[fo - 96:fo - 64] = s
    return img


def exercise(dev, limit):
    """mount + bounded series of calls; -> list of (op, outcome)"""
    out = []
    names = ["/", "/DIR", "/DIR/sub directory", "/FILE.TXT", "/second long name.dat", "/DIR/INNER.BIN", "/EMPTY", "/nope", "/DIR/DIR/DIR"]
    fsys = None

    def attempt(label, fn):
        try:
            with Fence(limit):
                return fn()
        except WorkLimit:
            out.append((label, "hang"))
        except BaseException as e:  # noqa
            out.append((label, exc_class(e)))
        else:
            return None
        return "failed"
    st = {}

    def do_mount():
        st["fs"] = mount(dev)
        out.append(("mount", "ok"))
    if attempt("mount", do_mount) == "failed" or "fs" not in st:
        return out
    fsys = st["fs"]

    def call(label, fn):
        before = len(out)
        attempt(label, fn)
        if len(out) == before:
            out.append((label, "ok"))
    for p in names:
        call("listdir", lambda p=p: fsys.listdir(p))
        call("exists", lambda p=p: fsys.exists(p))
        call("getinfo", lambda p=p: fsys.getinfo(p, namespaces=["details"]))
        call("isdir", lambda p=p: fsys.isdir(p))
    for p in names[3:7]:
        def rd(p=p):
            with fsys.openbin(p, "r") as fh:
                fh.read(100)
                fh.seek(600)
                fh.read(5000)
                fh.seek(0, 2)
                fh.read()
        call("read", rd)
    # whatever the root lists must be inspectable too
    def listed():
        for nm in fsys.listdir("/")[:12]:
            fsys.getinfo("/" + nm, namespaces=["details"])
            if fsys.isdir("/" + nm):
                fsys.listdir("/" + nm)
            else:
                fsys.readbytes("/" + nm)
    call("walk-listed", listed)
    try:
        fsys.fs.initialized = False
    except Exception:  # noqa
        pass
    return out


def run(tier):
    res = Result("hostile")
    r = rng("hostile")
    n = 0
    for gd, g, img0 in base_images(r):
        v = specfat.Volume(bytes(img0), 0)
        fo, _ = find_entry(img0, g, v, "/second long name.dat")
        limit = 400000 + 40 * len(img0) // 10
        for kind, img in mutants(r, gd, g, img0, tier):
            if kind == "lfn-orphan-then-set":
                img = orphan_then_set(img0, g, fo)
            n += 1
            res.case("t%d:%s" % (g.type, kind))
            res.count("mutants")
            outs = exercise(Dev(data=bytes(img), writable=False), limit)
            for op, oc in outs:
                res.count("outcome:" + ("ok" if oc == "ok" else "hang" if oc == "hang" else "sanctioned" if is_sanctioned(oc) else "internal"))
            bad = [(op, oc) for op, oc in outs if oc == "hang" or (oc != "ok" and not is_sanctioned(oc))]
            if n <= 3:
                res.sample({"geom": gd, "mutation": kind, "outcomes": outs[:6]})
            seen = set()
            for op, oc in bad:
                key = (op if op in ("mount", "read") else "lookup", oc)
                if key in seen:
                    continue
                seen.add(key)
                res.fail(["C13"], "hostile:%s:%s:%s" % (kind, key[0], oc),
                         "FAT%d image with mutation %s: %s -> %s" % (g.type, kind, op, oc),
                         {"suite": "hostile", "geom": gd, "mutation": kind, "type": g.type})
    return res


def replay(rep, signature=None):
    r = rng("hostile")
    for gd, g, img0 in base_images(r):
        if gd != rep["geom"]:
            continue
        v = specfat.Volume(bytes(img0), 0)
        fo, _ = find_entry(img0, g, v, "/second long name.dat")
        for kind, img in mutants(r, gd, g, img0, "quick"):
            if kind == rep["mutation"]:
                if kind == "lfn-orphan-then-set":
                    img = orphan_then_set(img0, g, fo)
                outs = exercise(Dev(data=bytes(img), writable=False), 400000 + 4 * len(img0))
                bad = [(op, oc) for op, oc in outs if oc == "hang" or (oc != "ok" and not is_sanctioned(oc))]
                return bool(bad), "outcomes: %s" % bad[:6]
    return False, "mutation not found"
