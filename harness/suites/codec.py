"""Suite `codec` (C20, parts of C16/C07/C05/C06/C17).

(b) correspondence: model (Lean driver) vs real pyfatfs codec functions —
    exhaustive on the finite domains (all 16-bit date/time words, all calendar
    dates 1980-2107, all times of day), dense on FAT tables / names / sectors.
oracle: the real code against the specification formulas (independent Python
    re-statement of fatgen103; the Lean `Spec` definitions are queried through
    the driver on a sample as a cross-check of this file).
"""
import datetime
import io
import struct

from harness.common import Driver, Result, rng, hexs, natlist, exc_class

from pyfatfs.DosDateTime import DosDateTime
from pyfatfs.EightDotThree import EightDotThree
from pyfatfs.PyFat import PyFat
from pyfatfs.FATDirectoryEntry import FATDirectoryEntry, FATLongDirectoryEntry
from pyfatfs.BootSectorHeader import BootSectorHeader, FAT12BootSectorHeader, FAT32BootSectorHeader
from pyfatfs.FSInfo import FSInfo
from pyfatfs._exceptions import NotAFatEntryException

P = ["C20"]


# ---- independent specification formulas (fatgen103) -------------------------

def spec_days_in_month(y, m):
    if m == 2:
        return 29 if (y % 4 == 0 and (y % 100 != 0 or y % 400 == 0)) else 28
    return 30 if m in (4, 6, 9, 11) else 31


def spec_date_fields(w):
    return ((w >> 9) & 0x7F) + 1980, (w >> 5) & 0xF, w & 0x1F


def spec_time_fields(w):
    return (w >> 11) & 0x1F, (w >> 5) & 0x3F, (w & 0x1F) * 2


def spec_entry(ty, bs, k):
    if ty == 12:
        a = k + k // 2
        w = (bs[a] if a < len(bs) else 0) | ((bs[a + 1] if a + 1 < len(bs) else 0) << 8)
        return (w >> 4) if k & 1 else (w & 0xFFF)
    if ty == 16:
        return bs[2 * k] | bs[2 * k + 1] << 8
    return (bs[4 * k] | bs[4 * k + 1] << 8 | bs[4 * k + 2] << 16 | bs[4 * k + 3] << 24) & 0x0FFFFFFF


def spec_count(ty, n):
    return {12: (n * 8) // 12, 16: n // 2, 32: n // 4}[ty]


def spec_checksum(name):
    s = 0
    for c in name:
        s = (((s & 1) << 7) + (s >> 1) + c) & 0xFF
    return s


# ---- helpers to reach the real functions ------------------------------------

def mk_pyfat(ty, data, bps=512):
    pf = PyFat()
    pf.initialized = True
    pf.fat_type = ty
    pf.bpb_header = {"BPB_BytsPerSec": bps, "BPB_SecPerClus": 1, "BPB_RsvdSecCnt": 0, "BPB_NumFATs": 1}
    pf._fat_size = len(data) // bps
    pf._PyFat__fp = io.BytesIO(bytes(data))
    pf.is_read_only = False
    return pf


def impl_parse(ty, data, bps=512):
    pf = mk_pyfat(ty, data, bps)
    try:
        pf._parse_fat()
        return "ok", list(pf.fat), pf
    except Exception as e:  # noqa
        return "err " + exc_class(e), None, pf
    finally:
        pf.initialized = False  # keep __del__ quiet


def impl_ser(ty, entries):
    pf = mk_pyfat(ty, b"\0" * 512)
    pf.fat = list(entries)
    try:
        return "ok", bytes(pf)
    except Exception as e:  # noqa
        return "err " + exc_class(e), None
    finally:
        pf.initialized = False


def impl_flush(ty, data, bps=512):
    """parse then flush over the same region (what mount+close does to the FAT)."""
    pf = mk_pyfat(ty, data, bps)
    try:
        pf._parse_fat()
        pf.flush_fat()
        return bytes(pf._PyFat__fp.getvalue())
    finally:
        pf.initialized = False


def run(tier):
    res = Result("codec")
    d = Driver()
    pend = []   # (index, kind, request, impl-answer, tag)

    def ask(req, impl, tag, kind):
        i = d.ask("codec " + req)
        pend.append((i, kind, req, impl, tag))

    # ---- 1/2: all date and time words (exhaustive) ---------------------------
    for w in range(65536):
        try:
            x = DosDateTime.deserialize_date(w)
            impl = "ok %d %d %d" % (x.year, x.month, x.day)
            y, m, dd = spec_date_fields(w)
            valid = 1 <= m <= 12 and 1 <= dd <= spec_days_in_month(y, m)
            exp = (y, m, dd) if valid else (1980, 1, 1)
            if (x.year, x.month, x.day) != exp:
                res.fail(P, "codec.date_dec.wrong-fields", "deserialize_date(%d) = %s, spec %s" % (w, impl, exp),
                         {"fn": "deserialize_date", "word": w})
        except Exception as e:  # noqa
            impl = "err " + exc_class(e)
            res.fail(P, "codec.date_dec.exception", "deserialize_date(%d) raised %s" % (w, impl),
                     {"fn": "deserialize_date", "word": w})
        ask("date_dec %d" % w, impl, "date:%d:%d" % spec_date_fields(w)[1:], "date_dec")
        try:
            t = DosDateTime.deserialize_time(w)
            impl = "ok %d %d %d" % (t.hour, t.minute, t.second)
            h, mi, s = spec_time_fields(w)
            exp = (h, mi, s) if (h < 24 and mi < 60 and s < 60) else (0, 0, 0)
            if (t.hour, t.minute, t.second) != exp:
                res.fail(P, "codec.time_dec.wrong-fields", "deserialize_time(%d) = %s, spec %s" % (w, impl, exp),
                         {"fn": "deserialize_time", "word": w})
        except Exception as e:  # noqa
            impl = "err " + exc_class(e)
            res.fail(P, "codec.time_dec.exception", "deserialize_time(%d) raised %s" % (w, impl),
                     {"fn": "deserialize_time", "word": w})
        ask("time_dec %d" % w, impl, "time:%d:%d" % spec_time_fields(w)[:2], "time_dec")
    res.count("date_words", 65536)
    res.count("time_words", 65536)

    # ---- 3: all calendar dates 1980..2107 + out-of-range years ---------------
    day = datetime.date(1980, 1, 1)
    end = datetime.date(2107, 12, 31)
    step = datetime.timedelta(days=1)
    ndates = 0
    while day <= end:
        x = DosDateTime(day.year, day.month, day.day)
        w = x.serialize_date()
        ask("date_enc %d %d %d" % (day.year, day.month, day.day), "ok %d" % w, "d%d-%d" % (day.year, day.month), "enc1")
        if not (0 <= w < 65536) or spec_date_fields(w) != (day.year, day.month, day.day):
            res.fail(P, "codec.date_enc.wrong-word", "serialize_date(%s) = %d" % (day, w),
                     {"fn": "serialize_date", "date": str(day)})
        back = DosDateTime.deserialize_date(w)
        if (back.year, back.month, back.day) != (day.year, day.month, day.day):
            res.fail(P, "codec.date.roundtrip", "%s -> %d -> %s" % (day, w, back), {"fn": "date_roundtrip", "date": str(day)})
        day += step
        ndates += 1
    for y in (1, 1601, 1979, 2108, 2500, 9999):
        for (m, dd) in ((1, 1), (12, 31), (6, 15)):
            try:
                impl = "ok %d" % DosDateTime(y, m, dd).serialize_date()
            except ValueError:
                impl = "err ValueError"      # out of the DOS range: rejected before anything is stored
            ask("date_enc %d %d %d" % (y, m, dd), impl, "dout%d" % y, "enc1")
    res.count("dates", ndates)

    # ---- 4: all times of day --------------------------------------------------
    for h in range(24):
        for mi in range(60):
            for s in range(60):
                w = DosDateTime(2000, 1, 1, h, mi, s).serialize_time()
                ask("time_enc %d %d %d" % (h, mi, s), "ok %d" % w, "t%d-%d" % (h, mi), "enc1")
                if not (0 <= w < 65536) or spec_time_fields(w) != (h, mi, s - s % 2):
                    res.fail(P, "codec.time_enc.wrong-word", "serialize_time(%02d:%02d:%02d) = %d" % (h, mi, s, w),
                             {"fn": "serialize_time", "time": [h, mi, s]})
    res.count("times", 86400)

    # ---- 5: FAT tables ---------------------------------------------------------
    r = rng("codec", "fat")
    if tier == "quick":
        geoms = [(512, k) for k in range(1, 13)] + [(1024, 1), (2048, 3), (4096, 1), (4096, 2)]
        reps = 2
    else:
        geoms = [(b, k) for b in (512, 1024, 2048, 4096) for k in range(1, 13)]
        reps = 6
    for ty in (12, 16, 32):
        for bps, nsec in geoms:
            n = bps * nsec
            for rep in range(reps):
                style = ["random", "boundary", "ones", "reserved"][rep % 4]
                if style == "random":
                    data = bytes(r.getrandbits(8) for _ in range(n))
                elif style == "ones":
                    data = b"\xff" * n
                elif style == "reserved":
                    # plausible table with non-zero FAT32 reserved bits / marks
                    data = bytearray(r.getrandbits(8) for _ in range(n))
                    for i in range(3, n, 4):
                        data[i] |= 0xF0
                    data = bytes(data)
                else:
                    vals = {12: [0, 1, 2, 0xFF0, 0xFF7, 0xFF8, 0xFFF, 0xFEF],
                            16: [0, 1, 2, 0xFFF0, 0xFFF7, 0xFFF8, 0xFFFF, 0xFFEF],
                            32: [0, 1, 2, 0x0FFFFFF7, 0x0FFFFFF8, 0x0FFFFFFF, 0xFFFFFFFF, 0xF0000003]}[ty]
                    cnt = spec_count(ty, n)
                    es = [vals[r.randrange(len(vals))] for _ in range(cnt)]
                    if ty == 12:
                        data = bytearray(n)
                        for k, e in enumerate(es):
                            a = k + k // 2
                            if k & 1:
                                data[a] |= (e & 0xF) << 4
                                data[a + 1] = e >> 4
                            else:
                                data[a] = e & 0xFF
                                data[a + 1] |= e >> 8
                        data = bytes(data)
                    elif ty == 16:
                        data = struct.pack("<%dH" % cnt, *es)
                    else:
                        data = struct.pack("<%dL" % cnt, *es)
                if ty == 12 and n % 3 == 2:
                    # the upper nibble of the last byte is half an entry: not an entry at all;
                    # valid tables carry 0 there (otherwise the identity oracle would demand more than C16 states)
                    data = data[:-1] + bytes([data[-1] & 0x0F])
                status, entries, _ = impl_parse(ty, data, bps)
                tag = "fat%d:%d:%s:%d" % (ty, n, style, n % 3)
                impl = status if entries is None else "ok " + natlist(entries)
                ask("fat%d_parse %s" % (ty, hexs(data)), impl, tag, "fatparse")
                res.count("fat%d_tables" % ty)
                res.sample({"fat_type": ty, "bytes": n, "style": style, "first16": data[:16].hex()})
                if entries is None:
                    res.fail(P, "codec.fat%d.parse.exception" % ty, "_parse_fat raised %s on %d-byte table" % (status, n),
                             {"fn": "_parse_fat", "fat_type": ty, "bps": bps, "data": data.hex()})
                    continue
                # oracle 1: every specification entry is present and equal
                cnt = spec_count(ty, n)
                bad = None
                if len(entries) > cnt:
                    bad = "extra entries: %d > %d" % (len(entries), cnt)
                for k in range(min(cnt, len(entries))):
                    if entries[k] != spec_entry(ty, data, k):
                        bad = "entry %d = %d, spec %d" % (k, entries[k], spec_entry(ty, data, k))
                        break
                if bad:
                    res.fail(P, "codec.fat%d.parse.wrong-entry" % ty, bad,
                             {"fn": "_parse_fat", "fat_type": ty, "bps": bps, "data": data.hex()})
                if len(entries) < cnt:
                    res.fail(["C20", "C07", "C16"], "codec.fat%d.parse.missing-last-entries:nmod3=%d:missing=%d" % (ty, n % 3, cnt - len(entries)),
                             "_parse_fat keeps %d of %d specification entries of a %d-byte FAT%d table" % (len(entries), cnt, n, ty),
                             {"fn": "_parse_fat", "fat_type": ty, "bps": bps, "data": data.hex()})
                # correspondence on serialise
                st2, ser = impl_ser(ty, entries)
                ask("fat%d_ser %s" % (ty, natlist(entries)), st2 if ser is None else "ok " + hexs(ser), tag + ":ser", "fatser")
                # oracle 2: parse -> flush leaves the region byte-identical
                after = impl_flush(ty, data, bps)
                ask("fat%d_flush %s" % (ty, hexs(data)), "ok " + hexs(after), tag + ":flush", "fatflush")
                if after != data:
                    diffs = [i for i in range(n) if after[i] != data[i]]
                    if ty == 32 and all(i % 4 == 3 and (after[i] & 0x0F) == (data[i] & 0x0F) for i in diffs):
                        sig = "codec.fat32.flush.reserved-nibble-cleared"
                    elif ty == 12 and diffs == [n - 1] and n % 3 == 2 and (after[n - 1] & 0x0F) == (data[n - 1] & 0x0F):
                        sig = "codec.fat12.flush.trailing-half-entry-nibble-cleared:nmod3=2"
                    elif ty == 12 and len(diffs) == 1 and n % 3 != 2:
                        sig = "codec.fat12.flush.last-entry-nibble-cleared:nmod3=%d:at=n-%d" % (n % 3, n - diffs[0])
                    else:
                        sig = "codec.fat%d.flush.other:%d-bytes-differ" % (ty, len(diffs))
                    res.fail(["C20", "C16"], sig, "flush of a parsed FAT%d table changed %d byte(s) at %s" % (ty, len(diffs), diffs[:4]),
                             {"fn": "parse+flush", "fat_type": ty, "bps": bps, "data": data.hex()})
    # serialise arbitrary valid entry lists of every small length (odd/even tails)
    for ty, top in ((12, 4096), (16, 65536), (32, 1 << 28)):
        for ln in list(range(0, 14)) + [340, 341, 342, 343]:
            es = [r.randrange(top) for _ in range(ln)]
            st2, ser = impl_ser(ty, es)
            ask("fat%d_ser %s" % (ty, natlist(es)), st2 if ser is None else "ok " + hexs(ser), "ser%d:%d" % (ty, ln), "fatser")
            if ser is not None:
                for k, e in enumerate(es):
                    if spec_entry(ty, ser, k) != e:
                        res.fail(P, "codec.fat%d.ser.wrong-entry" % ty, "entry %d of %s" % (k, es[:6]),
                                 {"fn": "__bytes__", "fat_type": ty, "entries": es})
                        break

    # ---- 6/7: names, checksum, lead byte --------------------------------------
    r = rng("codec", "names")
    cpname = "ibm437"
    dec = [ord(bytes([b]).decode(cpname)) for b in range(256)]
    spaces = sorted({c for c in dec if chr(c).isspace()})
    d.ask("cp %s %s %s" % (cpname, natlist(dec), natlist(spaces)))
    pend.append((len(d.lines) - 1, "cp", "cp", "ok", None))
    nnames = 400 if tier == "quick" else 4000
    structured = [b"FOO     BAR", b"\x05OO     TXT", b"\xe5OO     TXT", b"\x00          ", b".          ",
                  b"..         ", b"A       B  ", b"        TXT", b"ABCDEFGHIJK", b"\x05          ",
                  b"A\xff      \xff  ", b"\x20\x20\x20\x20\x20\x20\x20\x20\x20\x20\x20"]
    for i in range(nnames):
        if i < len(structured):
            nm = structured[i]
        else:
            alphabet = b"ABCXYZ019 _~-\x05\xe5\x80\xff" if i % 2 else bytes(range(1, 256))
            nm = bytes(alphabet[r.randrange(len(alphabet))] for _ in range(11))
        e = EightDotThree(encoding=cpname)
        try:
            e.set_byte_name(nm)
            cls = "name"
        except NotAFatEntryException as ex:
            cls = "free" if ex.free_type == 0xE5 else "last"
        ask("sfn_classify %s" % hexs(nm), "ok " + cls, "cls:" + cls + ":%d" % nm[0], "sfn")
        if cls != "name":
            continue
        ck = e.checksum()
        ask("checksum %s" % hexs(nm), "ok %d %d" % (ck, ck), "ck:%d" % (i % 50), "checksum")
        if ck != spec_checksum(nm):
            res.fail(["C20", "C05"], "codec.checksum.wrong", "checksum(%r) = %d, spec %d" % (nm, ck, spec_checksum(nm)),
                     {"fn": "checksum", "name": nm.hex()})
        before = bytes(e.name)
        s = str(e)
        after = bytes(e.name)
        ask("sfn_str %s %s" % (cpname, hexs(nm)), "ok %s %s" % (natlist([ord(c) for c in s]), hexs(after)),
            "str:%d:%d" % (nm[0] == 5, len(s)), "sfn")
        if after != before:
            res.fail(["C20", "C07", "C03"], "codec.sfn.str-mutates-stored-name:lead=0x%02x" % before[0],
                     "str() of a stored short name changed its bytes %s -> %s" % (before.hex(), after.hex()),
                     {"fn": "EightDotThree.__str__", "name": nm.hex()})
    res.count("names", nnames)

    # ---- 8: layouts -------------------------------------------------------------
    r = rng("codec", "layouts")
    nsect = 60 if tier == "quick" else 600
    for i in range(nsect):
        sect = bytes(r.getrandbits(8) for _ in range(512))
        for lname, cls in (("bpb", BootSectorHeader), ("bpb12", FAT12BootSectorHeader), ("bpb32", FAT32BootSectorHeader)):
            h = cls()
            h.parse_header(sect)
            vals = " ".join(("x" + hexs(v)) if isinstance(v, (bytes, bytearray)) else str(v) for v in h.values())
            ask("layout_unpack %s %s" % (lname, hexs(sect[:len(h)])), "ok " + vals, "lay:" + lname, "layout")
            out = bytes(h)
            ask("layout_roundtrip %s %s" % (lname, hexs(sect[:len(h)])), "ok " + hexs(out), "layrt:" + lname, "layout")
            if out != sect[:len(h)]:
                res.fail(["C20", "C16"], "codec.layout.%s.roundtrip" % lname, "bytes(parse(x)) != x",
                         {"fn": cls.__name__, "data": sect.hex()})
        # FSInfo: reserved (pad) bytes are zero in a specification-valid sector
        fsi = bytearray(sect)
        fsi[4:484] = b"\0" * 480
        fsi[496:508] = b"\0" * 12
        fsi = bytes(fsi)
        f = FSInfo()
        f.parse_header(fsi)
        out = bytes(f)
        ask("layout_roundtrip fsinfo %s" % hexs(fsi), "ok " + hexs(out), "layrt:fsinfo", "layout")
        if out != fsi:
            res.fail(P, "codec.layout.fsinfo.roundtrip", "bytes(parse(x)) != x", {"fn": "FSInfo", "data": fsi.hex()})
        # directory entry and LFN slot (struct level)
        ent = sect[:32]
        vals = struct.unpack(FATDirectoryEntry.FAT_DIRECTORY_LAYOUT, ent)
        ask("layout_roundtrip dir %s" % hexs(ent), "ok " + hexs(struct.pack(FATDirectoryEntry.FAT_DIRECTORY_LAYOUT, *vals)),
            "layrt:dir", "layout")
        vals = struct.unpack(FATLongDirectoryEntry.FAT_LONG_DIRECTORY_LAYOUT, ent)
        ask("layout_unpack lfn %s" % hexs(ent), "ok " + " ".join(("x" + hexs(v)) if isinstance(v, bytes) else str(v) for v in vals),
            "lay:lfn", "layout")
    res.count("sectors", nsect)

    # ---- 9: cluster halves; 10: Python integer operators ------------------------
    r = rng("codec", "ints")
    ent = FATDirectoryEntry.__new__(FATDirectoryEntry)
    for i in range(300):
        c = [0, 1, 2, 65535, 65536, 65537, 0x0FFFFFFF, 0xFFFFFFFF][i] if i < 8 else r.getrandbits(r.choice([8, 16, 17, 28, 32, 40]))
        ent.set_cluster(c)
        ask("setcluster %d" % c, "ok %d %d" % (ent.fstcluslo, ent.fstclushi), "sc:%d" % c.bit_length(), "cluster")
        lo, hi = r.getrandbits(16), r.getrandbits(16)
        ent.fstcluslo, ent.fstclushi = lo, hi
        ask("getcluster %d %d" % (lo, hi), "ok %d" % ent.get_cluster(), "gc:%d" % (hi > 0), "cluster")
        ent.set_cluster(ent.get_cluster())
        if (ent.fstcluslo, ent.fstclushi) != (lo, hi):
            res.fail(P, "codec.cluster.roundtrip", "set_cluster(get_cluster()) changed (%d,%d)" % (lo, hi), {"lo": lo, "hi": hi})
    ops = {"and": lambda a, b: a & b, "or": lambda a, b: a | b, "shl": lambda a, b: a << b, "shr": lambda a, b: a >> b,
           "fdiv": lambda a, b: a // b, "fmod": lambda a, b: a % b, "not": lambda a, b: ~a,
           "ceildiv": lambda a, b: __import__("math").ceil(a / b)}
    for i in range(1500 if tier == "quick" else 8000):
        op = r.choice(sorted(ops))
        a = r.randrange(-(1 << r.choice([4, 9, 17, 33])), 1 << r.choice([4, 9, 17, 33]))
        b = r.randrange(-300, 300) if op in ("and", "or", "fdiv", "fmod") else r.randrange(0, 40)
        if op == "ceildiv":
            b = 1 << r.randrange(0, 13)
            a = abs(a)
        try:
            impl = "ok %d" % ops[op](a, b)
        except (ValueError, ZeroDivisionError):
            impl = "err ValueError"
        ask("pyint %s %d %d" % (op, a, b), impl, "py:%s:%d:%d" % (op, a < 0, b < 0), "pyint")

    # ---- run the model and compare --------------------------------------------
    out = d.run()
    for i, kind, req, impl, tag in pend:
        model = out[i]
        if kind == "enc1":
            # model prints "<generated> <hand model>"; the generated value is compared
            model = " ".join(model.split(" ")[:2])
        res.case(tag)
        if model != impl:
            res.diverge(kind, req, model, impl, P)
        res.count("cmp:" + kind)
    return res


def replay(rep, signature=None):
    """Re-run one recorded failing input against the current /repo."""
    fn = rep.get("fn")
    if fn == "EightDotThree.__str__":
        nm = bytes.fromhex(rep["name"])
        e = EightDotThree(encoding="ibm437")
        e.set_byte_name(nm)
        before = bytes(e.name)
        str(e)
        after = bytes(e.name)
        return after != before, "stored name %s -> %s after str()" % (before.hex(), after.hex())
    if fn in ("_parse_fat", "parse+flush"):
        data = bytes.fromhex(rep["data"])
        ty, bps = rep["fat_type"], rep.get("bps", 512)
        status, entries, _ = impl_parse(ty, data, bps)
        cnt = spec_count(ty, len(data))
        if entries is None:
            return True, "_parse_fat raised " + status
        bad = len(entries) != cnt or any(entries[k] != spec_entry(ty, data, k) for k in range(cnt))
        after = impl_flush(ty, data, bps)
        return bad or after != data, "entries kept %d of %d; flush changed %d bytes" % (
            len(entries), cnt, sum(1 for a, b in zip(after, data) if a != b))
    if fn in ("deserialize_date", "deserialize_time"):
        try:
            getattr(DosDateTime, fn)(rep["word"])
            return False, "no exception"
        except Exception as e:  # noqa
            return True, "raised " + exc_class(e)
    return False, "no replay routine for %r; input: %r" % (fn, rep)
