"""Suite `mkfs` (C14, C08 for formatting): parameter grid around every row boundary of the
size->cluster tables, smallest accepted sizes, up to hundreds of MiB (sparse device),
sector sizes 512..4096, 1..3 FATs, media bytes, labels, partition offsets; zeroed and
previously used devices.  Oracle: independent specification check of the result.
"""
import struct
from unittest import mock

from harness.common import Result, rng, exc_class
from harness import specfat
from harness.fsrun import is_sanctioned

from pyfatfs.PyFat import PyFat
from pyfatfs.PyFatFS import PyFatBytesIOFS

PAGE = 4096


class SparseDev:
    """page-sparse device: only written pages are stored; reads of holes return `fill`"""

    def __init__(self, size, fill=0):
        self.size, self.fill, self.pages, self.pos = size, fill, {}, 0
        self.log = []
        self.initial_size = size
        self.name = "<sparse>"

    def readable(self):
        return True

    def seekable(self):
        return True

    def writable(self):
        return True

    def tell(self):
        return self.pos

    def seek(self, pos, whence=0):
        self.pos = pos if whence == 0 else (self.pos + pos if whence == 1 else self.size + pos)
        if self.pos < 0:
            raise OSError(22, "negative seek")
        return self.pos

    def _page(self, n):
        p = self.pages.get(n)
        if p is None:
            if self.fill == 0:
                return bytes(PAGE)
            return bytes(((n * 131 + i * 7) & 0xFF) | 1 for i in range(PAGE))
        return bytes(p)

    def read(self, n=-1):
        if n is None or n < 0:
            n = max(0, self.size - self.pos)
        n = max(0, min(n, self.size - self.pos))
        self.log.append(("R", self.pos, n))
        out = bytearray()
        pos = self.pos
        while len(out) < n:
            pg, off = divmod(pos, PAGE)
            chunk = self._page(pg)[off:off + (n - len(out))]
            out += chunk
            pos += len(chunk)
        self.pos = pos
        return bytes(out)

    def write(self, b):
        b = bytes(b)
        self.log.append(("W", self.pos, len(b)))
        pos = self.pos
        i = 0
        while i < len(b):
            pg, off = divmod(pos, PAGE)
            take = min(PAGE - off, len(b) - i)
            page = bytearray(self._page(pg))
            page[off:off + take] = b[i:i + take]
            self.pages[pg] = page
            pos += take
            i += take
        self.pos = pos
        self.size = max(self.size, pos)
        return len(b)

    def truncate(self, size=None):
        size = self.pos if size is None else size
        self.log.append(("T", size, 0))
        if size < self.size:
            for pg in [p for p in self.pages if p * PAGE >= size]:
                del self.pages[pg]
        self.size = size
        return size

    def close(self):
        pass

    def flush(self):
        pass

    def region(self, off, n):
        self.seek(off)
        lg = len(self.log)
        b = self.read(n)
        del self.log[lg:]
        return b


def spec_check(dev, off, size, want_type, ss, nfats, label, media):
    """-> list of (code, detail); empty = a valid, correctly typed, empty volume that fits"""
    out = []
    boot = dev.region(off, 512)
    try:
        (jmp, oem, bps, spc, rsvd, nf, rootent, tot16, med, fatsz16, _a, _b, _c, tot32) = struct.unpack("<3s8sHBHBHHBHHHLL", boot[:36])
    except struct.error:
        return [("boot", "short")]
    if boot[510:512] != b"\x55\xAA":
        out.append(("sig", "no 55AA in boot sector"))
    if bps != ss:
        out.append(("bps", "%d != %d" % (bps, ss)))
    if spc not in (1, 2, 4, 8, 16, 32, 64, 128):
        return out + [("spc", str(spc))]
    if nf != nfats:
        out.append(("nfats", str(nf)))
    if med != media:
        out.append(("media", hex(med)))
    fatsz = fatsz16
    rootclus = fsinfo = bk = None
    if fatsz16 == 0:
        fatsz, _fl, _ver, rootclus, fsinfo, bk = struct.unpack("<LHHLHH", boot[36:52])
    totsec = tot16 or tot32
    if totsec * bps > size:
        out.append(("fits", "%d sectors x %d > %d bytes requested" % (totsec, bps, size)))
    if totsec == 0 or fatsz == 0 or rsvd == 0:
        return out + [("geometry", "zero field")]
    g = specfat.Geom(bps=bps, spc=spc, rsvd=rsvd, nfats=nf, rootent=rootent, totsec=totsec, fatsz=fatsz, media=med)
    if g.datasec <= 0:
        return out + [("geometry", "no data area")]
    if g.type != want_type:
        out.append(("type", "asked FAT%d, cluster count %d is FAT%d by the specification" % (want_type, g.count, g.type)))
    ent = {12: 1.5, 16: 2, 32: 4}[g.type]
    if fatsz * bps < (g.count + 2) * ent:
        out.append(("fatsize", "FAT of %d bytes cannot hold %d entries" % (fatsz * bps, g.count + 2)))
    if (want_type == 32) != (fatsz16 == 0):
        out.append(("layout", "FATSz16=%d for FAT%d" % (fatsz16, want_type)))
    if want_type != 32 and (rootent * 32) % bps:
        out.append(("rootent", str(rootent)))
    # FAT content: reserved entries, everything else free, copies identical
    wtype = want_type
    fats = [dev.region(off + (rsvd + i * fatsz) * bps, fatsz * bps) for i in range(nf)]
    for i in range(1, nf):
        if fats[i] != fats[0]:
            out.append(("fatcopies", "copy %d differs" % i))
            break

    def entry(k):
        f = fats[0]
        if wtype == 12:
            a = k + k // 2
            w = f[a] | f[a + 1] << 8
            return (w >> 4) if k & 1 else (w & 0xFFF)
        if wtype == 16:
            return struct.unpack_from("<H", f, 2 * k)[0]
        return struct.unpack_from("<L", f, 4 * k)[0] & 0x0FFFFFFF
    top = {12: 0xFFF, 16: 0xFFFF, 32: 0x0FFFFFFF}[wtype]
    try:
        e0 = entry(0)
        if (e0 & 0xFF) != med or (e0 | 0xFF) != top:
            out.append(("fat0", hex(e0)))
        if entry(1) < (top & ~0xF):
            out.append(("fat1", hex(entry(1))))
        used = [k for k in range(2, min(g.count + 2, len(fats[0]) * 2 // 3 if wtype == 12 else g.count + 2)) if entry(k) != 0]
        allowed = 1 if wtype == 32 else 0
        if len(used) > allowed:
            out.append(("fat-not-empty", "%d data entries in use (first %s)" % (len(used), used[:3])))
    except (IndexError, struct.error):
        out.append(("fat-short", "FAT region shorter than the cluster count needs"))
    if want_type == 32:
        if not (0 < fsinfo < rsvd) or not (0 < bk < rsvd):
            out.append(("fat32-sectors", "FSInfo %s backup %s reserved %s" % (fsinfo, bk, rsvd)))
        else:
            fsi = dev.region(off + fsinfo * bps, 512)
            if struct.unpack("<L", fsi[:4])[0] != 0x41615252 or struct.unpack("<L", fsi[484:488])[0] != 0x61417272 \
                    or struct.unpack("<L", fsi[508:512])[0] != 0xAA550000:
                out.append(("fsinfo", "no FSInfo signatures at sector BPB_FSInfo=%d (byte %d)" % (fsinfo, fsinfo * bps)))
            bkb = dev.region(off + bk * bps, 512)
            if bkb[:90] != boot[:90] or bkb[510:512] != b"\x55\xAA":
                out.append(("backup-boot", "backup boot sector at sector %d differs" % bk))
        if not (2 <= rootclus < g.count + 2):
            out.append(("rootclus", str(rootclus)))
    # root directory: label entry, nothing else
    try:
        img_small = None
        v = None
        if g.totsec * bps <= 80 << 20:
            img_small = dev.region(off, g.totsec * bps)
            v = specfat.Volume(img_small, 0)
            slots = v.dir_slots(v.rootclus, True)
            live = [s for s in slots if s[0] not in (0, 0xE5)]
            ended = False
            for s in slots:
                if s[0] == 0:
                    ended = True
                elif ended and s != b"\0" * 32:
                    out.append(("root-after-end", "non-zero slot after the end mark"))
                    break
            labels = [s for s in live if s[11] & 0x08 and (s[11] & 0x3F) != 0x0F]
            others = [s for s in live if not (s[11] & 0x08)]
            if others:
                out.append(("root-not-empty", "%d entries" % len(others)))
            # the label entry carries the boot sector's BS_VolLab (11 raw bytes; case-insensitively)
            vollab = boot[71:82] if fatsz16 == 0 else boot[43:54]
            if label.strip() and (len(labels) != 1 or bytes(labels[0][:11]).upper() != bytes(vollab).upper()):
                out.append(("label-entry", "root label entries: %s, BS_VolLab %r" % ([bytes(x[:11]) for x in labels], bytes(vollab))))
    except specfat.FatError as e:
        out.append(("root", str(e)))
    return out


def params(r, tier):
    """(type, size, ss, nfats, label, media, offset, prior)"""
    out = []
    rows = {12: [4084, 8168, 16336, 32672, 65344, 130688, 261376, 522752], 16: [8400, 32680, 262144, 524288, 1048576, 2097152, 4194304],
            32: [66600, 532480, 16777216]}
    limit = (96 << 20) if tier == "quick" else (1 << 30)
    for ty in (12, 16, 32):
        for row in rows[ty]:
            for d in (-1, 0, 1, 2):
                nsec = row + d
                for ss in ((512,) if tier == "quick" else (512, 1024, 4096)):
                    size = nsec * ss
                    if 0 < size <= limit:
                        out.append((ty, size, ss, 2, "NO NAME", 0xF8, 0, 0))
    # smallest sizes
    for ty, lo in ((12, 1), (16, 8401), (32, 66601)):
        for nsec in (lo, lo + 1, lo + 7, max(1, lo - 1), 10, 20, 33, 40, 64, 100, 200):
            out.append((ty, nsec * 512, 512, 2, "TINY", 0xF8, 0, 0))
    # sector sizes x FAT counts x media x labels x offsets x prior content
    for ty, nsec in ((12, 2880), (12, 5000), (16, 20000), (16, 70000), (32, 70000), (32, 140000)):
        for ss in (512, 1024, 2048, 4096):
            for nf in (1, 2, 3):
                if tier == "quick" and (ss, nf) not in ((512, 1), (1024, 2), (2048, 3), (4096, 2), (512, 3)):
                    continue
                size = nsec * ss
                if size > limit:
                    continue
                out.append((ty, size, ss, nf, r.choice(["", "A", "ELEVENCHARS", "lower case", "TWELVE CHARS"]),
                            r.choice([0xF0, 0xF8, 0xF9, 0xFA, 0xFF]), r.choice([0, 0, 512, 4096 * 3]), r.choice([0, 0, 1])))
    # FAT32 with 3 FATs just above the minimum; sizes that are not sector multiples
    for nsec in (66601, 66700, 66900, 67200, 70000):
        out.append((32, nsec * 512, 512, 3, "F32X3", 0xF8, 0, 0))
    # found while proving the FAT-capacity theorem: FAT16, one FAT, 64 sectors per cluster
    for size in (1434528256, 1535198208, 2021763584):
        out.append((16, size, 512, 1, "CAPACITY", 0xF8, 0, 0))
    for ty, size in ((12, 1000000), (16, 5000001), (32, 35000003)):
        out.append((ty, size, 512, 2, "ODD", 0xF8, 0, 0))
    return out


def run(tier):
    res = Result("mkfs")
    r = rng("mkfs")
    ps = params(r, tier)
    from harness.common import Driver
    drv = Driver()
    pend = []
    for n, (ty, size, ss, nf, label, media, off, prior) in enumerate(ps):
        res.case("t%d:ss%d:nf%d:%s" % (ty, ss, nf, "prior" if prior else "zero"))
        res.count("runs")
        guard = 8192
        dev = SparseDev(off + size + guard, fill=1 if prior else 0)
        rep = {"suite": "mkfs", "fat_type": ty, "size": size, "sector_size": ss, "number_of_fats": nf, "label": label, "media": media,
               "offset": off, "prior_content": bool(prior)}
        if n < 3:
            res.sample(rep)
        pf = PyFat(offset=off)
        try:
            with mock.patch("pyfatfs.PyFat.open", return_value=dev):
                pf.mkfs("verif.img", ty, size=size, sector_size=ss, number_of_fats=nf, label=label, volume_id=0x1234ABCD, media_type=media)
            status = "ok"
        except Exception as e:  # noqa
            status = exc_class(e)
        finally:
            pf.initialized = False
        res.count("status:" + ("ok" if status == "ok" else "sanctioned" if is_sanctioned(status) else "internal"))
        cls = "t%d:ss%d:nf%d" % (ty, ss, nf)
        if status != "ok":
            if not is_sanctioned(status):
                res.fail(["C14"], "mkfs:internal-error:%s:%s" % (status, cls), "mkfs raised %s" % status, rep)
            # a failed format must not have touched anything outside the volume either
        # C08: accesses inside [off, off+size); container not resized
        oob = [e for e in dev.log if e[0] in "RW" and (e[1] < off or e[1] + e[2] > off + size)]
        if oob:
            res.fail(["C08", "C14"], "mkfs:access-outside-volume:%s" % cls, "access %s outside [%d, %d)" % (oob[0], off, off + size), rep)
        if dev.size != dev.initial_size:
            res.fail(["C08"], "mkfs:container-resized:%s" % ("shrunk" if dev.size < dev.initial_size else "grown"),
                     "device of %d bytes is %d bytes after formatting a %d-byte volume at offset %d" % (dev.initial_size, dev.size, size, off), rep)
        if status != "ok":
            continue
        # correspondence: the translated mkfs arithmetic against the fields the real mkfs wrote
        boot = dev.region(off, 64)
        b_spc, b_rsvd, b_rootent = boot[13], struct.unpack_from("<H", boot, 14)[0], struct.unpack_from("<H", boot, 17)[0]
        b_tot = struct.unpack_from("<H", boot, 19)[0] or struct.unpack_from("<L", boot, 32)[0]
        b_fatsz = struct.unpack_from("<H", boot, 22)[0] or struct.unpack_from("<L", boot, 36)[0]
        rds = (b_rootent * 32 + ss - 1) // ss
        pend.append((drv.ask("vol mkfsarith %d %d %d %d %d" % (ty, size, ss, b_spc, nf)),
                     "ok %d %d %d %d %d" % (b_tot, b_fatsz, b_rootent, b_rsvd, rds), rep))
        complaints = spec_check(dev, off, size, ty, ss, nf, label, media)
        for code, detail in complaints:
            sig = "mkfs:%s:%s%s" % (code, cls, ":prior-content" if prior else "")
            res.fail(["C14"], sig, detail, rep)
        if not complaints and size <= (40 << 20) and size >= (64 << 10):
            # mounts as an empty filesystem; a little fill + read-back
            try:
                f = PyFatBytesIOFS(dev, offset=off)
                if f.fs.fat_type != ty:
                    res.fail(["C14"], "mkfs:mounts-as-other-type:%s" % cls, "mounted as FAT%d" % f.fs.fat_type, rep)
                if f.listdir("/") != []:
                    res.fail(["C14"], "mkfs:not-empty:%s" % cls, str(f.listdir("/"))[:100], rep)
                f.makedir("/d")
                f.writebytes("/d/file.bin", bytes(range(256)) * 20)
                if f.readbytes("/d/file.bin") != bytes(range(256)) * 20:
                    res.fail(["C14"], "mkfs:readback:%s" % cls, "content differs", rep)
                f.close()
            except Exception as e:  # noqa
                res.fail(["C14"], "mkfs:unusable:%s:%s" % (exc_class(e), cls), repr(e)[:200], rep)
    if pend:
        out = drv.run()
        for i, impl, rep in pend:
            res.count("cmp:mkfsarith")
            if out[i] != impl:
                res.diverge("mkfsarith", drv.lines[i], out[i], impl, ["C14"])
    return res


def replay(rep, signature=None):
    dev = SparseDev(rep["offset"] + rep["size"] + 8192, fill=1 if rep.get("prior_content") else 0)
    pf = PyFat(offset=rep["offset"])
    try:
        with mock.patch("pyfatfs.PyFat.open", return_value=dev):
            pf.mkfs("verif.img", rep["fat_type"], size=rep["size"], sector_size=rep["sector_size"], number_of_fats=rep["number_of_fats"],
                    label=rep["label"], volume_id=1, media_type=rep["media"])
    except Exception as e:  # noqa
        return not is_sanctioned(exc_class(e)), "mkfs raised " + exc_class(e)
    finally:
        pf.initialized = False
    c = spec_check(dev, rep["offset"], rep["size"], rep["fat_type"], rep["sector_size"], rep["number_of_fats"], rep["label"], rep["media"])
    resized = dev.size != dev.initial_size
    return bool(c) or resized, "complaints: %s; container resized: %s" % (c[:4], resized)
