"""Suite `crash` (C12): the device stops accepting writes at any point of an operation.

For every operation of a history the exact ordered write log is kept.  The crash
image is advanced write by write and, inside every write, sector by sector (a tear
point whose sector already holds the bytes being written gives the same image as the
previous point and is skipped — the enumeration is exhaustive up to that identity).
Every distinct crash image is mounted read-only with lazy loading by the real code:

* the mount must succeed;
* every file that was durable before the operation began (it read back from the
  image as it was before the operation's first write), is not the operation's
  target and does not live in a directory the operation rewrites, must be
  reachable by its path, listed by its directory, and read back byte for byte.

Tie of the Lean model's premises (`Props.C12`) to the code, checked on every real
write log: each write is (a) a boot-sector copy / FSInfo sector, (b) a whole FAT
copy whose decoded entries agree with the durable FAT on every cluster of every
protected chain, (c) the fixed root area (root in the rewrite set only), (d) a
cluster that is free in the durable FAT, or belongs to a target file or to a
rewritten directory.  A write outside these classes is a divergence (model premise
no longer matches the code), not by itself a violation.
"""
import hashlib
import warnings

from harness.common import Result, rng, exc_class, Driver, hexs, natlist
from harness import specfat
from harness.fatdev import Dev, mount
from harness.fsrun import make_image, run_op, data_for, opkind  # noqa: F401


class SharedDev(Dev):
    """read-only device over a caller-owned bytearray (no copy: the crash image is advanced in place)"""

    def __init__(self, buf):
        Dev.__init__(self, size=0, writable=False)
        self.data = buf


# ---------------------------------------------------------------------------
# observation of an image through the real code (read-only, lazy)
# ---------------------------------------------------------------------------

def ro_mount(buf, kw):
    with warnings.catch_warnings():
        warnings.simplefilter("ignore")
        f = mount(SharedDev(buf), **kw)
    return f


def drop(f):
    try:
        f.fs.initialized = False
    except Exception:  # noqa
        pass


def tolerant_walk(f):
    """{path: ('d',) | ('f', size, sha)} of everything that reads back; unreadable entries are left out"""
    out = {}
    stack = ["/"]
    while stack:
        d = stack.pop()
        try:
            names = sorted(f.listdir(d))
        except Exception:  # noqa
            continue
        for n in names:
            p = d.rstrip("/") + "/" + n
            try:
                info = f.getinfo(p, namespaces=["details"])
                if info.is_dir:
                    out[p] = ("d",)
                    stack.append(p)
                else:
                    b = f.readbytes(p)
                    out[p] = ("f", len(b), hashlib.sha256(b).hexdigest()[:16])
            except Exception:  # noqa
                continue
    return out


def parent(p):
    q = p.rsplit("/", 1)[0]
    return q if q else "/"


def norm(p):
    p = "/" + "/".join(x for x in p.split("/") if x)
    return p


# ---------------------------------------------------------------------------
# what an operation is expected to touch
# ---------------------------------------------------------------------------

def footprint(op, durable, handles):
    """-> (targets: set of paths, rewrites: set of directory paths, subtree: set of path prefixes)"""
    k = op[0]
    T, R, S = set(), set(), set()
    if k in ("create", "touch", "writebytes", "appendbytes", "setinfo", "remove", "removedir"):
        p = norm(op[1])
        T.add(p)
        R.add(parent(p))
        if k == "removedir":
            R.add(p)
    elif k == "makedir":
        p = norm(op[1])
        T.add(p)
        R.update((parent(p), p))
    elif k == "makedirs":
        segs = [x for x in op[1].split("/") if x]
        for i in range(1, len(segs) + 1):
            q = "/" + "/".join(segs[:i])
            if q not in durable:
                T.add(q)
                R.update((parent(q), q))
    elif k == "removetree":
        p = norm(op[1])
        S.add(p)
        T.add(p)
        R.update((parent(p), p))
    elif k == "copy":
        p = norm(op[2])
        T.add(p)
        R.add(parent(p))
    elif k == "move":
        for p in (norm(op[1]), norm(op[2])):
            T.add(p)
            R.add(parent(p))
    elif k == "open":
        p = norm(op[2])
        T.add(p)
        R.add(parent(p))
    elif k in ("write", "truncate", "close", "seek", "read", "tell", "readinto"):
        h = handles.get(op[1])
        if h is not None:
            p = norm(str(getattr(h, "name", "")))
            T.add(p)
            R.add(parent(p))
    # every handle that is open may flush / rewrite on its own account
    return T, R, S


def protected_paths(durable, T, R, S):
    out = []
    for p, v in durable.items():
        if v[0] != "f":
            continue
        if p in T or parent(p) in R:
            continue
        if any(p == s or p.startswith(s.rstrip("/") + "/") for s in S):
            continue
        out.append(p)
    return sorted(out)


# ---------------------------------------------------------------------------
# layout of the durable image (independent reader), for the premise check
# ---------------------------------------------------------------------------

class Layout:
    def __init__(self, img, off, cp):
        self.v = specfat.Volume(img, off)
        v, g = self.v, self.v.g
        self.off = off
        self.boot = [(off, g.rsvd * g.bps)]      # reserved region: boot sector, FSInfo, backups
        self.fat = [(off + (g.rsvd + i * g.fatsz) * g.bps, g.fatsz * g.bps) for i in range(g.nfats)]
        self.root = (off + (g.rsvd + g.nfats * g.fatsz) * g.bps, g.rootent * 32) if v.type != 32 else None
        self.owner = {}          # cluster -> path
        self.chains = {}         # path -> list of clusters
        self.cp = cp
        self._walk(v.rootclus, True, "", 0)

    def _walk(self, first, is_root, base, depth):
        v = self.v
        if depth > 30:
            return
        if not (is_root and v.type != 32):
            try:
                cs = v.chain(first)
            except specfat.FatError:
                return
            self.chains[base or "/"] = cs
            for c in cs:
                self.owner.setdefault(c, base or "/")
        try:
            ents = v.parse_dir(first, is_root, self.cp)
        except specfat.FatError:
            return
        for e in ents:
            if e["short"] in (".", ".."):
                continue
            p = base + "/" + e["name"]
            if e["attr"] & 0x10:
                self._walk(e["cluster"], False, p, depth + 1)
            elif e["size"] and e["cluster"]:
                try:
                    cs = v.chain(e["cluster"])
                except specfat.FatError:
                    continue
                self.chains[p] = cs
                for c in cs:
                    self.owner.setdefault(c, p)

    def cluster_of(self, pos):
        g = self.v.g
        rel = pos - self.off - g.clus_off(2)
        if rel < 0:
            return None
        return 2 + rel // g.bpc


def classify_write(lay, pos, data, T, R, S, prot):
    """-> (class, problem or None)"""
    g = lay.v.g
    n = len(data)
    for (o, ln) in lay.boot:
        if o <= pos and pos + n <= o + ln:
            return "boot", None
    for i, (o, ln) in enumerate(lay.fat):
        if o <= pos and pos + n <= o + ln:
            if pos != o or n < ln - 2:
                return "fat-partial", "FAT region written in part (%d bytes at +%d of a %d-byte copy)" % (n, pos - o, ln)
            # premise (b): entries of protected chains unchanged
            nv = _FatView(lay.v, data)
            for p in prot:
                for c in lay.chains.get(p, ()):
                    if lay.v.type == 12 and c + c // 2 + 1 >= n:
                        return "fat", "FAT write too short to hold entry %d of protected %s" % (c, p)
                    if nv.entry(c) != lay.v.entry(c):
                        return "fat", "FAT write changes entry %d of protected %s (%#x -> %#x)" % (c, p, lay.v.entry(c), nv.entry(c))
            return "fat", None
    if lay.root is not None:
        o, ln = lay.root
        if o <= pos and pos + n <= o + ln:
            return "root", (None if "/" in R else "root directory written by an operation that does not rewrite it")
    c0 = lay.cluster_of(pos)
    if c0 is None or pos + n > lay.off + g.totsec * g.bps:
        return "other", "write at %d (+%d) is in no region of the volume" % (pos, n)
    c1 = lay.cluster_of(pos + n - 1)
    for c in range(c0, c1 + 1):
        who = lay.owner.get(c)
        if who is None:
            # free in the durable FAT, or allocated but reachable from no path: no durable file lives there
            continue
        if who in T or who in R or any(who == s or who.startswith(s.rstrip("/") + "/") for s in S):
            continue
        return "cluster", "cluster %d of %s written (neither target nor rewritten directory)" % (c, who)
    return "cluster", None


class _FatView:
    """decode entries of a FAT given as bytes, with the durable volume's width"""

    def __init__(self, v, data):
        self.t, self.f = v.type, data

    def entry(self, k):
        f = self.f
        if self.t == 12:
            a = k + k // 2
            w = f[a] | f[a + 1] << 8
            return (w >> 4) if k & 1 else (w & 0xFFF)
        if self.t == 16:
            return f[2 * k] | f[2 * k + 1] << 8
        return (f[4 * k] | f[4 * k + 1] << 8 | f[4 * k + 2] << 16 | f[4 * k + 3] << 24) & 0x0FFFFFFF


# ---------------------------------------------------------------------------
# one history
# ---------------------------------------------------------------------------

def pieces(pos, data, off, bps):
    """sector-aligned pieces of a write, in ascending order"""
    out = []
    i = 0
    while i < len(data):
        a = pos + i
        end = ((a - off) // bps + 1) * bps + off
        j = min(len(data), i + (end - a))
        out.append((a, data[i:j]))
        i = j
    return out


def check_point(img, kw, durable, prot, want_paths=None):
    """-> None | (kind, detail, path)"""
    try:
        f = ro_mount(img, kw)
    except Exception as e:  # noqa
        return ("unmountable", "%s: %s" % (exc_class(e), str(e)[:120]), None)
    try:
        listed = {}
        for p in prot:
            d = parent(p)
            try:
                if d not in listed:
                    listed[d] = set(f.listdir(d))
            except Exception as e:  # noqa
                return ("protected-unlisted", "listdir(%s) raises %s; protected file %s" % (d, exc_class(e), p), p)
            if p.rsplit("/", 1)[1] not in listed[d]:
                return ("protected-unlisted", "%s no longer listed in %s" % (p, d), p)
            try:
                if not f.exists(p):
                    return ("protected-unreachable", "%s does not exist" % p, p)
                b = f.readbytes(p)
            except Exception as e:  # noqa
                return ("protected-unreadable", "%s: %s" % (p, exc_class(e)), p)
            exp = durable[p]
            if len(b) != exp[1] or hashlib.sha256(b).hexdigest()[:16] != exp[2]:
                return ("protected-content", "%s reads back %d bytes (durable: %d), content %s" %
                        (p, len(b), exp[1], "differs" if len(b) == exp[1] else "truncated/extended"), p)
        return None
    finally:
        drop(f)


def compacted_ancestor(lay, pos, data, cls, path, R):
    """is the write that was cut a rewrite of a directory in R that is a proper ancestor of path's directory"""
    if cls == "root":
        owners = {"/"}
    else:
        c0, c1 = lay.cluster_of(pos), lay.cluster_of(pos + len(data) - 1)
        owners = {lay.owner.get(c) for c in range(c0, c1 + 1)}
    d = parent(path)
    for o in owners:
        if o is None or o not in R:
            continue
        if o != d and (o == "/" or d.startswith(o.rstrip("/") + "/")):
            return True
    return False


def relation(path, R):
    """how a lost protected file relates to the rewritten directories"""
    q = parent(path)
    for _ in range(64):
        if q in R:
            return "ancestor-rewritten"
        if q == "/":
            break
        q = parent(q)
    return "unrelated"


def fnv(xs):
    h = 14695981039346656037
    for x in xs:
        h = ((h ^ x) * 1099511628211) % (1 << 64)
    return h


def model_queries(lay, pre, seg, kw, r, limit):
    """torn FAT copies of one operation: (driver request, what the real parser reads)"""
    fo, fn = lay.fat[0]
    datas = [bytes(e[1]) for e in seg if e[0] != "T" and e[0] == fo and len(e[1]) >= fn - 2]
    if not datas:
        return []
    base = bytes(pre[fo:fo + fn])
    bps = lay.v.g.bps
    out = []
    cuts = set()
    for k in range(len(datas)):
        for j in list(range(0, len(datas[k]) + 1, bps)) + [r.randint(0, len(datas[k])) for _ in range(2)]:
            cuts.add((k, j))
    cuts = sorted(cuts)
    r.shuffle(cuts)
    for (k, j) in cuts[:limit]:
        reg = bytearray(base)
        for d in datas[:k]:
            reg[:len(d)] = d
        reg[:j] = datas[k][:j]
        im = bytearray(pre)
        im[fo:fo + fn] = reg
        try:
            f = ro_mount(im, kw)
            real = list(f.fs.fat)
            drop(f)
        except Exception as e:  # noqa
            real = "raises " + exc_class(e)
        req = "crash fat %d %d %d %d %s %s" % (lay.v.type, k, j, len(real) if isinstance(real, list) else 0,
                                               hexs(base), " ".join(hexs(d) for d in datas))
        out.append((req, "ok %d %s" % (fnv(reg), natlist(real)) if isinstance(real, list) else real))
    return out


def run_history(cfg, ops, res=None, only_op=None, tear=True, stop_first=True, queries=None, qrng=None):
    """-> (findings, divergences, stats); finding = dict(kind, sig, detail, op_index, point)"""
    data, off, size = make_image(cfg)
    cp = cfg.get("cp", "ibm437")
    dev = Dev(data=data, keep_data=True)
    kw = dict(encoding=cp, offset=off, lazy_load=True)
    img = bytearray(data)
    findings, divs = [], []
    stats = {"ops": 0, "writes": 0, "points": 0, "tear_points": 0, "protected_checks": 0, "classes": {}}
    handles = {}
    with warnings.catch_warnings():
        warnings.simplefilter("ignore")
        fsys = mount(dev, encoding=cp, offset=off, lazy_load=cfg.get("lazy", True))
    try:
        seq = [["<mount>"]] + [list(o) for o in ops] + [["<close>"]]
        for oi, op in enumerate(seq):
            stats["ops"] += 1
            # 1. what is durable now
            f0 = ro_mount(img, kw)
            try:
                durable = tolerant_walk(f0)
            finally:
                drop(f0)
            try:
                lay = Layout(img, off, cp)
            except specfat.FatError as e:
                findings.append({"kind": "unmountable", "sig": "crash:durable-image-unreadable", "detail": str(e), "op_index": oi, "point": None})
                break
            bps = lay.v.g.bps
            # 2. run the operation
            n0 = len(dev.wlog)
            if op[0] == "<mount>":
                n0 = 0
                T, R, S = set(), set(), set()
            elif op[0] == "<close>":
                T, R, S = set(), set(), set()
                for h in list(handles.values()):
                    p = norm(str(getattr(h, "name", "")))
                    T.add(p)
                    R.add(parent(p))
                    try:
                        h.close()
                    except Exception:  # noqa
                        pass
                fsys.close()
            else:
                T, R, S = footprint(op, durable, handles)
                # any open handle may write on behalf of its own file
                run_op(fsys, op, handles)
            seg = dev.wlog[n0:]
            if queries is not None and len(img) <= (6 << 20) and len(queries) < 40:
                queries.extend(model_queries(lay, img, seg, kw, qrng, 3 if lay.v.type == 12 else 1))
            prot = protected_paths(durable, T, R, S)
            stats["writes"] += len(seg)
            if only_op is not None and oi != only_op:
                for ent in seg:
                    if ent[0] == "T":
                        continue
                    img[ent[0]:ent[0] + len(ent[1])] = ent[1]
                continue
            # 3. premise check + crash points
            # a directory of the durable tree is rewritten from its first cluster on, in chain order (so that a cut
            # leaves "new clusters, then old clusters"); anything else is a different way to lose entries than the
            # compaction of finding D27
            out_of_order = False
            nxt = {}
            for ent in seg:
                if ent[0] == "T":
                    continue
                c_ = lay.cluster_of(ent[0])
                o_ = lay.owner.get(c_) if c_ is not None else None
                if o_ is None or o_ not in lay.chains or c_ not in lay.chains[o_] or o_ not in R:
                    continue
                k_ = lay.chains[o_].index(c_)
                if k_ != 0 and k_ != nxt.get(o_, 0):
                    out_of_order = True
                nxt[o_] = k_ + 1
            for wi, ent in enumerate(seg):
                if ent[0] == "T":
                    divs.append({"what": "device truncated during %s" % opkind(op), "op_index": oi})
                    continue
                pos, wdata = ent
                cls, problem = classify_write(lay, pos, wdata, T, R, S, prot)
                stats["classes"][cls] = stats["classes"].get(cls, 0) + 1
                if problem:
                    divs.append({"what": problem, "op": opkind(op), "op_index": oi, "write": wi, "class": cls})
                ps = pieces(pos, wdata, off, bps) if tear else [(pos, wdata)]
                for pi, (a, chunk) in enumerate(ps):
                    if img[a:a + len(chunk)] == chunk:
                        continue
                    if a + len(chunk) > len(img):
                        img.extend(b"\0" * (a + len(chunk) - len(img)))
                    img[a:a + len(chunk)] = chunk
                    last_piece = pi == len(ps) - 1
                    if last_piece and wi == len(seg) - 1:
                        break   # operation complete: not a crash point of this operation
                    stats["points"] += 1
                    if not last_piece:
                        stats["tear_points"] += 1
                    stats["protected_checks"] += len(prot)
                    bad = check_point(img, kw, durable, prot)
                    if bad:
                        kind, detail, pth = bad
                        rel = ""
                        if pth is not None:
                            rel = ":" + relation(pth, R)
                        sig = "crash:%s:%s:%s-write%s%s" % (kind, opkind(op), cls, "" if last_piece else ":torn", rel)
                        if (rel == ":ancestor-rewritten" and kind != "protected-content" and cls in ("cluster", "root")
                                and op[0] in ("remove", "removedir", "removetree", "move")
                                and compacted_ancestor(lay, pos, wdata, cls, pth, R)):
                            # one root cause, one finding class: a directory that loses an entry is rewritten
                            # compacted (later entries move up); cut between two of its sectors/clusters, the
                            # entries of its sub-directories are torn or doubled
                            sig = "crash:ancestor-directory-compacted:%s" % op[0]
                            if out_of_order:
                                sig = "crash:ancestor-directory-rewritten-out-of-chain-order:%s" % op[0]
                        findings.append({"kind": kind, "sig": sig, "op_index": oi, "point": [wi, pi],
                                         "detail": "%s — crash during %s after %s of write %d/%d (%s region, %d bytes at %d)"
                                                   % (detail, opkind(op), "sector %d/%d" % (pi + 1, len(ps)), wi + 1, len(seg), cls, len(wdata), pos)})
                        if stop_first:
                            return findings, divs, stats
    finally:
        try:
            fsys.fs.initialized = False
        except Exception:  # noqa
            pass
    return findings, divs, stats


# ---------------------------------------------------------------------------
# generation
# ---------------------------------------------------------------------------

NAMES = ["A.TXT", "B.BIN", "a long file name.dat", "notes on things.txt", "Mixed.Case", "Z", "report-2020-final-version.doc", "x.y.z"]
DIRS = ["d", "Sub Directory", "DEEP", "docs", "another long directory name"]


def configs(tier):
    out = [
        {"fmt": "spec", "geom": dict(totsec=600, spc=1, rootent=64, nfats=2)},                    # FAT12, 1-sector clusters
        {"fmt": "spec", "geom": dict(totsec=2400, spc=4, rootent=32, nfats=2)},                   # FAT12, 2 KiB clusters
        {"fmt": "spec", "geom": dict(totsec=9000, spc=2, rootent=128, nfats=2)},                  # FAT16
        {"fmt": "spec", "geom": dict(totsec=70000, spc=1, rootent=0, rsvd=32, nfats=2)},          # FAT32
    ]
    if tier != "quick":
        out += [
            {"fmt": "spec", "geom": dict(totsec=600, spc=1, rootent=64, nfats=1)},
            {"fmt": "spec", "geom": dict(totsec=9000, spc=2, rootent=128, nfats=3), "offset": 1536},
            {"fmt": "spec", "geom": dict(totsec=66000, spc=8, rootent=512, nfats=2, bps=512)},
            {"fmt": "spec", "geom": dict(totsec=70000, spc=1, rootent=0, rsvd=32, nfats=1)},
            {"fmt": "pyfatfs", "type": 12, "size": 1 << 20},
            {"fmt": "pyfatfs", "type": 16, "size": 5 << 20},
        ]
    return out


def gen_history(r, n, bpc):
    """nested trees first, then a mix of every mutating primitive"""
    dirs = ["/"]
    files = []
    ops = []
    tag = [0]

    def newname(pool):
        return r.choice(pool)

    def size():
        return r.choice([0, 1, bpc - 1, bpc, bpc + 1, 2 * bpc + 7, 3 * bpc, r.randint(1, 4 * bpc)])

    for _ in range(n):
        tag[0] += 1
        x = r.random()
        d = r.choice(dirs)
        if x < 0.16 or len(dirs) < 3:
            p = d.rstrip("/") + "/" + newname(DIRS)
            if p not in dirs and p.count("/") <= 4:
                ops.append(["makedir", p])
                dirs.append(p)
            continue
        if x < 0.42 or len(files) < 3:
            p = d.rstrip("/") + "/" + newname(NAMES)
            if p in dirs:
                continue
            ops.append(["writebytes", p, tag[0], size()])
            if p not in files:
                files.append(p)
            continue
        p = r.choice(files)
        if x < 0.50:
            ops.append(["appendbytes", p, tag[0], size()])
        elif x < 0.60:
            ops.append(["remove", p])
            files.remove(p)
        elif x < 0.66:
            q = r.choice(dirs).rstrip("/") + "/" + newname(NAMES)
            if q not in dirs and q != p:
                ops.append(["copy", p, q, 1])
                if q not in files:
                    files.append(q)
        elif x < 0.72:
            q = r.choice(dirs).rstrip("/") + "/" + newname(NAMES)
            if q not in dirs and q != p and q not in files:
                ops.append(["move", p, q])
                files.remove(p)
                files.append(q)
        elif x < 0.76:
            ops.append(["setinfo", p, {"modified": 1500000000 + tag[0] * 86400}])
        elif x < 0.80:
            ops.append(["create", p, True])
        elif x < 0.84:
            q = d.rstrip("/") + "/" + newname(NAMES)
            if q not in dirs:
                ops.append(["create", q])
                if q not in files:
                    files.append(q)
        elif x < 0.89 and len(dirs) > 2:
            t = r.choice(dirs[1:])
            ops.append(["removetree", t])
            dirs = [y for y in dirs if not (y == t or y.startswith(t + "/"))]
            files = [y for y in files if not y.startswith(t + "/")]
        elif x < 0.92:
            segs = [newname(DIRS) for _ in range(r.randint(2, 3))]
            q = d.rstrip("/") + "/" + "/".join(segs)
            if q.count("/") <= 5:
                ops.append(["makedirs", q, 1])
                acc = d.rstrip("/")
                for s in segs:
                    acc = acc + "/" + s
                    if acc not in dirs:
                        dirs.append(acc)
        else:
            # file-object session: open r+ / seek / write / truncate / close as separate operations
            h = "h%d" % tag[0]
            ops.append(["open", h, p, r.choice(["r+", "a", "w"])])
            ops.append(["write", h, tag[0], size()])
            if r.random() < 0.5:
                ops.append(["truncate", h, r.choice([0, 1, bpc, bpc + 1])])
            ops.append(["close", h])
    return ops


def shift_history(r, bpc):
    """a directory whose entries span several sectors; a protected file below a late sub-directory;
    then removals / creations earlier in that directory (entries behind them move)"""
    ops = [["makedir", "/top"]]
    names = []
    for i in range(r.randint(3, 9)):
        nm = "entry number %d with a name of some length%s.txt" % (i, "x" * r.randint(0, 40))
        names.append(nm)
        ops.append(["writebytes", "/top/" + nm, i, r.choice([0, 10, bpc + 1])])
    sub = "/top/" + r.choice(["SUB", "a sub directory with a long name", "Sub.Dir"])
    ops.append(["makedir", sub])
    ops.append(["writebytes", sub + "/kept file with long name.bin", 77, 2 * bpc + 3])
    ops.append(["writebytes", sub + "/KEPT.BIN", 78, 5])
    for i in range(r.randint(2, 5)):
        nm = "later entry %d%s" % (i, "y" * r.randint(0, 30))
        names.append(nm)
        ops.append(["writebytes", "/top/" + nm, 100 + i, 3])
    r.shuffle(names)
    for nm in names[:r.randint(2, len(names))]:
        x = r.random()
        if x < 0.6:
            ops.append(["remove", "/top/" + nm])
        elif x < 0.8:
            ops.append(["move", "/top/" + nm, "/" + nm[:20]])
        else:
            ops.append(["writebytes", "/top/" + nm + ".2", 5, 1])
    return ops


def grow_history(r, bpc):
    """a directory filled to exactly the end of its cluster, above a sub-directory with durable files; the
    lowest free clusters hold stale bytes that parse as long-name slots; then one more entry (the directory
    grows into such a cluster), more entries, a second growth"""
    spc = bpc // 32
    ops = [["makedir", "/d"], ["makedir", "/d/sub"], ["writebytes", "/d/sub/f.bin", 1, bpc + 5],
           ["writebytes", "/d/sub/a long name in sub.txt", 2, 7],
           ["writebytes", "/GARB.BIN", "fill:O", 3 * bpc], ["writebytes", "/GARB2.BIN", "fill:\x0f", 2 * bpc],
           ["remove", "/GARB.BIN"], ["remove", "/GARB2.BIN"]]
    used = 3                                            # '.', '..', 'sub'
    k = 0
    while used < spc:
        if spc - used >= 3 and r.random() < 0.4:
            ops.append(["create", "/d/long name %02d.txt" % k])     # 2 slots (13 units or fewer + alias)
            used += 2
        else:
            ops.append(["create", "/d/E%03d.TXT" % k])
            used += 1
        k += 1
    ops.append(["create", "/d/GROW%d.TXT" % r.randint(0, 9)])
    ops.append(["writebytes", "/d/after growth with a long name.bin", 3, 10])
    for j in range(spc):
        ops.append(["create", "/d/M%03d.TXT" % j])
    ops.append(["remove", "/d/E000.TXT"] if any(o[1] == "/d/E000.TXT" for o in ops) else ["listdir", "/d"])
    return ops


def shrink(cfg, ops, sig, budget=25, seconds=45):
    """drop earlier operations while the last one still fails the same way (only its crash points are re-examined)"""
    import time
    t0 = time.time()
    cur = list(ops)
    tries = 0
    i = 0
    while i < len(cur) - 1 and tries < budget and time.time() - t0 < seconds:
        cand = cur[:i] + cur[i + 1:]
        tries += 1
        try:
            f, _, _ = run_history(cfg, cand, only_op=len(cand))
        except Exception:  # noqa
            f = []
        if any(x["sig"] == sig for x in f):
            cur = cand
        else:
            i += 1
    return cur


def run(tier):
    res = Result("crash")
    r = rng("crash")
    nhist = 3 if tier == "quick" else 14
    nops = 22 if tier == "quick" else 34
    seen = {}
    for ci, cfg in enumerate(configs(tier)):
        g = specfat.Geom(**cfg["geom"]) if cfg["fmt"] == "spec" else None
        bpc = g.bpc if g else 2048
        for hi in range(nhist):
            ops = gen_history(r, nops, bpc) if hi % 3 == 0 else (shift_history(r, bpc) if hi % 3 == 2 else grow_history(r, bpc))
            queries = []
            try:
                findings, divs, st = run_history(cfg, ops, queries=queries if hi == 0 else None, qrng=r)
            except Exception as e:  # noqa
                res.fail(["C12"], "crash:harness-raises:" + exc_class(e), repr(e)[:300], {"suite": "crash", "cfg": cfg, "ops": ops})
                continue
            res.case("cfg%d:h%d" % (ci, hi))
            res.evaluations += st["points"]
            for k in ("ops", "writes", "points", "tear_points", "protected_checks"):
                res.count(k, st[k])
            for k, v in st["classes"].items():
                res.count("write:" + k, v)
                res.nontrivial.add("cfg%d:%s" % (ci, k))
            for o in ops:
                res.count("op:" + opkind(o))
            if hi == 0:
                res.sample({"cfg": cfg, "n_ops": len(ops), "crash_points": st["points"], "torn": st["tear_points"],
                            "writes": st["writes"], "write_classes": st["classes"]})
            if queries:
                drv = Driver()
                for q, _ in queries:
                    drv.ask(q)
                answers = drv.run(timeout=900)
                for (q, real), got in zip(queries, answers):
                    res.case("cfg%d:model-torn-fat" % ci)
                    res.count("model:torn-fat-tables")
                    if got != real:
                        res.diverge("crash-model", q[:200], got[:200], real[:200], ["C12"])
            for dv in divs[:3]:
                res.diverge("crash-premise", "%s (op %s #%s)" % (dv["what"], dv.get("op"), dv.get("op_index")),
                            "every write hits boot/FAT/root/free/target/rewritten-directory clusters", dv["what"], ["C12"])
            for f in findings:
                n = seen.get(f["sig"], 0)
                seen[f["sig"]] = n + 1
                if n >= 1:
                    continue
                upto = ops[:max(0, f["op_index"])] if f["op_index"] <= len(ops) else ops
                small = shrink(cfg, upto, f["sig"]) if len(seen) <= 6 and 0 < f["op_index"] <= len(ops) else upto
                res.fail(["C12"], f["sig"], f["detail"], {"suite": "crash", "cfg": cfg, "ops": small, "sig": f["sig"]})
    return res


def replay(rep, signature=None):
    findings, divs, st = run_history(rep["cfg"], rep["ops"], stop_first=False)
    sig = rep.get("sig") or signature
    hit = [f for f in findings if sig is None or f["sig"] == sig]
    txt = "history of %d ops, %d crash points; findings: %s" % (len(rep["ops"]), st["points"], sorted({f["sig"] for f in findings}))
    for f in hit[:3]:
        txt += "\n  " + f["detail"]
    return bool(hit), txt
