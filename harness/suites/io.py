"""Suite `io` (C02, also C03/C04 on the closed image): call sequences on file
objects — open(mode)/seek/read/readinto/write/truncate/tell/close — with offsets
and lengths around 0, ±1 of every cluster multiple, end of file and beyond
several clusters; all modes; several files and handles; cluster sizes 512 B..64 KiB;
FAT12/16/32; free space pre-filled with garbage.  Reference: the file objects of
the reference filesystem (io.BytesIO + PyFilesystem2 mode gating).
"""
from harness.common import Result, rng
from harness import histcheck, specfat

MODES = ["r", "r+", "w", "w+", "a", "a+", "x", "x+"]


def gen(r, bpc, nfiles, nops):
    """ops are generated against a shadow reference filesystem so that offsets are aimed at the real
    sizes/positions and the program stays inside the property's domain (no write with the position
    beyond end-of-file)."""
    from harness.fsrun import RefFS, run_op
    shadow = RefFS()
    sh = {}
    paths = ["/F%d.BIN" % i for i in range(nfiles)] + ["/dir/G.BIN"]
    ops = []
    tag = [0]

    def t():
        tag[0] += 1
        return tag[0]

    def emit(op):
        ops.append(op)
        return run_op(shadow, op, sh)
    emit(["makedir", "/dir"])
    for p in paths[:-1]:
        emit(["writebytes", p, t(), r.choice([0, 1, bpc - 1, bpc, bpc + 1, 2 * bpc, 3 * bpc + 7, 5 * bpc])])
    modes = {}
    hid = 0
    for _ in range(nops):
        c = r.random()
        if (c < 0.18 or not modes) and len(modes) < 3:
            p = r.choice(paths)
            busy_w = {pp for pp, m in modes.values() if m != "r"}
            busy_any = {pp for pp, m in modes.values()}
            mode = r.choice(MODES)
            if p in busy_w:
                continue
            if mode != "r" and p in busy_any:
                mode = "r"
            hid += 1
            h = "h%d" % hid
            if emit(["open", h, p, mode])[0] == "ok":
                modes[h] = (p, mode)
            continue
        if not modes:
            continue
        h = r.choice(sorted(modes))
        p, mode = modes[h]
        n = shadow.getsize(p)
        pos = sh[h].tell()
        if c < 0.38:
            whence = r.choice([0, 0, 0, 1, 2])
            tgt = min(n, max(0, r.choice([0, 1, bpc - 1, bpc, bpc + 1, 2 * bpc - 1, 2 * bpc, 2 * bpc + 1, n - 1, n,
                                          n - bpc, n // 2, pos + 1, pos - 1])))
            if r.random() < 0.05:
                tgt = -1 - r.randrange(3)       # negative target: both sides must refuse
            off = tgt if whence == 0 else (tgt - pos if whence == 1 else tgt - n)
            emit(["seek", h, off, whence])
        elif c < 0.58:
            emit(["read", h, r.choice([-1, 0, 1, bpc - 1, bpc, bpc + 1, 3 * bpc, 10 * bpc])])
        elif c < 0.63:
            emit(["readinto", h, r.choice([1, bpc, 2 * bpc + 3])])
        elif c < 0.80:
            if pos > n and "a" not in mode:
                emit(["seek", h, n, 0])          # stay in the domain: never write beyond end-of-file
            emit(["write", h, t(), r.choice([1, 2, bpc - 1, bpc, bpc + 1, 2 * bpc + 5, 4 * bpc])])
        elif c < 0.88:
            x = r.random()
            if x < 0.25 and n > 0 and "r" != mode:
                # aimed: position on a cluster boundary (or next to it), cut there, and use the handle at once —
                # no seek()/tell() in between that would re-derive the cached cluster cursor
                k = r.choice([m * bpc + d for m in range(0, n // bpc + 1) for d in (-1, 0, 1) if 0 <= m * bpc + d <= n] or [0])
                emit(["seek", h, k, 0])
                emit(["truncate", h, None] if r.random() < 0.6 else ["truncate", h, max(0, k - r.choice([0, 1, bpc]))])
                emit(r.choice([["write", h, t(), r.choice([1, bpc, bpc + 1])], ["read", h, r.choice([-1, 1, bpc])],
                               ["write", h, t(), 2 * bpc + 3]]))
            elif x < 0.45:
                if pos > n:
                    emit(["seek", h, n, 0])      # truncate() at a position beyond EOF extends: keep to plain cases
                emit(["truncate", h, None])
            else:
                emit(["truncate", h, max(0, r.choice([0, 1, bpc - 1, bpc, bpc + 1, n, n + 1, n + bpc, n - 1, n // 2, pos]))])
        elif c < 0.93:
            emit(["tell", h])
        else:
            emit(["close", h])
            del modes[h]
    for h in sorted(modes):
        emit(["close", h])
    for p in paths:
        emit(["readbytes", p])
    return ops, paths


def configs(tier):
    out = [
        {"fmt": "spec", "geom": dict(totsec=600, spc=1, rootent=64, nfats=2), "garbage": True},
        {"fmt": "spec", "geom": dict(totsec=2000, spc=4, rootent=64, nfats=2), "garbage": True},
        {"fmt": "spec", "geom": dict(totsec=9000, spc=2, rootent=64, nfats=1, bps=1024)},
        {"fmt": "spec", "geom": dict(totsec=5000, spc=16, rootent=64, nfats=2)},
        {"fmt": "spec", "geom": dict(totsec=70000, spc=1, rootent=0, rsvd=32, nfats=2), "garbage": True},
        {"fmt": "pyfatfs", "type": 12, "size": 1 << 20},
    ]
    if tier != "quick":
        out += [
            {"fmt": "spec", "geom": dict(totsec=20000, spc=128, rootent=512, nfats=2)},       # 64 KiB clusters
            {"fmt": "spec", "geom": dict(totsec=3000, spc=8, rootent=128, nfats=2, bps=4096)},  # 32 KiB clusters
            {"fmt": "pyfatfs", "type": 16, "size": 5 << 20},
            {"fmt": "pyfatfs", "type": 32, "size": 34 << 20},
        ]
    return out


def fill_free_space(cfg):
    """free clusters carry non-zero garbage (the builder's `garbage` option fills boot/FAT slack only)"""
    return cfg


def cursor_correspondence(res, tier):
    """real FatIO cursor fields after seek(offset) vs Model.FatIO.seekCursor, and the
    seek-past-EOF probe (tell() of a byte buffer is the requested position)."""
    from harness.common import Driver
    from harness.fsrun import World
    d = Driver()
    pend = []
    for cfg in ({"fmt": "spec", "geom": dict(totsec=600, spc=1, rootent=64, nfats=2)},
                {"fmt": "spec", "geom": dict(totsec=2000, spc=4, rootent=64, nfats=2)},
                {"fmt": "spec", "geom": dict(totsec=9000, spc=2, rootent=64, nfats=1, bps=1024)}):
        w = World(cfg)
        try:
            bpc = specfat.Geom(**cfg["geom"]).bpc
            for size in (0, 1, bpc - 1, bpc, bpc + 1, 3 * bpc, 3 * bpc + 5):
                path = "/S%d.BIN" % size
                w.fs.writebytes(path, bytes(size))
                f = w.fs.openbin(path, "r")
                for off in sorted({0, 1, bpc - 1, bpc, bpc + 1, 2 * bpc, size - 1, size, size // 2} - {-1}):
                    if off > size:
                        continue
                    f.seek(off)
                    impl = "ok %d %d %d" % (f._FatIO__bpos, f._FatIO__cindex, f._FatIO__coffpos)
                    pend.append((d.ask("vol seekcursor %d %d %d" % (bpc, size, off)), impl, "cur:%d:%d" % (bpc, size % bpc == 0)))
                # probe: position beyond end-of-file (then tell/read, no write)
                got = f.seek(size + 7)
                if got != size + 7 or f.tell() != size + 7:
                    res.fail(["C02"], "io:seek-past-eof-clamps-to-size",
                             "seek(size+7) on a %d-byte file returns %d and tell() %d; a byte buffer reports %d" % (size, got, f.tell(), size + 7),
                             {"suite": "io", "probe": "seek-past-eof", "size": size, "cfg": cfg})
                f.close()
        finally:
            w.abandon()
    out = d.run()
    for i, impl, tag in pend:
        res.case(tag)
        res.count("cmp:cursor")
        if out[i] != impl:
            res.diverge("seekcursor", d.lines[i], out[i], impl, ["C02"])


def write_correspondence(res, tier):
    """the clusters of a file on the device before and after one real write() through a handle, vs
    Model.FatIO.writeClusters on the clusters before (new clusters: whatever garbage they held)"""
    from harness.common import Driver, hexs
    from harness.fsrun import World, data_for
    d = Driver()
    pend = []
    cfgs = [{"fmt": "spec", "geom": dict(totsec=600, spc=1, rootent=64, nfats=2), "fill_free": True},
            {"fmt": "spec", "geom": dict(totsec=2000, spc=4, rootent=64, nfats=2), "fill_free": True}]
    if tier != "quick":
        cfgs.append({"fmt": "spec", "geom": dict(totsec=9000, spc=2, rootent=64, nfats=1, bps=1024), "fill_free": True})
    tag = 0
    for ci, cfg in enumerate(cfgs):
        bpc = specfat.Geom(**cfg["geom"]).bpc
        sizes = (0, 1, bpc - 1, bpc, bpc + 1, 2 * bpc, 3 * bpc + 5)
        ns = (1, bpc - 1, bpc, bpc + 1, 2 * bpc + 3)
        for size in sizes:
            for pos in sorted({0, 1, bpc - 1, bpc, bpc + 1, size - 1, size, size // 2}):
                if pos < 0 or pos > size:
                    continue
                for n in (ns if tier != "quick" else ns[::2]):
                    tag += 1
                    w = World(dict(cfg, seed=ci))
                    try:
                        pf = w.fs.fs
                        w.fs.writebytes("/PAD.BIN", bytes([7]) * (bpc + 1))      # something before the file
                        w.fs.writebytes("/F.BIN", data_for("wc%d" % tag, size))
                        w.fs.remove("/PAD.BIN")                                  # a hole: the extension is not contiguous
                        h = w.fs.openbin("/F.BIN", "r+")
                        h.seek(pos)
                        before = w.dev.snapshot()
                        data = data_for("w%d" % tag, n)
                        h.write(data)
                        after = w.dev.snapshot()
                        ent = pf.root_dir.get_entry("/F.BIN")
                        chain = list(pf.get_cluster_chain(ent.get_cluster()))
                        h.close()

                        def clus(img, c):
                            o = w.off + pf.get_data_cluster_address(c)
                            return img[o:o + bpc]
                        cb = [clus(before, c) for c in chain]
                        ca = [clus(after, c) for c in chain]
                        impl = "ok " + ",".join(hexs(x) for x in ca)
                        pend.append((d.ask("vol writeclusters %d %d %d %s %s" % (bpc, size, pos, hexs(data), ",".join(hexs(x) for x in cb))),
                                     impl, "wc:%d:%s:%s" % (bpc, "eof" if pos == size else "in", "grow" if pos + n > size else "inplace")))
                    finally:
                        w.abandon()
    out = d.run()
    for i, impl, tg in pend:
        res.case(tg)
        res.count("cmp:writeclusters")
        if out[i] != impl:
            res.diverge("writeclusters", d.lines[i][:200], out[i][:200], impl[:200], ["C02"])


def grown_elsewhere(res, tier, cfgs, seen):
    """a handle parked at a position (end of file on a cluster boundary included) while the file grows through
    another, path-based call; then the parked handle writes without seeking: its cached cluster cursor is stale.
    Judged like every history: byte-buffer reference, frame, independent checker on the closed image."""
    for ci, cfg0 in enumerate(cfgs[:2] + cfgs[5:6] if tier == "quick" else cfgs):
        cfg = dict(cfg0, seed=7000 + ci, fill_free=True)
        bpc = specfat.Geom(**cfg["geom"]).bpc if cfg["fmt"] == "spec" else (512 if cfg["type"] != 16 else 1024)
        if bpc > 8192:
            continue
        sizes = (bpc, 2 * bpc, 2 * bpc + 5) if tier == "quick" else (1, bpc, 2 * bpc, 2 * bpc + 5, 3 * bpc)
        for size in sizes:
            for pos in sorted({0, size, size - 1, bpc, size // 2}):
                if pos < 0 or pos > size:
                    continue
                for m, n in ((1, bpc), (bpc, 1), (2 * bpc + 3, 3 * bpc + 1)) if tier == "quick" else \
                        [(a, b) for a in (1, bpc, 2 * bpc + 3) for b in (1, bpc, 3 * bpc + 1)]:
                    ops = [["writebytes", "/F0.BIN", 1, size], ["writebytes", "/OTHER.BIN", 9, bpc + 1],
                           ["open", "h1", "/F0.BIN", "r+"], ["seek", "h1", pos, 0], ["appendbytes", "/F0.BIN", 2, m],
                           ["write", "h1", 3, n], ["tell", "h1"], ["close", "h1"], ["readbytes", "/F0.BIN"],
                           ["readbytes", "/OTHER.BIN"]]
                    c = dict(cfg)
                    c["_paths"] = ["/F0.BIN", "/OTHER.BIN"]
                    findings, stats = histcheck.check_history(c, ops, remount_every=0, io_frame=True)
                    res.case("grown-elsewhere:cfg%d:%s:%s" % (ci, "eof" if pos == size else "in", "aligned" if size % bpc == 0 else "odd"))
                    res.count("programs:grown-elsewhere")
                    if findings:
                        histcheck.report(res, c, ops, findings, "io", shrink_budget=10, seen=seen)


def reread_after_write(res, tier, cfgs, seen):
    """read inside cluster k, then a write that starts on an earlier cluster boundary and runs through k, then read
    (and write unaligned) inside k again: what was read before must not come back (any caching of cluster contents
    has to see the write)"""
    for ci, cfg0 in enumerate(cfgs[:2] + cfgs[5:6] if tier == "quick" else cfgs):
        cfg = dict(cfg0, seed=7100 + ci, fill_free=True)
        bpc = specfat.Geom(**cfg["geom"]).bpc if cfg["fmt"] == "spec" else (512 if cfg["type"] != 16 else 1024)
        if bpc > 8192:
            continue
        for nclus in (2, 3, 4):
            for k in range(1, nclus):
                for j in range(0, k):
                    for d in ((3,) if tier == "quick" else (0, 3, bpc - 1)):
                        size = nclus * bpc - 5
                        wlen = (k - j) * bpc + 7
                        ops = [["writebytes", "/F0.BIN", 1, size], ["open", "h1", "/F0.BIN", "r+"],
                               ["seek", "h1", k * bpc + d, 0], ["read", "h1", 9],
                               ["seek", "h1", j * bpc, 0], ["write", "h1", 2, wlen],
                               ["seek", "h1", k * bpc + d, 0], ["read", "h1", 9],
                               ["seek", "h1", k * bpc + 1, 0], ["write", "h1", 3, 2],
                               ["seek", "h1", 0, 0], ["read", "h1", -1], ["close", "h1"], ["readbytes", "/F0.BIN"]]
                        c = dict(cfg)
                        c["_paths"] = ["/F0.BIN"]
                        findings, stats = histcheck.check_history(c, ops, remount_every=0, io_frame=True)
                        res.case("reread-after-write:cfg%d:n%d:k%d:j%d" % (ci, nclus, k, j))
                        res.count("programs:reread-after-write")
                        if findings:
                            histcheck.report(res, c, ops, findings, "io", shrink_budget=10, seen=seen)


def run(tier):
    res = Result("io")
    cursor_correspondence(res, tier)
    write_correspondence(res, tier)
    r = rng("io")
    nprog = 80 if tier == "quick" else 1200
    cfgs = configs(tier)
    seen = {}
    grown_elsewhere(res, tier, cfgs, seen)
    reread_after_write(res, tier, cfgs, seen)
    for i in range(nprog):
        cfg = dict(cfgs[i % len(cfgs)])
        cfg["seed"] = i
        cfg["fill_free"] = True
        if cfg["fmt"] == "spec":
            bpc = specfat.Geom(**cfg["geom"]).bpc
        else:
            bpc = 512 if cfg["type"] != 16 else 1024
        if bpc > 8192:
            nops = 12
        else:
            nops = r.choice([8, 16, 30])
        ops, paths = gen(r, bpc, r.choice([1, 2, 3]), nops)
        cfg["_paths"] = paths
        findings, stats = histcheck.check_history(cfg, ops, remount_every=0, io_frame=True)
        res.case("cfg%d:n%d:%s" % (i % len(cfgs), nops, ",".join(sorted({o[3] for o in ops if o[0] == "open"}))))
        res.count("programs")
        res.count("ops", stats["ops"])
        for o in ops:
            res.count("op:" + (o[0] if o[0] != "open" else "open(%s)" % o[3]))
        for k, v in stats["errors"].items():
            res.count("err:" + k, v)
        if i < 2:
            res.sample({"cfg": {k: v for k, v in cfg.items() if k != "_paths"}, "ops": ops[:10]})
        if findings:
            histcheck.report(res, cfg, ops, findings, "io", shrink_budget=40 if tier == "quick" else 80, seen=seen)
    return res


def replay(rep, signature=None):
    if rep.get("probe") == "seek-past-eof":
        from harness.fsrun import World
        w = World(rep["cfg"])
        try:
            w.fs.writebytes("/P.BIN", bytes(rep["size"]))
            f = w.fs.openbin("/P.BIN", "r")
            got = f.seek(rep["size"] + 7)
            return got != rep["size"] + 7, "seek(size+7) -> %d, tell() -> %d" % (got, f.tell())
        finally:
            w.abandon()
    findings, _ = histcheck.check_history(rep["cfg"], rep["ops"], remount_every=0, io_frame=True)
    hit = [f for f in findings if f.kind == rep.get("kind")]
    return bool(hit), "findings: %s\n%s" % (sorted({f.kind for f in findings}), "\n".join(repr(f) for f in hit[:3]))
