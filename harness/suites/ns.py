"""Suite `ns` (C01, C03, C04, C05, C06, C08, C09): namespace programs over mixed
name pools, judged against a reference filesystem (fs.memoryfs.MemoryFS), a
fresh mount of the device bytes after every mutating call, the independent
reader and the independent checker.
"""
from harness.fsrun import RefFS as MemoryFS

from harness.common import Result, rng
from harness import histcheck
from harness.fsrun import run_op

POOLS = {
    "plain83": ["A.TXT", "FILE1.BIN", "README", "DATA", "X.Y", "NUM123.DAT", "DIR1", "SUB"],
    "mixed": ["readme.md", "Foo.txt", "lower", "Mixed.Case", "b.c"],
    "long": ["a long file name.txt", "another long file name.txt", "yet another long name.text",
             "directory with a long name", "thirteen_char", "exactly26characters_long__", "x" * 40 + ".bin"],
    "collide": ["collision_0001.dat", "collision_0002.dat", "collision_0003.dat", "collision_0004.dat",
                "collision_0005.dat", "collision_0006.dat", "collision_0007.dat", "collision_0008.dat",
                "collision_0009.dat", "collision_0010.dat", "collision_0011.dat"],
    "unicode": ["ÄÖÜ.txt", "résumé.doc", "файл.txt", "日本語ファイル.txt", "emoji😀.txt", "Ελληνικά",
                # characters outside the BMP (two UTF-16 units): 13 / 26 characters but 14 / 27 units, and 12 characters but 13 units
                "trip-\U0001F30D-01.jpg", "holiday picture \U0001F30D 2024.tar", "vacation-\U0001F30D-1"],
    "dots": [".hidden", "a.b.c.d", "two..dots", "tail.dot.x", " lead space".strip() + " in name"],
}


def pool_for(r, tier):
    names = []
    for fam, lst in POOLS.items():
        k = r.randint(1, len(lst)) if fam != "collide" else r.choice([0, 3, len(lst)])
        names += r.sample(lst, k)
    r.shuffle(names)
    return names


def gen_program(r, pool, nops, mutate_weight=0.7, big=False):
    shadow = MemoryFS()
    ops = []
    dirs = ["/"]
    files = []

    def fresh_path(parent=None):
        parent = parent or r.choice(dirs)
        return parent.rstrip("/") + "/" + r.choice(pool)

    tagc = [0]

    def tag():
        tagc[0] += 1
        return tagc[0]

    for _ in range(nops):
        x = r.random()
        if x < mutate_weight:
            c = r.random()
            if c < 0.18:
                op = ["makedir", fresh_path()]
            elif c < 0.24:
                p = fresh_path()
                op = ["makedirs", p + "/" + r.choice(pool), r.random() < 0.5]
            elif c < 0.36:
                op = ["create", fresh_path() if r.random() < 0.7 or not files else r.choice(files), r.random() < 0.3]
            elif c < 0.42:
                op = ["touch", fresh_path() if r.random() < 0.6 or not files else r.choice(files)]
            elif c < 0.62:
                size = r.choice([0, 1, 100, 511, 512, 513, 1500, 4096, 5000]) if not big else r.choice([3000, 9000, 20000])
                op = ["writebytes", fresh_path() if r.random() < 0.6 or not files else r.choice(files), tag(), size]
            elif c < 0.67:
                op = ["appendbytes", fresh_path() if r.random() < 0.3 or not files else r.choice(files), tag(),
                      r.choice([1, 300, 700])]
            elif c < 0.77:
                op = ["remove", r.choice(files) if files and r.random() < 0.85 else fresh_path()]
            elif c < 0.83:
                ds = [d for d in dirs if d != "/"]
                op = ["removedir", r.choice(ds) if ds and r.random() < 0.85 else fresh_path()]
            elif c < 0.87:
                ds = [d for d in dirs if d != "/"]
                op = ["removetree", r.choice(ds) if ds and r.random() < 0.9 else "/"]
            elif c < 0.94:
                src = r.choice(files) if files and r.random() < 0.9 else fresh_path()
                op = ["copy", src, fresh_path() if r.random() < 0.8 or not files else r.choice(files), r.random() < 0.5]
            else:
                src = r.choice(files) if files and r.random() < 0.9 else fresh_path()
                op = ["move", src, fresh_path() if r.random() < 0.8 or not files else r.choice(files), r.random() < 0.5]
        else:
            c = r.random()
            anyp = r.choice(files + dirs) if r.random() < 0.7 else fresh_path()
            if c < 0.25:
                op = ["listdir", r.choice(dirs) if r.random() < 0.85 else anyp]
            elif c < 0.45:
                op = [r.choice(["exists", "isdir", "isfile"]), anyp]
            elif c < 0.6:
                # a path *through a file* is a classic
                op = ["exists", (r.choice(files) + "/" + r.choice(pool)) if files else anyp]
            elif c < 0.8:
                op = [r.choice(["getinfo", "getsize"]), anyp]
            else:
                op = ["readbytes", r.choice(files) if files else anyp]
        ops.append(op)
        run_op(shadow, op, {})
        # refresh what exists
        dirs = ["/"]
        files = []
        for path, ds, fs_ in shadow.walk("/"):
            for d in ds:
                dirs.append(path.rstrip("/") + "/" + d.name)
            for f in fs_:
                files.append(path.rstrip("/") + "/" + f.name)
    return ops


def configs(r, tier):
    """geometry / formatter / loading-mode mix"""
    out = []
    # independent formatter, small volumes
    out.append({"fmt": "spec", "geom": dict(totsec=400, spc=1, rootent=64, nfats=2), "lazy": True})
    out.append({"fmt": "spec", "geom": dict(totsec=2880, spc=2, rootent=112, nfats=2), "lazy": False})
    out.append({"fmt": "spec", "geom": dict(totsec=9000, spc=2, rootent=128, nfats=1, bps=512), "lazy": True})
    out.append({"fmt": "spec", "geom": dict(totsec=4000, spc=1, rootent=32, nfats=3, bps=1024), "lazy": True, "offset": 3072, "guard": 2048})
    out.append({"fmt": "spec", "geom": dict(totsec=1200, spc=1, rootent=64, nfats=2, bps=2048), "lazy": False})
    out.append({"fmt": "spec", "geom": dict(totsec=20000, spc=4, rootent=512, nfats=2), "lazy": True, "offset": 512, "guard": 512})
    out.append({"fmt": "spec", "geom": dict(totsec=70000, spc=1, rootent=0, rsvd=32, nfats=2), "lazy": True})
    out.append({"fmt": "spec", "geom": dict(totsec=70000, spc=1, rootent=0, rsvd=32, nfats=1), "lazy": False, "offset": 1024, "guard": 1024})
    # pyfatfs' own mkfs
    out.append({"fmt": "pyfatfs", "type": 12, "size": 1 << 20, "lazy": True})
    out.append({"fmt": "pyfatfs", "type": 12, "size": 3 << 20, "lazy": False, "offset": 4096, "guard": 4096})
    out.append({"fmt": "pyfatfs", "type": 16, "size": 5 << 20, "lazy": True})
    if tier != "quick":
        out.append({"fmt": "pyfatfs", "type": 32, "size": 34 << 20, "lazy": True})
        out.append({"fmt": "pyfatfs", "type": 16, "size": 17 << 20, "nfats": 1, "lazy": False})
        out.append({"fmt": "pyfatfs", "type": 12, "size": 1 << 20, "ss": 1024, "nfats": 3, "lazy": True})
        out.append({"fmt": "spec", "geom": dict(totsec=300000, spc=4, rootent=0, rsvd=32, nfats=2), "lazy": True})
    return out


def dirgrow_program(kind, n):
    """deterministic: push a directory across several cluster boundaries with one primitive, remounting after every call"""
    ops = [["makedir", "/grow"]]
    for i in range(n):
        nm = "/grow/entry number %03d with a long name.txt" % i
        if kind == "create":
            ops.append(["create", nm])
        elif kind == "touch":
            ops.append(["touch", nm])
        elif kind == "makedir":
            ops.append(["makedir", nm])
        else:
            ops.append(["writebytes", nm, i + 1, 10])
    for i in range(0, n, 2):
        nm = "/grow/entry number %03d with a long name.txt" % i
        ops.append(["removedir", nm] if kind == "makedir" else ["remove", nm])
    ops.append(["listdir", "/grow"])
    return ops


def run(tier):
    res = Result("ns")
    r = rng("ns")
    nprog = 90 if tier == "quick" else 1500
    cfgs = configs(r, tier)
    seen = {}
    # directory growth across cluster boundaries, one primitive at a time
    for ci, cfg in enumerate(cfgs[:3] + cfgs[6:7]):
        for kind in ("create", "touch", "makedir", "writebytes"):
            cfg = dict(cfg, seed=1000 + ci)
            ops = dirgrow_program(kind, 14 if tier == "quick" else 40)
            findings, stats = histcheck.check_history(cfg, ops, remount_every=1)
            res.case("dirgrow:cfg%d:%s" % (ci, kind))
            res.count("programs")
            res.count("ops", stats["ops"])
            if findings:
                histcheck.report(res, cfg, ops, findings, "ns", shrink_budget=30, seen=seen)
    for i in range(nprog):
        cfg = dict(cfgs[i % len(cfgs)])
        cfg["seed"] = i
        pool = pool_for(r, tier)
        nops = r.choice([6, 12, 25, 40])
        ops = gen_program(r, pool, nops, big=(i % 7 == 3))
        every = 1 if nops <= 25 else 3
        if cfg.get("geom", {}).get("totsec", 0) >= 60000 or cfg.get("size", 0) >= (16 << 20):
            every = 6    # large volumes: copying the device per call dominates
        findings, stats = histcheck.check_history(cfg, ops, remount_every=every)
        res.case("cfg%d:n%d:%s" % (i % len(cfgs), nops, ",".join(sorted({o[0] for o in ops}))))
        res.count("programs")
        res.count("ops", stats["ops"])
        res.count("enospc", stats["enospc"])
        for k, v in stats["errors"].items():
            res.count("err:" + k, v)
        for o in ops:
            res.count("op:" + o[0])
        res.count("fmt:" + cfg["fmt"])
        if i < 3:
            res.sample({"cfg": cfg, "ops": ops[:8]})
        if findings:
            histcheck.report(res, cfg, ops, findings, "ns", shrink_budget=40 if tier == "quick" else 80, seen=seen)
    return res


def replay(rep, signature=None):
    return histcheck.replay(rep, signature)
