"""Suite `schedr` (C18): concurrent readers under a controlled scheduler.

2-4 reader threads run read-only programs (listdir / getinfo / exists / readbytes /
open+seek+read on their own handles) on ONE mounted filesystem object; every schedule's
per-thread results are compared with what the same program returns running alone on a
fresh mount.  Lazily loaded directories are touched for the first time inside the race.

Exploration:
* `dev`   pre-emption-bounded exhaustive, yield points = acquisitions of the library's
          locks and every device access made without holding the device lock;
* `line`  pre-emption-bounded exhaustive, yield points = every source line of the pyfatfs
          functions that assign to attributes / items of shared objects (computed from the
          current source by AST on every run), plus lock acquisitions;
* `rand`  random-priority schedules with every source line of pyfatfs as a yield point
          (thorough tier).
"""
import ast
import os
import warnings

from harness import common
from harness.common import Result, rng, exc_class
from harness import specfat
from harness.fatdev import Dev, mount
from harness.fsrun import make_image, run_op
from harness import sched as S

import pyfatfs.FatIO as _fatio_mod
import threading as _real_threading


# ---------------------------------------------------------------------------
# writer functions, from the current source
# ---------------------------------------------------------------------------

MUTATING_METHODS = {"append", "extend", "insert", "remove", "pop", "clear", "update", "add", "sort", "reverse", "setdefault"}


def _is_store(stmt):
    tg = []
    if isinstance(stmt, ast.Assign):
        tg = stmt.targets
    elif isinstance(stmt, (ast.AugAssign, ast.AnnAssign)):
        tg = [stmt.target]
    elif isinstance(stmt, ast.Delete):
        tg = stmt.targets
    elif isinstance(stmt, ast.Expr) and isinstance(stmt.value, ast.Call) and isinstance(stmt.value.func, ast.Attribute) \
            and stmt.value.func.attr in MUTATING_METHODS and isinstance(stmt.value.func.value, (ast.Attribute, ast.Subscript)):
        return True
    for t in tg:
        for tt in (t.elts if isinstance(t, (ast.Tuple, ast.List)) else [t]):
            if isinstance(tt, (ast.Attribute, ast.Subscript)):
                return True
    return False


def writer_functions():
    """{(module, function): set of line numbers} — pyfatfs functions that assign to attributes / items (or call a
    mutating method on one); the lines are: the first line, every such store, the statement after it, loop headers"""
    out = {}
    d = os.path.join(common.REPO, "pyfatfs")
    for fn in sorted(os.listdir(d)):
        if not fn.endswith(".py"):
            continue
        mod = fn[:-3]
        try:
            tree = ast.parse(open(os.path.join(d, fn)).read())
        except SyntaxError:
            continue
        for node in ast.walk(tree):
            if not isinstance(node, (ast.FunctionDef, ast.AsyncFunctionDef)) or node.name == "__init__":
                continue
            lines = set()
            hit = False
            for sub in ast.walk(node):
                for fld in ("body", "orelse", "finalbody"):
                    blk = getattr(sub, fld, None)
                    if not isinstance(blk, list):
                        continue
                    for i, st in enumerate(blk):
                        if isinstance(st, ast.stmt) and _is_store(st):
                            hit = True
                            lines.add(st.lineno)
                            if i + 1 < len(blk):
                                lines.add(blk[i + 1].lineno)
                if isinstance(sub, (ast.For, ast.While)):
                    lines.add(sub.lineno)
            if hit:
                if node.body:
                    lines.add(node.body[0].lineno if not (isinstance(node.body[0], ast.Expr) and isinstance(getattr(node.body[0], "value", None), ast.Constant)
                                                            and len(node.body) > 1) else node.body[1].lineno)
                out[(mod, node.name)] = lines
    return out


# ---------------------------------------------------------------------------
# world
# ---------------------------------------------------------------------------

TREE = {
    "A": {"first long file name.txt": b"", "B": {"deep file with long name.bin": b"", "D.TXT": b""}, "F2.BIN": b"",
          "another quite long name for an entry.dat": b""},
    "F1.BIN": b"",
    "C": {"x.txt": b"", "Y": {"z": b""}},
}


def fill(tree, bpc, r):
    out = {}
    for k, v in tree.items():
        if isinstance(v, dict):
            out[k] = fill(v, bpc, r)
        else:
            n = r.choice([0, 5, bpc, bpc + 3, 2 * bpc + 1, 3 * bpc])
            out[k] = bytes((r.randrange(255) + 1) for _ in range(n))
    return out


def configs(tier):
    out = [{"fmt": "spec", "geom": dict(totsec=600, spc=1, rootent=64, nfats=2)},
           {"fmt": "spec", "geom": dict(totsec=70000, spc=1, rootent=0, rsvd=32, nfats=2)}]
    if tier != "quick":
        out.append({"fmt": "spec", "geom": dict(totsec=9000, spc=2, rootent=128, nfats=2)})
    return out


class _Shim:
    """stands in for the `threading` module inside pyfatfs.FatIO: handle locks become scheduler locks"""
    cur = None

    @staticmethod
    def Lock():
        return S.SchedLock(_Shim.cur, name="handle") if _Shim.cur is not None else _real_threading.Lock()

    @staticmethod
    def RLock():
        return S.SchedLock(_Shim.cur, reentrant=True, name="handle") if _Shim.cur is not None else _real_threading.RLock()

    def __getattr__(self, k):
        return getattr(_real_threading, k)


def open_world(img, off, sc, writable=False, **kw):
    dev = Dev(data=img, writable=writable)
    sd = S.SchedDev(dev, sc) if sc is not None else dev
    with warnings.catch_warnings():
        warnings.simplefilter("ignore")
        f = mount(sd, offset=off, lazy_load=True, **kw)
    if sc is not None:
        lk = S.SchedLock(sc, name="dev")
        f.fs._PyFat__lock = lk
        sd.guard = lk
        f._lock = S.SchedLock(sc, reentrant=True, name="fs")
    return f, dev


def body(f, prog):
    def run():
        handles = {}
        return [run_op(f, op, handles) for op in prog]
    return run


def solo(img, off, prog):
    f, _ = open_world(img, off, None)
    try:
        return body(f, prog)()
    finally:
        f.fs.initialized = False


def run_schedule(img, off, progs, prefix, mode, writers, policy=None):
    sc = S.Sched(len(progs), decisions=prefix)
    sc.policy = policy
    _Shim.cur = sc
    _fatio_mod.threading = _Shim()
    try:
        f, _ = open_world(img, off, sc)
        tracer = None
        if mode == "line":
            tracer = S.make_tracer(sc, lambda m, fn: writers.get((m, fn)))
        elif mode == "rand":
            tracer = S.make_tracer(sc, lambda m, fn: True)
        res = S.run_threads(sc, [body(f, p) for p in progs], tracer=tracer)
        f.fs.initialized = False
        return sc, res
    finally:
        _fatio_mod.threading = _real_threading
        _Shim.cur = None


# ---------------------------------------------------------------------------
# programs
# ---------------------------------------------------------------------------

def paths(tree, base=""):
    ds, fs_ = [base or "/"], []
    for k, v in tree.items():
        p = base + "/" + k
        if isinstance(v, dict):
            d2, f2 = paths(v, p)
            ds += d2
            fs_ += f2
        else:
            fs_.append(p)
    return ds, fs_


def gen_programs(r, tree, nthreads, nops):
    ds, fs_ = paths(tree)
    progs = []
    for t in range(nthreads):
        p = []
        for k in range(nops):
            x = r.random()
            if x < 0.35:
                p.append(["listdir", r.choice(ds)])
            elif x < 0.5:
                p.append(["getinfo", r.choice(ds + fs_)])
            elif x < 0.6:
                p.append(["exists", r.choice(ds + fs_ + ["/A/missing", "/nope/x"])])
            elif x < 0.8:
                p.append(["readbytes", r.choice(fs_)])
            else:
                h = "h%d_%d" % (t, k)
                f = r.choice(fs_)
                p += [["open", h, f, "r"], ["seek", h, r.choice([0, 1, 511, 512, 513, 1024]), 0], ["read", h, r.choice([1, 100, 600, -1])],
                      ["close", h]]
        progs.append(p)
    return progs


FIXED_PROGRAMS = [
    # two first-touch readers of the same lazily loaded directory (small: exhaustible at bound 2)
    [[["listdir", "/C/Y"]], [["listdir", "/C/Y"]]],
    [[["listdir", "/A"]], [["listdir", "/A"]]],
    [[["listdir", "/A/B"]], [["getinfo", "/A/B/D.TXT"]]],
    [[["readbytes", "/A/F2.BIN"]], [["readbytes", "/F1.BIN"]]],
    [[["exists", "/C/Y/z"]], [["listdir", "/C"]], [["listdir", "/C/Y"]]],
]


def first_diff(a, b):
    for i, (x, y) in enumerate(zip(a, b)):
        if x != y:
            return i
    return min(len(a), len(b))


def explore(res, img, off, progs, mode, bound, max_runs, writers, label, cfg_i):
    solos = [solo(img, off, p) for p in progs]
    found = []

    def run_one(prefix):
        sc, out = run_schedule(img, off, progs, prefix, mode, writers)
        return sc.trace, (sc, out)

    def on_result(prefix, trace, outcome):
        sc, out = outcome
        res.case("%s:%s:cfg%d:n%d" % (label, mode, cfg_i, len(progs)) if len(trace) > 1 else None)
        res.count("schedules:" + mode)
        res.count("decisions:" + mode, len(trace))
        if sc.error:
            found.append(("sched-r:%s" % sc.error.split(":")[0].replace(" ", "-"), sc.error, trace))
            return True
        for t, (o, exp) in enumerate(zip(out, solos)):
            if o[0] == "err":
                found.append(("sched-r:thread-raises:%s" % o[1], "thread %d raised %s (%s); alone it returns normally" % (t, o[1], o[2]), trace))
                return True
            if o[0] == "ok" and o[1] != exp:
                k = first_diff(o[1], exp)
                op = progs[t][k] if k < len(progs[t]) else ["?"]
                got = o[1][k] if k < len(o[1]) else None
                cls = got[1] if got and got[0] == "err" else "result"
                found.append(("sched-r:differs-from-solo:%s:%s" % (op[0], cls),
                              "thread %d, call %s: %s under this schedule, %s alone" % (t, op, str(got)[:120], str(exp[k])[:120] if k < len(exp) else None), trace))
                return True
        return False

    seen = set()
    runs, exhausted = S.explore_bounded(run_one, min(1, bound), max_runs, on_result, seen=seen)
    res.count("exhausted-bound1:" + mode, 1 if exhausted else 0)
    if bound > 1 and not found and runs < max_runs:
        r2, exhausted = S.explore_bounded(run_one, bound, max_runs - runs, on_result, seen=seen)
        runs += r2
        res.count("exhausted-bound%d:%s" % (bound, mode), 1 if exhausted else 0)
    res.count("program-sets:" + mode)
    return found, runs, exhausted


def run(tier):
    res = Result("schedr")
    r = rng("schedr")
    writers = writer_functions()
    res.notes.append("writer functions (line-level yield points): %s" % sorted("%s.%s" % w for w in writers))
    seen = set()
    for ci, cfg in enumerate(configs(tier)):
        g = specfat.Geom(**cfg["geom"])
        cfg = dict(cfg, tree=fill(TREE, g.bpc, rng("schedr-tree", ci)))
        img, off, _ = make_image(cfg)
        sets = [(p, "fixed%d" % i) for i, p in enumerate(FIXED_PROGRAMS)]
        nrand = 2 if tier == "quick" else 8
        for k in range(nrand):
            sets.append((gen_programs(r, TREE, r.choice([2, 2, 3]), r.choice([1, 2])), "rand%d" % k))
        if tier != "quick":
            sets.append((gen_programs(r, TREE, 4, 1), "rand4"))
        for progs, label in sets:
            plans = [("dev", 2 if len(progs) == 2 else 1, 300 if tier == "quick" else 3000),
                     ("line", 2 if len(progs) == 2 else 1, 400 if tier == "quick" else 6000)]
            if label == "fixed0":
                plans = [("dev", 2, 3000), ("line", 2, 3000 if tier == "quick" else 20000)]
            if ci > 0 and tier == "quick":
                plans = [(m, 1, 80) for (m, b, n) in plans]
            for mode, bound, cap in plans:
                try:
                    found, runs, exhausted = explore(res, img, off, progs, mode, bound, cap, writers, label, ci)
                except Exception as e:  # noqa
                    res.fail(["C18"], "sched-r:harness-raises:" + exc_class(e), repr(e)[:300], {"suite": "schedr", "cfg": cfg_public(cfg), "progs": progs})
                    continue
                if label == "fixed0" and ci == 0:
                    res.sample({"programs": progs, "mode": mode, "bound": bound, "schedules": runs, "exhausted": exhausted})
                for sig, what, trace in found:
                    if sig in seen:
                        continue
                    seen.add(sig)
                    res.fail(["C18"], sig, what + " — schedule (thread chosen at each decision point): %s" % [t[0] for t in trace][:80],
                             {"suite": "schedr", "cfg": cfg_public(cfg), "cfg_index": ci, "progs": progs, "mode": mode,
                              "decisions": [t[0] for t in trace], "sig": sig})
        if tier != "quick":
            # random priorities, every pyfatfs line a yield point
            for k in range(60):
                progs = gen_programs(r, TREE, r.choice([2, 3, 4]), 2)
                solos = [solo(img, off, p) for p in progs]
                rr = rng("schedr-pct", ci, k)
                prio = list(range(len(progs)))
                rr.shuffle(prio)
                change = sorted(rr.randrange(1, 4000) for _ in range(2))
                st = {"n": 0}

                def policy(me, cands, tag, prio=prio, change=change, st=st, rr=rr):
                    st["n"] += 1
                    if change and st["n"] >= change[0]:
                        change.pop(0)
                        if me is not None:
                            prio.remove(me)
                            prio.append(me)
                    return min(cands, key=prio.index)
                sc, out = run_schedule(img, off, progs, [], "rand", writers, policy=policy)
                res.case("rand:cfg%d" % ci)
                res.count("schedules:rand")
                res.count("decisions:rand", len(sc.trace))
                for t, (o, exp) in enumerate(zip(out, solos)):
                    if sc.error or o[0] != "ok" or o[1] != exp:
                        sig = "sched-r:random-schedule:%s" % (sc.error or (o[1] if o[0] == "err" else "differs-from-solo"))
                        if sig not in seen:
                            seen.add(sig)
                            res.fail(["C18"], sig, "thread %d: %s vs alone %s" % (t, str(o)[:160], str(exp)[:160]),
                                     {"suite": "schedr", "cfg": cfg_public(cfg), "cfg_index": ci, "progs": progs, "mode": "rand",
                                      "decisions": [x[0] for x in sc.trace], "sig": sig})
                        break
    return res


def cfg_public(cfg):
    c = dict(cfg)
    c.pop("tree", None)
    return c


def replay(rep, signature=None):
    ci = rep.get("cfg_index", 0)
    cfg = rep["cfg"]
    g = specfat.Geom(**cfg["geom"])
    cfg = dict(cfg, tree=fill(TREE, g.bpc, rng("schedr-tree", ci)))
    img, off, _ = make_image(cfg)
    progs = rep["progs"]
    solos = [solo(img, off, p) for p in progs]
    sc, out = run_schedule(img, off, progs, rep["decisions"], rep["mode"], writer_functions())
    txt = "schedule of %d decisions, mode %s\n" % (len(rep["decisions"]), rep["mode"])
    bad = bool(sc.error)
    for t, (o, exp) in enumerate(zip(out, solos)):
        same = o[0] == "ok" and o[1] == exp
        txt += "thread %d: %s\n" % (t, "as alone" if same else "%s   (alone: %s)" % (str(o)[:200], str(exp)[:200]))
        bad = bad or not same
    return bad, txt
