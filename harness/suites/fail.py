"""Suite `fail` (C09, also C01/C04/C05): every failure cause at every point where it can
arise — the k-th allocation request of an operation on a volume with 0..k free clusters,
each root-directory slot count around the limit, size/name limits, out-of-range
timestamps — followed by valid operations (removing entries to make room, retrying).
Judged by the reference filesystem (tree unchanged at the level of the failing
primitive), the independent checker on the closed image, and the follow-ups.
"""
from harness.common import Result, rng
from harness import histcheck, specfat

TARGETS = [
    ("create-long", lambda t: [["create", "/d/a long name that needs slots %d.txt" % t]]),
    ("create-83", lambda t: [["create", "/d/N%d.TXT" % t]]),
    ("makedir", lambda t: [["makedir", "/d/new directory %d" % t]]),
    ("makedirs", lambda t: [["makedirs", "/d/p%d/q/r" % t]]),
    ("write-new-1", lambda t: [["writebytes", "/d/W%d.BIN" % t, 900 + t, 700]]),
    ("write-new-3", lambda t: [["writebytes", "/d/X%d.BIN" % t, 900 + t, 2300]]),
    ("write-grow", lambda t: [["writebytes", "/d/KEEP.BIN", 950 + t, 4000]]),
    ("append", lambda t: [["appendbytes", "/d/KEEP.BIN", 960 + t, 1500]]),
    ("copy", lambda t: [["copy", "/d/KEEP.BIN", "/d/copy %d.bin" % t]]),
    ("move", lambda t: [["move", "/d/KEEP.BIN", "/e/moved %d.bin" % t]]),
    ("root-create", lambda t: [["create", "/root entry with long name %d.txt" % t]]),
]


def scenario(r, g, free_left, target, ti, in_root_fill=None):
    """fill the volume so that `free_left` clusters remain, run the target op, then follow up"""
    bpc = g.bpc
    ops = [["makedir", "/d"], ["makedir", "/e"], ["writebytes", "/d/KEEP.BIN", 1, bpc + 10]]
    used = 2 + 2   # /d, /e, KEEP (2 clusters)
    avail = g.count - used - (1 if g.type == 32 else 0)
    fill = avail - free_left
    i = 0
    big = max(1, min(40, fill // 6))
    while fill > 0:
        n = min(fill, big if i % 3 else 1)
        ops.append(["writebytes", "/e/FILL%03d.BIN" % i, 100 + i, n * bpc])
        fill -= n
        i += 1
        if i % 10 == 9:
            fill -= 1      # /e grows by a cluster every ~16 entries (short names: 1 slot each) — approximate
    if in_root_fill is not None:
        for k in range(in_root_fill):
            ops.append(["create", "/R%02d.TXT" % k])
    name, mk = target
    ops += mk(ti)
    # follow-ups: the filesystem must still work; make room, retry
    ops += [["listdir", "/d"], ["listdir", "/"], ["exists", "/d/KEEP.BIN"], ["readbytes", "/d/KEEP.BIN"]]
    # something small that still fits must still be accepted right after the failure (no stale allocator state)
    ops += [["writebytes", "/e/TINY.BIN", 5000 + ti, 20], ["appendbytes", "/d/KEEP.BIN", 6000 + ti, 3]]
    ops += [["remove", "/e/FILL000.BIN"], ["remove", "/e/FILL001.BIN"]]
    if in_root_fill:
        ops += [["remove", "/R00.TXT"], ["remove", "/R01.TXT"], ["remove", "/R02.TXT"]]
    ops += mk(ti + 50)
    ops += [["listdir", "/d"], ["listdir", "/e"], ["getinfo", "/d"], ["makedir", "/after"], ["create", "/after/ok.txt"],
            ["writebytes", "/after/ok.txt", 7, 300], ["readbytes", "/after/ok.txt"]]
    return ops


def limit_programs():
    """size / name / timestamp limits"""
    progs = []
    progs.append(("name-256", [["create", "/" + "n" * 256], ["listdir", "/"], ["create", "/ok.txt"], ["listdir", "/"]]))
    progs.append(("name-255", [["create", "/" + "m" * 255], ["exists", "/" + "m" * 255], ["listdir", "/"]]))
    progs.append(("dirname-256", [["makedir", "/" + "d" * 256], ["listdir", "/"], ["makedir", "/fine"], ["listdir", "/"]]))
    for label, ts in (("time-1970", 86400 * 365), ("time-1979", 315532800 - 86400 * 3), ("time-2108", 4354819200 + 86400 * 3),
                      ("time-2200", 7258118400), ("time-negative", -100000)):
        progs.append((label, [["makedir", "/t"], ["create", "/t/file.txt"], ["writebytes", "/t/other.bin", 3, 100],
                              ["setinfo", "/t/file.txt", {"modified": ts, "accessed": ts, "created": ts}],
                              ["listdir", "/t"], ["create", "/t/after.txt"], ["readbytes", "/t/other.bin"],
                              ["remove", "/t/other.bin"], ["listdir", "/t"]]))
    progs.append(("wrong-type", [["makedir", "/x"], ["create", "/f"], ["remove", "/x"], ["removedir", "/f"], ["makedir", "/f"],
                                 ["create", "/x"], ["copy", "/x", "/y"], ["move", "/nope", "/z"], ["removedir", "/"],
                                 ["listdir", "/f"], ["readbytes", "/x"], ["listdir", "/"]]))
    return progs


def configs(tier):
    out = [
        {"fmt": "spec", "geom": dict(totsec=160, spc=1, rootent=16, nfats=2)},
        {"fmt": "spec", "geom": dict(totsec=300, spc=2, rootent=32, nfats=1)},
        {"fmt": "spec", "geom": dict(totsec=70000, spc=1, rootent=0, rsvd=32, nfats=2), "big": True},
    ]
    if tier != "quick":
        out.append({"fmt": "spec", "geom": dict(totsec=4300, spc=1, rootent=16, nfats=2), "big": True})
    return out


def run(tier):
    res = Result("fail")
    r = rng("fail")
    seen = {}
    n = 0
    for ci, cfg in enumerate(configs(tier)):
        g = specfat.Geom(**cfg["geom"])
        if cfg.get("big"):
            # filling 65000 clusters per scenario is too slow for a per-change check: limits only here
            frees, targets = [], []
        else:
            frees = [0, 1, 2, 3, 5] if tier == "quick" else list(range(0, 8))
            targets = TARGETS
        for ti, target in enumerate(targets):
            for fl in frees if tier != "quick" else frees[(ti % 2)::2] + [0]:
                rootfill = None
                if target[0] == "root-create" and g.type != 32:
                    rootfill = max(0, g.rootent - 2 - fl)      # root nearly full: 2 dirs + k files, long name needs 3-4 slots
                ops = scenario(r, g, fl, target, n, rootfill)
                c = dict(cfg, seed=n)
                findings, stats = histcheck.check_history(c, ops, remount_every=0)
                res.case("cfg%d:%s:free%d" % (ci, target[0], fl))
                res.count("scenarios")
                res.count("enospc", stats["enospc"])
                res.count("ops", stats["ops"])
                for k, v in stats["errors"].items():
                    res.count("err:" + k, v)
                if n < 2:
                    res.sample({"cfg": c, "target": target[0], "free_left": fl, "n_ops": len(ops), "tail": ops[-22:-18]})
                n += 1
                if findings:
                    histcheck.report(res, c, ops, findings, "fail", shrink_budget=30 if tier == "quick" else 60, seen=seen)
        for label, ops in limit_programs():
            c = dict(cfg, seed=n)
            findings, stats = histcheck.check_history(c, ops, remount_every=1)
            res.case("cfg%d:%s" % (ci, label))
            res.count("limit-programs")
            for k, v in stats["errors"].items():
                res.count("err:" + k, v)
            n += 1
            if findings:
                histcheck.report(res, c, ops, findings, "fail", shrink_budget=20, seen=seen)
    return res


def replay(rep, signature=None):
    return histcheck.replay(rep, signature)
