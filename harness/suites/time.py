"""Suite `time` (C17): instants x process time zones x utc flag.  Each zone runs in its own
subprocess (TZ must be set before the interpreter starts).  Round trip setinfo -> getinfo to
FAT resolution, raw on-disk fields vs broken-down local/UTC time, stamping of new entries vs
the wall clock, out-of-range instants rejected or clamped without damage.
"""
import calendar
import json
import os
import subprocess

from harness.common import Result, rng, VERIF

ZONES = ["UTC", "Europe/Berlin", "America/New_York", "Australia/Sydney", "Asia/Kolkata", "Pacific/Chatham", "MST7", "Etc/GMT-14"]


def ts(y, m, d, hh=0, mm=0, ss=0):
    return calendar.timegm((y, m, d, hh, mm, ss))


def instants(r, tier):
    out = [ts(1980, 1, 2), ts(1980, 1, 2, 0, 0, 1), ts(1999, 12, 31, 23, 59, 59), ts(2000, 1, 1), ts(2000, 2, 29, 12), ts(2024, 2, 29, 23, 59, 58),
           ts(2021, 3, 28, 0, 59, 59), ts(2021, 3, 28, 1, 0, 1), ts(2021, 7, 1, 12, 34, 57), ts(2021, 10, 31, 0, 30), ts(2021, 10, 31, 3, 0, 1),
           ts(2021, 1, 15, 6, 7, 9), ts(2021, 11, 7, 5, 30), ts(2021, 11, 7, 8, 0), ts(2021, 4, 4, 1, 0), ts(2021, 10, 3, 18, 0),
           ts(2038, 1, 19, 3, 14, 8), ts(2100, 2, 28, 23, 59, 59), ts(2100, 3, 1), ts(2107, 12, 30, 12, 0, 0), ts(2050, 6, 15, 1, 2, 3)]
    n = 25 if tier == "quick" else 400
    for _ in range(n):
        out.append(r.randrange(ts(1980, 1, 2), ts(2107, 12, 30)))
    # out of range
    out += [0, ts(1979, 12, 30), ts(1970, 1, 2), ts(2108, 1, 3), ts(2200, 1, 1), ts(1601, 1, 1) if False else -86400 * 365]
    return out


def run(tier):
    res = Result("time")
    r = rng("time")
    ins = instants(r, tier)
    zones = ZONES if tier != "quick" else ZONES[:6]
    for z in zones:
        if z != "UTC" and not os.path.exists(os.path.join("/usr/share/zoneinfo", z)):
            res.notes.append("zone %s not in the tz database of this machine" % z)
            continue
        env = dict(os.environ, TZ=z, PYTHONPATH=VERIF)
        p = subprocess.run(["/venv/bin/python", os.path.join(VERIF, "harness", "timeworker.py"), json.dumps(ins)],
                           stdout=subprocess.PIPE, stderr=subprocess.PIPE, env=env, timeout=600)
        line = [x for x in p.stdout.decode().split("\n") if x.startswith("@@")]
        if p.returncode != 0 or not line:
            raise RuntimeError("time worker failed in %s: %s" % (z, p.stderr.decode()[-1500:]))
        out = json.loads(line[0][2:])
        res.evaluations += out["evaluations"]
        for c in out["classes"]:
            res.nontrivial.add(c)
        res.count("zone:" + z, out["evaluations"])
        seen = set()
        for sig, what, rep in out["findings"]:
            if sig in seen:
                continue
            seen.add(sig)
            res.fail(["C17"] + (["C09"] if "corrupts" in sig else []), sig, what, dict(rep, suite="time"))
    res.sample({"zones": zones, "instants": ins[:6], "n_instants": len(ins)})
    return res


def replay(rep, signature=None):
    env = dict(os.environ, TZ=rep["tz"], PYTHONPATH=VERIF)
    ins = [rep["ts"]] if "ts" in rep else [1625142897]
    p = subprocess.run(["/venv/bin/python", os.path.join(VERIF, "harness", "timeworker.py"), json.dumps(ins)],
                       stdout=subprocess.PIPE, stderr=subprocess.PIPE, env=env, timeout=600)
    line = [x for x in p.stdout.decode().split("\n") if x.startswith("@@")]
    out = json.loads(line[0][2:])
    return bool(out["findings"]), json.dumps(out["findings"][:4])[:800]
