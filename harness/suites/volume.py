"""Suite `volume` (ties Model.Alloc / Model.Geom / Gen.Arith to the real code):
component-level correspondence of the allocator, the chain follower, chain
release, geometry (parse_header), cluster addresses, and classification of every
device access of real histories into the model's admissible access kinds.
Serves C04, C07, C08 (and C02/C13 through the chain follower).
"""
import struct

from harness.common import Driver, Result, rng, natlist, exc_class
from harness import specfat
from harness.fatdev import Dev
from harness.fsrun import World, run_op

from pyfatfs.PyFat import PyFat


def fnv(xs):
    h = 14695981039346656037
    for x in xs:
        h = ((h ^ x) * 1099511628211) % (1 << 64)
    return h


def mk_pf(ty, fat, hint, count, spc=1, bps=512):
    pf = PyFat()
    pf.initialized = True
    pf.is_read_only = False
    pf.fat_type = ty
    fds = 10
    tot = fds + count * spc
    pf.bpb_header = {"BPB_BytsPerSec": bps, "BPB_SecPerClus": spc, "BPB_TotSec16": tot if tot < 65536 else 0,
                     "BPB_TotSec32": 0 if tot < 65536 else tot, "BPB_NumFATs": 1, "BPB_RsvdSecCnt": 1}
    pf.first_data_sector = fds
    pf.bytes_per_cluster = bps * spc
    pf.fat = list(fat)
    pf.first_free_cluster = hint
    return pf, tot, fds


def rand_fat(r, ty, n, style):
    top = {12: 0xFFF, 16: 0xFFFF, 32: 0x0FFFFFFF}[ty]
    eoc = top
    bad = top - 8
    fat = [0] * n
    if n >= 2:
        fat[0], fat[1] = top - 7, top
    if style == "free":
        return fat
    if style == "garbage":
        return [r.choice([0, 0, r.randrange(top + 1), r.randrange(n + 3), eoc, bad, 1]) for _ in range(n)]
    # structured: some chains, some bad marks
    free = list(range(2, n))
    r.shuffle(free)
    k = r.randrange(len(free) + 1) if style != "full" else max(0, len(free) - r.randrange(3))
    used = free[:k]
    i = 0
    while i < len(used):
        ln = r.randint(1, 6)
        ch = used[i:i + ln]
        for a, b in zip(ch, ch[1:]):
            fat[a] = b
        fat[ch[-1]] = r.choice([eoc, eoc - 3, eoc - 7]) if ty != 12 else r.choice([eoc, 0xFF8, 0xFF0])
        i += ln
    for _ in range(r.randrange(3)):
        if n > 2:
            fat[r.randrange(2, n)] = bad
    if style == "cyclic" and n > 4:
        a, b = r.randrange(2, n), r.randrange(2, n)
        fat[a], fat[b] = b, a
        rand_fat.cycle_at = a
    return fat


def run(tier):
    res = Result("volume")
    d = Driver()
    pend = []

    def ask(req, impl, tag, kind, props):
        i = d.ask("vol " + req)
        pend.append((i, kind, req, impl, tag, props))

    r = rng("volume")
    reps = 250 if tier == "quick" else 3000
    for it in range(reps):
        ty = r.choice([12, 16, 32])
        n = r.choice([2, 3, 8, 40, 341, 342, 700])
        style = r.choice(["free", "structured", "structured", "full", "garbage", "cyclic"])
        fat = rand_fat(r, ty, n, style)
        count = r.choice([n - 2, n - 2, max(0, n - 10), n + 5, max(0, n // 2)])
        hint = r.choice([0, 2, r.randrange(n + 2), n - 1, n, n + 3])
        nclus = r.choice([1, 1, 2, 5, max(1, n // 3), n])
        spc = r.choice([1, 4])
        pf, tot, fds = mk_pf(ty, fat, hint, count, spc)
        try:
            cl = pf.allocate_bytes(nclus * pf.bytes_per_cluster - r.choice([0, 1, 511]) % (pf.bytes_per_cluster))
            impl = "ok %s %d %d" % (natlist(cl), pf.first_free_cluster, fnv(pf.fat))
            # oracle (C04/C08): fresh, in range, previously free
            if any(c < 2 or c >= count + 2 for c in cl):
                res.fail(["C08", "C04"], "volume:alloc-out-of-data-area", "allocated %s with %d clusters" % (cl[:5], count),
                         {"fat_type": ty, "fat": fat, "hint": hint, "count": count, "n": nclus})
            if any(fat[c] != 0 for c in cl) or len(set(cl)) != len(cl):
                res.fail(["C04"], "volume:alloc-not-free", "allocated in-use clusters %s" % cl[:5],
                         {"fat_type": ty, "fat": fat, "hint": hint, "count": count, "n": nclus})
        except Exception as e:  # noqa
            impl = "err %s hint=%d fat=%d" % (exc_class(e), pf.first_free_cluster, fnv(pf.fat))
        finally:
            pf.initialized = False
        ask("alloc %d %d %d %d %d %d %d %s" % (ty, hint, nclus, tot if tot < 65536 else 0, 0 if tot < 65536 else tot, fds, spc, natlist(fat)),
            impl, "alloc:%d:%s:%s" % (ty, style, impl.split(" ")[0] + impl.split(" ")[1][:3]), "alloc", ["C04", "C08", "C01", "C09"])
        # chain follower
        start = r.choice([0, 1, 2, r.randrange(n + 2), n, n + 1])
        if style == "cyclic" and n > 4 and r.random() < 0.7:
            start = rand_fat.cycle_at          # walk into the cycle: the loop guard decides how far
        pf, _, _ = mk_pf(ty, fat, hint, count, spc)
        got = []
        try:
            gen = pf.get_cluster_chain(start)
            for _ in range(len(fat) + 4):
                got.append(next(gen))
            impl = "hang " + natlist(got[:8])
        except StopIteration:
            impl = "ok " + natlist(got)
        except Exception as e:  # noqa
            impl = "err %s %s" % (exc_class(e), natlist(got))
        finally:
            pf.initialized = False
        ask("chain %d %d %s" % (ty, start, natlist(fat)), impl, "chain:%d:%s:%s" % (ty, style, impl.split(" ")[0]), "chain",
            ["C04", "C13", "C02"])
        # release
        pf, _, _ = mk_pf(ty, fat, hint, count, spc)
        if not impl.startswith("hang"):
            try:
                pf.free_cluster_chain(start)
                impl2 = "ok %d %d" % (fnv(pf.fat), pf.first_free_cluster)
            except Exception as e:  # noqa
                impl2 = "err %s %s" % (exc_class(e), natlist(got))
            finally:
                pf.initialized = False
            ask("free %d %d %d %s" % (ty, start, hint, natlist(fat)), impl2, "free:%d:%s:%s" % (ty, style, impl2[:3]), "free", ["C04"])
    res.count("alloc/chain/free cases", reps)

    # ---- geometry: parse_header on random valid boot sectors ---------------------
    r = rng("volume", "geom")
    ng = 150 if tier == "quick" else 1500
    for it in range(ng):
        bps = r.choice([512, 1024, 2048, 4096])
        spc = r.choice([1, 2, 4, 8, 16, 32, 64, 128])
        rsvd = r.choice([1, 2, 6, 32, 40])
        nfats = r.choice([1, 2, 3])
        fat32 = r.random() < 0.3
        rootent = 0 if fat32 else r.choice([16, 32, 64, 112, 224, 512]) * (bps // 512)
        fatsz = r.choice([1, 2, 9, 12, 64, 250, 600])
        clusters = r.choice([1, 50, 4083, 4084, 4085, 4086, 20000, 65523, 65524, 65525, 65526, 70000])
        rds = (rootent * 32 + bps - 1) // bps
        tot = rsvd + nfats * fatsz + rds + clusters * spc + r.randrange(spc)
        t16 = tot if (tot < 65536 and not fat32) else 0
        t32 = 0 if t16 else tot
        common = struct.pack("<3s8sHBHBHHBHHHLL", b"\xEB\x3C\x90", b"VERIF   ", bps, spc, rsvd, nfats, rootent, t16, 0xF8,
                             0 if fat32 else fatsz, 0, 0, 0, t32)
        if fat32:
            ext = struct.pack("<LHHLHH12sBBBL11s8s", fatsz, 0, 0, 2, 1, 6, b"\0" * 12, 0x80, 0, 0x29, 1, b"NO NAME    ", b"FAT32   ")
        else:
            ext = struct.pack("<BBBL11s8s", 0x80, 0, 0x29, 1, b"NO NAME    ", b"FAT     ")
        sect = bytearray(512)
        sect[:len(common) + len(ext)] = common + ext
        sect[510:512] = b"\x55\xAA"
        pf = PyFat()
        pf._PyFat__fp = Dev(data=bytes(sect))
        try:
            pf.parse_header()
            impl = "ok %d %d %d %d" % (pf.fat_type, pf.root_dir_sectors, pf.root_dir_sector, pf.first_data_sector)
        except Exception as e:  # noqa
            impl = "err " + exc_class(e)
        finally:
            pf.initialized = False
        g = specfat.Geom(bps=bps, spc=spc, rsvd=rsvd, nfats=nfats, rootent=rootent, totsec=tot, fatsz=fatsz)
        i = d.ask("vol header %d %d %d %d %d %d %d %d %d" % (t16, t32, rsvd, nfats, rootent, bps, spc, 0 if fat32 else fatsz, fatsz if fat32 else 0))
        pend.append((i, "header", "header", impl, "hdr:%d:%d:%s" % (g.type, clusters, fat32), ["C07", "C08", "C06"]))
        # oracle: type by the specification's rule (layout consistent with type only)
        consistent = (g.type == 32) == fat32
        if impl.startswith("ok") and consistent and g.datasec > 0:
            ty = int(impl.split()[1])
            if ty != g.type:
                res.fail(["C07"], "volume:fat-type:count=%d:got%d:spec%d" % (g.count, ty, g.type),
                         "cluster count %d -> FAT%d, specification FAT%d" % (g.count, ty, g.type),
                         {"bps": bps, "spc": spc, "rsvd": rsvd, "nfats": nfats, "rootent": rootent, "totsec": tot, "fatsz": fatsz})
        c = r.randrange(2, 100000)
        pf = PyFat()
        pf.bpb_header = {"BPB_SecPerClus": spc, "BPB_BytsPerSec": bps}
        pf.first_data_sector = g.firstdata
        pf.bytes_per_cluster = bps * spc
        ask("cluster_address %d %d %d %d" % (c, spc, g.firstdata, bps), "ok %d" % pf.get_data_cluster_address(c),
            "addr:%d:%d" % (bps, spc), "addr", ["C08", "C06", "C02"])
        if pf.get_data_cluster_address(c) != g.clus_off(c):
            res.fail(["C06", "C08"], "volume:cluster-address", "cluster %d -> %d, spec %d" % (c, pf.get_data_cluster_address(c), g.clus_off(c)),
                     {"c": c, "spc": spc, "bps": bps, "fds": g.firstdata})
        sz = r.choice([0, 1, bps * spc - 1, bps * spc, bps * spc + 1, r.randrange(1 << 32)])
        ask("num_clusters %d %d" % (sz, bps * spc), "ok %d" % pf.calc_num_clusters(sz), "ncl:%d" % (sz % (bps * spc) == 0), "ncl",
            ["C04", "C02", "C01"])
    res.count("headers", ng)

    # ---- access classification of real histories -------------------------------------
    r = rng("volume", "access")
    worlds = [
        {"fmt": "spec", "geom": dict(totsec=400, spc=1, rootent=64, nfats=2), "offset": 1024, "guard": 512},
        {"fmt": "spec", "geom": dict(totsec=9000, spc=4, rootent=128, nfats=3, bps=1024, rsvd=3), "offset": 0},
        {"fmt": "spec", "geom": dict(totsec=70000, spc=1, rootent=0, rsvd=32, nfats=2), "offset": 512, "guard": 512},
    ]
    if tier != "quick":
        worlds.append({"fmt": "pyfatfs", "type": 16, "size": 5 << 20})
        worlds.append({"fmt": "pyfatfs", "type": 32, "size": 34 << 20})
    nacc = 0
    for wi, cfg in enumerate(worlds):
        w = World(cfg)
        try:
            ops = [["makedir", "/d"], ["writebytes", "/d/a long name for a file.bin", 1, 3000], ["create", "/X.TXT"],
                   ["writebytes", "/X.TXT", 2, 700], ["appendbytes", "/X.TXT", 3, 900], ["listdir", "/d"],
                   ["readbytes", "/d/a long name for a file.bin"], ["remove", "/X.TXT"], ["makedirs", "/p/q/r"],
                   ["removetree", "/p"], ["copy", "/d/a long name for a file.bin", "/COPY.BIN"], ["getinfo", "/COPY.BIN"]]
            for op in ops:
                run_op(w.fs, op, w.handles)
            w.close()
            v = specfat.Volume(bytes(w.dev.data), w.off)
            g = v.g
            t16 = g.totsec if (g.totsec < 65536 and g.type != 32) else 0
            hdr = "%d %d %d %d %d %d %d %d %d %d" % (t16, 0 if t16 else g.totsec, g.rsvd, g.nfats, g.rootent, g.bps, g.spc,
                                                     g.fatsz if g.type != 32 else 0, g.fatsz if g.type == 32 else 0, v.bkboot or 0)
            seen = set()
            for kind, pos, ln in w.dev.log:
                key = (pos, ln)
                if key in seen:
                    continue
                seen.add(key)
                rel = pos - w.off
                inside = 0 <= rel and rel + ln <= g.totsec * g.bps
                if rel < 0:
                    res.fail(["C08"], "volume:access-before-volume", "%s at %d" % (kind, pos), {"cfg": cfg})
                    continue
                i = d.ask("vol access %s %d %d" % (hdr, rel, ln))
                pend.append((i, "access", "access %d %d (%s)" % (rel, ln, kind), "inside" if inside else "outside",
                             "acc:%d:%s" % (wi, kind), ["C08"]))
                nacc += 1
        finally:
            w.abandon()
    res.count("accesses classified", nacc)

    out = d.run()
    for i, kind, req, impl, tag, props in pend:
        model = out[i]
        res.case(tag)
        res.count("cmp:" + kind)
        if kind == "header":
            m = model.split(" spec ")
            if m[0] != impl and impl.startswith("ok"):
                res.diverge(kind, d.lines[i], m[0], impl, props)
            continue
        if kind == "access":
            if model == "ok none":
                # the model's admissible-access map does not cover what the code did
                res.diverge(kind, req, "no admissible access kind contains it", impl, props)
            continue
        if kind == "chain" and model.startswith("hang") and impl.startswith("hang"):
            continue
        if model != impl:
            res.diverge(kind, d.lines[i][:300], model, impl, props)
    if len(res.samples) < 3:
        res.sample({"request": d.lines[0][:200], "answer": out[0][:100]})
        res.sample({"request": d.lines[-1][:200], "answer": out[-1][:100]})
    return res
