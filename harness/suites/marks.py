"""Suites `marks` (C11) and `crash` (C12) share this module: sessions
(mount, history, close) with the exact ordered write log kept; the image is rebuilt
at every prefix of the log (and, for C12, at every sector boundary inside a write).

C11: every intermediate image carries a dirty mark (boot-sector flag, or cleared
FAT[1] clean-shutdown bit on FAT16/32) or equals the final image apart from the
boot-sector copies; the final image carries none; mounting a marked image warns.
"""
import warnings

from harness.common import Result, rng, exc_class
from harness import specfat
from harness.fatdev import Dev, mount, image_at_prefix
from harness.fsrun import make_image, run_op

HISTORY = [
    ["makedir", "/docs"], ["writebytes", "/docs/a long report name.txt", 1, 2600], ["create", "/EMPTY.TXT"],
    ["writebytes", "/DATA.BIN", 2, 700], ["appendbytes", "/DATA.BIN", 3, 900], ["makedirs", "/x/y/z"],
    ["copy", "/DATA.BIN", "/x/y/copy of data.bin"], ["remove", "/EMPTY.TXT"], ["move", "/DATA.BIN", "/x/MOVED.BIN"],
    ["writebytes", "/docs/a long report name.txt", 4, 100], ["setinfo", "/x/MOVED.BIN", {"modified": 1500000000}],
    ["removetree", "/x/y"], ["create", "/docs/a long report name.txt", True], ["removedir", "/docs/nothing"],
]


def configs(tier):
    out = []
    for nf in (1, 2, 3):
        out.append({"fmt": "spec", "geom": dict(totsec=400, spc=1, rootent=64, nfats=nf)})
        out.append({"fmt": "spec", "geom": dict(totsec=9000, spc=2, rootent=128, nfats=nf)})
        out.append({"fmt": "spec", "geom": dict(totsec=70000, spc=1, rootent=0, rsvd=32, nfats=nf)})
    out.append({"fmt": "pyfatfs", "type": 12, "size": 1 << 20})
    if tier != "quick":
        out.append({"fmt": "pyfatfs", "type": 16, "size": 5 << 20})
        out.append({"fmt": "pyfatfs", "type": 32, "size": 34 << 20, "nfats": 2})
    return out


def boot_copies_masked(img, off):
    """image with the boot sector and (FAT32) its backup blanked — 'apart from the boot-sector copies'"""
    v = specfat.Volume(img, off)
    b = bytearray(img)
    b[off:off + v.g.bps] = b"\0" * v.g.bps
    if v.type == 32 and v.bkboot:
        o = off + v.bkboot * v.g.bps
        b[o:o + v.g.bps] = b"\0" * v.g.bps
    return bytes(b)


def session(cfg, ops):
    data, off, size = make_image(cfg)
    dev = Dev(data=data, keep_data=True)
    with warnings.catch_warnings(record=True) as wl:
        warnings.simplefilter("always")
        f = mount(dev, offset=off)
    warned_clean = any("cleanly unmounted" in str(x.message) for x in wl)
    errs = []
    handles = {}            # kept until the end: a session may end with file handles still open
    for op in ops:
        got = run_op(f, op, handles)
        if got[0] == "err":
            errs.append((op[0], got[1]))
    f.close()
    return data, off, dev, warned_clean, errs


def run(tier):
    res = Result("marks")
    r = rng("marks")
    n = 0
    for ci, cfg in enumerate(configs(tier)):
        for variant in range(2 if tier == "quick" else 6):
            ops = list(HISTORY)
            if variant:
                r.shuffle(ops)
                ops = ops[:r.randint(0, len(ops))]
            if variant == 1:
                ops = []          # mount + close only
            if variant >= 1 and (variant % 2 == 1 or tier == "quick"):
                # the session ends with handles that have written and were never closed
                ops = ops + [["open", "h1", "/LEFT.OPN", "w"], ["write", "h1", 7, 1700],
                             ["open", "h2", "/docs2", "w"], ["write", "h2", 8, 10], ["truncate", "h2", 5000]]
            n += 1
            rep = {"suite": "marks", "cfg": cfg, "ops": ops}
            try:
                base, off, dev, warned_clean, errs = session(cfg, ops)
            except Exception as e:  # noqa
                res.fail(["C11"], "marks:session-raises:" + exc_class(e), repr(e)[:200], rep)
                continue
            res.case("cfg%d:v%d" % (ci, variant))
            if ops and ops[-1][0] in ("write", "truncate"):
                res.count("sessions-ending-with-open-handles")
            res.count("sessions")
            res.count("writes", len(dev.wlog))
            if n <= 2:
                res.sample({"cfg": cfg, "n_ops": len(ops), "writes": len(dev.wlog),
                            "first_writes": [(w[0], len(w[1])) if w[0] != "T" else w for w in dev.wlog[:4]]})
            if warned_clean:
                res.fail(["C11"], "marks:warns-on-clean-image", "unclean-unmount warning for a cleanly unmounted image", rep)
            final = bytes(dev.data)
            vfin = specfat.Volume(final, off)
            ty = vfin.type
            if vfin.marks():
                res.fail(["C11"], "marks:final-image-marked:type%d" % ty, "the closed image still carries a dirty mark", rep)
            final_masked = boot_copies_masked(final, off)
            nw = len(dev.wlog)
            bad = None
            for k in range(1, nw):
                img = image_at_prefix(base, dev.wlog, k)
                try:
                    marked = specfat.Volume(img, off).marks()
                except specfat.FatError as e:
                    bad = (k, "image unreadable: %s" % e)
                    break
                if not marked and boot_copies_masked(img, off) != final_masked:
                    bad = (k, "no dirty mark, yet the image is not the final one")
                    break
            res.count("prefixes", max(0, nw - 1))
            if bad:
                k, why = bad
                w = dev.wlog[k - 1]
                phase = "mount" if k <= (2 + vfin.g.nfats) else ("close" if k >= nw - (4 + vfin.g.nfats) else "operation")
                res.fail(["C11"], "marks:unmarked-incomplete-state:type%d:nfats%d:during-%s" % (ty, vfin.g.nfats, phase),
                         "after write %d of %d (at %s, %d bytes): %s" % (k, nw, w[0], len(w[1]) if w[0] != "T" else 0, why),
                         dict(rep, prefix=k))
            # a marked image must produce the warning on mount
            if nw >= 2:
                mid = image_at_prefix(base, dev.wlog, max(1, nw // 2))
                try:
                    if specfat.Volume(mid, off).marks():
                        with warnings.catch_warnings(record=True) as wl:
                            warnings.simplefilter("always")
                            f2 = mount(Dev(data=mid, writable=False), offset=off)
                            f2.fs.initialized = False
                        if not any("cleanly unmounted" in str(x.message) for x in wl):
                            res.fail(["C11"], "marks:no-warning-on-marked-image:type%d" % ty, "mount of a marked image did not warn", rep)
                except Exception as e:  # noqa
                    res.fail(["C11", "C12"], "marks:marked-image-mount-raises:" + exc_class(e), repr(e)[:160], rep)
    return res


def replay(rep, signature=None):
    base, off, dev, warned_clean, errs = session(rep["cfg"], rep["ops"])
    final_masked = boot_copies_masked(bytes(dev.data), off)
    for k in range(1, len(dev.wlog)):
        img = image_at_prefix(base, dev.wlog, k)
        if not specfat.Volume(img, off).marks() and boot_copies_masked(img, off) != final_masked:
            return True, "after write %d of %d: no dirty mark and not the final image" % (k, len(dev.wlog))
    return specfat.Volume(bytes(dev.data), off).marks(), "all %d prefixes marked or complete" % len(dev.wlog)
