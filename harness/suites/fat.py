"""Suite `fat` (C04, C08, C01 out-of-space clause, C09): allocation-heavy histories —
fill to full, delete and refill, shrink/grow of files and directories — on
volumes whose FAT has more entries than the data area has clusters, with guard
bands around the volume, 1..3 FATs, FAT12 odd/even last entries, FAT32 with
cluster numbers above 65535 (thorough).
"""
from harness.common import Result, rng
from harness import histcheck


def fill_program(r, g_clusters, bpc, style):
    ops = []
    tag = 0
    names = []
    budget = g_clusters + 8
    i = 0
    ops.append(["makedir", "/fill"])
    while budget > 0:
        tag += 1
        sz = r.choice([1, bpc - 1, bpc, bpc + 1, 3 * bpc, 7 * bpc + 5]) if style != "big" else r.choice([16 * bpc, 40 * bpc + 3])
        nm = "/F%03d.BIN" % i if style != "long" else "/file with long name number %03d.bin" % i
        if i % 5:
            nm = "/fill" + nm
        ops.append(["writebytes", nm, tag, sz])
        names.append(nm)
        budget -= (sz + bpc - 1) // bpc
        i += 1
    # now full (the engine tolerates ENOSPC and checks it is justified)
    r.shuffle(names)
    for nm in names[:len(names) // 2]:
        ops.append(["remove", nm])
    for j in range(len(names) // 3):
        tag += 1
        ops.append(["writebytes", "/R%03d.BIN" % j, tag, r.choice([bpc, 2 * bpc + 1, 5 * bpc])])
    # shrink / grow an existing file repeatedly
    keep = names[len(names) // 2:]
    if keep:
        f = keep[0]
        for sz in (9 * bpc, 1, 4 * bpc + 1, 0, 2 * bpc, 12 * bpc):
            tag += 1
            ops.append(["writebytes", f, tag, sz])
    ops.append(["makedir", "/D"])
    for j in range(6):
        ops.append(["create", "/D/entry with a fairly long name %d.txt" % j])
    for j in range(6):
        ops.append(["remove", "/D/entry with a fairly long name %d.txt" % j])
    ops.append(["removedir", "/D"])
    ops.append(["listdir", "/"])
    return ops


def rootfull_program(rootent, bpc):
    """fixed root directory filled to exactly its last slot, with cluster 2 owned by a sub-directory;
    then rewrites of the full root, one entry too many, remove + refill"""
    ops = [["makedir", "/SUB"], ["writebytes", "/SUB/INNER.TXT", 1, bpc + 3], ["makedir", "/SUB/DEEP"],
           ["writebytes", "/SUB/DEEP/X.BIN", 2, 10]]
    n = rootent - 1
    for i in range(n):
        ops.append(["create", "/F%03d.TXT" % i])
    ops += [["writebytes", "/F000.TXT", 3, 2 * bpc + 1], ["listdir", "/SUB"], ["create", "/ONEMORE.TXT"],
            ["setinfo", "/F001.TXT", {"modified": 1600000000}], ["remove", "/F002.TXT"], ["makedir", "/LASTDIR"],
            ["writebytes", "/LASTDIR/Y", 4, 5], ["appendbytes", "/F000.TXT", 5, bpc], ["listdir", "/"]]
    return ops


def configs(tier):
    out = [
        {"fmt": "spec", "geom": dict(totsec=200, spc=1, rootent=64, nfats=2), "offset": 1536, "guard": 4096},
        {"fmt": "spec", "geom": dict(totsec=343 + 1 + 2 + 4, spc=1, rootent=64, nfats=1), "offset": 0, "guard": 8192},   # 341-entry FAT, exactly filled
        {"fmt": "spec", "geom": dict(totsec=700, spc=2, rootent=32, nfats=3), "offset": 512, "guard": 2048},
        {"fmt": "spec", "geom": dict(totsec=300, spc=1, rootent=32, nfats=2, bps=1024), "offset": 0, "guard": 4096},
        {"fmt": "pyfatfs", "type": 12, "size": 1 << 20, "offset": 2048, "guard": 65536},
    ]
    if tier != "quick":
        out += [
            {"fmt": "spec", "geom": dict(totsec=4400, spc=1, rootent=64, nfats=2), "guard": 4096},       # ~4300 clusters: FAT16 small
            {"fmt": "pyfatfs", "type": 16, "size": 5 << 20, "guard": 65536},
            {"fmt": "spec", "geom": dict(totsec=70000, spc=1, rootent=0, rsvd=32, nfats=2), "guard": 4096},
        ]
    return out


def run(tier):
    from harness import specfat
    res = Result("fat")
    r = rng("fat")
    seen = {}
    styles = ["mixed", "long", "big"]
    n = 0
    for ci, cfg in enumerate(configs(tier)):
        todo = list(styles if tier != "quick" else styles[:2 if ci < 3 else 1])
        if cfg["fmt"] == "spec" and cfg["geom"].get("rootent"):
            todo.append("rootfull")
        for style in todo:
            cfg = dict(cfg, seed=n)
            if cfg["fmt"] == "spec":
                g = specfat.Geom(**cfg["geom"])
                count, bpc = g.count, g.bpc
            else:
                count, bpc = (cfg["size"] // 512) - 40, 512
                if cfg["type"] == 16:
                    count, bpc = cfg["size"] // 1024, 1024
            if count > 500 and style != "rootfull":
                style = "big"
            if style == "rootfull":
                ops = rootfull_program(cfg["geom"]["rootent"], bpc)
            else:
                ops = fill_program(r, count if count < 6000 else count // 40, bpc, style)
            import time as _t
            _t0 = _t.time()
            findings, stats = histcheck.check_history(cfg, ops, remount_every=max(1, len(ops) // 12))
            res.case("cfg%d:%s" % (ci, style))
            res.notes.append("cfg%d %s: %d ops in %.1fs" % (ci, style, len(ops), _t.time() - _t0))
            res.count("programs")
            res.count("ops", stats["ops"])
            res.count("enospc", stats["enospc"])
            if n < 2:
                res.sample({"cfg": cfg, "ops": ops[:5], "n_ops": len(ops)})
            n += 1
            if findings:
                histcheck.report(res, cfg, ops, findings, "fat", shrink_budget=25 if tier == "quick" else 60, seen=seen)
    return res


def replay(rep, signature=None):
    return histcheck.replay(rep, signature)
