"""Suite `schedw` (C19): concurrent modifications under the controlled scheduler.

2-3 threads each run 1-3 mutating operations (create / makedir / remove / removedir /
writebytes / appendbytes / handle sessions open+write+close / setinfo) on different files
and directories of ONE mounted filesystem object.  For every explored schedule:

* the per-thread results and the final tree must equal those of SOME sequential order of
  the operations (every interleaving of the threads' operation sequences is executed
  sequentially on a fresh world to obtain the admissible outcomes);
* after close() the image must satisfy C03-C05: a fresh mount shows the live tree, the
  independent checker has no complaint (no cross-link, leak, broken chain, bad directory).

Exploration as in `schedr`: pre-emption-bounded exhaustive at lock/device granularity,
and at the source lines of the functions that store to shared objects.
"""
import itertools
import warnings

from harness.common import Result, rng, exc_class
from harness import specfat
from harness.fatdev import Dev
from harness.fsrun import make_image, run_op, walk_fs, diff_walks
from harness import sched as S
from harness.suites import schedr as R

import pyfatfs.FatIO as _fatio_mod
import threading as _real_threading


TREE = {"d1": {"OLD.BIN": b"", "keep this one.txt": b""}, "d2": {"X.TXT": b""}, "ROOT.BIN": b"", "e": {}}


def configs(tier):
    out = [{"fmt": "spec", "geom": dict(totsec=600, spc=1, rootent=64, nfats=2)},
           {"fmt": "spec", "geom": dict(totsec=9000, spc=2, rootent=128, nfats=2)}]
    if tier != "quick":
        out.append({"fmt": "spec", "geom": dict(totsec=70000, spc=1, rootent=0, rsvd=32, nfats=2)})
    return out


FIXED_PROGRAMS = [
    # two creators in different directories (both allocate: shared FAT + hint)
    [[["writebytes", "/d1/new one.bin", 1, 700]], [["writebytes", "/d2/NEW2.BIN", 2, 1300]]],
    # unguarded primitives in the same directory
    [[["makedir", "/e/sub a"]], [["create", "/e/F.TXT"]]],
    [[["makedir", "/d1/m"]], [["makedir", "/d2/m"]]],
    # remover vs appender
    [[["remove", "/d1/OLD.BIN"]], [["appendbytes", "/d2/X.TXT", 3, 900]]],
    # handle sessions on different files
    [[["open", "h", "/d1/OLD.BIN", "r+"], ["write", "h", 4, 1500], ["close", "h"]],
     [["open", "g", "/ROOT.BIN", "a"], ["write", "g", 5, 600], ["close", "g"]]],
    [[["create", "/e/A"]], [["create", "/e/B"]], [["makedir", "/e/C"]]],
    # a direct handle session racing another modification of the SAME directory
    [[["open", "h", "/e/hw.bin", "w"], ["write", "h", 6, 700], ["close", "h"]], [["create", "/e/F.TXT"]]],
    [[["open", "h", "/d1/OLD.BIN", "a"], ["write", "h", 7, 900], ["close", "h"]], [["makedir", "/d1/sub dir"]]],
    [[["open", "h", "/d2/n.bin", "w"], ["write", "h", 8, 1300], ["close", "h"]], [["remove", "/d2/X.TXT"]]],
    [[["open", "h", "/e/a.bin", "w"], ["write", "h", 9, 600], ["close", "h"]],
     [["open", "g", "/e/b.bin", "w"], ["write", "g", 10, 600], ["close", "g"]]],
    # overwrite in place (no allocation, the file does not grow) racing an entry coming / going in the SAME directory:
    # the handle still rewrites the directory
    [[["open", "h", "/d1/OLD.BIN", "r+"], ["write", "h", 11, 3], ["close", "h"]], [["create", "/d1/NEWF.TXT"]]],
    [[["open", "h", "/d1/keep this one.txt", "r+"], ["write", "h", 12, 2], ["close", "h"]], [["remove", "/d1/OLD.BIN"]]],
]


def gen_programs(r, nthreads, nops):
    progs = []
    used = set()
    for t in range(nthreads):
        p = []
        base = ["/d1", "/d2", "/e", ""][r.randrange(4)]
        for k in range(nops):
            name = "%s/t%d_%d%s" % (base, t, k, r.choice(["", ".txt", " long name.bin"]))
            x = r.random()
            if x < 0.3:
                p.append(["writebytes", name, 10 * t + k, r.choice([1, 600, 1300])])
                used.add(name)
            elif x < 0.45:
                p.append(["makedir", name])
            elif x < 0.55:
                p.append(["create", name])
            elif x < 0.65 and t == 0 and "/d1/OLD.BIN" not in used:
                p.append(["remove", "/d1/OLD.BIN"])
                used.add("/d1/OLD.BIN")
            elif x < 0.75 and t == 1 and "/d2/X.TXT" not in used:
                p.append(["appendbytes", "/d2/X.TXT", 20 + k, r.choice([5, 900])])
            elif x < 0.85:
                p.append(["setinfo", ["/d1/keep this one.txt", "/ROOT.BIN", "/d2/X.TXT"][t % 3], {"modified": 1400000000 + 86400 * (t + 1)}])
            else:
                h = "h%d%d" % (t, k)
                p += [["open", h, name, "w"], ["write", h, 30 + t, r.choice([10, 700])], ["close", h]]
        progs.append(p)
    return progs


def open_world(img, off, sc):
    return R.open_world(img, off, sc, writable=True)


def body(f, prog):
    def run():
        handles = {}
        return [run_op(f, op, handles) for op in prog]
    return run


def finish(f, dev, off, cp="ibm437"):
    """live walk, close, remount walk, fsck -> (live tree or error, list of problems)"""
    problems = []
    try:
        live = walk_fs(f)
    except Exception as e:  # noqa
        live = None
        problems.append(("live-walk-raises", exc_class(e)))
    try:
        f.close()
    except Exception as e:  # noqa
        problems.append(("close-raises", exc_class(e)))
    img = dev.snapshot()
    if live is not None:
        try:
            d2 = Dev(data=img, writable=False)
            with warnings.catch_warnings():
                warnings.simplefilter("ignore")
                from harness.fatdev import mount
                f2 = mount(d2, offset=off, lazy_load=True)
            other = walk_fs(f2)
            f2.fs.initialized = False
            d = diff_walks(live, other, "live", "remount")
            if d:
                problems.append(("remount:" + d[0][0], str(d[:2])))
        except Exception as e:  # noqa
            problems.append(("remount-raises", exc_class(e)))
    try:
        for code, detail in specfat.fsck(img, off, cp=cp):
            problems.append(("fsck:" + code, detail))
    except Exception as e:  # noqa
        problems.append(("fsck-crash", exc_class(e)))
    return live, problems


def sequential_outcomes(img, off, progs, limit=2000):
    """{(per-thread results, tree)} over every interleaving of the threads' operation sequences"""
    idx = []
    for t, p in enumerate(progs):
        idx += [t] * len(p)
    outs = []
    seen = set()
    for order in set(itertools.permutations(idx)):
        if len(seen) >= limit:
            break
        f, dev = open_world(img, off, None)
        handles = [dict() for _ in progs]
        pos = [0] * len(progs)
        results = [[] for _ in progs]
        for t in order:
            results[t].append(run_op(f, progs[t][pos[t]], handles[t]))
            pos[t] += 1
        try:
            tree = walk_fs(f)
        except Exception as e:  # noqa
            tree = {"<walk-raises>": exc_class(e)}
        f.fs.initialized = False
        key = repr((results, sorted(tree.items())))
        if key not in seen:
            seen.add(key)
            outs.append((results, tree))
    return outs


def run_schedule(img, off, progs, prefix, mode, writers):
    sc = S.Sched(len(progs), decisions=prefix)
    R._Shim.cur = sc
    _fatio_mod.threading = R._Shim()
    try:
        f, dev = open_world(img, off, sc)
        tracer = None
        if mode == "line":
            tracer = S.make_tracer(sc, lambda m, fn: writers.get((m, fn)))
        res = S.run_threads(sc, [body(f, p) for p in progs], tracer=tracer)
        if sc.error:
            f.fs.initialized = False
            return sc, res, None, []
        live, problems = finish(f, dev, off)
        return sc, res, live, problems
    finally:
        _fatio_mod.threading = _real_threading
        R._Shim.cur = None


def explore(res, img, off, progs, mode, bound, max_runs, writers, label, ci):
    admissible = sequential_outcomes(img, off, progs)
    adm_keys = {repr((r_, sorted(t_.items()))) for r_, t_ in adm_keys_src(admissible)}
    found = []

    def run_one(prefix):
        sc, out, live, problems = run_schedule(img, off, progs, prefix, mode, writers)
        return sc.trace, (sc, out, live, problems)

    def on_result(prefix, trace, outcome):
        sc, out, live, problems = outcome
        res.case("%s:%s:cfg%d:n%d" % (label, mode, ci, len(progs)) if len(trace) > 1 else None)
        res.count("schedules:" + mode)
        res.count("decisions:" + mode, len(trace))
        if sc.error:
            found.append(("sched-w:%s" % sc.error.split(":")[0].replace(" ", "-"), sc.error, trace))
            return True
        results = [o[1] if o[0] == "ok" else [["err", o[1]]] for o in out]
        for t, o in enumerate(out):
            if o[0] == "err":
                found.append(("sched-w:thread-raises:%s" % o[1], "thread %d raised %s (%s)" % (t, o[1], o[2]), trace))
                return True
        for r_ in results:
            for x in r_:
                if x[0] == "err" and not R_is_sanctioned(x[1]):
                    found.append(("sched-w:internal-error:%s" % x[1], "an operation raised %s" % x[1], trace))
                    return True
        for code, detail in problems:
            found.append(("sched-w:image:%s" % code, "%s: %s" % (code, detail[:200]), trace))
            return True
        if live is not None and repr((results, sorted(live.items()))) not in adm_keys:
            # describe the nearest sequential outcome
            best = None
            for r_, t_ in admissible:
                d = diff_walks(t_, live, "sequential", "concurrent")
                score = len(d) + sum(1 for a, b in zip(r_, results) if a != b)
                if best is None or score < best[0]:
                    best = (score, d, r_)
            kind = "tree" if best[1] else "results"
            what = best[1][0][0] if best[1] else "per-thread-results"
            found.append(("sched-w:not-linearizable:%s:%s" % (kind, what),
                          "final tree / results equal no sequential order of the operations; nearest order differs by %s, results %s vs %s"
                          % (best[1][:3], str(results)[:200], str(best[2])[:200]), trace))
            return True
        return False

    seen = set()
    runs, exhausted = S.explore_bounded(run_one, min(1, bound), max_runs, on_result, seen=seen)
    res.count("exhausted-bound1:" + mode, 1 if exhausted else 0)
    if bound > 1 and not found and runs < max_runs:
        r2, exhausted = S.explore_bounded(run_one, bound, max_runs - runs, on_result, seen=seen)
        runs += r2
        res.count("exhausted-bound%d:%s" % (bound, mode), 1 if exhausted else 0)
    res.count("program-sets:" + mode)
    res.count("sequential-orders", len(admissible))
    return found, runs, exhausted


def adm_keys_src(adm):
    return adm


def R_is_sanctioned(cls):
    from harness.fsrun import is_sanctioned
    return is_sanctioned(cls)


def fill(tree, bpc, r):
    out = {}
    for k, v in tree.items():
        if isinstance(v, dict):
            out[k] = fill(v, bpc, r)
        else:
            n = r.choice([5, bpc, bpc + 3, 2 * bpc + 1])
            out[k] = bytes((r.randrange(255) + 1) for _ in range(n))
    return out


def run(tier):
    res = Result("schedw")
    r = rng("schedw")
    writers = R.writer_functions()
    seen = set()
    for ci, cfg in enumerate(configs(tier)):
        g = specfat.Geom(**cfg["geom"])
        cfg = dict(cfg, tree=fill(TREE, g.bpc, rng("schedw-tree", ci)))
        img, off, _ = make_image(cfg)
        sets = [(p, "fixed%d" % i) for i, p in enumerate(FIXED_PROGRAMS)]
        for k in range(2 if tier == "quick" else 10):
            sets.append((gen_programs(r, r.choice([2, 2, 3]), r.choice([1, 2])), "rand%d" % k))
        if tier != "quick":
            sets.append((gen_programs(r, 3, 3), "rand33"))
        for progs, label in sets:
            two = len(progs) == 2
            plans = [("dev", 2 if two else 1, 250 if tier == "quick" else 3000),
                     ("line", 2 if two else 1, 250 if tier == "quick" else 4000)]
            if ci > 0 and tier == "quick":
                plans = [(m, 1, 60) for (m, b, n) in plans]
            for mode, bound, cap in plans:
                try:
                    found, runs, exhausted = explore(res, img, off, progs, mode, bound, cap, writers, label, ci)
                except Exception as e:  # noqa
                    import traceback
                    res.fail(["C19"], "sched-w:harness-raises:" + exc_class(e), traceback.format_exc()[-400:],
                             {"suite": "schedw", "cfg": R.cfg_public(cfg), "progs": progs})
                    continue
                if label == "fixed0" and ci == 0:
                    res.sample({"programs": progs, "mode": mode, "bound": bound, "schedules": runs, "exhausted": exhausted})
                for sig, what, trace in found:
                    if sig in seen:
                        continue
                    seen.add(sig)
                    res.fail(["C19"], sig, what + " — schedule: %s" % [t[0] for t in trace][:60],
                             {"suite": "schedw", "cfg": R.cfg_public(cfg), "cfg_index": ci, "progs": progs, "mode": mode,
                              "decisions": [t[0] for t in trace], "sig": sig})
    return res


def replay(rep, signature=None):
    ci = rep.get("cfg_index", 0)
    cfg = rep["cfg"]
    g = specfat.Geom(**cfg["geom"])
    cfg = dict(cfg, tree=fill(TREE, g.bpc, rng("schedw-tree", ci)))
    img, off, _ = make_image(cfg)
    progs = rep["progs"]
    adm = sequential_outcomes(img, off, progs)
    keys = {repr((r_, sorted(t_.items()))) for r_, t_ in adm}
    sc, out, live, problems = run_schedule(img, off, progs, rep["decisions"], rep["mode"], R.writer_functions())
    results = [o[1] if o[0] == "ok" else [["err", o[1]]] for o in out]
    bad = bool(sc.error) or bool(problems) or any(o[0] != "ok" for o in out) or \
        (live is not None and repr((results, sorted(live.items()))) not in keys)
    txt = "schedule of %d decisions (%s); %d sequential outcomes\nresults: %s\nimage problems: %s\nscheduler: %s" % (
        len(rep["decisions"]), rep["mode"], len(adm), str(results)[:400], problems[:4], sc.error)
    return bad, txt
