"""Shared infrastructure of the correspondence / oracle harness.

Everything random derives from VERIF_SEED.  The real pyfatfs is imported from
/repo (first on sys.path); the Lean model is driven through the compiled
line-protocol driver (lean/.lake/build/bin/driver).
"""
import hashlib
import json
import os
import random
import subprocess
import sys
import time
import warnings

VERIF = os.path.dirname(os.path.dirname(os.path.abspath(__file__)))
REPO = os.environ.get("VERIF_REPO", "/repo")
LEAN = os.path.join(VERIF, "lean")
DRIVER = os.path.join(LEAN, ".lake", "build", "bin", "driver")

if REPO not in sys.path:
    sys.path.insert(0, REPO)
warnings.simplefilter("ignore")


def seed():
    try:
        return int(os.environ.get("VERIF_SEED", "0"))
    except ValueError:
        return 0


def rng(*tags):
    """Independent PRNG stream derived from VERIF_SEED and tags."""
    h = hashlib.sha256(("%d|" % seed() + "|".join(map(str, tags))).encode()).digest()
    return random.Random(int.from_bytes(h[:8], "big"))


def source_hash():
    h = hashlib.sha256()
    d = os.path.join(REPO, "pyfatfs")
    for n in sorted(os.listdir(d)):
        if n.endswith(".py"):
            h.update(n.encode())
            with open(os.path.join(d, n), "rb") as f:
                h.update(f.read())
    return h.hexdigest()


def hexs(b):
    return bytes(b).hex() if len(b) else "-"


def natlist(xs):
    return ",".join(str(int(x)) for x in xs) if len(xs) else "-"


class Driver:
    """Batch interface to the Lean driver: queue lines, run once, read answers."""

    def __init__(self):
        self.lines = []

    def ask(self, line):
        assert "\n" not in line
        self.lines.append(line)
        return len(self.lines) - 1

    def run(self, timeout=600):
        if not os.path.exists(DRIVER):
            raise RuntimeError("driver not built: " + DRIVER)
        inp = ("\n".join(self.lines) + "\n").encode()
        p = subprocess.run([DRIVER], input=inp, stdout=subprocess.PIPE, stderr=subprocess.PIPE, timeout=timeout)
        if p.returncode != 0:
            raise RuntimeError("driver failed: rc=%s %s" % (p.returncode, p.stderr.decode()[-2000:]))
        out = p.stdout.decode().split("\n")
        if out and out[-1] == "":
            out.pop()
        if len(out) != len(self.lines):
            raise RuntimeError("driver answered %d lines for %d requests" % (len(out), len(self.lines)))
        return out


class Result:
    """What a suite reports."""

    def __init__(self, suite):
        self.suite = suite
        self.evaluations = 0
        self.nontrivial = set()
        self.samples = []
        self.distribution = {}
        self.divergences = []      # model vs implementation disagreements
        self.failures = []         # implementation vs specification (oracle) failures
        self.notes = []
        self.t0 = time.time()

    def count(self, key, n=1):
        self.distribution[key] = self.distribution.get(key, 0) + n

    def case(self, tag):
        """register one evaluated case; tag identifies its non-trivial class (or None)."""
        self.evaluations += 1
        if tag is not None:
            self.nontrivial.add(tag)

    def sample(self, s, limit=6):
        if len(self.samples) < limit:
            self.samples.append(s)

    def diverge(self, what, request, model, impl, props):
        self.divergences.append({"what": what, "request": request[:400], "model": str(model)[:400],
                                 "impl": str(impl)[:400], "properties": props})

    def fail(self, props, signature, what, replay):
        """Oracle failure on the real code. signature identifies the finding class."""
        self.failures.append({"properties": props, "signature": signature, "what": what, "replay": replay})

    def to_json(self):
        return {"suite": self.suite, "evaluations": self.evaluations,
                "distinct_nontrivial": len(self.nontrivial), "samples": self.samples,
                "distribution": self.distribution, "divergences": self.divergences,
                "failures": self.failures, "notes": self.notes,
                "wall_s": round(time.time() - self.t0, 2)}


def exc_class(e):
    """Canonical error enum for an exception raised by the real code."""
    import fs.errors as fe
    from pyfatfs._exceptions import PyFATException
    n = type(e).__name__
    if isinstance(e, PyFATException):
        return "PyFAT:%s" % (e.errno if e.errno is not None else "-")
    if isinstance(e, fe.FSError):
        return n
    return n


def load_known_findings():
    p = os.path.join(VERIF, "known_findings.json")
    if not os.path.exists(p):
        return {"findings": [], "fixed": []}
    with open(p) as f:
        return json.load(f)
