"""Worker for suite `time`: runs in a subprocess whose TZ is set by the parent.
Prints one JSON line: list of findings [(signature, what, replay)] and counts."""
import json
import os
import sys
import time
import datetime

sys.path.insert(0, os.path.dirname(os.path.dirname(os.path.abspath(__file__))))
time.tzset()
from harness import common, specfat  # noqa: E402
from harness.fatdev import Dev, mount  # noqa: E402
from harness.fsrun import make_image  # noqa: E402


def local_fields(ts, utc):
    """broken-down time the specification stores: local time of the process zone, or UTC"""
    if utc:
        d = datetime.datetime.fromtimestamp(ts, tz=datetime.timezone.utc)
    else:
        d = datetime.datetime.fromtimestamp(ts)          # local rules incl. DST
    return (d.year, d.month, d.day, d.hour, d.minute, d.second)


def is_fold_or_gap(ts):
    """instants whose local broken-down time is ambiguous (fold): not representable in a local-time format"""
    d = datetime.datetime.fromtimestamp(ts)
    other = d.replace(fold=1 - d.fold)
    return other.timestamp() != d.timestamp()


def main():
    tzname = os.environ.get("TZ", "UTC")
    instants = json.loads(sys.argv[1])
    out = {"tz": tzname, "findings": [], "evaluations": 0, "classes": []}
    cfg = {"fmt": "spec", "geom": dict(totsec=600, spc=1, rootent=64, nfats=2)}
    data, off, size = make_image(cfg)
    for utc in (False, True):
        dev = Dev(data=data)
        f = mount(dev, utc=utc)
        # ---- stamping of new entries: wall clock of the operation
        t0 = time.time()
        f.create("/NEW.TXT")
        f.writebytes("/W.BIN", b"x" * 10)
        t1 = time.time()
        for p in ("/NEW.TXT", "/W.BIN"):
            det = f.getinfo(p, namespaces=["details"]).raw["details"]
            for field in ("created", "modified"):
                v = det[field]
                out["evaluations"] += 1
                if not (t0 - 2.01 <= v <= t1 + 0.01):
                    out["findings"].append(["time:stamp-not-wall-clock:utc=%s:%s" % (utc, "tz-utc" if tzname == "UTC" else "tz-nonutc"),
                                            "%s of %s reported %.0f, wall clock %.0f (diff %.0f s) in %s" % (field, p, v, t0, v - t0, tzname),
                                            {"tz": tzname, "utc": utc, "probe": "stamp"}])
        # ---- setinfo / getinfo round trip
        f.create("/T.TXT")
        for ts in instants:
            out["evaluations"] += 1
            inrange = 315532800 + 86400 <= ts < 4354819200 - 86400
            fold = (not utc) and is_fold_or_gap(ts)
            cls = "in" if inrange else "out"
            try:
                f.setinfo("/T.TXT", {"details": {"modified": ts, "created": ts, "accessed": ts}})
                err = None
            except Exception as e:  # noqa
                err = common.exc_class(e)
            if not inrange:
                # rejected or clamped; never corrupt: the entry must still be readable and the directory writable
                try:
                    f.getinfo("/T.TXT", namespaces=["details"])
                    f.create("/AFTER.TXT")
                    f.remove("/AFTER.TXT")
                except Exception as e:  # noqa
                    out["findings"].append(["time:out-of-range-corrupts:utc=%s" % utc, "after setinfo(%d): %s" % (ts, common.exc_class(e)),
                                            {"tz": tzname, "utc": utc, "ts": ts}])
                if err is not None and err not in ("ValueError", "OverflowError", "OSError") and not err.startswith("PyFAT"):
                    out["findings"].append(["time:out-of-range-internal-error:%s" % err, "setinfo(%d) raised %s" % (ts, err), {"tz": tzname, "utc": utc, "ts": ts}])
                continue
            if err is not None:
                out["findings"].append(["time:setinfo-raises:%s:utc=%s" % (err, utc), "setinfo(%d) raised %s in %s" % (ts, err, tzname),
                                        {"tz": tzname, "utc": utc, "ts": ts}])
                continue
            if fold:
                continue      # the fold hour cannot be represented by a local-time on-disk format
            det = f.getinfo("/T.TXT", namespaces=["details"]).raw["details"]
            exp_mod = ts - ts % 2
            y, m, d = local_fields(ts, utc)[:3]
            kind = "dst" if (not utc and time.localtime(ts).tm_isdst > 0) else "std"
            out["classes"].append("%s:%s:%s" % (tzname, utc, kind))
            for field in ("modified", "created"):
                if det[field] != exp_mod:
                    out["findings"].append(["time:roundtrip:%s:utc=%s:%s:diff=%d" % (field, utc, "tz-utc" if tzname == "UTC" else "tz-nonutc", det[field] - exp_mod),
                                            "set %s=%d in %s (utc=%s), getinfo reports %d (diff %d s)" % (field, ts, tzname, utc, det[field], det[field] - exp_mod),
                                            {"tz": tzname, "utc": utc, "ts": ts, "field": field}])
            # accessed: the day
            acc = det["accessed"]
            if utc:
                exp_day = datetime.datetime(y, m, d, tzinfo=datetime.timezone.utc).timestamp()
            else:
                exp_day = datetime.datetime(y, m, d).timestamp()
            if acc != exp_day:
                out["findings"].append(["time:roundtrip:accessed:utc=%s:%s:diff=%d" % (utc, "tz-utc" if tzname == "UTC" else "tz-nonutc", acc - exp_day),
                                        "set accessed=%d in %s (utc=%s), getinfo reports %d, start of that day is %d" % (ts, tzname, utc, acc, exp_day),
                                        {"tz": tzname, "utc": utc, "ts": ts, "field": "accessed"}])
            # on disk: the broken-down local (or UTC) time, per the specification
            ents = specfat.Volume(bytes(dev.data), 0).parse_dir(0, True, "ibm437")
            e = next(x for x in ents if x["short"] == "T.TXT")
            w_d, w_t = e["wdate"], e["wtime"]
            disk = (((w_d >> 9) & 0x7F) + 1980, (w_d >> 5) & 0xF, w_d & 0x1F, (w_t >> 11) & 0x1F, (w_t >> 5) & 0x3F, (w_t & 0x1F) * 2)
            lf = local_fields(ts, utc)
            exp_disk = lf[:5] + (lf[5] - lf[5] % 2,)
            if disk != exp_disk:
                out["findings"].append(["time:on-disk-fields:utc=%s:%s" % (utc, "tz-utc" if tzname == "UTC" else "tz-nonutc"),
                                        "instant %d in %s (utc=%s): on disk %s, specification %s" % (ts, tzname, utc, disk, exp_disk),
                                        {"tz": tzname, "utc": utc, "ts": ts}])
        f.close()
    print("@@" + json.dumps(out))


if __name__ == "__main__":
    main()
