"""History engine: worlds (a real pyfatfs filesystem on an instrumented device
plus a reference filesystem), operations, observation, oracles, shrinking.

Used by the suites ns / io / fat / dir / fail / ro / bounds / marks / crash.
Everything is JSON-serialisable so that a failing history is a replay file.
"""
import errno
import hashlib
import io
import warnings

from harness import common
from harness import specfat
from harness.fatdev import Dev, mkfs, mount, image_at_prefix  # noqa: F401

import fs.errors as fe
from fs.memoryfs import MemoryFS
from fs.base import FS
from fs.mode import Mode
from fs.info import Info  # noqa: F401
from pyfatfs._exceptions import PyFATException

warnings.simplefilter("ignore")

SANCTIONED = ("PyFAT:", )


# ---------------------------------------------------------------------------
# worlds
# ---------------------------------------------------------------------------

def make_image(cfg):
    """cfg -> (device bytes, volume offset, volume length).  cfg keys:
    fmt: 'pyfatfs' | 'spec'; type 12/16/32 (pyfatfs) ; size (bytes) or geom dict (spec);
    ss sector size; nfats; offset; guard; seed; tree (spec: initial content); placement; garbage."""
    off = cfg.get("offset", 0)
    guard = cfg.get("guard", 0)
    if cfg["fmt"] == "pyfatfs":
        size = cfg["size"]
        body = Dev(size=size)
        mkfs(body, cfg["type"], size, sector_size=cfg.get("ss", 512), number_of_fats=cfg.get("nfats", 2),
             label=cfg.get("label", "NO NAME"), encoding=cfg.get("cp", "ibm437"))
        img = bytes(body.data[:size])
        if len(img) < size:
            img = img + b"\0" * (size - len(img))
    else:
        g = specfat.Geom(**cfg["geom"])
        r = common.rng("image", cfg.get("seed", 0))
        b = specfat.Builder(g, r, cp=cfg.get("cp", "ibm437"), placement=cfg.get("placement", "seq"),
                            debris=cfg.get("debris", False), fat_garbage=cfg.get("garbage", False),
                            boot_garbage=cfg.get("garbage", False))
        img = b.build(cfg.get("tree", {}), label=cfg.get("label"))
        size = len(img)
        if cfg.get("fill_free"):
            # non-zero garbage in every free cluster
            v = specfat.Volume(img, 0)
            buf = bytearray(img)
            for c in range(2, v.g.count + 2):
                if v.entry(c) == 0:
                    o = v.g.clus_off(c)
                    buf[o:o + v.g.bpc] = bytes(((c * 31 + k) & 0xFF) | 1 for k in range(v.g.bpc))
            img = bytes(buf)
    pre = bytes((0xA5 ^ (i & 0xFF)) for i in range(off))
    post = bytes((0x5A ^ (i & 0xFF)) for i in range(guard))
    return pre + img + post, off, size


class RefFS(MemoryFS):
    """The reference filesystem of C01: PyFilesystem2's in-memory filesystem, with the
    compound helpers taken from fs.base.FS (pyfatfs inherits those, so the order in which
    several simultaneous error conditions are reported is the base class's) and with
    `create` on an existing directory being FileExpected (pinned by the repo's own
    test_create_file_folder_dupe)."""
    move = FS.move
    copy = FS.copy

    def create(self, path, wipe=False):
        if self.isdir(path):
            raise fe.FileExpected(path)
        return super().create(path, wipe=wipe)

    def openbin(self, path, mode="r", buffering=-1, **options):
        # creation / truncation / exclusivity / error classes: exactly MemoryFS'
        MemoryFS.openbin(self, path, mode, buffering, **options).close()
        return RefFile(self, path, Mode(mode + "b" if "b" not in mode else mode))

    def _raw_get(self, path):
        with MemoryFS.openbin(self, path, "r") as f:
            return f.read()

    def _raw_put(self, path, data):
        with MemoryFS.openbin(self, path, "w") as f:
            f.write(bytes(data))


class RefFile:
    """Spec.ByteBuf: Python binary-file semantics over a byte buffer + open-mode gating.
    (MemoryFS' own file object mispositions after an extending truncate(), does not gate
    truncate() by mode and positions only once in append mode; real files do none of that.)"""

    def __init__(self, fs_, path, mode):
        self.fs, self.name, self.mode = fs_, path, mode
        self.closed = False
        self.pos = len(fs_._raw_get(path)) if mode.appending else 0

    def _chk(self):
        if self.closed:
            raise ValueError("I/O operation on closed file")

    def tell(self):
        self._chk()
        return self.pos

    def seek(self, off, whence=0):
        self._chk()
        size = len(self.fs._raw_get(self.name))
        if whence == 0:
            if off < 0:
                raise ValueError("negative seek value %d" % off)
            self.pos = off
        elif whence == 1:
            self.pos = max(0, self.pos + off)
        elif whence == 2:
            self.pos = max(0, size + off)
        else:
            raise ValueError("invalid whence")
        return self.pos

    def read(self, n=-1):
        self._chk()
        if not self.mode.reading:
            raise OSError("File not open for reading")
        data = self.fs._raw_get(self.name)
        if n is None or n < 0:
            n = max(0, len(data) - self.pos)
        chunk = data[self.pos:self.pos + n]
        self.pos += len(chunk)
        return bytes(chunk)

    def readinto(self, buf):
        b = self.read(len(buf))
        buf[:len(b)] = b
        return len(b)

    def write(self, b):
        self._chk()
        if not self.mode.writing:
            raise OSError("File not open for writing")
        data = bytearray(self.fs._raw_get(self.name))
        if self.mode.appending:
            self.pos = len(data)
        if self.pos > len(data):
            data.extend(b"\0" * (self.pos - len(data)))
        data[self.pos:self.pos + len(b)] = b
        self.pos += len(b)
        self.fs._raw_put(self.name, data)
        return len(b)

    def truncate(self, size=None):
        self._chk()
        if not self.mode.writing:
            raise OSError("File not open for writing")
        if size is None:
            size = self.pos
        if size < 0:
            raise ValueError("negative size")
        data = bytearray(self.fs._raw_get(self.name))
        if size < len(data):
            del data[size:]
        else:
            data.extend(b"\0" * (size - len(data)))
        self.fs._raw_put(self.name, data)
        return size

    def close(self):
        self.closed = True

    def __enter__(self):
        return self

    def __exit__(self, *a):
        self.close()

    def flush(self):
        pass

    def readable(self):
        return self.mode.reading

    def writable(self):
        return self.mode.writing

    def seekable(self):
        return True

    def __iter__(self):
        return iter(self.read().splitlines(True))


class World:
    def __init__(self, cfg, ro_dev=False):
        self.cfg = cfg
        data, off, size = make_image(cfg)
        self.initial = data
        self.dev = Dev(data=data, writable=not ro_dev, keep_data=cfg.get("keep_writes", False))
        self.dev.vol = (off, size)
        self.off, self.size = off, size
        self.mount_kw = dict(encoding=cfg.get("cp", "ibm437"), offset=off, preserve_case=cfg.get("preserve_case", True),
                             utc=cfg.get("utc", False), lazy_load=cfg.get("lazy", True))
        self.fs = mount(self.dev, **self.mount_kw)
        self.ref = RefFS()
        if cfg["fmt"] == "spec" and cfg.get("tree"):
            _populate(self.ref, cfg["tree"], "/")
        self.handles = {}
        self.rhandles = {}
        self.closed = False

    def close(self):
        if not self.closed:
            self.closed = True
            for h in list(self.handles.values()):
                try:
                    h.close()
                except Exception:  # noqa
                    pass
            self.fs.close()

    def abandon(self):
        """drop without clean close (keeps __del__ from writing)"""
        self.closed = True
        try:
            self.fs.fs.initialized = False
        except Exception:  # noqa
            pass


def _populate(ref, tree, base):
    for n, v in tree.items():
        p = base.rstrip("/") + "/" + n
        if isinstance(v, dict):
            ref.makedir(p)
            _populate(ref, v, p)
        else:
            ref.writebytes(p, bytes(v))


# ---------------------------------------------------------------------------
# operations
# ---------------------------------------------------------------------------

def data_for(tag, n):
    """deterministic non-zero payload ("fill:X" = the byte X repeated: stale data that looks like directory slots)"""
    if isinstance(tag, str) and tag.startswith("fill:"):
        return tag[5:6].encode("latin-1") * n
    h = hashlib.sha256(str(tag).encode()).digest()
    out = bytearray()
    i = 0
    while len(out) < n:
        out += hashlib.sha256(h + i.to_bytes(4, "big")).digest()
        i += 1
    return bytes(b | 1 for b in out[:n])


def _norm_info(info):
    return [bool(info.is_dir), None if info.is_dir else info.size]


def run_op(fsys, op, handles=None):
    """execute one op on a PyFilesystem2 object; -> ['ok', value] | ['err', class]"""
    k = op[0]
    try:
        if k == "makedir":
            fsys.makedir(op[1])
            return ["ok", None]
        if k == "makedirs":
            fsys.makedirs(op[1], recreate=bool(op[2]) if len(op) > 2 else False)
            return ["ok", None]
        if k == "create":
            return ["ok", bool(fsys.create(op[1], wipe=bool(op[2]) if len(op) > 2 else False))]
        if k == "touch":
            fsys.touch(op[1])
            return ["ok", None]
        if k == "writebytes":
            fsys.writebytes(op[1], data_for(op[2], op[3]))
            return ["ok", None]
        if k == "appendbytes":
            fsys.appendbytes(op[1], data_for(op[2], op[3]))
            return ["ok", None]
        if k == "readbytes":
            return ["ok", hashlib.sha256(fsys.readbytes(op[1])).hexdigest()[:16]]
        if k == "remove":
            fsys.remove(op[1])
            return ["ok", None]
        if k == "removedir":
            fsys.removedir(op[1])
            return ["ok", None]
        if k == "removetree":
            fsys.removetree(op[1])
            return ["ok", None]
        if k == "copy":
            fsys.copy(op[1], op[2], overwrite=bool(op[3]) if len(op) > 3 else False)
            return ["ok", None]
        if k == "move":
            fsys.move(op[1], op[2], overwrite=bool(op[3]) if len(op) > 3 else False)
            return ["ok", None]
        if k == "listdir":
            return ["ok", sorted(fsys.listdir(op[1]))]
        if k == "exists":
            return ["ok", bool(fsys.exists(op[1]))]
        if k == "isdir":
            return ["ok", bool(fsys.isdir(op[1]))]
        if k == "isfile":
            return ["ok", bool(fsys.isfile(op[1]))]
        if k == "getinfo":
            return ["ok", _norm_info(fsys.getinfo(op[1], namespaces=["details"]))]
        if k == "getsize":
            return ["ok", fsys.getsize(op[1])]
        if k == "setinfo":
            fsys.setinfo(op[1], {"details": op[2]})
            return ["ok", None]
        # ---- file objects
        if k == "open":
            h = fsys.openbin(op[2], op[3])
            handles[op[1]] = h
            return ["ok", None]
        h = handles.get(op[1]) if handles is not None else None
        if h is None:
            return ["err", "NoHandle"]
        if k == "seek":
            return ["ok", h.seek(op[2], op[3])]
        if k == "tell":
            return ["ok", h.tell()]
        if k == "read":
            b = h.read(op[2])
            return ["ok", None if b is None else bytes(b).hex() if len(b) <= 64 else
                    "%d:%s" % (len(b), hashlib.sha256(bytes(b)).hexdigest()[:16])]
        if k == "readinto":
            buf = bytearray(op[2])
            n = h.readinto(buf)
            return ["ok", [n, hashlib.sha256(bytes(buf[:n or 0])).hexdigest()[:16]]]
        if k == "write":
            return ["ok", h.write(data_for(op[2], op[3]))]
        if k == "truncate":
            return ["ok", h.truncate(op[2])] if len(op) > 2 and op[2] is not None else ["ok", h.truncate()]
        if k == "close":
            h.close()
            handles.pop(op[1], None)
            return ["ok", None]
        raise ValueError("unknown op %r" % (op,))
    except Exception as e:  # noqa
        return ["err", common.exc_class(e)]


def is_sanctioned(cls):
    """error classes the properties allow to escape: pyfatfs / PyFilesystem2 / OSError family / ValueError"""
    if cls.startswith("PyFAT:"):
        return True
    if hasattr(fe, cls):
        return True
    return cls in ("OSError", "IOError", "ValueError", "IsADirectoryError", "FileNotFoundError", "PermissionError",
                   "UnsupportedOperation", "FileExistsError", "NotADirectoryError")


# ---------------------------------------------------------------------------
# observation
# ---------------------------------------------------------------------------

def walk_fs(fsys, with_times=False):
    """{path: ('d',) | ('f', size, sha)}; raises whatever the filesystem raises"""
    out = {}
    stack = ["/"]
    while stack:
        d = stack.pop()
        for n in sorted(fsys.listdir(d)):
            p = d.rstrip("/") + "/" + n
            info = fsys.getinfo(p, namespaces=["details"])
            if info.is_dir:
                out[p] = ("d",)
                stack.append(p)
            else:
                data = fsys.readbytes(p)
                ent = ("f", info.size, hashlib.sha256(data).hexdigest()[:16])
                out[p] = ent
            if with_times:
                out[p] = out[p] + (int(info.raw["details"].get("modified") or 0),
                                   int(info.raw["details"].get("created") or 0))
    return out


def walk_spec(tree, base=""):
    out = {}
    for n, v in tree.items():
        p = base + "/" + n
        if isinstance(v, dict):
            out[p] = ("d",)
            out.update(walk_spec(v, p))
        else:
            out[p] = ("f", len(v), hashlib.sha256(bytes(v)).hexdigest()[:16])
    return out


def diff_walks(a, b, an="live", bn="other"):
    """-> list of (kind, path) describing how b differs from a"""
    out = []
    for p in sorted(set(a) | set(b)):
        if p not in b:
            out.append(("missing-in-" + bn, p))
        elif p not in a:
            out.append(("extra-in-" + bn, p))
        elif a[p][0] != b[p][0]:
            out.append(("kind-differs", p))
        elif a[p][0] == "f" and a[p][1] != b[p][1]:
            out.append(("size-differs", p))
        elif a[p] != b[p]:
            out.append(("content-differs" if a[p][:3] != b[p][:3] else "time-differs", p))
    return out


def remount_walk(world, lazy, with_times=False):
    """fresh read-only instance on a copy of the device bytes"""
    snap = world.dev.snapshot()
    d2 = Dev(data=snap, writable=False)
    kw = dict(world.mount_kw)
    kw["lazy_load"] = lazy
    f2 = mount(d2, **kw)
    try:
        return walk_fs(f2, with_times)
    finally:
        f2.fs.initialized = False   # nothing to mark clean on a read-only copy


def free_clusters(image, off=0):
    v = specfat.Volume(image, off)
    return sum(1 for c in range(2, v.g.count + 2) if v.entry(c) == 0), v.g


def opkind(op):
    k = op[0]
    if k == "create" and len(op) > 2 and op[2]:
        return "create(wipe)"
    if k == "open":
        return "open(%s)" % op[3]
    if k in ("copy", "move") and len(op) > 3 and op[3]:
        return k + "(overwrite)"
    return k


def signature_of(kind, ops):
    ks = [opkind(o) for o in ops]
    # collapse runs
    out = []
    for k in ks:
        if out and out[-1][0] == k:
            out[-1][1] += 1
        else:
            out.append([k, 1])
    return kind + "|" + ",".join(k if n == 1 else "%s*" % k for k, n in out)
