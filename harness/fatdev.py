"""Instrumented block device handed to pyfatfs, and helpers to format / mount.

The device is a plain Python object with the io methods pyfatfs uses
(seek/read/write/truncate/readable/seekable/writable/close/tell).  It logs
every access, keeps guard bands, can refuse writes (read-only media) and lets
the harness rebuild the image at any prefix of the write log (crash points).
No source hook in /repo is needed.
"""
import io
import os
from unittest import mock

from harness import common  # noqa: F401  (sys.path set-up)

from pyfatfs.PyFat import PyFat
from pyfatfs.PyFatFS import PyFatBytesIOFS


class Dev:
    """bytearray-backed device.

    vol = (offset, length) of the volume inside the device, for bounds checks;
    log entries: (kind, pos, length) with kind in R/W/T; writes also keep data
    when keep_data is set.
    """

    def __init__(self, size=0, data=None, writable=True, keep_data=False, fill=None):
        if data is not None:
            self.data = bytearray(data)
        elif fill is not None:
            r = common.rng("devfill", fill, size)
            self.data = bytearray(r.getrandbits(8) for _ in range(size)) if size < 1 << 16 else \
                bytearray(os.urandom(0)) + bytearray(r.randbytes(size))
        else:
            self.data = bytearray(size)
        self.pos = 0
        self._writable = writable
        self.keep_data = keep_data
        self.log = []
        self.wlog = []          # (pos, bytes) of every write, in order (when keep_data)
        self.closed = False
        self.vol = None
        self.oob = []           # accesses outside self.vol
        self.initial_len = len(self.data)
        self.max_len = len(self.data)
        self.fail_writes = False   # raise OSError on any write (write-protected medium)
        self.name = "<verif-dev>"

    # -- io protocol
    def readable(self):
        return True

    def seekable(self):
        return True

    def writable(self):
        return self._writable

    def tell(self):
        return self.pos

    def seek(self, pos, whence=0):
        if whence == 0:
            self.pos = pos
        elif whence == 1:
            self.pos += pos
        else:
            self.pos = len(self.data) + pos
        if self.pos < 0:
            raise OSError(22, "negative seek")
        return self.pos

    def _check(self, kind, pos, n):
        if self.vol is not None:
            o, ln = self.vol
            if pos < o or pos + n > o + ln:
                self.oob.append((kind, pos, n))

    def read(self, n=-1):
        if n is None or n < 0:
            n = max(0, len(self.data) - self.pos)
        self.log.append(("R", self.pos, n))
        self._check("R", self.pos, n)
        b = bytes(self.data[self.pos:self.pos + n])
        self.pos += len(b)
        return b

    def write(self, b):
        b = bytes(b)
        self.log.append(("W", self.pos, len(b)))
        self._check("W", self.pos, len(b))
        if self.fail_writes or not self._writable:
            raise OSError(30, "write to read-only device")
        if self.keep_data:
            self.wlog.append((self.pos, b))
        end = self.pos + len(b)
        if end > len(self.data):
            self.data.extend(b"\0" * (end - len(self.data)))
            self.max_len = max(self.max_len, end)
        self.data[self.pos:end] = b
        self.pos = end
        return len(b)

    def truncate(self, size=None):
        if size is None:
            size = self.pos
        self.log.append(("T", size, 0))
        if self.fail_writes or not self._writable:
            raise OSError(30, "truncate on read-only device")
        if self.keep_data:
            self.wlog.append(("T", size))
        if size < len(self.data):
            del self.data[size:]
        else:
            self.data.extend(b"\0" * (size - len(self.data)))
        self.max_len = max(self.max_len, len(self.data))
        return size

    def flush(self):
        pass

    def close(self):
        self.closed = True

    # -- harness side
    def snapshot(self):
        return bytes(self.data)

    def writes(self):
        return [e for e in self.log if e[0] in "WT"]


def image_at_prefix(base, wlog, k):
    """image after the first k recorded writes applied to base (bytes)."""
    img = bytearray(base)
    for ent in wlog[:k]:
        if ent[0] == "T":
            size = ent[1]
            if size < len(img):
                del img[size:]
            else:
                img.extend(b"\0" * (size - len(img)))
            continue
        pos, b = ent
        end = pos + len(b)
        if end > len(img):
            img.extend(b"\0" * (end - len(img)))
        img[pos:end] = b
    return bytes(img)


def mkfs(dev, fat_type, size, sector_size=512, number_of_fats=2, label="NO NAME", volume_id=0x12345678,
         media_type=0xF8, offset=0, encoding="ibm437"):
    """Run the real PyFat.mkfs on dev (the repo's own tests patch `open` the same way)."""
    pf = PyFat(encoding=encoding, offset=offset)
    with mock.patch("pyfatfs.PyFat.open", return_value=dev):
        pf.mkfs("verif", fat_type, size=size, sector_size=sector_size, number_of_fats=number_of_fats,
                label=label, volume_id=volume_id, media_type=media_type)
    pf.initialized = False   # keep __del__ from touching the device again
    return pf


def mount(dev, **kw):
    return PyFatBytesIOFS(dev, **kw)


def fresh_volume(fat_type, size, offset=0, guard=0, fill=None, **kw):
    """device of offset+size+guard bytes with a pyfatfs-formatted volume at offset."""
    dev = Dev(size=offset + size + guard, fill=fill)
    if fill is not None:
        # mkfs parses the root directory from prior content (D22): give it a zeroed volume
        dev.data[offset:offset + size] = b"\0" * size
    body = Dev(size=size)
    mkfs(body, fat_type, size, **kw)
    dev.data[offset:offset + size] = body.data[:size]
    dev.vol = (offset, size)
    dev.log.clear()
    return dev
