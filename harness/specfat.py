"""Independent FAT12/16/32 + VFAT implementation written from the Microsoft
specification (fatgen103) — NOT from pyfatfs: image builder (formatter),
reader and consistency checker.  Used as oracle against the real code.

Conventions: a tree is {name: bytes | dict}.  Names are str.  Code page is a
Python codec name (single-byte OEM code pages).
"""
import struct

ATTR_RO, ATTR_HID, ATTR_SYS, ATTR_VOL, ATTR_DIR, ATTR_ARC = 1, 2, 4, 8, 16, 32
ATTR_LFN = 0x0F

SFN_ILLEGAL = set(range(0x20)) | set(b'"*+,./:;<=>?[\\]|')
LFN_ILLEGAL = set('"*/:<>?\\|') | {chr(c) for c in range(0x20)}


class Geom:
    def __init__(self, bps=512, spc=1, rsvd=1, nfats=2, rootent=224, totsec=2880, fatsz=None, media=0xF8,
                 fat32=None, rootclus=2, fsinfo=1, bkboot=6):
        self.bps, self.spc, self.rsvd, self.nfats, self.rootent, self.totsec = bps, spc, rsvd, nfats, rootent, totsec
        self.media, self.rootclus, self.fsinfo, self.bkboot = media, rootclus, fsinfo, bkboot
        self.rootsecs = (rootent * 32 + bps - 1) // bps
        if fatsz is None:
            fatsz = self._min_fatsz(fat32)
        self.fatsz = fatsz
        self.firstdata = rsvd + nfats * fatsz + self.rootsecs
        self.datasec = totsec - self.firstdata
        self.count = self.datasec // spc if self.datasec > 0 else 0
        self.type = 12 if self.count < 4085 else (16 if self.count < 65525 else 32)
        self.bpc = bps * spc

    def _min_fatsz(self, fat32):
        # smallest FAT that can describe all clusters (iterate: fatsz influences count)
        for fs in range(1, 1 << 22):
            data = self.totsec - (self.rsvd + self.nfats * fs + self.rootsecs)
            if data <= 0:
                return fs
            cnt = data // self.spc
            ty = 12 if cnt < 4085 else (16 if cnt < 65525 else 32)
            need = ((cnt + 2) * {12: 3, 16: 4, 32: 8}[ty] + 1) // 2   # bytes
            if fs * self.bps >= need:
                return fs
        raise ValueError("no FAT size")

    def valid(self):
        if self.datasec <= 0 or self.count < 1:
            return False
        if self.type == 32 and self.rootent != 0:
            return False
        if self.type != 32 and (self.rootent == 0 or (self.rootent * 32) % self.bps):
            return False
        ent_bytes = {12: 1.5, 16: 2, 32: 4}[self.type]
        if self.fatsz * self.bps < (self.count + 2) * ent_bytes:
            return False
        if self.type != 32 and self.fatsz > 0xFFFF:
            return False
        if self.type == 32 and self.rsvd <= max(self.fsinfo, self.bkboot + 1):
            return False
        return True

    def clus_off(self, c):
        return ((c - 2) * self.spc + self.firstdata) * self.bps

    def describe(self):
        return {"bps": self.bps, "spc": self.spc, "rsvd": self.rsvd, "nfats": self.nfats, "rootent": self.rootent,
                "totsec": self.totsec, "fatsz": self.fatsz, "type": self.type, "count": self.count}


# ---------------------------------------------------------------------------
# names
# ---------------------------------------------------------------------------

def lfn_legal(name):
    if not (1 <= len(name.encode("utf-16-le")) // 2 <= 255):
        return False
    if any(ch in LFN_ILLEGAL for ch in name):
        return False
    if name[-1] in ". ":
        return False
    if name in (".", ".."):
        return False
    return True


def is_plain_83(name, cp):
    """name is exactly representable as an upper-case short name."""
    if name != name.upper() or name.startswith(".") or " " in name:
        return False
    base, dot, ext = name.rpartition(".") if "." in name else (name, "", "")
    if "." in base or not (1 <= len(base) <= 8) or len(ext) > 3 or (dot and not ext):
        return False
    try:
        bb, eb = base.encode(cp), ext.encode(cp)
    except UnicodeEncodeError:
        return False
    if len(bb) > 8 or len(eb) > 3:
        return False
    return not any(b in SFN_ILLEGAL for b in bb + eb)


def pack_83(name, cp):
    base, _, ext = name.rpartition(".") if "." in name else (name, "", "")
    b = base.encode(cp).ljust(8) + ext.encode(cp).ljust(3)
    if b[0] == 0xE5:
        b = b"\x05" + b[1:]
    return b


def make_alias(name, taken, cp):
    """Windows-style basis name + numeric tail; `taken` = set of 11-byte names in use."""
    up = name.upper().replace(" ", "").lstrip(".")
    base, _, ext = up.rpartition(".") if "." in up else (up, "", "")

    def clean(s, n):
        out = bytearray()
        for ch in s:
            if ch == ".":
                continue
            try:
                bs = ch.encode(cp)
            except UnicodeEncodeError:
                bs = b"_"
            for b in bs:
                out.append(0x5F if b in SFN_ILLEGAL else b)
        return bytes(out[:n])
    eb = clean(ext, 3)
    bb = clean(base, 8) or b"_"
    for i in range(1, 1000000):
        tail = ("~%d" % i).encode()
        cand = (bb[:8 - len(tail)] + tail).ljust(8) + eb.ljust(3)
        if cand[0] == 0xE5:
            cand = b"\x05" + cand[1:]
        if cand not in taken:
            return cand
    raise ValueError("alias space exhausted")


def sfn_checksum(b11):
    s = 0
    for c in b11:
        s = (((s & 1) << 7) + (s >> 1) + c) & 0xFF
    return s


def lfn_slots(name, cks):
    units = list(struct.unpack("<%dH" % (len(name.encode("utf-16-le")) // 2), name.encode("utf-16-le")))
    n = (len(units) + 12) // 13
    if len(units) % 13:
        units.append(0)
        units += [0xFFFF] * (n * 13 - len(units))
    slots = []
    for i in range(n, 0, -1):
        chunk = units[(i - 1) * 13:i * 13]
        raw = struct.pack("<13H", *chunk)
        ordv = i | (0x40 if i == n else 0)
        slots.append(struct.pack("<B10sBBB12sH4s", ordv, raw[:10], ATTR_LFN, 0, cks, raw[10:22], 0, raw[22:26]))
    return slots


def dos_date(y, m, d):
    return ((y - 1980) << 9) | (m << 5) | d


def dos_time(h, mi, s):
    return (h << 11) | (mi << 5) | (s // 2)


def short_entry(b11, attr, cluster, size, stamp=(2020, 2, 3, 4, 5, 6)):
    dt, tm = dos_date(*stamp[:3]), dos_time(*stamp[3:])
    return struct.pack("<11sBBBHHHHHHHL", b11, attr, 0, 0, tm, dt, dt, cluster >> 16, tm, dt, cluster & 0xFFFF, size)


# ---------------------------------------------------------------------------
# builder
# ---------------------------------------------------------------------------

class Builder:
    """Lay out `tree` on a fresh image of geometry g.

    placement: 'seq' ascending, 'rev' descending, 'frag' random, 'max' highest clusters first.
    debris: sprinkle deleted slots, an orphan LFN set, slots after the end mark, a volume label.
    fat_garbage: non-zero values in FAT entries beyond the cluster count and FAT32 reserved bits.
    """

    def __init__(self, g, rnd, cp="ibm437", placement="frag", debris=False, fat_garbage=False,
                 boot_garbage=True, dirty=False, lead05=False, res1_garbage=False):
        assert g.valid(), g.describe()
        self.g, self.rnd, self.cp = g, rnd, cp
        self.placement, self.debris, self.fat_garbage, self.dirty = placement, debris, fat_garbage, dirty
        self.img = bytearray(g.totsec * g.bps)
        self.fat = [0] * (g.count + 2)
        free = list(range(2, g.count + 2))
        if placement == "rev":
            free.reverse()
        elif placement == "frag":
            rnd.shuffle(free)
        elif placement == "max":
            free.sort(reverse=True)
        self.free = free
        self.boot_garbage = boot_garbage
        self.lead05 = lead05
        self.res1_garbage = res1_garbage
        self.bad = []

    def alloc(self, n):
        if n > len(self.free):
            raise MemoryError("image full")
        cs = [self.free.pop(0) for _ in range(n)]
        eoc = {12: 0xFFF, 16: 0xFFFF, 32: 0x0FFFFFFF}[self.g.type]
        for a, b in zip(cs, cs[1:]):
            self.fat[a] = b
        self.fat[cs[-1]] = self.rnd.choice([eoc, eoc - 7]) if self.fat_garbage else eoc
        return cs

    def mark_bad(self, n):
        badv = {12: 0xFF7, 16: 0xFFF7, 32: 0x0FFFFFF7}[self.g.type]
        for _ in range(min(n, max(0, len(self.free) - 4))):
            c = self.free.pop(self.rnd.randrange(len(self.free)))
            self.fat[c] = badv
            self.bad.append(c)

    def write_chain(self, cs, data):
        g = self.g
        for i, c in enumerate(cs):
            chunk = data[i * g.bpc:(i + 1) * g.bpc]
            o = g.clus_off(c)
            self.img[o:o + len(chunk)] = chunk

    def dir_bytes(self, entries, self_clus, parent_clus, is_root):
        """entries: list of (name, attr, cluster, size) -> slot bytes + meta."""
        slots = []
        taken = set()
        listing = []
        if not is_root:
            slots.append(short_entry(b".          ", ATTR_DIR, self_clus, 0))
            slots.append(short_entry(b"..         ", ATTR_DIR, parent_clus, 0))
        rnd = self.rnd
        for (name, attr, clus, size) in entries:
            if self.debris and rnd.random() < 0.3:
                junk = bytearray(rnd.getrandbits(8) for _ in range(32))
                junk[0] = 0xE5
                slots.append(bytes(junk))
            if self.debris and rnd.random() < 0.15:
                # orphan long-name set (checksum of nothing that follows) then a deleted slot
                for s in lfn_slots("orphan long name %d" % rnd.randrange(1000), 0x5A):
                    slots.append(s)
                junk = bytearray(short_entry(b"GONE    TXT", ATTR_ARC, 0, 0))
                junk[0] = 0xE5
                slots.append(bytes(junk))
            if is_plain_83(name, self.cp):
                b11 = pack_83(name, self.cp)
                lf = []
            else:
                b11 = make_alias(name, taken, self.cp)
                if self.lead05 and rnd.random() < 0.3 and (b"\x05" + b11[1:]) not in taken:
                    # the alias is the other implementation's choice: one whose first character is OEM byte 0xE5,
                    # stored as 0x05; the long-name checksum covers the bytes as stored
                    b11 = b"\x05" + b11[1:]
                lf = lfn_slots(name, sfn_checksum(b11))
            taken.add(b11)
            slots += lf
            slots.append(short_entry(b11, attr, clus, size))
            listing.append((name, b11))
        data = b"".join(slots)
        tail = b""
        if self.debris:
            # end mark, then garbage that must be ignored
            tail = b"\0" * 32 + short_entry(b"AFTEREND   ", ATTR_ARC, 0, 0) + bytes(self.rnd.getrandbits(8) | 1 for _ in range(32))
        return data, tail, listing

    def place_dir(self, tree, parent_clus, is_root, label=None):
        g = self.g
        # reserve this directory's first cluster now (children need it for '..')
        fixed_root = is_root and g.type != 32
        my_first = 0 if fixed_root else self.alloc(1)[0]
        entries = []
        if is_root and label is not None:
            entries.append(("\0label", ATTR_VOL, 0, 0))
        for name in tree:
            v = tree[name]
            if isinstance(v, dict):
                sub_first = self.place_dir(v, my_first if not is_root else 0, False)
                entries.append((name, ATTR_DIR, sub_first, 0))
            else:
                data = bytes(v)
                if len(data) == 0:
                    entries.append((name, ATTR_ARC, 0, 0))
                else:
                    n = (len(data) + g.bpc - 1) // g.bpc
                    cs = self.alloc(n)
                    self.write_chain(cs, data)
                    entries.append((name, ATTR_ARC, cs[0], len(data)))
        # the label is a plain short entry
        real = []
        lab = None
        for e in entries:
            if e[0] == "\0label":
                lab = e
            else:
                real.append(e)
        data, tail, _ = self.dir_bytes(real, my_first, parent_clus, is_root)
        if lab is not None:
            data = short_entry(label.encode(self.cp).ljust(11)[:11], ATTR_VOL, 0, 0) + data
        blob = data + tail
        if fixed_root:
            cap = g.rootent * 32
            if len(blob) > cap:
                blob = data
            if len(blob) > cap:
                raise MemoryError("root directory full")
            o = (g.rsvd + g.nfats * g.fatsz) * g.bps
            self.img[o:o + len(blob)] = blob
        else:
            need = max(1, (len(blob) + g.bpc - 1) // g.bpc)
            cs = [my_first]
            if need > 1:
                more = self.alloc(need - 1)
                # link first -> more
                self.fat[my_first] = more[0]
                cs += more
            self.write_chain(cs, blob)
        return my_first

    def build(self, tree, label=None, volid=0xCAFEBABE):
        g, rnd = self.g, self.rnd
        if self.fat_garbage:
            self.mark_bad(3)
        root_first = self.place_dir(tree, 0, True, label)
        # --- FAT
        eocs = {12: 0xFFF, 16: 0xFFFF, 32: 0x0FFFFFFF}[g.type]
        self.fat[0] = (eocs & ~0xFF) | g.media
        self.fat[1] = eocs
        if self.dirty and g.type == 16:
            self.fat[1] &= ~0x8000
        if self.dirty and g.type == 32:
            self.fat[1] &= ~0x08000000
        n = g.fatsz * g.bps
        cnt_total = {12: (n * 2) // 3, 16: n // 2, 32: n // 4}[g.type]
        table = list(self.fat) + [0] * (cnt_total - len(self.fat))
        if self.fat_garbage:
            top = {12: 0xFFF, 16: 0xFFFF, 32: 0x0FFFFFFF}[g.type]
            for k in range(len(self.fat), cnt_total):
                if rnd.random() < 0.5:
                    table[k] = rnd.randrange(top + 1)
            if g.type == 32:
                for k in range(cnt_total):
                    if rnd.random() < 0.3:
                        table[k] |= rnd.randrange(16) << 28
        raw = bytearray(n)
        if g.type == 12:
            for k, e in enumerate(table):
                a = k + k // 2
                if k & 1:
                    raw[a] |= (e & 0xF) << 4
                    raw[a + 1] = e >> 4
                else:
                    raw[a] = e & 0xFF
                    raw[a + 1] |= (e >> 8) & 0xF
        elif g.type == 16:
            raw[:cnt_total * 2] = struct.pack("<%dH" % cnt_total, *table)
        else:
            raw[:cnt_total * 4] = struct.pack("<%dL" % cnt_total, *table)
        for i in range(g.nfats):
            o = (g.rsvd + i * g.fatsz) * g.bps
            self.img[o:o + n] = raw
        # --- boot sector
        boot = bytearray(rnd.getrandbits(8) for _ in range(g.bps)) if self.boot_garbage else bytearray(g.bps)
        tot16 = g.totsec if (g.totsec < 0x10000 and g.type != 32) else 0
        tot32 = 0 if tot16 else g.totsec
        common = struct.pack("<3s8sHBHBHHBHHHLL", b"\xEB\x58\x90", b"MSDOS5.0", g.bps, g.spc, g.rsvd, g.nfats, g.rootent,
                             tot16, g.media, g.fatsz if g.type != 32 else 0, 63, 255, 0, tot32)
        res1 = 1 if self.dirty else 0
        if self.boot_garbage and self.res1_garbage:
            # bits 1..7 of BS_Reserved1 are reserved (0x02 = NT's surface-scan flag): a foreign volume may carry them
            res1 |= rnd.choice([0, 0, 0x02, 0x80, 0xFE, 0x7C])
        lab = (label or "NO NAME").encode(self.cp).ljust(11)[:11]
        if g.type == 32:
            ext = struct.pack("<LHHLHH12sBBBL11s8s", g.fatsz, 0, 0, root_first, g.fsinfo, g.bkboot, b"\0" * 12,
                              0x80, res1, 0x29, volid, lab, b"FAT32   ")
        else:
            ext = struct.pack("<BBBL11s8s", 0x80, res1, 0x29, volid, lab, b"FAT%d   " % g.type)
        boot[:len(common) + len(ext)] = common + ext
        boot[510:512] = b"\x55\xAA"
        self.img[0:g.bps] = boot
        if g.type == 32:
            free_cnt = sum(1 for c in range(2, g.count + 2) if self.fat[c] == 0)
            fsi = struct.pack("<L480xLLL12xL", 0x41615252, 0x61417272, free_cnt, 2, 0xAA550000)
            self.img[g.fsinfo * g.bps:g.fsinfo * g.bps + 512] = fsi
            self.img[g.bkboot * g.bps:(g.bkboot + 1) * g.bps] = boot
            self.img[(g.bkboot + 1) * g.bps:(g.bkboot + 1) * g.bps + 512] = fsi
        return bytes(self.img)


# ---------------------------------------------------------------------------
# reader
# ---------------------------------------------------------------------------

class FatError(Exception):
    pass


class Volume:
    def __init__(self, image, offset=0):
        self.img = image
        self.off = offset
        b = image[offset:offset + 512]
        if len(b) < 512:
            raise FatError("short boot sector")
        (self.jmp, self.oem, bps, spc, rsvd, nfats, rootent, tot16, media, fatsz16, _spt, _heads, _hidden,
         tot32) = struct.unpack("<3s8sHBHBHHBHHHLL", b[:36])
        if bps not in (512, 1024, 2048, 4096) or spc not in (1, 2, 4, 8, 16, 32, 64, 128) or rsvd == 0 or nfats == 0:
            raise FatError("bad BPB")
        if b[510:512] != b"\x55\xAA":
            raise FatError("no signature")
        fatsz = fatsz16
        self.rootclus = 0
        self.fsinfo = self.bkboot = None
        if fatsz16 == 0:
            fatsz, _flags, _ver, self.rootclus, self.fsinfo, self.bkboot = struct.unpack("<LHHLHH", b[36:52])
            self.res1_off = 65
        else:
            self.res1_off = 37
        self.res1 = b[self.res1_off]
        totsec = tot16 or tot32
        self.g = Geom(bps=bps, spc=spc, rsvd=rsvd, nfats=nfats, rootent=rootent, totsec=totsec, fatsz=fatsz,
                      media=media, rootclus=self.rootclus)
        g = self.g
        if fatsz == 0 or g.datasec <= 0:
            raise FatError("bad geometry")
        self.type = g.type
        n = fatsz * bps
        self.fats = [image[offset + (rsvd + i * fatsz) * bps: offset + (rsvd + i * fatsz) * bps + n] for i in range(nfats)]
        if any(len(f) != n for f in self.fats):
            raise FatError("image shorter than its FAT")
        self.eoc_min = {12: 0xFF8, 16: 0xFFF8, 32: 0x0FFFFFF8}[self.type]
        self.badv = {12: 0xFF7, 16: 0xFFF7, 32: 0x0FFFFFF7}[self.type]

    def entry(self, k, copy=0):
        f = self.fats[copy]
        if self.type == 12:
            a = k + k // 2
            if a + 1 >= len(f):
                raise FatError("FAT index out of table")
            w = f[a] | f[a + 1] << 8
            return (w >> 4) if k & 1 else (w & 0xFFF)
        if self.type == 16:
            return struct.unpack_from("<H", f, 2 * k)[0]
        return struct.unpack_from("<L", f, 4 * k)[0] & 0x0FFFFFFF

    def raw_entry32(self, k, copy=0):
        return struct.unpack_from("<L", self.fats[copy], 4 * k)[0]

    def chain(self, first):
        g = self.g
        out = []
        seen = set()
        c = first
        while True:
            if c < 2 or c >= g.count + 2:
                raise FatError("cluster %d out of range" % c)
            if c in seen:
                raise FatError("cycle at cluster %d" % c)
            seen.add(c)
            out.append(c)
            nx = self.entry(c)
            if nx >= self.eoc_min:
                return out
            if nx == self.badv:
                raise FatError("bad cluster in chain")
            if nx == 0:
                raise FatError("chain runs into free cluster after %d" % c)
            c = nx

    def cluster(self, c):
        o = self.off + self.g.clus_off(c)
        b = self.img[o:o + self.g.bpc]
        if len(b) != self.g.bpc:
            raise FatError("cluster %d beyond image" % c)
        return b

    def dir_slots(self, first, is_root):
        g = self.g
        if is_root and self.type != 32:
            o = self.off + (g.rsvd + g.nfats * g.fatsz) * g.bps
            raw = self.img[o:o + g.rootent * 32]
        else:
            raw = b"".join(self.cluster(c) for c in self.chain(first))
        return [raw[i:i + 32] for i in range(0, len(raw), 32)]

    def parse_dir(self, first, is_root, cp):
        """-> list of entry dicts in slot order (specials and labels excluded), per the VFAT rules."""
        out = []
        pend = []        # pending LFN slots, in disk order
        for idx, s in enumerate(self.dir_slots(first, is_root)):
            if s[0] == 0x00:
                break
            if s[0] == 0xE5:
                pend = []
                continue
            attr = s[11]
            if (attr & 0x3F) == ATTR_LFN:
                pend.append(s)
                continue
            if attr & ATTR_VOL:
                pend = []
                continue
            name11 = s[:11]
            long_name = self._assemble(pend, name11)
            nslots = len(pend) + 1
            pend = []
            if name11[0] == 0x05:
                name11 = b"\xE5" + name11[1:]
            base = name11[:8].decode(cp, "replace").rstrip(" ")
            ext = name11[8:].decode(cp, "replace").rstrip(" ")
            short = base + ("." + ext if ext else "")
            (_, _, ntres, _tenth, ctime, cdate, adate, hi, wtime, wdate, lo, size) = struct.unpack("<11sBBBHHHHHHHL", s)
            out.append({"name": long_name if long_name is not None else short, "short": short, "raw11": bytes(s[:11]),
                        "long": long_name, "attr": attr, "cluster": (hi << 16) | lo, "size": size, "slot": idx, "nslots": nslots,
                        "cdate": cdate, "ctime": ctime, "adate": adate, "wdate": wdate, "wtime": wtime})
        return out

    @staticmethod
    def _assemble(pend, name11):
        if not pend:
            return None
        n = len(pend)
        if pend[0][0] != (n | 0x40):
            return None
        cks = sfn_checksum(name11)
        units = []
        for i, s in enumerate(pend):
            exp = (n - i) | (0x40 if i == 0 else 0)
            if s[0] != exp or s[13] != cks or s[26:28] != b"\0\0":
                return None
        for s in reversed(pend):
            units += list(struct.unpack("<13H", s[1:11] + s[14:26] + s[28:32]))
        if 0 in units:
            units = units[:units.index(0)]
        # no terminator: the name fills its slots; 0xFFFF units are then part of what a specification-following
        # reader (e.g. Linux vfat) sees — they are NOT stripped here, a set padded without a terminator reads differently
        try:
            return struct.pack("<%dH" % len(units), *units).decode("utf-16-le")
        except UnicodeDecodeError:
            return None

    def read_file(self, ent):
        if ent["size"] == 0:
            return b""
        cs = self.chain(ent["cluster"])
        need = (ent["size"] + self.g.bpc - 1) // self.g.bpc
        if len(cs) < need:
            raise FatError("chain shorter than file size")
        return b"".join(self.cluster(c) for c in cs[:need])[:ent["size"]]

    def tree(self, cp="ibm437", with_meta=False, max_depth=40):
        def walk(first, is_root, depth):
            if depth > max_depth:
                raise FatError("directory nesting too deep")
            t = {}
            for e in self.parse_dir(first, is_root, cp):
                if e["short"] in (".", ".."):
                    continue
                if e["attr"] & ATTR_DIR:
                    v = walk(e["cluster"], False, depth + 1)
                else:
                    v = self.read_file(e)
                if e["name"] in t:
                    raise FatError("duplicate name %r" % e["name"])
                t[e["name"]] = (v, e) if with_meta else v
            return t
        return walk(self.rootclus, True, 0)

    def marks(self):
        """is any dirty indicator set"""
        nt = bool(self.res1 & 1)
        dos = False
        if self.type == 16:
            dos = not (self.entry(1) & 0x8000)
        elif self.type == 32:
            dos = not (self.entry(1) & 0x08000000)
        return nt or dos


def read_tree(image, offset=0, cp="ibm437", with_meta=False):
    return Volume(image, offset).tree(cp, with_meta)


# ---------------------------------------------------------------------------
# checker
# ---------------------------------------------------------------------------

def fsck(image, offset=0, cp="ibm437", check_dirs=True):
    """-> list of (code, detail).  Empty list = consistent per the specification."""
    out = []
    try:
        v = Volume(image, offset)
    except FatError as e:
        return [("boot", str(e))]
    g = v.g
    if g.totsec * g.bps + offset > len(image):
        out.append(("boot.size", "volume of %d sectors exceeds the image" % g.totsec))
    # FAT copies identical
    for i in range(1, g.nfats):
        if v.fats[i] != v.fats[0]:
            diff = next(k for k in range(len(v.fats[0])) if v.fats[i][k] != v.fats[0][k])
            out.append(("fat.copies", "copy %d differs from copy 0 at byte %d" % (i, diff)))
    # reserved entries
    e0 = v.entry(0)
    lowmask = {12: 0xFF, 16: 0xFF, 32: 0xFF}[v.type]
    if (e0 & lowmask) != g.media or (e0 | lowmask) != {12: 0xFFF, 16: 0xFFFF, 32: 0x0FFFFFFF}[v.type]:
        out.append(("fat.entry0", hex(e0)))
    e1 = v.entry(1)
    if v.type == 12 and e1 < 0xFF0:
        out.append(("fat.entry1", hex(e1)))
    if v.type == 16 and (e1 | 0xC000) != 0xFFFF:
        out.append(("fat.entry1", hex(e1)))
    if v.type == 32 and (e1 | 0x0C000000) != 0x0FFFFFFF:
        out.append(("fat.entry1", hex(e1)))
    owner = {}
    dirs_seen = set()

    def claim(first, who, size, is_dir):
        try:
            cs = v.chain(first)
        except FatError as e:
            out.append(("chain.broken", "%s: %s" % (who, e)))
            return None
        for c in cs:
            if c in owner:
                out.append(("chain.crosslink", "cluster %d owned by %s and %s" % (c, owner[c], who)))
            owner[c] = who
        if not is_dir:
            need = (size + g.bpc - 1) // g.bpc
            if size > 0 and len(cs) != need:
                out.append(("chain.length", "%s: %d clusters for %d bytes (need %d)" % (who, len(cs), size, need)))
            if size == 0 and len(cs) > 1:
                out.append(("chain.length", "%s: empty file owns %d clusters" % (who, len(cs))))
        return cs

    def check_dir(first, is_root, path, parent_first, depth):
        if depth > 40:
            out.append(("dir.depth", path))
            return
        key = ("root" if is_root and v.type != 32 else first)
        if key in dirs_seen:
            out.append(("dir.loop", path))
            return
        dirs_seen.add(key)
        try:
            slots = v.dir_slots(first, is_root)
        except FatError as e:
            out.append(("dir.unreadable", "%s: %s" % (path, e)))
            return
        # raw slot discipline
        ended = False
        pend = []
        shorts = {}
        first_two = []
        for idx, s in enumerate(slots):
            if ended:
                if check_dirs and s != b"\0" * 32:
                    out.append(("dir.after-end", "%s slot %d not zero after end mark" % (path, idx)))
                    break
                continue
            if s[0] == 0:
                ended = True
                if check_dirs and pend:
                    out.append(("lfn.orphan", "%s: long-name slots before end mark" % path))
                if check_dirs and s != b"\0" * 32:
                    out.append(("dir.end-dirty", "%s slot %d" % (path, idx)))
                continue
            if s[0] == 0xE5:
                if check_dirs and pend:
                    out.append(("lfn.orphan", "%s: long-name slots before a free slot %d" % (path, idx)))
                pend = []
                continue
            attr = s[11]
            if (attr & 0x3F) == ATTR_LFN:
                if check_dirs:
                    if s[12] != 0 or s[26:28] != b"\0\0":
                        out.append(("lfn.fields", "%s slot %d type/cluster not zero" % (path, idx)))
                pend.append(s)
                continue
            name11 = bytes(s[:11])
            if len(first_two) < 2:
                first_two.append((idx, name11, s))
            if attr & ATTR_VOL:
                if check_dirs and pend:
                    out.append(("lfn.orphan", "%s: long-name slots before a label" % path))
                pend = []
                if not is_root:
                    out.append(("dir.label", "%s: volume label outside root" % path))
                continue
            (_, _, _nt, _tenth, _ct, _cd, _ad, hi, _wt, _wd, lo, size) = struct.unpack("<11sBBBHHHHHHHL", s)
            clus = (hi << 16) | lo
            special = name11 in (b".          ", b"..         ")
            if check_dirs:
                # long-name set shape
                if pend:
                    n = len(pend)
                    cks = sfn_checksum(name11)
                    ok = pend[0][0] == (n | 0x40)
                    for i, ls in enumerate(pend):
                        exp = (n - i) | (0x40 if i == 0 else 0)
                        if ls[0] != exp:
                            ok = False
                        if ls[13] != cks:
                            out.append(("lfn.checksum", "%s: set before %r" % (path, name11)))
                            break
                    if not ok:
                        out.append(("lfn.sequence", "%s: ordinals %s before %r" % (path, [x[0] for x in pend], name11)))
                    else:
                        units = []
                        for ls in reversed(pend):
                            units += list(struct.unpack("<13H", ls[1:11] + ls[14:26] + ls[28:32]))
                        if 0 in units:
                            z = units.index(0)
                            if any(u != 0xFFFF for u in units[z + 1:]):
                                out.append(("lfn.padding", "%s: %r" % (path, name11)))
                            if z + 1 + 13 <= len(units) or z % 13 == 0:
                                out.append(("lfn.padding", "%s: a slot holding only terminator/padding before %r" % (path, name11)))
                        elif 0xFFFF in units:
                            out.append(("lfn.padding", "%s: 0xFFFF fill without NUL terminator before %r" % (path, name11)))
                        if len(units) and units[0] in (0, 0xFFFF):
                            out.append(("lfn.empty", "%s: %r" % (path, name11)))
                    if special:
                        out.append(("lfn.special", "%s: long name on dot entry" % path))
                # short name legality
                if not special:
                    chk = bytes([0xE5 if name11[0] == 0x05 else name11[0]]) + name11[1:]
                    base, ext = chk[:8], chk[8:]
                    bad = chk[0] == 0x20 or any(b in SFN_ILLEGAL - {0x2E} or b == 0x2E for b in chk)
                    # (embedded spaces are legal in short names; only DIR_Name[0] may not be a space)
                    try:
                        txt = chk.decode(cp)
                        if txt != txt.upper():
                            out.append(("sfn.lowercase", "%s: %r" % (path, name11)))
                    except UnicodeDecodeError:
                        bad = True
                    if bad:
                        out.append(("sfn.illegal", "%s: %r" % (path, name11)))
                    if name11 in shorts:
                        out.append(("sfn.duplicate", "%s: %r" % (path, name11)))
                    shorts[name11] = idx
            pend = []
            who = path + "/" + name11.decode("latin-1").strip()
            if special:
                continue
            if attr & ATTR_DIR:
                if check_dirs and size != 0:
                    out.append(("dir.size", "%s has size %d" % (who, size)))
                if clus == 0:
                    out.append(("dir.nocluster", who))
                    continue
                cs = claim(clus, who, 0, True)
                if cs is not None:
                    check_dir(clus, False, who, (0 if is_root else first), depth + 1)
            else:
                if clus == 0:
                    if size != 0:
                        out.append(("file.nocluster", "%s: size %d without cluster" % (who, size)))
                else:
                    claim(clus, who, size, False)
        if check_dirs and pend and not ended:
            out.append(("lfn.orphan", "%s: long-name slots at end of directory" % path))
        if not is_root and check_dirs:
            if len(first_two) < 2 or first_two[0][1] != b".          " or first_two[1][1] != b"..         " \
                    or first_two[0][0] != 0 or first_two[1][0] != 1:
                out.append(("dir.dots", "%s: '.' and '..' are not the first two slots" % path))
            else:
                d0 = struct.unpack("<11sBBBHHHHHHHL", first_two[0][2])
                d1 = struct.unpack("<11sBBBHHHHHHHL", first_two[1][2])
                if ((d0[7] << 16) | d0[10]) != first:
                    out.append(("dir.dot-target", "%s: '.' -> %d, own cluster %d" % (path, (d0[7] << 16) | d0[10], first)))
                if ((d1[7] << 16) | d1[10]) != parent_first:
                    out.append(("dir.dotdot-target", "%s: '..' -> %d, parent %d" % (path, (d1[7] << 16) | d1[10], parent_first)))
                if not (d0[1] & ATTR_DIR) or not (d1[1] & ATTR_DIR):
                    out.append(("dir.dots-attr", path))

    if v.type == 32:
        cs = claim(v.rootclus, "<root>", 0, True)
        if cs is not None:
            check_dir(v.rootclus, True, "", 0, 0)
    else:
        check_dir(0, True, "", 0, 0)
    # leaks / marks in the data range; entries must be valid values
    for c in range(2, g.count + 2):
        try:
            e = v.entry(c)
        except FatError as ex:
            out.append(("fat.short", str(ex)))
            break
        if e == 0 or e == v.badv:
            if c in owner:
                out.append(("chain.free-owned", "cluster %d" % c))
            continue
        if c not in owner:
            out.append(("fat.leak", "cluster %d marked %s but not reachable" % (c, hex(e))))
    return out


def geometry_fields(image, offset=0):
    """the volume-geometry bytes of the boot sector (everything but the NT dirty flag byte), + FAT32 backup."""
    v = Volume(image, offset)
    b = bytearray(image[offset:offset + 512])
    b[v.res1_off] = 0
    res = [bytes(b)]
    if v.type == 32 and v.bkboot:
        o = offset + v.bkboot * v.g.bps
        bb = bytearray(image[o:o + 512])
        bb[v.res1_off] = 0
        res.append(bytes(bb))
    return res
