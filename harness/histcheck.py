"""Run one history on a fresh world and judge it with every oracle that applies
(reference filesystem, remount, independent reader, independent checker,
device bounds).  Shrink failing histories.  Shared by suites ns/fat/dir/...
"""
import errno  # noqa: F401
import json

from harness import common, specfat
from harness.fsrun import (World, run_op, walk_fs, walk_spec, diff_walks, remount_walk, free_clusters,
                           is_sanctioned, signature_of, opkind)

MUTATORS = {"makedir", "makedirs", "create", "touch", "writebytes", "appendbytes", "remove", "removedir",
            "removetree", "copy", "move", "setinfo"}


FIXED_SIGNATURE = {"position-beyond-eof-clamped"}   # finding classes identified by their kind alone

IO_OPS = {"open", "seek", "tell", "read", "readinto", "write", "truncate", "close"}


class Finding:
    def __init__(self, props, kind, detail, step):
        self.props, self.kind, self.detail, self.step = props, kind, detail, step

    def __repr__(self):
        return "Finding(%s, %s, step=%s, %s)" % (self.props, self.kind, self.step, self.detail[:160])


def clusters_needed(op, g):
    """generous upper bound of the clusters an operation may legitimately need"""
    k = op[0]
    dirgrow = 2
    if k in ("writebytes", "appendbytes"):
        return (op[3] + g.bpc - 1) // g.bpc + dirgrow + 1
    if k in ("copy", "move"):
        return None   # depends on source size; judged by caller
    if k in ("makedir", "makedirs"):
        return 1 + dirgrow * (op[1].count("/") + 1) + 1
    return dirgrow + 1


def _legit_rejection(op):
    if op[0] in ("create", "makedir", "makedirs", "touch", "writebytes", "appendbytes", "copy", "move"):
        p_ = op[2] if op[0] in ("copy", "move") else op[1]
        if any(len(seg.encode("utf-16-le")) // 2 > 255 for seg in p_.split("/")):
            return True
    if op[0] == "setinfo":
        for v in op[2].values():
            if v is not None and not (315532800 <= v < 4354819200):
                return True
    return False


def _open_paths(w):
    return {getattr(h, "name", None) for h in w.handles.values()}


def check_history(cfg, ops, remount_every=1, want=None, stop_on_first=False, io_frame=False):
    """-> (findings, stats).  want: optional set of kinds to look for (speeds up shrinking)."""
    findings = []
    stats = {"ops": 0, "errors": {}, "enospc": 0}

    def add(props, kind, detail, step):
        if want is None or kind in want:
            findings.append(Finding(props, kind, detail, step))

    w = World(cfg)
    tainted = set()
    live = None
    try:
        for i, op in enumerate(ops):
            stats["ops"] += 1
            before_img = None
            if io_frame and op[0] in ("seek", "write", "truncate") and op[1] in w.rhandles:
                # stay inside C02's domain (also while shrinking a history): no seek past end-of-file,
                # no write / truncate() with the position beyond end-of-file
                rh = w.rhandles[op[1]]
                try:
                    rsize = w.ref.getsize(rh.name)
                    if op[0] == "seek":
                        base = 0 if op[3] == 0 else (rh.pos if op[3] == 1 else rsize)
                        if op[3] in (0, 1, 2) and base + op[2] > rsize:
                            continue
                    elif op[0] == "write" and rh.pos > rsize and not rh.mode.appending:
                        continue
                    elif op[0] == "truncate" and (len(op) < 3 or op[2] is None) and rh.pos > rsize:
                        continue
                except Exception:  # noqa
                    pass
            got = run_op(w.fs, op, w.handles)
            if got[0] == "err":
                stats["errors"][got[1]] = stats["errors"].get(got[1], 0) + 1
            if got == ["err", "PyFAT:28"] or got == ["err", "InsufficientStorage"]:
                # out of space: allowed iff the volume really is (nearly) full; the op must then be a no-op (C09)
                stats["enospc"] += 1
                try:
                    freec, g = free_clusters(before_img if before_img is not None else w.dev.snapshot(), w.off)
                    need = clusters_needed(op, g)
                    if op[0] in ("copy", "move"):
                        try:
                            need = (w.ref.getsize(op[1]) + g.bpc - 1) // g.bpc + 4
                        except Exception:  # noqa
                            need = 4
                    rootfull = False
                    if freec >= need:
                        # the fixed FAT12/16 root directory can be full on its own
                        par = op[1].rsplit("/", 1)[0] if op[0] != "copy" and op[0] != "move" else op[2].rsplit("/", 1)[0]
                        rootfull = (g.type != 32 and par in ("", "/"))
                        if not rootfull:
                            add(["C01", "C09"], "enospc-spurious", "%s refused with %d free clusters, needs <= %d" % (opkind(op), freec, need), i)
                except specfat.FatError as e:
                    add(["C04"], "image-unreadable", str(e), i)
                # C09: nothing may have changed — at the level of the primitive that failed: the
                # compound helpers of fs.base create/truncate their target before the write that
                # fails, so two outcomes are legitimate: tree unchanged (the create step failed), or
                # the target exists and is empty (the write step failed)
                try:
                    now = walk_fs(w.fs)
                    refw = walk_fs(w.ref)
                    d = diff_walks(refw, now, "ref", "live")
                    if d:
                        alt = None
                        if op[0] == "writebytes":
                            alt = ["writebytes", op[1], 0, 0]
                        elif op[0] == "appendbytes":
                            alt = ["appendbytes", op[1], 0, 0]
                        elif op[0] in ("copy", "move") and w.ref.isfile(op[1]):
                            alt = ["writebytes", op[2], 0, 0]
                        if alt is not None:
                            run_op(w.ref, alt)
                            d = diff_walks(walk_fs(w.ref), now, "ref", "live")
                        if d and op[0] == "makedirs":
                            # the helper creates the path level by level: any prefix may exist when a level fails
                            segs = [x for x in op[1].split("/") if x]
                            for k in range(1, len(segs)):
                                run_op(w.ref, ["makedirs", "/" + "/".join(segs[:k]), True])
                                d = diff_walks(walk_fs(w.ref), now, "ref", "live")
                                if not d:
                                    break
                    if d:
                        add(["C09", "C01"], "failed-op-changed-tree", "%s failed with ENOSPC but %s" % (opkind(op), d[:3]), i)
                        break
                except Exception as e:  # noqa
                    add(["C09", "C01"], "failed-op-wedged", "%s after failed %s" % (common.exc_class(e), opkind(op)), i)
                    break
                continue
            if got[0] == "err" and is_sanctioned(got[1]) and _legit_rejection(op):
                # limits the reference filesystem does not have (name > 255 units, time outside 1980..2107):
                # rejecting is right; the tree must be untouched (checked by the following operations and at the end)
                stats["rejected"] = stats.get("rejected", 0) + 1
                continue
            # handles whose byte-buffer position has been beyond end-of-file (a shrinking truncate leaves it there):
            # FatIO cannot represent that position (known finding D17c), so until the next absolute seek the two sides
            # are out of step by construction; deviations on such a handle belong to that finding
            if op[0] in IO_OPS and len(op) > 1 and op[1] in w.rhandles:
                try:
                    if w.rhandles[op[1]].pos > w.ref.getsize(w.rhandles[op[1]].name):
                        tainted.add(op[1])
                except Exception:  # noqa
                    pass
            exp = run_op(w.ref, op, w.rhandles)
            if op[0] in IO_OPS and len(op) > 1 and op[1] in w.rhandles:
                try:
                    if w.rhandles[op[1]].pos > w.ref.getsize(w.rhandles[op[1]].name):
                        tainted.add(op[1])
                except Exception:  # noqa
                    pass
            if op[0] == "close" and len(op) > 1:
                tainted.discard(op[1])
            if op[0] == "seek" and len(op) > 3 and op[3] in (0, 2) and got == exp:
                tainted.discard(op[1])
            if got != exp and op[0] in IO_OPS and len(op) > 1 and op[1] in tainted and op[1] in w.rhandles \
                    and got[0] == "ok" and exp[0] == "ok":
                add(["C02"], "position-beyond-eof-clamped", "%s on a handle whose byte-buffer position had been beyond end-of-file: got %s, "
                    "the byte buffer %s" % (opkind(op), str(got[1])[:40], str(exp[1])[:40]), i)
                try:
                    w.rhandles[op[1]].pos = w.handles[op[1]].tell()
                    if w.rhandles[op[1]].pos <= w.ref.getsize(w.rhandles[op[1]].name):
                        tainted.discard(op[1])
                except Exception:  # noqa
                    pass
                continue
            if got != exp and op[0] in ("tell", "seek") and got[0] == "ok" and exp[0] == "ok" and op[1] in w.rhandles:
                # a position beyond end-of-file (left there by a shrinking truncate) is not representable in
                # FatIO: seek()/tell() clamp it to the size.  One root cause, one finding class.
                try:
                    rh = w.rhandles[op[1]]
                    rsize = w.ref.getsize(rh.name)
                    if exp[1] > rsize and got[1] == rsize:
                        add(["C02"], "position-beyond-eof-clamped", "%s: got %s, a byte buffer reports %s (size %d)" % (opkind(op), got[1], exp[1], rsize), i)
                        rh.pos = got[1]
                        continue
                except Exception:  # noqa
                    pass
            if got != exp and op[0] in ("read", "readinto") and got[0] == "ok" and exp[0] == "ok" and op[1] in w.rhandles:
                # the same root cause seen through a read: the byte buffer's position is beyond end-of-file (left
                # there by a shrinking truncate), so it reads nothing; FatIO's clamped position reads what lies there
                try:
                    rh = w.rhandles[op[1]]
                    rsize = w.ref.getsize(rh.name)
                    if rh.pos > rsize:
                        add(["C02"], "position-beyond-eof-clamped", "%s: a byte buffer at position %d of a %d-byte file reads nothing, "
                            "FatIO (position clamped) returned %s" % (opkind(op), rh.pos, rsize, str(got[1])[:40]), i)
                        rh.pos = w.handles[op[1]].tell()
                        continue
                except Exception:  # noqa
                    pass
            if got != exp:
                pr = ["C02"] if op[0] in IO_OPS else ["C01"]
                if got[0] == "err" and not is_sanctioned(got[1]):
                    add(pr + ["C09"], "internal-error", "%s raised %s (reference: %s)" % (opkind(op), got[1], exp), i)
                elif got[0] == "err" or exp[0] == "err":
                    add(pr, "error-class", "%s: got %s, reference %s" % (opkind(op), got, exp), i)
                else:
                    add(pr, "result", "%s: got %s, reference %s" % (opkind(op), str(got)[:120], str(exp)[:120]), i)
                if stop_on_first and findings:
                    break
                # keep the two sides aligned as far as possible
                if got[0] != exp[0]:
                    break
            if io_frame and op[0] in ("write", "truncate", "close") and got[0] == "ok":
                # C02 frame: no other file's bytes may change (files with an open handle are read at close)
                try:
                    busy = {p_ for p_ in w.cfg.get("_paths", []) if any(str(getattr(h, "name", "")).lstrip("/") == p_.lstrip("/")
                                                                          for h in w.handles.values())}
                    for p_ in w.cfg.get("_paths", []):
                        if p_ in busy:
                            continue
                        if w.ref.exists(p_) != w.fs.exists(p_):
                            add(["C02"], "io-file-existence", "%s after %s" % (p_, opkind(op)), i)
                        elif w.ref.exists(p_) and w.ref.readbytes(p_) != w.fs.readbytes(p_):
                            a_, b_ = w.ref.readbytes(p_), w.fs.readbytes(p_)
                            first = next((k for k in range(min(len(a_), len(b_))) if a_[k] != b_[k]), min(len(a_), len(b_)))
                            add(["C02"], "io-content", "%s differs after %s: len %d vs %d, first difference at %d"
                                % (p_, opkind(op), len(b_), len(a_), first), i)
                except Exception as e:  # noqa
                    add(["C02"], "io-readback-raises", "%s after %s" % (common.exc_class(e), opkind(op)), i)
            if op[0] in MUTATORS and not w.handles and remount_every and (i % remount_every == 0 or i == len(ops) - 1):
                try:
                    live = walk_fs(w.fs, with_times=True)
                except Exception as e:  # noqa
                    add(["C01", "C03"], "live-walk-raises", "%s after %s" % (common.exc_class(e), opkind(op)), i)
                    break
                for lazy in ((True, False) if i % 2 == 0 else (False, True))[:1 if remount_every > 1 else 2]:
                    try:
                        other = remount_walk(w, lazy, with_times=True)
                    except Exception as e:  # noqa
                        add(["C03"], "remount-raises", "%s (lazy=%s) after %s" % (common.exc_class(e), lazy, opkind(op)), i)
                        continue
                    d = diff_walks(live, other, "live", "remount")
                    if d:
                        add(["C03"], "remount:" + d[0][0], "after %s (lazy=%s): %s" % (opkind(op), lazy, d[:3]), i)
                        break
            if stop_on_first and findings:
                break
        # ---- end of history
        if not any(f.kind in ("live-walk-raises",) for f in findings):
            try:
                live = walk_fs(w.fs)
                refw = walk_fs(w.ref)
                d = diff_walks(refw, live, "ref", "live")
                if d and not any(f.kind in ("error-class", "result", "internal-error") for f in findings):
                    add(["C01"], "final-tree:" + d[0][0], str(d[:3]), len(ops))
            except Exception as e:  # noqa
                add(["C01", "C03"], "live-walk-raises", common.exc_class(e) + " at end", len(ops))
                live = None
        try:
            w.close()
        except Exception as e:  # noqa
            add(["C03", "C09"], "close-raises", common.exc_class(e), len(ops))
        img = w.dev.snapshot()
        # C08
        if w.dev.oob:
            add(["C08"], "out-of-volume:" + w.dev.oob[0][0], "access %s outside volume %s" % (w.dev.oob[0], w.dev.vol), len(ops))
        if len(img) != len(w.initial):
            add(["C08"], "device-resized", "%d -> %d bytes" % (len(w.initial), len(img)), len(ops))
        elif img[:w.off] != w.initial[:w.off] or img[w.off + w.size:] != w.initial[w.off + w.size:]:
            add(["C08"], "guard-band-modified", "bytes outside the volume changed", len(ops))
        # C04 / C05
        try:
            complaints = specfat.fsck(img, w.off, cp=cfg.get("cp", "ibm437"))
        except Exception as e:  # noqa
            complaints = [("fsck-crash", common.exc_class(e) + str(e))]
        for code, detail in complaints:
            fatp = code.startswith(("fat.", "chain.", "file.nocluster", "dir.nocluster", "boot", "dir.unreadable", "dir.loop"))
            add(["C04"] if fatp else ["C05"], "fsck:" + code, detail, len(ops))
        try:
            gf0 = specfat.geometry_fields(w.initial, w.off)
            gf1 = specfat.geometry_fields(img, w.off)
            if gf0 != gf1:
                add(["C05", "C16"], "boot-geometry-changed", "boot sector (or backup) differs beyond the dirty flag", len(ops))
        except specfat.FatError:
            pass
        # C06
        if live is not None:
            try:
                spec_tree = walk_spec(specfat.read_tree(img, w.off, cp=cfg.get("cp", "ibm437")))
                d = diff_walks(live, spec_tree, "live", "independent-reader")
                if d:
                    add(["C06", "C03"], "specread:" + d[0][0], str(d[:3]), len(ops))
            except specfat.FatError as e:
                add(["C06", "C04"], "specread-raises", str(e), len(ops))
    finally:
        w.abandon()
    return findings, stats


def shrink(cfg, ops, kind, budget=120, seconds=40):
    """ddmin-style: drop chunks (halving the chunk size) while a finding of the same kind remains"""
    import time
    want = {kind}
    t0 = time.time()
    tries = [0]

    def bad(o):
        tries[0] += 1
        try:
            f, _ = check_history(cfg, o, remount_every=1 if kind.startswith("remount") else 0, want=want, stop_on_first=False,
                                 io_frame="_paths" in cfg)
        except Exception:  # noqa
            return False
        return any(x.kind == kind for x in f)
    cur = list(ops)
    chunk = max(1, len(cur) // 2)
    while chunk >= 1:
        i = 0
        progressed = False
        while i < len(cur):
            if tries[0] >= budget or time.time() - t0 > seconds:
                return cur
            cand = cur[:i] + cur[i + chunk:]
            if cand and bad(cand):
                cur = cand
                progressed = True
            else:
                i += chunk
        if chunk == 1 and not progressed:
            break
        chunk = max(1, chunk // 2) if chunk > 1 else (1 if progressed else 0)
        if chunk == 0:
            break
    return cur


def report(res, cfg, ops, findings, suite, shrink_budget=60, seen=None):
    """turn findings into res.fail entries (shrinking the first of each kind)"""
    by_kind = {}
    for f in findings:
        by_kind.setdefault(f.kind, f)
    for kind, f in by_kind.items():
        if kind in FIXED_SIGNATURE:
            res.fail(f.props, "%s:%s" % (suite, kind), "%s — %s" % (kind, f.detail[:300]),
                     {"suite": suite, "cfg": cfg, "ops": ops[:f.step + 1], "kind": kind})
            continue
        if seen is not None and seen.get(kind, 0) >= 2:
            # already have shrunk exemplars of this kind in this run: signature from the unshrunk step
            small = ops[:f.step + 1]
            sig = None
        else:
            small = shrink(cfg, ops[:min(len(ops), f.step + 1)] if f.step < len(ops) else ops, kind, shrink_budget)
            sig = signature_of(kind, small)
            try:
                again, _ = check_history(cfg, small, want={kind}, io_frame="_paths" in cfg)
                again = [x for x in again if x.kind == kind]
                if again:
                    f = again[0]       # describe the failure of the shrunk history, not of the original one
            except Exception:  # noqa
                pass
            if seen is not None:
                seen[kind] = seen.get(kind, 0) + 1
        if sig is None:
            continue
        res.fail(f.props, "%s:%s" % (suite, sig), "%s — %s" % (kind, f.detail[:300]),
                 {"suite": suite, "cfg": cfg, "ops": small, "kind": kind})


def replay(rep, signature=None):
    findings, _ = check_history(rep["cfg"], rep["ops"])
    kinds = sorted({f.kind for f in findings})
    hit = [f for f in findings if f.kind == rep.get("kind")]
    txt = "history of %d ops on %s\nfindings: %s" % (len(rep["ops"]), json.dumps(rep["cfg"])[:300], kinds)
    for f in hit[:3]:
        txt += "\n  " + repr(f)
    return bool(hit), txt
