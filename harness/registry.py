"""Which Lean module and which suites decide each property."""

TRUSTED_BASE = [
    "Lean 4.33.0 kernel (lake build; thorough tier re-checks with leanchecker)",
    "axioms: at most propext, Classical.choice, Quot.sound (audited per run by Audit.lean); no sorry/native_decide/bv_decide/custom axioms",
    "tools/gen_model.py: extractor + Python-AST -> Lean translator (Gen/Consts, Gen/Arith, Gen/Sites regenerated from /repo every run); PyInt.lean's reading of Python integer operators (validated by suite codec, `pyint`)",
    "correspondence harness (harness/*.py), the driver's line protocol, canonicalisation of results",
    "CPython 3.12 (struct, codecs, datetime, io.BytesIO), fs 2.4.16 base class",
    "hand-written Model/* is tied to the code by differential execution, not by proof",
]

PROPS = {
    "_suite_timeout": {"quick": 1500, "thorough": 7200},
    "C01": {"suites": ["ns", "fat", "volume", "fsmodel"],
            "rule": "ns: random namespace programs (makedir/makedirs/create/touch/writebytes/appendbytes/remove/removedir/removetree/copy/move + reads) over "
                    "mixed name pools x geometries (FAT12/16/32, sector sizes, 1-3 FATs, offsets) x lazy/eager x both formatters, each call compared with the "
                    "reference filesystem; distinct = (configuration, length, set of op kinds). fat: fill-to-full / delete / refill / shrink-grow programs."},
    "C02": {"suites": ["io", "volume"],
            "rule": "io: call sequences open(mode)/seek/read/readinto/write/truncate/tell/close generated against a shadow byte-buffer reference so that "
                    "offsets hit 0, +-1 of cluster multiples, EOF; all modes; 1-3 files, up to 3 handles; cluster sizes 512 B..64 KiB; free clusters pre-filled "
                    "with garbage; every other file re-read after each write/truncate/close; cursor fields vs Model.FatIO.seekCursor"},
    "C03": {"suites": ["ns", "fat", "names", "fsmodel"],
            "rule": "after every completed mutating call (and after close) a copy of the device is mounted by a fresh instance (lazy and eager) and walked; "
                    "compared with the live walk (names, kinds, sizes, contents, times)"},
    "C04": {"suites": ["ns", "fat", "volume", "fsmodel", "io"],
            "rule": "closed images of every history judged by the independent checker (chains in range/acyclic/terminated/disjoint/length=size, leaks, FAT copies, "
                    "reserved entries); volume: allocator/follower/release vs Model.Alloc on random and structured tables"},
    "C05": {"suites": ["ns", "fat", "names"],
            "rule": "closed images judged by the independent checker's directory rules (dot entries, long-name sets, short names, nothing after the end mark, "
                    "directory sizes, boot geometry unchanged); names: every name length 1..255 and 13-boundaries x code pages"},
    "C06": {"suites": ["ns", "fat", "foreign", "volume"],
            "rule": "closed image decoded by the independent reader and compared with the last live walk; offsets and several geometries"},
    "C07": {"suites": ["foreign", "volume", "codec"],
            "rule": "images from the independent builder over geometry x placement (seq/rev/frag/max) x debris; thresholds 4083..4086 and 65523..65526 clusters; "
                    "distinct = (geometry index, placement, debris, type)"},
    "C08": {"suites": ["fat", "ns", "volume"],
            "rule": "every device access of every history checked against the volume bounds (guard bands, device length); volume: every distinct access "
                    "classified into the model's admissible access kinds"},
    "C09": {"suites": ["fail", "fat", "volume", "fsmodel"],
            "rule": "fail: for each of 11 target operations x free-cluster budgets 0..k (volume filled so that the k-th allocation of the operation fails) "
                    "and root directories filled to capacity minus 0..k slots: the operation, then follow-ups (listing, reads, removals to make room, retry); "
                    "limit programs (256-unit names, timestamps outside 1980..2107, wrong resource types)"},
    "C10": {"suites": ["ro"],
            "rule": "clean and dirty images x FAT12/16/32 x {device not writable, read_only=True}; 23 mutating calls incl. file-object writes, each followed by a "
                    "full walk (with timestamps) compared with the walk before; device raises on any write; bytes compared after close"},
    "C11": {"suites": ["marks"],
            "rule": "sessions mount+history+close with the exact ordered write log; image rebuilt at every prefix; FAT12/16/32 x 1..3 FATs; empty and shuffled histories"},
    "C12": {"suites": ["crash", "volume", "fsmodel"],
            "rule": "crash: histories over nested trees (makedir/makedirs/create/writebytes/appendbytes/remove/removedir/removetree/copy/move/setinfo/"
                    "create(wipe) + file-object sessions open/write/truncate/close; a structured family that removes and adds entries in a directory "
                    "spanning several sectors above a sub-directory) x FAT12 (1- and 4-sector clusters)/FAT16/FAT32 (thorough: 1-3 FATs, offset, "
                    "pyfatfs-formatted volumes); mount and close are operations too.  Crash points: every write boundary and every sector boundary "
                    "inside every write, skipping points whose image equals the previous one; each distinct image mounted read-only+lazy by the real "
                    "code, every protected file checked (exists, listed, bytes).  Every write of every log classified against the premises of "
                    "Props.C12 (write:* counters).  model:torn-fat-tables = torn FAT copies decoded by Model.Crash vs pyfatfs' parser.",
            "assumptions": ["sectors of one write reach the device in ascending order (a crash leaves a prefix of the write)",
                            "durable = reads back from the image as it was before the operation's first write (read-only lazy mount by the real code)"]},
    "C13": {"suites": ["hostile", "volume"],
            "rule": "hostile: ~70 structure-aware mutation kinds (chains: cycle/cross-link/out-of-range/into-free/bad; first clusters; directory loops; "
                    "long-name damage; 20 boot-sector field mutations; truncated devices; random flips) x FAT12/16/32 base images; mount (lazy) + 36 lookups/"
                    "listings + reads per mutant under a call-event work counter and an alarm; volume: chain follower on random garbage tables"},
    "C14": {"suites": ["mkfs"],
            "rule": "parameter grid: every row boundary of the three size tables -1/0/+1/+2 sectors, smallest sizes, 6 sizes x 4 sector sizes x 1-3 FATs x media x "
                    "labels x offsets x {zeroed, previously used} device, FAT32 with 3 FATs near the minimum, sizes that are not sector multiples, the "
                    "capacity counter-examples found by the proof; sparse device up to 2 GiB"},
    "C15": {"suites": ["names"],
            "rule": "legal names: every length (quick: all 13-boundaries +-1 and 1..12, 127..129, 254, 255; thorough: 1..255), spaces, dots, case mixes, "
                    "non-OEM and non-BMP characters, alias-collision families; x code pages x preserve_case; live and after remount"},
    "C16": {"suites": ["identity", "foreign", "codec"],
            "rule": "identity: builder images with FAT/boot garbage (values in entries beyond the cluster count, bad marks, reserved FAT32 bits, random boot "
                    "code/OEM) for every FAT12 size 1..12 sectors + FAT16/32 + sector sizes; (1) mount+close lazy and eager: byte compare; (2) a session with "
                    "operations: boot sector, out-of-data-area FAT entries, bad marks, reserved bits, FAT copies, untouched files compared"},
    "C17": {"suites": ["time", "codec"],
            "rule": "time: one subprocess per zone (UTC, Europe/Berlin, America/New_York, Australia/Sydney, Asia/Kolkata, Pacific/Chatham; thorough adds MST7, "
                    "Etc/GMT-14) x utc flag x instants (range edges, DST transitions of both hemispheres, odd seconds, leap days, random) incl. out-of-range; "
                    "distinct = (zone, utc, DST phase); codec: all date/time words"},
    "C18": {"suites": ["schedr"],
            "rule": "schedr: 2-4 reader threads (listdir/getinfo/exists/readbytes/open+seek+read on own handles) on one lazily loading mount, FAT12 + "
                    "FAT32 (thorough: + FAT16); per-thread results vs the same program alone on a fresh mount. Modes: dev = pre-emption-bounded "
                    "exhaustive with yield points at every lock acquisition and every device access made without the device lock; line = same with yield "
                    "points at the store lines (+ following statement, loop headers, first line) of every pyfatfs function that stores to an attribute/"
                    "item (set computed from the current source by AST); thorough adds random-priority schedules with every pyfatfs line a yield point. "
                    "Bound 2 for two threads, 1 for more; counters exhausted-bound*: program sets whose schedule space was enumerated completely.",
            "assumptions": ["a thread is only pre-empted at yield points (CPython may switch between any two bytecodes; the line mode approximates that "
                            "for the functions that write shared objects)"]},
    "C19": {"suites": ["schedw"],
            "rule": "schedw: 2-3 threads x 1-3 mutating operations (create/makedir/remove/writebytes/appendbytes/setinfo/handle sessions) in the same or "
                    "different directories, FAT12 + FAT16 (thorough: + FAT32); for every explored schedule the per-thread results and final tree must be "
                    "those of some sequential order (all interleavings of the operation sequences are run sequentially to obtain them), and after close "
                    "the image must remount to the live tree and pass the independent checker. Exploration modes as in schedr.",
            "assumptions": ["a thread is only pre-empted at yield points (see C18)"]},
    "C20": {
        "suites": ["codec"],
        "rule": "codec: exhaustive over all 65536 date and time words, all calendar dates 1980-2107, all 86400 times of day; "
                "FAT tables of every length 1..12 sectors (x sector sizes) in random/boundary/all-ones/reserved-bit styles; random and "
                "structured 11-byte names; random sectors through every struct layout; a case is non-trivial/distinct by its tag "
                "(decoded month/day class, table type x length x style x length mod 3, lead byte class, layout name, operator x sign)",
        "assumptions": ["float arithmetic of _parse_fat (curr += 1.5) is exact below 2^53 (modelled in doubled integers)",
                        "FSInfo/boot-sector pad bytes of valid sectors are zero"],
    },
}

_NOTE = ("trusted: Lean kernel; gen_model.py (extractor/translator) and PyInt; the Python harness incl. the independent builder/reader/checker "
         "(harness/specfat.py) used as oracle on the real code; hand-written Model/* tied by differential execution, not by proof. ")

MANIFEST_TEXT = {
    "C01": {"text": "Theorems: allocate_bytes raises ENOSPC only when fewer than n+1 allocatable clusters lie behind the hint (all tables, all n); directory scan "
                    "returns exactly the written entries; alias never shadows. Refinement (c01_fs_step, c01_fs_history): in every reachable state of the "
                    "filesystem-level model Model.Fs (in-memory tree + FAT + hint, operations written after PyFatFS/FatIO call by call) every call answers like "
                    "the reference filesystem (a set of paths) or stops with out-of-space and changes nothing; after any history the tree is the reference's; "
                    "c01_fs_removetree: pyfatfs' removetree, modelled as the run of primitive calls it makes, keeps the invariant and leaves the reference's tree; "
                    "c01_fs_removetree_frame: removetree(path) leaves every entry that is not at or below path as it was (order, kind, size) and adds none, "
                    "whatever the tree and however the call ends (the frame half of the abstract delete-subtree specification); c01_fs_removetree_complete_partial: when the final removedir(path) of the "
                    "expansion succeeds no entry at or below path is left (tree after = tree before minus the subtree); that the inner calls always empty the "
                    "directory is decided by lock step, not by a theorem; "
                    "c01_fs_enospc_means_full: the allocation hint never runs ahead of a free cluster, so in every reachable state out-of-space means the "
                    "whole volume has at most n allocatable clusters. "
                    "Model.Fs is tied to the code by lock-step execution (suite fsmodel: result, whole FAT, hint, every entry, device after every call); "
                    "file contents, names and fs.base's compound helpers are decided by differential execution against MemoryFS (suite ns), not by a theorem.",
            "note": _NOTE + "Reference = fs.memoryfs.MemoryFS with fs.base's compound helpers; create() on a directory is FileExpected (pinned by the repo's tests).",
            "technique": "Lean 4 refinement proof (filesystem model -> path-set reference, all histories) + lock-step correspondence of the model with the real code + differential programs vs MemoryFS"},
    "C02": {"text": "Theorems: seek's cursor addresses exactly byte `offset` (end-of-cluster convention included); read (size clipping + chunk loop along the "
                    "chain) returns what a byte buffer returns and moves the position alike, for every cluster size/file size/position/length; clusters of "
                    "different files are disjoint on the device. Write path: c02_write_replaces_range / c02_write_refines (read-modify-write of the cursor's cluster + "
                    "cluster-sized chunks replaces exactly bytes [pos,pos+n) of the concatenated clusters; content afterwards = byte-buffer write, whatever the "
                    "newly linked clusters held), c02_truncate_*; at the filesystem level c02_fs_write_reads_back / c02_fs_write_frame (every reachable state "
                    "of Model.Fs: the extended chain has room, the file reads back as the byte buffer, no other entry's content changes). The model's "
                    "writeClusters is compared with the real clusters on the device before/after real writes. Mode gating, several handles and whole call "
                    "sequences decided by differential execution against a byte-buffer reference.",
            "note": _NOTE + "Reference file object = harness RefFile (Python binary-file semantics; MemoryFS' own file object has three deviations, documented "
                    "in fsrun.py). Known finding: seek beyond EOF clamps to the size.",
            "technique": "Lean 4 proof (read, seek, write and truncate refine a byte buffer; cursor model = translated FatIO.seek; frame at the filesystem level) + device-cluster correspondence + differential call sequences"},
    "C03": {"text": "Theorems: parse(serialise(FAT)) = FAT for FAT12 (every length)/16/32 incl. reserved bits; scan(serialise(directory)) = directory incl. long names, "
                    "whatever follows the end mark. Theorem c03_fs_synced: in the filesystem-level model Model.Fs (device = second copy changed only by flush_fat / "
                    "update_directory_entry) memory and device agree after every call of every history, however the call ended; the model's device state is "
                    "compared with an independent reader's view of the real device after every call (suite fsmodel). Names/contents/compound helpers: "
                    "remounting a device copy after every call on the real code.",
            "note": _NOTE, "technique": "Lean 4 proof (representation round trips; memory = device invariant of the filesystem model over all histories) + lock-step correspondence + remount-after-every-call oracle"},
    "C04": {"text": "Theorem c04_reachable: every reachable state of the FAT machine (allocate/extend/release/truncate = the four ways the code changes its FAT, "
                    "failed steps included) represents pairwise disjoint, well-formed, in-range chains and nothing else; follower reads back the chain; reserved "
                    "entries untouched; flush/parse identity. Theorem c04_fs_reachable: every reachable state of the filesystem-level model Model.Fs (all histories of "
                    "create/create(wipe)/makedir/remove/removedir/write/truncate, failed calls included) has a FAT that represents exactly the chains owned by the "
                    "directory tree (no cross-link: c04_fs_no_crosslink, no leak: c04_fs_no_leak), the follower returns each entry's chain (c04_fs_follow), every "
                    "directory fits its chain (c04_fs_checked_start: from ANY state the proved-sound executable checker accepts — the suite runs it on the state derived "
                    "from every image and after every call), every file's chain has exactly max(1, ceil(size/cluster)) clusters (c04_fs_size_matches_chain; the translated "
                    "calc_num_clusters is proved to be that ceiling). Image-level statement decided by the independent checker on real closed images.",
            "note": _NOTE + "Model.Alloc is tied to allocate_bytes/get_cluster_chain/free_cluster_chain by component correspondence (suite volume), Model.Fs to the "
                    "primitives by lock-step execution (suite fsmodel).",
            "technique": "Lean 4 invariant proof by induction over operation sequences + independent fsck on real images"},
    "C05": {"text": "Theorems for every name of 1..255 units: slot count, ordinals, flag, checksum/cluster/attribute/type fields, NUL+0xFFFF padding, set directly "
                    "before its short entry; translated checksum = specification; alias conform and unique; nothing behind the end mark is read. "
                    "Images judged by the independent checker's directory rules on the real code.",
            "note": _NOTE + "'.'/'..' construction and dir size 0 are checked on images only (no theorem).",
            "technique": "Lean 4 proof over Model.Dir/Model.Names + independent directory checker"},
    "C06": {"text": "Theorems: every encoding the writer uses equals the formula an independent reader applies (cluster address and geometry from translated code, "
                    "FAT12/16/32 entries, date/time fields, checksum, long-name decoding). Image-level agreement by an independent reader on real images.",
            "note": _NOTE, "technique": "Lean 4 proof of writer-encoding = specification-decoding + independent reader"},
    "C07": {"text": "Theorem c07_fatType: translated __determine_fat_type fed the translated root-directory size = the specification's cluster-count rule on every "
                    "valid BPB; entries/scan/long names as in C06/C05 for arbitrary placement and junk after the end mark. mount∘build = id on the real code by "
                    "the independent builder over geometries, thresholds and placements.",
            "note": _NOTE + "Known finding D25: cluster numbers 0x..F0-0x..F6 (only on volumes within 6 clusters of a threshold) are rejected.",
            "technique": "Lean 4 proof (type rule over translated code) + independent image builder as generator and oracle"},
    "C08": {"text": "Theorems: on every valid BPB each admissible access kind lies inside the volume; allocator hands out only clusters below the bound computed "
                    "from the cluster count; translated address/count functions = specification. Every real access is classified into those kinds; guard bands "
                    "and device length watched on the real code.",
            "note": _NOTE + "mkfs is covered by C14's suite, not here.",
            "technique": "Lean 4 arithmetic proof + access-log classification against the model + guard bands"},
    "C09": {"text": "Theorems: a failed FAT operation leaves table, hint and ownership unchanged and the representation invariant intact after any mix of "
                    "successes and failures; the translated date encoder raises exactly for years outside 1980..2107. Theorem c09_fs_failed_call_changes_nothing: "
                    "in every reachable state of Model.Fs a call that ends in out-of-space (any allocation point of any primitive, full fixed root) leaves tree, "
                    "sizes and chains exactly as they were and the invariant intact; the half-done states of _remove/__write/truncate are unreachable. "
                    "Other failure causes (limits, names, times, read-only) and follow-up operations decided by fault enumeration on the real code.",
            "note": _NOTE + "Compound helpers of fs.base (writebytes, copy, move, makedirs) are judged at the level of the primitive that failed.",
            "technique": "Lean 4 invariant proof (all-or-nothing allocation) + systematic fault enumeration on the real code"},
    "C10": {"text": "Theorem c10_guards (decide on the regenerated site table): every PyFat function containing a device write/truncate site carries the read-only "
                    "guard, except mkfs. Behaviour (dirty images mount, reads right, no write attempted, bytes identical, mutators raise, later reads unchanged) "
                    "decided on the real code with a device that raises on any write.",
            "note": _NOTE + "Gen.Sites is an AST extraction (decorators, lexical lock/seek context); dynamic dispatch is not analysed.",
            "technique": "Lean 4 decide over extracted guard/site tables + read-only behavioural oracle"},
    "C11": {"text": "Theorem c11_bracket: for FAT12/16/32, any number of FATs, any session body, after every write of the session protocol the image is marked or "
                    "only boot-sector copies remain; final image unmarked; translated flag arithmetic sets/clears exactly the mark bit for every value. "
                    "Real sessions: exact write log, image rebuilt at every prefix, independent mark test.",
            "note": _NOTE + "Write-call granularity (torn writes are C12's subject). The protocol model is tied to the code by the prefix oracle, not by a trace proof.",
            "technique": "Lean 4 proof over the write-order protocol + translated mask arithmetic; prefix reconstruction of real write logs"},
    "C12": {"text": "Theorems (Props.C12), for every image, write log, crash point (any number of complete writes + any number of bytes of the next), "
                    "FAT width and valid geometry: each byte of a crash image is the durable byte or one a write puts there; a FAT copy torn between any "
                    "number of whole-table writes decodes every entry on which those tables agree (FAT12 entries sharing bytes / straddling sectors "
                    "included); the tables the FAT machine can flush agree with the durable table on every chain that is not the target and the "
                    "allocator never hands out an owned cluster; hence, if each write of the log is such a table write or misses the first FAT copy "
                    "and the chain's clusters, the follower finds the chain and the bytes along it are the durable bytes at every crash point; path "
                    "resolution over unchanged directory bytes is unchanged for any scan function. Per primitive (c12_fs_outside_footprint, every reachable state of Model.Fs, every call): an "
                    "entry that is neither the target nor its parent directory is an entry of the post-state with the same chain and shares no cluster with the "
                    "target or the rewritten directory; suite fsmodel checks on the device log of every real call that data is written only to clusters of the "
                    "target, its parent directory or clusters that were free. That real write logs meet the remaining premises, that every "
                    "crash image mounts, and the behaviour of the real directory reader are decided by mounting every distinct crash image with the real code.",
            "note": _NOTE + "Write-prefix crash model (no reordering of sectors inside a write). Known finding D27: a directory that loses an entry is rewritten "
                    "compacted; cut inside that rewrite, files below its sub-directories can become unreachable although their own directory is not rewritten.",
            "technique": "Lean 4 proof (crash-image frame, torn-FAT mixture, FAT-machine frame) + exhaustive crash-point enumeration on real write logs"},
    "C13": {"text": "Theorems for every table content and start cluster: the chain follower (the library's only unbounded loop) terminates, yields at most len+1 "
                    "clusters, and ends in the chain or a PyFATException; the directory scan is total with library errors only; decoders total. Exception classes "
                    "of the glue decided by structure-aware mutants on the real code under a deterministic work counter.",
            "note": _NOTE + "'Memory without bound' is covered only through the bound on the follower's yield; CPython recursion limits are not modelled (eager "
                    "loading is outside the property: default lazy loading).",
            "technique": "Lean 4 termination/totality proof over arbitrary inputs + structure-aware mutation of images"},
    "C14": {"text": "Theorems over the translated mkfs assignments and extracted tables: for every size, table row, 1-3 FATs, sector size 512-4096 the FAT holds "
                    "an entry for every cluster (FAT12/16/32: 204 omega cases, each for all sizes); the volume fits the requested size; table rows are legal. "
                    "Signatures, FSInfo/backup, label, reserved entries, emptiness, type and usability judged on real formatted devices by the independent checker.",
            "note": _NOTE + "Float use in mkfs (math.ceil(a / b)) is exact below 2^52 (translator assumption).",
            "technique": "Lean 4 arithmetic proof (omega, unbounded size) over translated code + independent format checker"},
    "C15": {"text": "Theorems: long-name round trip for every length; created entry found and earlier entries unchanged (scan∘serialise = id); alias conform, fresh. "
                    "Naming decisions of create/makedir compared with Model.Names.newName; real create/exists/listdir/remount oracle over legal names.",
            "note": _NOTE + "CharEnv (upper/encode/decode/isspace) is supplied by CPython per name. Known findings D2 (lead byte 0xE5), D26 (preserve_case=False lookup).",
            "technique": "Lean 4 proof over Model.Dir/Model.Names + naming correspondence + real-filesystem oracle"},
    "C16": {"text": "Theorems: writing serialise(parse(FAT region)) over the region reproduces it for FAT12 of every length (all residues mod 3), FAT16, FAT32 incl. "
                    "reserved bits; repacking parsed boot-sector fields reproduces the bytes; translated flag arithmetic restores a clean flag byte. Whole-image "
                    "identity and the frame after operations judged on builder images with arbitrary garbage.",
            "note": _NOTE + "Valid images carry 0 in the half FAT12 entry at the end of a table whose length is 2 mod 3 (not an entry).",
            "technique": "Lean 4 proof of parse/serialise identity on whole tables and sectors + byte-level diff on real sessions"},
    "C17": {"text": "Theorems for every time-zone environment obeying the database laws at the instant (valid fields 1980-2107, invertible = outside a fold, "
                    "even-second offsets), utc on or off: getinfo(setinfo t) = t floored to 2 s (created/modified) and the start of t's day (accessed); stored "
                    "words = specification encoding through the translated encoders; encoder refuses exactly out-of-range years. Zone database, choice of "
                    "conversion per utc flag and wall-clock stamping decided in per-zone subprocesses on the real code.",
            "note": _NOTE + "The DST fold hour is excluded in the statement (a local-time on-disk format cannot represent it). The tz database (CPython/glibc "
                    "zoneinfo) is trusted; its laws are checked per instant by the suite, not proved.",
            "technique": "Lean 4 proof parametric in the time-zone environment + per-zone subprocess round trips"},
    "C18": {"text": "Theorems (Props.C18) over Model.Conc.Readers, for any number of threads, any programs, EVERY schedule: the listings a thread obtains are "
                    "the device's true listings of its program's directories, hence equal to what it obtains alone; published (cached) listings are "
                    "always the true ones — with several threads populating the same directory at once. Premises read off the current source by decide: "
                    "every device read is a seek+read pair under the device lock; __populate_dirs publishes the finished local list after linking, then "
                    "the flag. Witness theorem: with seek and read as separate steps a reader gets another directory's slots. The real code is run under a "
                    "deterministic scheduler (pre-emption-bounded exhaustive; lock/device and source-line granularity) and compared with solo runs.",
            "note": _NOTE + "The model's steps are coarser than bytecodes and it has no per-handle cursor (handles are private by the property's premise); "
                    "the model is tied to the code by the extracted lock/ordering facts and the scheduler suite, not step by step.",
            "technique": "Lean 4 proof over all schedules of a reader model + decide on extracted lock/ordering facts + controlled-scheduler exploration"},
    "C19": {"text": "Theorems (Props.C19) over Model.Conc.Mutex, for any shared-state type, any number of threads and operations (each any list of micro-steps "
                    "run between taking and releasing one lock), EVERY schedule: whenever the lock is free the shared state equals the logged operations "
                    "executed sequentially in lock-acquisition order; that order contains each thread's operations in program order (a sequential order of "
                    "the given operations). Premise by decide on the regenerated table: every public entry point of PyFatFS/FatIO that can reach a "
                    "FAT/device-modifying function runs under the filesystem lock and handles share it. Witness: "
                    "the allocator's scan/link unlocked cross-links. Real code under the deterministic scheduler: results + final tree vs all sequential "
                    "orders, closed image remounted and checked independently.",
            "note": _NOTE + "Entry-point reachability is computed by the extractor over a name-based call graph (over-approximation); unmounting concurrently "
                    "with operations is outside the property.",
            "technique": "Lean 4 proof (mutex linearizability over all schedules) + decide on extracted lock table + controlled-scheduler exploration"},
    "C20": {
        "text": "Lean theorems, for all inputs: date/time decoders total and inverse to the *translated* serialize_date/serialize_time; "
                "FAT12/16/32 parse/serialise mutually inverse for every table length (FAT12 tail residues, FAT32 reserved bits) and equal to the "
                "specification's entry formula; translated checksum = fatgen103 ChkSum; 0x05/0xE5; generic struct-layout round trip instantiated "
                "on the layouts extracted from the source. Tied to the code by regeneration (Gen/*) and by exhaustive/dense differential runs.",
        "note": "trusted: Lean kernel, gen_model.py translator + PyInt semantics, harness; hand-written FatTable/Sfn/Layout models are tied by "
                "correspondence (exhaustive on 16-bit words / calendar, dense elsewhere), not by proof. Known finding D2 (str() mutates stored 0x05).",
        "technique": "Lean 4 proof over regenerated + hand-written model; exhaustive differential correspondence",
    },
}
