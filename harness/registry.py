"""Which Lean module and which suites decide each property."""

TRUSTED_BASE = [
    "Lean 4.33.0 kernel (lake build; thorough tier re-checks with leanchecker)",
    "axioms: at most propext, Classical.choice, Quot.sound (audited per run by Audit.lean); no sorry/native_decide/bv_decide/custom axioms",
    "tools/gen_model.py: extractor + Python-AST -> Lean translator (Gen/Consts, Gen/Arith, Gen/Sites regenerated from /repo every run); PyInt.lean's reading of Python integer operators (validated by suite codec, `pyint`)",
    "correspondence harness (harness/*.py), the driver's line protocol, canonicalisation of results",
    "CPython 3.12 (struct, codecs, datetime, io.BytesIO), fs 2.4.16 base class",
    "hand-written Model/* is tied to the code by differential execution, not by proof",
]

PROPS = {
    "_suite_timeout": {"quick": 1500, "thorough": 7200},
    "C20": {
        "suites": ["codec"],
        "rule": "codec: exhaustive over all 65536 date and time words, all calendar dates 1980-2107, all 86400 times of day; "
                "FAT tables of every length 1..12 sectors (x sector sizes) in random/boundary/all-ones/reserved-bit styles; random and "
                "structured 11-byte names; random sectors through every struct layout; a case is non-trivial/distinct by its tag "
                "(decoded month/day class, table type x length x style x length mod 3, lead byte class, layout name, operator x sign)",
        "assumptions": ["float arithmetic of _parse_fat (curr += 1.5) is exact below 2^53 (modelled in doubled integers)",
                        "FSInfo/boot-sector pad bytes of valid sectors are zero"],
    },
}

MANIFEST_TEXT = {
    "C20": {
        "text": "Lean theorems, for all inputs: date/time decoders total and inverse to the *translated* serialize_date/serialize_time; "
                "FAT12/16/32 parse/serialise mutually inverse for every table length (FAT12 tail residues, FAT32 reserved bits) and equal to the "
                "specification's entry formula; translated checksum = fatgen103 ChkSum; 0x05/0xE5; generic struct-layout round trip instantiated "
                "on the layouts extracted from the source. Tied to the code by regeneration (Gen/*) and by exhaustive/dense differential runs.",
        "note": "trusted: Lean kernel, gen_model.py translator + PyInt semantics, harness; hand-written FatTable/Sfn/Layout models are tied by "
                "correspondence (exhaustive on 16-bit words / calendar, dense elsewhere), not by proof. Known finding D2 (str() mutates stored 0x05).",
        "technique": "Lean 4 proof over regenerated + hand-written model; exhaustive differential correspondence",
    },
}
