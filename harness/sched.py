"""Deterministic thread scheduler for the real pyfatfs (suites sched-r / sched-w, C18 / C19).

Real `threading.Thread`s run the real code, but only the thread that holds the baton
runs; the baton changes hands only at *yield points*:

* every method call on the device object (seek / read / write / truncate),
* every acquisition and release of a library lock (the harness swaps in `SchedLock`s for
  `PyFat.__lock`, the per-handle `FatIO._lock` and the PyFilesystem2 `FS._lock`),
* optionally (`lines=...`) every source line of selected pyfatfs functions
  (`sys.settrace` inside the worker threads).

A *schedule* is the list of thread ids chosen at the decision points (points where more
than one thread could run).  Exploration strategies: replay of a given decision list,
pre-emption-bounded depth-first enumeration, random priorities.  No source hook is needed.
"""
import os
import sys
import threading

from harness import common  # noqa: F401

REPO_PKG = os.path.join(common.REPO, "pyfatfs") + os.sep


class Deadlock(Exception):
    pass


class Abort(BaseException):
    """raised inside workers to unwind them when a run is abandoned"""


class Sched:
    def __init__(self, n, decisions=None, max_steps=200000):
        self.n = n
        self.go = [threading.Semaphore(0) for _ in range(n)]
        self.main = threading.Semaphore(0)
        self.current = None
        self.done = [False] * n
        self.blocked = [None] * n          # lock a thread waits for
        self.prefix = list(decisions or [])
        self.trace = []                    # (chosen, alternatives, kind) per decision point
        self.steps = 0
        self.max_steps = max_steps
        self.abort = False
        self.error = None
        self.tls = threading.local()
        self.policy = None                 # callable(me, runnable, tag) -> tid, used after the prefix
        self.tags = []                     # tag of the yield point at each decision
        self.yield_on_release = False

    # -- helpers
    def me(self):
        return getattr(self.tls, "tid", None)

    def runnable(self):
        return [i for i in range(self.n) if not self.done[i] and self.blocked[i] is None]

    def _decide(self, me, cands, tag):
        """choose the thread to run next among cands (me first if it can continue)"""
        if len(cands) == 1:
            return cands[0]
        k = len(self.trace)
        if k < len(self.prefix) and self.prefix[k] in cands:
            ch = self.prefix[k]
        elif self.policy is not None:
            ch = self.policy(me, cands, tag)
        else:
            ch = me if me in cands else cands[0]
        self.trace.append((ch, tuple(cands), me))
        self.tags.append(tag)
        return ch

    def _hand_over(self, me, nxt, wait=True):
        self.current = nxt
        self.go[nxt].release()
        if wait:
            self.go[me].acquire()
            if self.abort:
                raise Abort()

    # -- called from worker threads
    def yield_point(self, tag="y"):
        me = self.me()
        if me is None or self.current != me or self.abort:
            return
        self.steps += 1
        if self.steps > self.max_steps:
            self.error = "step budget exhausted (livelock?)"
            self._abort_all(me)
        cands = self.runnable()
        nxt = self._decide(me, cands, tag)
        if nxt != me:
            self._hand_over(me, nxt)

    def block_on(self, lock):
        """current thread cannot proceed until `lock` is released"""
        me = self.me()
        self.blocked[me] = lock
        cands = self.runnable()
        if not cands:
            self.error = "deadlock: every thread waits for a lock"
            self._abort_all(me)
        nxt = self._decide(me, cands, "blocked")
        self._hand_over(me, nxt)

    def unblock(self, lock):
        for i in range(self.n):
            if self.blocked[i] is lock:
                self.blocked[i] = None

    def _abort_all(self, me):
        self.abort = True
        for i in range(self.n):
            if i != me and not self.done[i]:
                self.go[i].release()
        self.done[me] = True
        self.main.release()
        raise Abort()

    def finish(self, me):
        self.done[me] = True
        if self.abort:
            self.main.release()
            return
        cands = self.runnable()
        if cands:
            nxt = self._decide(me, cands, "finished")
            self._hand_over(me, nxt, wait=False)
        elif all(self.done):
            self.main.release()
        else:
            self.error = "deadlock: remaining threads wait for locks held by nobody runnable"
            self.abort = True
            for i in range(self.n):
                if not self.done[i]:
                    self.go[i].release()
            self.main.release()


class SchedLock:
    """cooperative replacement for threading.Lock / RLock under a Sched"""

    def __init__(self, sched, reentrant=False, name="lock"):
        self.s = sched
        self.owner = None
        self.depth = 0
        self.reentrant = reentrant
        self.name = name

    def acquire(self, blocking=True, timeout=-1):
        s = self.s
        me = s.me()
        if me is None:                      # outside a scheduled run (mount, close from the main thread)
            self.owner, self.depth = "main", self.depth + 1
            return True
        s.yield_point("acq:" + self.name)
        while self.owner is not None and not (self.reentrant and self.owner == me):
            if not blocking:
                return False
            s.block_on(self)
        self.owner = me
        self.depth += 1
        return True

    def release(self):
        me = self.s.me()
        self.depth -= 1
        if self.depth <= 0:
            self.depth = 0
            self.owner = None
            self.s.unblock(self)
        if me is not None and self.s.yield_on_release:
            self.s.yield_point("rel:" + self.name)

    def locked(self):
        return self.owner is not None

    __enter__ = acquire

    def __exit__(self, *a):
        self.release()

    def _is_owned(self):
        return self.owner == self.s.me()


class SchedDev:
    """wraps a device so that every access is a yield point — unless the caller holds the
    device lock `guard` (then no other thread can reach the device and a switch here is
    equivalent to a switch at the caller's acquisition of the lock)"""

    def __init__(self, dev, sched):
        self._d, self._s = dev, sched
        self.guard = None

    def _y(self, tag):
        g = self.guard
        if g is not None and g.owner is not None and g.owner == self._s.me():
            return
        self._s.yield_point(tag)

    def seek(self, *a):
        self._y("dev:seek")
        return self._d.seek(*a)

    def read(self, *a):
        self._y("dev:read")
        return self._d.read(*a)

    def write(self, *a):
        self._y("dev:write")
        return self._d.write(*a)

    def truncate(self, *a):
        self._y("dev:truncate")
        return self._d.truncate(*a)

    def __getattr__(self, k):
        return getattr(self._d, k)


def make_tracer(sched, wanted):
    """settrace function.  wanted(module, funcname) -> falsy (not traced) | True (yield at every line)
    | set of line numbers (yield at those lines only)"""
    cache = {}

    def every(frame, event, arg):
        if event == "line":
            sched.yield_point("line:%s:%d" % (frame.f_code.co_name, frame.f_lineno))
        return every

    def some(lines):
        def local(frame, event, arg):
            if event == "line" and frame.f_lineno in lines:
                sched.yield_point("line:%s:%d" % (frame.f_code.co_name, frame.f_lineno))
            return local
        return local

    def tracer(frame, event, arg):
        if event != "call":
            return None
        co = frame.f_code
        if co in cache:
            return cache[co]
        fn = co.co_filename
        w = fn.startswith(REPO_PKG) and wanted(os.path.basename(fn)[:-3], co.co_name)
        t = None
        if w is True:
            t = every
        elif w:
            t = some(frozenset(w))
        cache[co] = t
        return t
    return tracer


def run_threads(sched, bodies, tracer=None, timeout=60):
    """bodies: list of callables (one per thread).  -> list of ('ok', value) | ('err', class) | ('abort',)"""
    results = [("abort",)] * len(bodies)

    def worker(i):
        sched.tls.tid = i
        sched.go[i].acquire()
        if sched.abort:
            sched.done[i] = True
            return
        if tracer is not None:
            sys.settrace(tracer)
        aborted = False
        try:
            results[i] = ("ok", bodies[i]())
        except Abort:
            aborted = True
        except Exception as e:  # noqa
            results[i] = ("err", common.exc_class(e), str(e)[:160])
        finally:
            sys.settrace(None)
        if aborted or sched.abort:
            sched.done[i] = True
            sched.main.release()
            return
        try:
            sched.finish(i)
        except Abort:
            pass

    ths = [threading.Thread(target=worker, args=(i,), daemon=True) for i in range(len(bodies))]
    for t in ths:
        t.start()
    first = sched._decide(None, list(range(len(bodies))), "start")
    sched.current = first
    sched.go[first].release()
    if not sched.main.acquire(timeout=timeout):
        sched.error = sched.error or "wall-clock timeout (a thread hangs outside the scheduler)"
        sched.abort = True
        for i in range(len(bodies)):
            sched.go[i].release()
    for t in ths:
        t.join(timeout=5)
    return results


# ---------------------------------------------------------------------------
# exploration
# ---------------------------------------------------------------------------

def preemptions(trace):
    """number of decisions that took the baton away from a thread that could have continued"""
    return sum(1 for (ch, cands, me) in trace if me is not None and me in cands and ch != me)


def explore_bounded(run_one, bound, max_runs, on_result, start_prefix=(), seen=None):
    """depth-first pre-emption-bounded enumeration.  run_one(prefix) -> (trace, outcome);
    on_result(prefix, trace, outcome) -> True to stop.  Returns (#runs, exhausted?)"""
    stack = [list(start_prefix)]
    runs = 0
    seen = set() if seen is None else seen
    root = True
    while stack:
        if runs >= max_runs:
            return runs, False
        prefix = stack.pop()
        key = tuple(prefix)
        if key in seen and not root:
            continue
        root = False
        seen.add(key)
        trace, outcome = run_one(prefix)
        runs += 1
        if on_result(prefix, trace, outcome):
            return runs, False
        # children: flip one decision at or behind the prefix
        chosen = [t[0] for t in trace]
        for k in range(len(trace) - 1, len(prefix) - 1, -1):
            ch, cands, me = trace[k]
            for alt in cands:
                if alt == ch:
                    continue
                child = chosen[:k] + [alt]
                # cost of the child prefix
                cost = preemptions(trace[:k]) + (1 if (me is not None and me in cands and alt != me) else 0)
                if cost <= bound:
                    stack.append(child)
    return runs, True
