import PyFatModel.PyInt
import PyFatModel.Gen.Consts
import PyFatModel.Gen.Arith
import PyFatModel.Gen.Sites
import PyFatModel.Props.C20
