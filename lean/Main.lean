def main : IO Unit := IO.println "driver"
