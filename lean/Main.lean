import PyFatModel.PyInt
import PyFatModel.Gen.Consts
import PyFatModel.Gen.Arith
import PyFatModel.Model.Hex
import PyFatModel.Model.DosTime
import PyFatModel.Model.FatTable
import PyFatModel.Model.Sfn
import PyFatModel.Model.Layout

open Model Model.Hex

structure DState where
  cps : List (String × Sfn.CodePage) := []

def layoutByName (n : String) : Option (List Gen.Field × Nat) :=
  match n with
  | "bpb" => some (Gen.bpbLayout, Gen.bpbLayoutSize)
  | "bpb12" => some (Gen.bpb12Layout, Gen.bpb12LayoutSize)
  | "bpb32" => some (Gen.bpb32Layout, Gen.bpb32LayoutSize)
  | "dir" => some (Gen.dirLayout, Gen.dirLayoutSize)
  | "lfn" => some (Gen.lfnLayout, Gen.lfnLayoutSize)
  | "fsinfo" => some (Gen.fsinfoLayout, Gen.fsinfoLayoutSize)
  | _ => none

def showVal : Layout.Val → String
  | .int n => toString n
  | .bytes b => "x" ++ toHex b

def pyintOp (op : String) (a b : Int) : Option Int :=
  match op with
  | "and" => some (Py.land a b)
  | "or" => some (Py.lor a b)
  | "shl" => if b < 0 then none else some (Py.shl a b)
  | "shr" => if b < 0 then none else some (Py.shr a b)
  | "fdiv" => if b = 0 then none else some (Py.fdiv a b)
  | "fmod" => if b = 0 then none else some (Py.fmod a b)
  | "not" => some (Py.lnot a)
  | "ceildiv" => if b ≤ 0 then none else some (Py.ceilDiv a b)
  | _ => none

def codec (st : DState) (args : List String) : DState × String :=
  match args with
  | ["date_dec", w] =>
    match w.toNat? with
    | some w => let (y, m, d) := DosTime.decodeDate w; (st, s!"ok {y} {m} {d}")
    | none => (st, "bad-op")
  | ["time_dec", w] =>
    match w.toNat? with
    | some w => let (h, mi, s) := DosTime.decodeTime w; (st, s!"ok {h} {mi} {s}")
    | none => (st, "bad-op")
  | ["date_fields", w] =>
    match w.toInt? with
    | some w => (st, s!"ok {Gen.Arith.deserialize_date_year w} {Gen.Arith.deserialize_date_month w} {Gen.Arith.deserialize_date_day w}")
    | none => (st, "bad-op")
  | ["time_fields", w] =>
    match w.toInt? with
    | some w => (st, s!"ok {Gen.Arith.deserialize_time_hour w} {Gen.Arith.deserialize_time_minute w} {Gen.Arith.deserialize_time_second w}")
    | none => (st, "bad-op")
  | ["date_enc", y, m, d] =>
    match y.toInt?, m.toInt?, d.toInt? with
    | some y, some m, some d => (st, s!"ok {Gen.Arith.serialize_date y m d} {DosTime.encodeDate y m d}")
    | _, _, _ => (st, "bad-op")
  | ["time_enc", h, mi, s] =>
    match h.toNat?, mi.toNat?, s.toNat? with
    | some h, some mi, some s => (st, s!"ok {Gen.Arith.serialize_time h mi s} {DosTime.encodeTime h mi s}")
    | _, _, _ => (st, "bad-op")
  | ["fat12_parse", hx] =>
    match parseHex hx with
    | some bs => match FatTable.parse12 bs with
      | .ok es => (st, "ok " ++ showNatList es)
      | .error _ => (st, "err AssertionError")
    | none => (st, "bad-op")
  | ["fat16_parse", hx] =>
    match parseHex hx with
    | some bs => (st, "ok " ++ showNatList (FatTable.parse16 bs))
    | none => (st, "bad-op")
  | ["fat32_parse", hx] =>
    match parseHex hx with
    | some bs => (st, "ok " ++ showNatList (FatTable.parse32 bs))
    | none => (st, "bad-op")
  | ["fat12_ser", es] =>
    match parseNatList es with
    | some es => (st, "ok " ++ toHex (FatTable.ser12 es))
    | none => (st, "bad-op")
  | ["fat16_ser", es] =>
    match parseNatList es with
    | some es => (st, "ok " ++ toHex (FatTable.ser16 es))
    | none => (st, "bad-op")
  | ["fat32_ser", es] =>
    match parseNatList es with
    | some es => (st, "ok " ++ toHex (FatTable.ser32 es))
    | none => (st, "bad-op")
  | ["fat12_flush", hx] =>
    match parseHex hx with
    | some bs => match FatTable.parse12 bs with
      | .ok es => (st, "ok " ++ toHex (FatTable.flushed (FatTable.ser12 es) bs))
      | .error _ => (st, "err AssertionError")
    | none => (st, "bad-op")
  | ["fat16_flush", hx] =>
    match parseHex hx with
    | some bs => (st, "ok " ++ toHex (FatTable.flushed (FatTable.ser16 (FatTable.parse16 bs)) bs))
    | none => (st, "bad-op")
  | ["fat32_flush", hx] =>
    match parseHex hx with
    | some bs => (st, "ok " ++ toHex (FatTable.ser32r (FatTable.parse32 bs) (FatTable.parse32Reserved bs)))
    | none => (st, "bad-op")
  | ["fat_spec", ty, hx, k] =>
    match parseHex hx, k.toNat? with
    | some bs, some k =>
      let v := if ty == "12" then FatTable.entry12 bs k else if ty == "16" then FatTable.entry16 bs k
               else FatTable.entry32 bs k
      (st, s!"ok {v}")
    | _, _ => (st, "bad-op")
  | ["checksum", hx] =>
    match parseHex hx with
    | some bs => (st, s!"ok {Gen.Arith.checksum (bs.map Int.ofNat)} {Sfn.checksum bs}")
    | none => (st, "bad-op")
  | ["getcluster", lo, hi] =>
    match lo.toInt?, hi.toInt? with
    | some lo, some hi => (st, s!"ok {Gen.Arith.get_cluster lo hi}")
    | _, _ => (st, "bad-op")
  | ["setcluster", c] =>
    match c.toInt? with
    | some c => (st, s!"ok {Gen.Arith.set_cluster_fstcluslo c} {Gen.Arith.set_cluster_fstclushi c}")
    | none => (st, "bad-op")
  | ["pyint", op, a, b] =>
    match a.toInt?, b.toInt? with
    | some a, some b => match pyintOp op a b with
      | some r => (st, s!"ok {r}")
      | none => (st, "err ValueError")
    | _, _ => (st, "bad-op")
  | ["sfn_classify", hx] =>
    match parseHex hx with
    | some bs => match Sfn.classify bs with
      | .free => (st, "ok free")
      | .last => (st, "ok last")
      | .name _ => (st, "ok name")
    | none => (st, "bad-op")
  | ["sfn_str", cp, hx] =>
    match parseHex hx, st.cps.lookup cp with
    | some bs, some cpv =>
      let stored := Sfn.strMutate bs
      (st, "ok " ++ showNatList (Sfn.unpad cpv stored) ++ " " ++ toHex stored)
    | _, _ => (st, "bad-op")
  | ["sfn_store", hx] =>
    match parseHex hx with
    | some bs => (st, "ok " ++ toHex (Sfn.storeLead bs))
    | none => (st, "bad-op")
  | ["layout_unpack", name, hx] =>
    match layoutByName name, parseHex hx with
    | some (l, _), some bs => (st, "ok " ++ " ".intercalate ((Layout.unpack l bs).map showVal))
    | _, _ => (st, "bad-op")
  | ["layout_roundtrip", name, hx] =>
    match layoutByName name, parseHex hx with
    | some (l, sz), some bs => (st, "ok " ++ toHex (Layout.pack l sz (Layout.unpack l bs)))
    | _, _ => (st, "bad-op")
  | _ => (st, "bad-op")

def defCp (st : DState) (name decs spaces : String) : DState × String :=
  match parseNatList decs, parseNatList spaces with
  | some d, some sp =>
    let da := d.toArray
    let cp : Sfn.CodePage := { dec := fun b => da.getD b 65533, isSpace := fun c => sp.contains c }
    ({ st with cps := (name, cp) :: st.cps }, "ok")
  | _, _ => (st, "bad-op")

def step (st : DState) (line : String) : DState × String :=
  match (line.trimAscii.toString.splitOn " ").filter (· ≠ "") with
  | "codec" :: args => codec st args
  | ["cp", name, decs, spaces] => defCp st name decs spaces
  | ["ping"] => (st, "ok pong")
  | [] => (st, "")
  | _ => (st, "bad-op")

partial def loop (h : IO.FS.Stream) (out : IO.FS.Stream) (st : DState) : IO Unit := do
  let line ← h.getLine
  if line.isEmpty then return ()
  let (st', o) := step st line
  out.putStrLn o
  loop h out st'

def main : IO Unit := do
  let stdin ← IO.getStdin
  let stdout ← IO.getStdout
  loop stdin stdout {}
  stdout.flush
