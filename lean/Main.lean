import PyFatModel.PyInt
import PyFatModel.Gen.Consts
import PyFatModel.Gen.Arith
import PyFatModel.Model.Hex
import PyFatModel.Model.DosTime
import PyFatModel.Model.FatTable
import PyFatModel.Model.Sfn
import PyFatModel.Model.Layout
import PyFatModel.Model.Alloc
import PyFatModel.Model.Geom
import PyFatModel.Model.Dir
import PyFatModel.Model.DirBytes
import PyFatModel.Model.Names
import PyFatModel.Model.FatIO
import PyFatModel.Model.Crash
import PyFatModel.Model.Fs
import PyFatModel.Model.FsCheck
import PyFatModel.Model.FsData

open Model Model.Hex

structure CpInfo where
  dec : Array Nat
  spaces : List Nat
  upper : List (Nat × List Nat)      -- code points whose upper() differs

structure DState where
  cps : List (String × Sfn.CodePage) := []
  cpi : List (String × CpInfo) := []
  fs : Option (Fs.Vol × Fs.St × Fs.Spec) := none
  fsdata : List (Nat × List Nat) := []      -- data area of the fs session: cluster ↦ bytes (absent = zeros)
  fsmark : Option Fs.St := none

/-- "c:u.u;c:u" → association list -/
def parseMap (s : String) : Option (List (Nat × List Nat)) :=
  if s == "-" then some [] else
  (s.splitOn ";").mapM fun kv =>
    match kv.splitOn ":" with
    | [k, v] => match k.toNat?, (if v == "" then some [] else (v.splitOn ".").mapM String.toNat?) with
      | some k, some v => some (k, v)
      | _, _ => none
    | _ => none

def mkEnv (ci : CpInfo) (extraUpper : List (Nat × List Nat)) (extraSpaces : List Nat) (encMap : List (Nat × List Nat)) :
    Names.CharEnv :=
  let up := extraUpper ++ ci.upper
  { upper := fun s => s.flatMap (fun c => (up.lookup c).getD [c]),
    isSpace := fun c => ci.spaces.contains c || extraSpaces.contains c,
    enc := fun c => match encMap.lookup c with
      | some [b] => some b
      | _ => none,
    dec := fun b => ci.dec.getD b 65533 }

def kv (args : List String) (k : String) : Option String :=
  args.findSome? fun a => if a.startsWith (k ++ "=") then some (a.drop (k.length + 1)).toString else none

def names (st : DState) (args : List String) : String :=
  match args with
  | "newname" :: rest =>
    match kv rest "cp", kv rest "pc", kv rest "name", kv rest "up", kv rest "sp", kv rest "enc", kv rest "ex" with
    | some cp, some pc, some name, some up, some sp, some enc, some ex =>
      match st.cpi.lookup cp, parseNatList name, parseMap up, parseNatList sp, parseMap enc,
            (if ex == "-" then some [] else (ex.splitOn "|").mapM parseNatList) with
      | some ci, some name, some up, some sp, some enc, some ex =>
        let e := mkEnv ci up sp enc
        match Names.newName e (pc == "1") name ex with
        | .ok r => "ok " ++ toHex r.short11 ++ " " ++ (match r.lfn with | some u => "L" ++ showNatList u | none => "-")
        | .error .exhausted => "err PyFAT:17"
        | .error .nonconform => "err PyFAT:22"
        | .error .lfnOnConform => "err PyFAT:22"
        | .error .tooLong => "err PyFAT:36"
        | .error .unencodable => "err UnicodeEncodeError"
      | _, _, _, _, _, _ => "bad-op"
    | _, _, _, _, _, _, _ => "bad-op"
  | "conform" :: rest =>
    match kv rest "cp", kv rest "name", kv rest "up", kv rest "sp", kv rest "enc" with
    | some cp, some name, some up, some sp, some enc =>
      match st.cpi.lookup cp, parseNatList name, parseMap up, parseNatList sp, parseMap enc with
      | some ci, some name, some up, some sp, some enc =>
        let e := mkEnv ci up sp enc
        "ok " ++ toString (Names.conform e name) ++ " " ++ showNatList (Names.splitext name).1 ++ " " ++ showNatList (Names.splitext name).2
      | _, _, _, _, _ => "bad-op"
    | _, _, _, _, _ => "bad-op"
  | _ => "bad-op"

def layoutByName (n : String) : Option (List Gen.Field × Nat) :=
  match n with
  | "bpb" => some (Gen.bpbLayout, Gen.bpbLayoutSize)
  | "bpb12" => some (Gen.bpb12Layout, Gen.bpb12LayoutSize)
  | "bpb32" => some (Gen.bpb32Layout, Gen.bpb32LayoutSize)
  | "dir" => some (Gen.dirLayout, Gen.dirLayoutSize)
  | "lfn" => some (Gen.lfnLayout, Gen.lfnLayoutSize)
  | "fsinfo" => some (Gen.fsinfoLayout, Gen.fsinfoLayoutSize)
  | _ => none

def showVal : Layout.Val → String
  | .int n => toString n
  | .bytes b => "x" ++ toHex b

def pyintOp (op : String) (a b : Int) : Option Int :=
  match op with
  | "and" => some (Py.land a b)
  | "or" => some (Py.lor a b)
  | "shl" => if b < 0 then none else some (Py.shl a b)
  | "shr" => if b < 0 then none else some (Py.shr a b)
  | "fdiv" => if b = 0 then none else some (Py.fdiv a b)
  | "fmod" => if b = 0 then none else some (Py.fmod a b)
  | "not" => some (Py.lnot a)
  | "ceildiv" => if b ≤ 0 then none else some (Py.ceilDiv a b)
  | _ => none

def codec (st : DState) (args : List String) : DState × String :=
  match args with
  | ["date_dec", w] =>
    match w.toNat? with
    | some w => let (y, m, d) := DosTime.decodeDate w; (st, s!"ok {y} {m} {d}")
    | none => (st, "bad-op")
  | ["time_dec", w] =>
    match w.toNat? with
    | some w => let (h, mi, s) := DosTime.decodeTime w; (st, s!"ok {h} {mi} {s}")
    | none => (st, "bad-op")
  | ["date_fields", w] =>
    match w.toInt? with
    | some w => (st, s!"ok {Gen.Arith.deserialize_date_year w} {Gen.Arith.deserialize_date_month w} {Gen.Arith.deserialize_date_day w}")
    | none => (st, "bad-op")
  | ["time_fields", w] =>
    match w.toInt? with
    | some w => (st, s!"ok {Gen.Arith.deserialize_time_hour w} {Gen.Arith.deserialize_time_minute w} {Gen.Arith.deserialize_time_second w}")
    | none => (st, "bad-op")
  | ["date_enc", y, m, d] =>
    match y.toInt?, m.toInt?, d.toInt? with
    | some y, some m, some d =>
      if Gen.Arith.serialize_date_raises y m d then (st, "err ValueError")
      else (st, s!"ok {Gen.Arith.serialize_date y m d} {DosTime.encodeDate y m d}")
    | _, _, _ => (st, "bad-op")
  | ["time_enc", h, mi, s] =>
    match h.toNat?, mi.toNat?, s.toNat? with
    | some h, some mi, some s => (st, s!"ok {Gen.Arith.serialize_time h mi s} {DosTime.encodeTime h mi s}")
    | _, _, _ => (st, "bad-op")
  | ["fat12_parse", hx] =>
    match parseHex hx with
    | some bs => match FatTable.parse12 bs with
      | .ok es => (st, "ok " ++ showNatList es)
      | .error _ => (st, "err AssertionError")
    | none => (st, "bad-op")
  | ["fat16_parse", hx] =>
    match parseHex hx with
    | some bs => (st, "ok " ++ showNatList (FatTable.parse16 bs))
    | none => (st, "bad-op")
  | ["fat32_parse", hx] =>
    match parseHex hx with
    | some bs => (st, "ok " ++ showNatList (FatTable.parse32 bs))
    | none => (st, "bad-op")
  | ["fat12_ser", es] =>
    match parseNatList es with
    | some es => (st, "ok " ++ toHex (FatTable.ser12 es))
    | none => (st, "bad-op")
  | ["fat16_ser", es] =>
    match parseNatList es with
    | some es => (st, "ok " ++ toHex (FatTable.ser16 es))
    | none => (st, "bad-op")
  | ["fat32_ser", es] =>
    match parseNatList es with
    | some es => (st, "ok " ++ toHex (FatTable.ser32 es))
    | none => (st, "bad-op")
  | ["fat12_flush", hx] =>
    match parseHex hx with
    | some bs => match FatTable.parse12 bs with
      | .ok es => (st, "ok " ++ toHex (FatTable.flushed (FatTable.ser12 es) bs))
      | .error _ => (st, "err AssertionError")
    | none => (st, "bad-op")
  | ["fat16_flush", hx] =>
    match parseHex hx with
    | some bs => (st, "ok " ++ toHex (FatTable.flushed (FatTable.ser16 (FatTable.parse16 bs)) bs))
    | none => (st, "bad-op")
  | ["fat32_flush", hx] =>
    match parseHex hx with
    | some bs => (st, "ok " ++ toHex (FatTable.ser32r (FatTable.parse32 bs) (FatTable.parse32Reserved bs)))
    | none => (st, "bad-op")
  | ["fat_spec", ty, hx, k] =>
    match parseHex hx, k.toNat? with
    | some bs, some k =>
      let v := if ty == "12" then FatTable.entry12 bs k else if ty == "16" then FatTable.entry16 bs k
               else FatTable.entry32 bs k
      (st, s!"ok {v}")
    | _, _ => (st, "bad-op")
  | ["checksum", hx] =>
    match parseHex hx with
    | some bs => (st, s!"ok {Gen.Arith.checksum (bs.map Int.ofNat)} {Sfn.checksum bs}")
    | none => (st, "bad-op")
  | ["getcluster", lo, hi] =>
    match lo.toInt?, hi.toInt? with
    | some lo, some hi => (st, s!"ok {Gen.Arith.get_cluster lo hi}")
    | _, _ => (st, "bad-op")
  | ["setcluster", c] =>
    match c.toInt? with
    | some c => (st, s!"ok {Gen.Arith.set_cluster_fstcluslo c} {Gen.Arith.set_cluster_fstclushi c}")
    | none => (st, "bad-op")
  | ["pyint", op, a, b] =>
    match a.toInt?, b.toInt? with
    | some a, some b => match pyintOp op a b with
      | some r => (st, s!"ok {r}")
      | none => (st, "err ValueError")
    | _, _ => (st, "bad-op")
  | ["sfn_classify", hx] =>
    match parseHex hx with
    | some bs => match Sfn.classify bs with
      | .free => (st, "ok free")
      | .last => (st, "ok last")
      | .name _ => (st, "ok name")
    | none => (st, "bad-op")
  | ["sfn_str", cp, hx] =>
    match parseHex hx, st.cps.lookup cp with
    | some bs, some cpv =>
      let stored := Sfn.strMutate bs
      (st, "ok " ++ showNatList (Sfn.unpad cpv stored) ++ " " ++ toHex stored)
    | _, _ => (st, "bad-op")
  | ["sfn_store", hx] =>
    match parseHex hx with
    | some bs => (st, "ok " ++ toHex (Sfn.storeLead bs))
    | none => (st, "bad-op")
  | ["layout_unpack", name, hx] =>
    match layoutByName name, parseHex hx with
    | some (l, _), some bs => (st, "ok " ++ " ".intercalate ((Layout.unpack l bs).map showVal))
    | _, _ => (st, "bad-op")
  | ["layout_roundtrip", name, hx] =>
    match layoutByName name, parseHex hx with
    | some (l, sz), some bs => (st, "ok " ++ toHex (Layout.pack l sz (Layout.unpack l bs)))
    | _, _ => (st, "bad-op")
  | _ => (st, "bad-op")

def fnv (xs : List Nat) : Nat :=
  xs.foldl (fun h x => ((h ^^^ x) * 1099511628211) % 18446744073709551616) 14695981039346656037

def showWalk : Alloc.Walk → String
  | .ok c => "ok " ++ showNatList c
  | .leaves c => "err PyFAT:5 " ++ showNatList c
  | .loop c => "err PyFAT:5 " ++ showNatList c
  | .bad c => "err PyFAT:- " ++ showNatList c
  | .free c => "err PyFAT:- " ++ showNatList c
  | .invalid c => "err PyFAT:- " ++ showNatList c
  | .hang c => "hang " ++ showNatList (c.take 8)

def showSlotEnt (e : Dir.Ent) : String :=
  let long := match e.lfn with
    | none => "-"
    | some ls =>
      let u := Dir.decodeLfn ls
      if DirBytes.utf16Valid ((ls.flatMap (·.units)).reverse.dropWhile (· == 65535)).reverse then "L" ++ showNatList u else "U"
  toHex e.short.name ++ ":" ++ toString e.short.attr ++ ":" ++ long

def volume (args : List String) : String :=
  match args with
  | ["alloc", ty, hint, n, t16, t32, fds, spc, fat] =>
    match ty.toNat?, hint.toNat?, n.toNat?, t16.toInt?, t32.toInt?, fds.toInt?, spc.toInt?, parseNatList fat with
    | some ty, some hint, some n, some t16, some t32, some fds, some spc, some fat =>
      let count := Gen.Arith.get_cluster_count (BPB_TotSec16 := t16) (BPB_TotSec32 := t32) (first_data_sector := fds) (BPB_SecPerClus := spc)
      let bound := min fat.length (count + 2).toNat
      match Alloc.allocate (Alloc.params ty) fat hint bound n with
      | none => s!"err PyFAT:28 hint={hint} fat={fnv fat}"
      | some r => s!"ok {showNatList r.clusters} {r.hint} {fnv r.fat}"
    | _, _, _, _, _, _, _, _ => "bad-op"
  | ["writeclusters", bpc, size, pos, bs, cs] =>
    match bpc.toNat?, size.toNat?, pos.toNat?, parseHex bs, (cs.splitOn ",").mapM parseHex with
    | some bpc, some size, some pos, some bs, some cs =>
      "ok " ++ ",".intercalate ((FatIO.writeClusters bpc cs size pos bs).map toHex)
    | _, _, _, _, _ => "bad-op"
  | ["chain", ty, start, fat] =>
    match ty.toNat?, start.toNat?, parseNatList fat with
    | some ty, some start, some fat => showWalk (Alloc.chainOf (Alloc.params ty) fat start)
    | _, _, _ => "bad-op"
  | ["free", ty, start, hint, fat] =>
    match ty.toNat?, start.toNat?, hint.toNat?, parseNatList fat with
    | some ty, some start, some hint, some fat =>
      let p := Alloc.params ty
      match Alloc.chainOf p fat start with
      | .ok cs => s!"ok {fnv (Alloc.freeList p.cv.free fat cs)} {Alloc.lowerHint hint cs}"
      | w => showWalk w
    | _, _, _, _ => "bad-op"
  | ["cluster_address", c, spc, fds, bps] =>
    match c.toInt?, spc.toInt?, fds.toInt?, bps.toInt? with
    | some c, some spc, some fds, some bps =>
      s!"ok {Gen.Arith.get_data_cluster_address (cluster := c) (BPB_SecPerClus := spc) (first_data_sector := fds) (BPB_BytsPerSec := bps)}"
    | _, _, _, _ => "bad-op"
  | ["num_clusters", size, bpc] =>
    match size.toInt?, bpc.toInt? with
    | some size, some bpc => s!"ok {Gen.Arith.calc_num_clusters (size := size) (bytes_per_cluster := bpc)}"
    | _, _ => "bad-op"
  | ["header", t16, t32, rsvd, nfats, rootent, bps, spc, f16, f32] =>
    match t16.toNat?, t32.toNat?, rsvd.toNat?, nfats.toNat?, rootent.toNat?, bps.toNat?, spc.toNat?, f16.toNat?, f32.toNat? with
    | some t16, some t32, some rsvd, some nfats, some rootent, some bps, some spc, some f16, some f32 =>
      let fsz : Int := if f16 ≠ 0 then f16 else f32
      let rds := Gen.Arith.parse_header_root_dir_sectors (BPB_RootEntCnt := rootent) (BPB_BytsPerSec := bps)
      let rd := Gen.Arith.parse_header_root_dir_sector (BPB_RsvdSecCnt := rsvd) (BPB_NumFATs := nfats) (fat_size := fsz)
      let fds := Gen.Arith.parse_header_first_data_sector (BPB_RootEntCnt := rootent) (BPB_BytsPerSec := bps)
        (BPB_RsvdSecCnt := rsvd) (BPB_NumFATs := nfats) (fat_size := fsz)
      let ty := Gen.Arith.determine_fat_type (BPB_TotSec16 := t16) (BPB_TotSec32 := t32) (BPB_RsvdSecCnt := rsvd)
        (BPB_NumFATs := nfats) (fat_size := fsz) (root_dir_sectors := rds) (BPB_SecPerClus := spc)
        (BPB_FATSz16 := f16) (BPB_FATSz32 := f32)
      let b : Geom.Bpb := { bps := bps, spc := spc, rsvd := rsvd, nfats := nfats, rootEnt := rootent,
                            totSec16 := t16, totSec32 := t32, fatSz16 := f16, fatSz32 := f32 }
      s!"ok {ty} {rds} {rd} {fds} spec {b.fatType} {b.rootDirSectors} {b.rootDirSector} {b.firstDataSector}"
    | _, _, _, _, _, _, _, _, _ => "bad-op"
  | ["access", t16, t32, rsvd, nfats, rootent, bps, spc, f16, f32, bk, off, len] =>
    match t16.toNat?, t32.toNat?, rsvd.toNat?, nfats.toNat?, rootent.toNat?, bps.toNat?, spc.toNat?, f16.toNat?, f32.toNat?,
          bk.toNat?, off.toNat?, len.toNat? with
    | some t16, some t32, some rsvd, some nfats, some rootent, some bps, some spc, some f16, some f32, some bk, some off, some len =>
      let b : Geom.Bpb := { bps := bps, spc := spc, rsvd := rsvd, nfats := nfats, rootEnt := rootent,
                            totSec16 := t16, totSec32 := t32, fatSz16 := f16, fatSz32 := f32, bkBoot := bk }
      match Geom.classifyAccess b off len with
      | some .bootSector => "ok boot"
      | some .backupBoot => "ok backup"
      | some (.fat i) => s!"ok fat{i}"
      | some .root => "ok root"
      | some (.cluster c) => s!"ok cluster{c}"
      | none => "ok none"
    | _, _, _, _, _, _, _, _, _, _, _, _ => "bad-op"
  | ["mkfsarith", ty, size, ss, spc, nf] =>
    match ty.toInt?, size.toInt?, ss.toInt?, spc.toInt?, nf.toInt? with
    | some ty, some size, some ss, some spc, some nf =>
      s!"ok {Gen.Arith.mkfs_num_sec size ss} {Gen.Arith.mkfs_fat_size ty size ss spc nf} {Gen.Arith.mkfs_root_ent_cnt ty ss} {Gen.Arith.mkfs_rsvd_sec_cnt ty} {Gen.Arith.mkfs_root_dir_sectors ty ss}"
    | _, _, _, _, _ => "bad-op"
  | ["seekcursor", bpc, fsz, off] =>
    match bpc.toNat?, fsz.toNat?, off.toNat? with
    | some bpc, some fsz, some off =>
      let c := FatIO.seekCursor bpc fsz off
      s!"ok {c.bpos} {c.cindex} {c.coffpos}"
    | _, _, _ => "bad-op"
  | ["lfn_make", units, cks] =>
    match parseNatList units, cks.toNat? with
    | some u, some c =>
      let ls := Dir.makeLfn u c
      "ok " ++ toHex ((ls.reverse.flatMap DirBytes.encodeLfn)) ++ " " ++ showNatList (Dir.decodeLfn ls)
    | _, _ => "bad-op"
  | ["dirscan", hx] =>
    match parseHex hx with
    | some bs =>
      match Dir.scan Sfn.checksum [] (DirBytes.decodeDir bs) with
      | .ok es => "ok " ++ (if es.isEmpty then "-" else " ".intercalate (es.map showSlotEnt))
      | .error .lfnCluster => "err PyFAT:14"
      | .error .lfnDuplicate => "err PyFAT:-"
    | none => "bad-op"
  | _ => "bad-op"

def defCp (st : DState) (name decs spaces : String) (upper : String := "-") : DState × String :=
  match parseNatList decs, parseNatList spaces, parseMap upper with
  | some d, some sp, some up =>
    let da := d.toArray
    let cp : Sfn.CodePage := { dec := fun b => da.getD b 65533, isSpace := fun c => sp.contains c }
    ({ st with cps := (name, cp) :: st.cps, cpi := (name, { dec := da, spaces := sp, upper := up }) :: st.cpi }, "ok")
  | _, _, _ => (st, "bad-op")

/-- `crash fat <ty> <k> <j> <len> <base> <w1> <w2> …`: the FAT copy (bytes `base`) after `k` complete
    whole-table writes and `j` bytes of the next one; answer = the table a mount decodes from it -/
def crashCmd (args : List String) : String :=
  match args with
  | "fat" :: ty :: k :: j :: len :: base :: ws =>
    match k.toNat?, j.toNat?, len.toNat?, parseHex base, ws.mapM parseHex with
    | some k, some j, some len, some base, some ws =>
      let img := Crash.crash (Crash.ofList base) (ws.map fun d => ⟨0, d⟩) k j
      let reg := Crash.region img 0 base.length
      let entry := if ty == "12" then FatTable.entry12 else if ty == "16" then FatTable.entry16 else FatTable.entry32
      s!"ok {fnv reg} {showNatList (Crash.tableOf entry reg len)}"
    | _, _, _, _, _ => "bad-op"
  | _ => "bad-op"

/-! ## `fs`: a filesystem-model session (Model.Fs) -/

def sparse (fat : List Nat) : String :=
  let rec go (i : Nat) : List Nat → List String → List String
    | [], acc => acc.reverse
    | x :: xs, acc => go (i + 1) xs (if x ≠ 0 ∧ i ≥ 2 then s!"{i}:{x}" :: acc else acc)
  let l := go 0 fat []
  if l.isEmpty then "-" else ",".intercalate l

def showNode (n : Fs.Node) : String :=
  s!"{showNatList n.path}/{n.parent}/{n.key}/{if n.isDir then 1 else 0}/{showNatList n.chain}/{n.size}/{n.slots}"

def showDEnt (e : Fs.DEnt) : String :=
  s!"{e.parent}/{e.key}/{if e.isDir then 1 else 0}/{e.clus}/{e.size}/{e.slots}"

def showErr : Fs.Err → String
  | .notFound => "ResourceNotFound"
  | .fileExpected => "FileExpected"
  | .dirExpected => "DirectoryExpected"
  | .dirExists => "DirectoryExists"
  | .notEmpty => "DirectoryNotEmpty"
  | .removeRoot => "RemoveRootError"
  | .noSpace => "PyFAT:28"
  | .eio => "PyFAT:5"

def showRes : Fs.Res → String
  | .ok b => s!"ok {b}"
  | .err e => "err " ++ showErr e

def joinOr (l : List String) : String := if l.isEmpty then "-" else "|".intercalate l

def fsDump (s : Fs.St) : String :=
  s!"ok hint={s.hint} len={s.fat.length} fat={sparse s.fat} root={showNatList s.rootChain} nodes={joinOr (s.nodes.map showNode)} dfat={sparse s.dfat} dlen={s.dfat.length} disk={joinOr (s.disk.map showDEnt)}"

def parseOp (args : List String) : Option Fs.Op :=
  match args with
  | ["create", p, sl, w] => do some (.create (← parseNatList p) (← sl.toNat?) (w == "1"))
  | ["makedir", p, sl] => do some (.makedir (← parseNatList p) (← sl.toNat?))
  | ["remove", p] => do some (.remove (← parseNatList p))
  | ["removedir", p] => do some (.removedir (← parseNatList p))
  | ["fwrite", p, pos, n] => do some (.fwrite (← parseNatList p) (← pos.toNat?) (← n.toNat?))
  | ["ftrunc", p, m] => do some (.ftrunc (← parseNatList p) (← m.toNat?))
  | _ => none

def fsCmd (st : DState) (args : List String) : DState × String :=
  match args with
  | "init" :: rest =>
    match (kv rest "ty").bind String.toNat?, (kv rest "bound").bind String.toNat?, (kv rest "bpc").bind String.toNat?,
          kv rest "fixed", (kv rest "rootcap").bind String.toNat?, (kv rest "rootbase").bind String.toNat?,
          (kv rest "hint").bind String.toNat?, (kv rest "root").bind parseNatList, (kv rest "fat").bind parseNatList with
    | some ty, some bound, some bpc, some fixed, some rootcap, some rootbase, some hint, some root, some fat =>
      let v : Fs.Vol := ⟨Alloc.params ty, bound, bpc, fixed == "1", rootcap, rootbase⟩
      let s : Fs.St := ⟨fat, hint, root, [], fat, []⟩
      ({ st with fs := some (v, s, []) }, "ok")
    | _, _, _, _, _, _, _, _, _ => (st, "bad-op")
  | ["node", p, parent, key, isdir, chain, size, slots] =>
    match st.fs, parseNatList p, parent.toNat?, key.toNat?, parseNatList chain, size.toNat?, slots.toNat? with
    | some (v, s, t), some p, some parent, some key, some chain, some size, some slots =>
      let n : Fs.Node := ⟨p, parent, key, isdir == "1", chain, size, slots⟩
      ({ st with fs := some (v, { s with nodes := s.nodes ++ [n], disk := s.disk ++ [n.dent] }, t ++ [⟨p, isdir == "1", size⟩]) }, "ok")
    | _, _, _, _, _, _, _ => (st, "bad-op")
  | ["op", "removetree", p] =>
    match st.fs, parseNatList p with
    | some (v, s, t), some p =>
      let (s', r) := Fs.removetree v s p
      -- the reference filesystem makes the same primitive calls
      let ops := match Fs.resolve s.nodes p with
        | some loc => if loc.isDir then Fs.expandTree (s.nodes.length + 1) s.nodes p loc else []
        | none => []
      let t' := ops.foldl (fun t op => (Fs.specStep t op).1) t
      ({ st with fs := some (v, s', t') }, showRes r ++ " spec=" ++ showRes r)
    | _, _ => (st, "bad-op")
  | "op" :: rest =>
    match st.fs, parseOp rest with
    | some (v, s, t), some op =>
      let (s', r) := Fs.step v s op
      let (t', r') := Fs.specStep t op
      -- the reference filesystem follows the implementation when that runs out of space
      let t'' := if r = .err .noSpace then t else t'
      ({ st with fs := some (v, s', t'') }, showRes r ++ " spec=" ++ showRes r')
    | _, _ => (st, "bad-op")
  | ["spec" ] =>
    match st.fs with
    | some (_, s, t) =>
      let sh := fun (l : Fs.Spec) => joinOr (l.map fun e => s!"{showNatList e.path}/{if e.isDir then 1 else 0}/{e.size}")
      (st, "ok abs=" ++ sh (Fs.abs s) ++ " spec=" ++ sh t)
    | none => (st, "bad-op")
  | ["check", count] =>
    match st.fs, count.toNat? with
    | some (v, s, _), some count =>
      let bad := Fs.checkInv v count s
      (st, if bad.isEmpty then "ok" else "violated " ++ ",".intercalate bad)
    | _, _ => (st, "bad-op")
  | ["data", c, bytes] =>
    -- bytes of one cluster of the initial image
    match c.toNat?, parseHex bytes with
    | some c, some bs => ({ st with fsdata := (c, bs) :: st.fsdata }, "ok")
    | _, _ => (st, "bad-op")
  | ["wdata", p, pos, bytes] =>
    -- the data side of the last `fs op fwrite/ftrunc` on path p: `oldsize` and the chain are taken from the
    -- states before / after that call, which the harness brackets with `fs mark`
    match st.fs, st.fsmark, parseNatList p, pos.toNat?, parseHex bytes with
    | some (v, s, _), some sOld, some p, some pos, some bs =>
      match sOld.nodes.find? (fun n => n.path == p), s.nodes.find? (fun n => n.path == p) with
      | some f, some f' =>
        let dataFn : Fs.Data := fun c => (st.fsdata.lookup c).getD (List.replicate v.bpc 0)
        let d' := Fs.writeData v.bpc dataFn f'.chain f.size pos bs
        ({ st with fsdata := f'.chain.map (fun c => (c, d' c)) ++ st.fsdata.filter (fun kv => !f'.chain.contains kv.1) }, "ok")
      | _, _ => (st, "ok")
    | _, _, _, _, _ => (st, "bad-op")
  | ["mark"] =>
    match st.fs with
    | some (_, s, _) => ({ st with fsmark := some s }, "ok")
    | none => (st, "bad-op")
  | ["contents"] =>
    match st.fs with
    | some (v, s, _) =>
      let dataFn : Fs.Data := fun c => (st.fsdata.lookup c).getD (List.replicate v.bpc 0)
      (st, "ok " ++ joinOr ((s.nodes.filter (fun n => !n.isDir)).map fun n => s!"{showNatList n.path}:{fnv (Fs.contentOf dataFn n)}"))
    | none => (st, "bad-op")
  | ["dump"] =>
    match st.fs with
    | some (_, s, _) => (st, fsDump s)
    | none => (st, "bad-op")
  | _ => (st, "bad-op")

def step (st : DState) (line : String) : DState × String :=
  match (line.trimAscii.toString.splitOn " ").filter (· ≠ "") with
  | "codec" :: args => codec st args
  | "vol" :: args => (st, volume args)
  | ["cp", name, decs, spaces] => defCp st name decs spaces
  | ["cp", name, decs, spaces, upper] => defCp st name decs spaces upper
  | "name" :: args => (st, names st args)
  | "crash" :: args => (st, crashCmd args)
  | "fs" :: args => fsCmd st args
  | ["ping"] => (st, "ok pong")
  | [] => (st, "")
  | _ => (st, "bad-op")

partial def loop (h : IO.FS.Stream) (out : IO.FS.Stream) (st : DState) : IO Unit := do
  let line ← h.getLine
  if line.isEmpty then return ()
  let (st', o) := step st line
  out.putStrLn o
  loop h out st'

def main : IO Unit := do
  let stdin ← IO.getStdin
  let stdout ← IO.getStdout
  loop stdin stdout {}
  stdout.flush
