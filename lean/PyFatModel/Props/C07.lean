/-
C07 — Any specification-valid volume made elsewhere is read correctly.

Proved: FAT width = the specification's cluster-count rule on every valid BPB
(over the *translated* `__determine_fat_type` and geometry assignments);
FAT entries decode as the specification says for every table length (12/16/32);
the directory scan returns exactly the entries a writer laid down, ignoring
everything after the end mark and every free slot; long names decode for every
length.  The composition over whole images (mount ∘ build = id) is decided on
the real code by suite `foreign` (independent builder as generator and oracle).
-/
import PyFatModel.Proofs.Geom
import PyFatModel.Proofs.FatTable
import PyFatModel.Proofs.Dir

open Model.Geom Model.Dir

namespace Props.C07

theorem c07_fatType (b : Bpb) (v : b.Valid) :
    Gen.Arith.determine_fat_type (BPB_TotSec16 := b.totSec16) (BPB_TotSec32 := b.totSec32)
      (BPB_RsvdSecCnt := b.rsvd) (BPB_NumFATs := b.nfats) (fat_size := b.fatSz)
      (root_dir_sectors := b.rootDirSectors) (BPB_SecPerClus := b.spc)
      (BPB_FATSz16 := b.fatSz16) (BPB_FATSz32 := b.fatSz32) = (b.fatType : Nat) :=
  Proofs.Geom.gen_fat_type b v

/-- the root-directory size the code feeds into the type rule is the specification's -/
theorem c07_root_dir_sectors (b : Bpb) (hb : 0 < b.bps) :
    Gen.Arith.parse_header_root_dir_sectors (BPB_RootEntCnt := b.rootEnt) (BPB_BytsPerSec := b.bps)
      = (b.rootDirSectors : Nat) := Proofs.Geom.gen_root_dir_sectors b hb

theorem c07_first_data_sector (b : Bpb) (hb : 0 < b.bps) :
    Gen.Arith.parse_header_first_data_sector (BPB_RootEntCnt := b.rootEnt) (BPB_BytsPerSec := b.bps)
      (BPB_RsvdSecCnt := b.rsvd) (BPB_NumFATs := b.nfats) (fat_size := b.fatSz) = (b.firstDataSector : Nat) :=
  Proofs.Geom.gen_first_data_sector b hb

theorem c07_cluster_address (b : Bpb) (c : Nat) (hc : 2 ≤ c) :
    Gen.Arith.get_data_cluster_address (cluster := c) (BPB_SecPerClus := b.spc)
      (first_data_sector := b.firstDataSector) (BPB_BytsPerSec := b.bps) = (b.clusterOffset c : Nat) :=
  Proofs.Geom.gen_cluster_address b c hc

/-- deleted slots are skipped, everything behind the end mark is ignored, long
    names written by any conforming writer are attached to their short entry -/
theorem c07_scan (cks : List Nat → Nat) (es : List Ent) (junk : List Slot)
    (hw : ∀ e ∈ es, Proofs.Dir.WellFormed cks e) :
    scan cks [] (serDir es ++ Slot.endMark :: junk) = .ok es :=
  (Proofs.Dir.scan_serDir cks es junk hw).1

/-- a free (deleted) slot anywhere between entries changes nothing -/
theorem c07_free_slot_ignored (cks : List Nat → Nat) (rest : List Slot) :
    scan cks [] (Slot.free :: rest) = scan cks [] rest := by simp [scan]

theorem c07_long_name_decodes (name : List Nat) (cks : Nat) (hne : name ≠ [])
    (hl : ∀ u ∈ name, u ≠ 0 ∧ u ≠ 65535) : decodeLfn (makeLfn name cks) = name :=
  Proofs.Dir.decode_make name cks hne hl

/-- a long-name set whose checksum does not match the short entry is dropped: the short name is used -/
theorem c07_bad_checksum_uses_short (cks : List Nat → Nat) (s : LfnSlot) (e : ShortEnt) (rest : List Slot)
    (h0 : s.clusLo = 0) (hc : s.chksum ≠ cks e.name) :
    scan cks [] (Slot.lfn s :: Slot.short e :: rest)
      = (scan cks [] rest).map (fun t => { short := e, lfn := none } :: t) := by
  simp only [scan, h0, ne_eq, not_true_eq_false, if_false, List.any_nil]
  have : (s.chksum == cks e.name) = false := by simp [hc]
  simp only [List.all_cons, List.all_nil, Bool.and_true, this, Bool.and_false]
  cases scan cks [] rest <;> simp [Except.map]

example : (⟨512, 1, 1, 2, 224, 2880, 0, 9, 0, 0⟩ : Bpb).fatType = 12 := by decide

end Props.C07
