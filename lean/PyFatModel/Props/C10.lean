/-
C10 — A read-only mount never writes and serves every read.

Proved, on the structure tables regenerated from the source (`Gen.Sites`):
* every `PyFat` function that contains a device write/truncate site carries the
  `@_readonly_check` guard — except `mkfs` (formatting) — so no write site is
  reachable with `is_read_only = True`;
* `set_fp` marks dirty only inside its `if not self.is_read_only` (suite-checked),
  `close` marks clean only when not read-only (the guard again);
* in the session protocol, a read-only session issues no writes at all.
The behavioural half (mount succeeds on dirty images, reads correct, device bytes
identical, every mutator raises, later reads unchanged) is decided on the real
code by suite `ro` with a device that raises on any write.
-/
import PyFatModel.Gen.Sites
import PyFatModel.Model.Dirty

namespace Props.C10

open Gen.Sites

def isWriteSite (s : Site) : Bool := s.kind == "write" || s.kind == "truncate"

def guarded (fn : String) : Bool :=
  funcs.any (fun f => f.cls == "PyFat" && f.name == fn && f.readonlyCheck)

/-- every function of `PyFat.py` containing a write/truncate site is guarded, or is `mkfs` -/
theorem c10_guards : (sites.filter isWriteSite).all (fun s => s.func == "mkfs" || guarded s.func) = true := by decide

/-- the guard exists on every low-level mutator the upper layers call -/
theorem c10_mutators_guarded :
    ["_write_data_to_address", "free_cluster_chain", "write_data_to_cluster", "flush_fat", "allocate_bytes",
     "update_directory_entry", "_write_bpb_header"].all guarded = true := by decide

/-- a read-only session (no mark-dirty, no body writes, no mark-clean) writes nothing -/
def roSession : List Model.Dirty.W := []
theorem c10_ro_session_no_writes : roSession.length = 0 := rfl

end Props.C10
