/-
C11 — The unclean-shutdown flag brackets every write session.

Proved:
* `c11_bracket`: in the session protocol (mark dirty = flush all FAT copies with
  the clean-shutdown bit of FAT[1] cleared, then boot sector [+ FAT32 backup] with
  the dirty flag set; body = data writes and FAT flushes; mark clean = flush all
  FAT copies with the bit set, then boot sector(s) with the flag cleared) — for
  FAT12/16/32, any number ≥ 1 of FATs and any body — after every write of the
  session the image carries a mark, or only boot-sector copies remain to be written;
* the flag arithmetic, as *translated from the source*: `_mark_dirty` makes
  `_is_dirty` true and `_mark_clean` makes it false, for every FAT[1] / flag-byte
  value and every single-bit mask; the masks extracted from the source are single bits.
Tied to the code by suite `marks`: the exact ordered write log of real sessions,
image rebuilt at every prefix, judged by the independent reader's mark test.
Granularity: whole `write()` calls (a torn multi-sector write is C12's subject).
-/
import PyFatModel.Proofs.Dirty
import PyFatModel.Proofs.Masks

open Model.Dirty

namespace Props.C11

theorem c11_bracket (is12 is32 : Bool) (nfats : Nat) (hn : 0 < nfats) (body : List W) (hb : bodyOK body = true)
    (k : Nat) (hk0 : 0 < k) (hk : k < (session is12 is32 nfats body).length) :
    marked is12 (run ⟨false, true⟩ ((session is12 is32 nfats body).take k)) = true ∨
    ((session is12 is32 nfats body).drop k).all isBootCopy = true :=
  Proofs.Dirty.bracketOK_prefix is12 _ _ (Proofs.Dirty.session_bracket is12 is32 nfats hn body hb) k hk0 hk

/-- a clean close leaves no mark -/
theorem c11_final_unmarked (is12 is32 : Bool) (nfats : Nat) (hn : 0 < nfats) (t : Ind) :
    marked is12 (run t (markClean is12 is32 nfats)) = false := by
  unfold markClean
  cases is12 with
  | true => cases is32 <;> simp [writeBpb, run, apply, marked]
  | false =>
    simp only [Bool.false_eq_true, if_false]
    rw [Proofs.Dirty.run_append, Proofs.Dirty.flushFat_effect nfats true t hn]
    cases is32 <;> simp [writeBpb, run, apply, marked]

theorem c11_mark_dirty_arith (f k : Nat) :
    Gen.Arith.is_dirty_dos_dirty (Gen.Arith.mark_dirty_fat1 (f : Int) ((2 ^ k : Nat) : Int)) ((2 ^ k : Nat) : Int) = 1 :=
  Proofs.Masks.mark_dirty_then_dirty f k

theorem c11_mark_clean_arith (f k : Nat) :
    Gen.Arith.is_dirty_dos_dirty (Gen.Arith.mark_clean_fat1 (f : Int) ((2 ^ k : Nat) : Int)) ((2 ^ k : Nat) : Int) = 0 :=
  Proofs.Masks.mark_clean_then_clean f k

theorem c11_flag_set (r : Nat) : Gen.Arith.is_dirty_nt_dirty (Gen.Arith.mark_dirty_reserved1 (r : Int)) = 1 :=
  Proofs.Masks.reserved1_dirty r

theorem c11_flag_cleared (r : Nat) : Gen.Arith.is_dirty_nt_dirty (Gen.Arith.mark_clean_reserved1 (r : Int)) = 0 :=
  Proofs.Masks.reserved1_clean r

theorem c11_masks_single_bits : Gen.fat16CleanMask = 2 ^ 15 ∧ Gen.fat32CleanMask = 2 ^ 27 ∧ Gen.fatDirtyBitMask = 2 ^ 0 :=
  Proofs.Masks.masks_are_bits

/-- FAT12 has no FAT mark (the code's getattr dispatch finds a mask only for 16 and 32) -/
theorem c11_types_with_fat_mark : Gen.typesWithCleanMask = [16, 32] := by decide

/-- negative witness (what the seeded reordering of `_mark_clean` does): clearing the flag before
    the FAT copies are written leaves an unmarked, incomplete state -/
example : Proofs.Dirty.bracketOK false ⟨true, false⟩ ([W.bootHdr false, W.bootSig] ++ flushFat 2 true) = false := by decide

example : Proofs.Dirty.bracketOK false ⟨false, true⟩ (session false true 2 [W.data, W.fatCopy 0 false, W.fatCopy 1 false]) = true := by decide

end Props.C11
