/-
C19 — Concurrent modifications are linearizable and keep the image sound.

Model (`Model.Conc.Mutex`): any number of threads, each with a program of operations;
an operation is any list of micro-steps on the shared state (in-memory FAT, hint,
directory tree, device — the type `S` is arbitrary) executed between taking and
releasing one lock.  A schedule is any list of thread ids; blocked/finished threads
stutter, so *every* interleaving at micro-step granularity is a schedule.

Proved:
* `c19_mutex_linearizable`  for every schedule, whenever the lock is free the shared state
      equals the operations logged so far executed one after the other from the initial
      state, in the order the lock was taken;
* `c19_order_respects_programs`  that order contains each thread's operations in program
      order, and all of them once the thread has finished — it is a sequential order of the
      given operations.  Hence every property of sequential histories (C03–C05 via their
      sequential theorems and suites) carries over to concurrent ones.
* `c19_entry_points_locked`  (decide, on the table regenerated from the source) every public
      entry point of PyFatFS / FatIO from which a function that changes the FAT, the hint or
      the device is reachable runs under the filesystem lock, and file handles share that lock;
* `racy_crosslink`  the witness that the lock is needed: the allocator's scan and link as two
      steps of two unlocked threads hand the same cluster to both.

Tied to the code by (a3) the regenerated tables above and by suite `schedw`: the real
pyfatfs under a deterministic scheduler that owns the device and every lock, final tree
compared with all sequential orders, closed image judged by the independent checker.
Not modelled: CPython's bytecode-level atomicity inside a micro-step, the OS scheduler.
-/
import PyFatModel.Proofs.Conc
import PyFatModel.Gen.Sites

open Model.Conc Model.Conc.Mutex Proofs.Conc.Mutex

namespace Props.C19

/-- whenever no operation is in progress, the shared state is that of the logged operations run sequentially -/
theorem c19_mutex_linearizable {S : Type} (s0 : S) (progs : Nat → List (Op S)) (sched : List Nat)
    (hfree : (run (init s0 progs) sched).owner = none) :
    (run (init s0 progs) sched).shared = applyOps ((run (init s0 progs) sched).log.map (·.2)) s0 := by
  have h := run_inv s0 sched (init s0 progs) (inv_init s0 progs)
  simp only [Proofs.Conc.Mutex.Inv, hfree] at h
  exact h.2

/-- while thread `i` is inside an operation, the state is the earlier operations plus its completed micro-steps:
    nobody else has touched the shared state in between -/
theorem c19_in_progress {S : Type} (s0 : S) (progs : Nat → List (Op S)) (sched : List Nat) (i : Nat)
    (hown : (run (init s0 progs) sched).owner = some i) :
    ∃ pre done ms, ((run (init s0 progs) sched).th i).cur = some ms ∧
      (run (init s0 progs) sched).log.map (·.2) = pre ++ [done ++ ms] ∧
      (run (init s0 progs) sched).shared = applyOp done (applyOps pre s0) := by
  have h := run_inv s0 sched (init s0 progs) (inv_init s0 progs)
  simp only [Proofs.Conc.Mutex.Inv, hown] at h
  exact h.2

/-- the linearization order is a sequential order of the given operations: each thread's operations appear
    in program order; all of them once the thread has nothing left to do -/
theorem c19_order_respects_programs {S : Type} (s0 : S) (progs : Nat → List (Op S)) (sched : List Nat) (i : Nat) :
    issued (run (init s0 progs) sched).log i ++ ((run (init s0 progs) sched).th i).todo = progs i :=
  run_prog progs sched (init s0 progs) (prog_init s0 progs) i

theorem c19_finished_all_issued {S : Type} (s0 : S) (progs : Nat → List (Op S)) (sched : List Nat) (i : Nat)
    (hdone : ((run (init s0 progs) sched).th i).todo = []) :
    issued (run (init s0 progs) sched).log i = progs i := by
  have := c19_order_respects_programs s0 progs sched i
  rw [hdone] at this
  simpa using this

/-- the lock discipline the model assumes, read off the current source -/
theorem c19_entry_points_locked :
    (∀ e ∈ Gen.Sites.mutatingEntryPoints, e.2.2.1 = true) ∧ Gen.Sites.handleLockIsFsLock = true := by decide

theorem c19_entry_points_listed :
    ["create", "makedir", "remove", "removedir", "removetree", "setinfo", "openbin"].all
      (fun n => Gen.Sites.mutatingEntryPoints.any (fun e => e.1 == "PyFatFS" && e.2.1 == n)) = true ∧
    ["write", "truncate", "close"].all
      (fun n => Gen.Sites.mutatingEntryPoints.any (fun e => e.1 == "FatIO" && e.2.1 == n)) = true := by decide

/-! ### why the lock is needed: the allocator without it

FAT12 table with clusters 2..5 free, hint 2.  Thread 0 and thread 1 each want one cluster.
Schedule `[0, 1, 0, 1]`: both scan before either links — both are handed cluster 2. -/
def racyStart : Racy.G := ⟨[4088, 4095, 0, 0, 0, 0], 2, [⟨1, none, none⟩, ⟨1, none, none⟩]⟩

theorem racy_crosslink :
    (Racy.run (Model.Alloc.params 12) 6 racyStart [0, 1, 0, 1]).th.map (·.chain) = [some [2], some [2]] := by decide

/-- the same two requests one after the other get different clusters -/
theorem sequential_no_crosslink :
    (Racy.run (Model.Alloc.params 12) 6 racyStart [0, 0, 1, 1]).th.map (·.chain) = [some [2], some [3]] := by decide

/-! ### non-vacuity of the mutex theorem: two threads, two-step operations on a counter pair -/
def demoProgs : Nat → List (Op (Nat × Nat))
  | 0 => [[fun s => (s.1 + 1, s.2), fun s => (s.1, s.2 + s.1)]]
  | 1 => [[fun s => (s.1 * 2, s.2), fun s => (s.1, s.2 + 10)]]
  | _ => []

example : (run (init (1, 0) demoProgs) [0, 1, 0, 1, 0, 1, 0, 1, 1, 1, 1]).owner = none ∧
    (run (init (1, 0) demoProgs) [0, 1, 0, 1, 0, 1, 0, 1, 1, 1, 1]).shared = (4, 12) := by decide

end Props.C19
