/-
C04 — Cluster allocation on disk stays sound: no cross-links, leaks or broken chains.

Proved here (all histories, all table sizes, all three FAT widths):
* the FAT-level state machine (`Model.FatMachine`: allocate / extend / release /
  truncate, the four ways pyfatfs changes its in-memory FAT) preserves `FatRep`
  — chains well-formed, inside the data area, pairwise disjoint, every other data
  cluster free or bad — in every reachable state, failed operations included;
* the chain follower reads back exactly the chain;
* reserved entries 0 and 1 and bad-cluster marks are never touched by the allocator;
* serialising the table and parsing it again (what `flush_fat` + remount do) is
  the identity, for each FAT width, so the invariant carries to every FAT copy.
Tied to the code: `Model.Alloc` by suite `volume` (component correspondence),
cluster-value tables by regeneration; whole histories by suites `ns`/`fat` with
the independent checker as oracle on the real images.
-/
import PyFatModel.Proofs.FatMachine
import PyFatModel.Proofs.FatTable
import PyFatModel.Proofs.FsRun
import PyFatModel.Proofs.FsCheck

open Model.Alloc Model.FatMachine Proofs.FatRep

namespace Props.C04

/-- every reachable state of the FAT machine satisfies the representation invariant -/
theorem c04_reachable (fatType count bound : Nat) (hb : bound ≤ count + 2) (s : St) (ops : List Op)
    (inv : FatRep (params fatType) count s.fat s.chains) :
    FatRep (params fatType) count (run (params fatType) bound s ops).fat (run (params fatType) bound s ops).chains :=
  Proofs.FatMachine.run_preserves (params_ok fatType) hb ops s inv

/-- a failed FAT operation changes nothing (all-or-nothing allocation) -/
theorem c04_failed_step_noop (p : Params) (bound : Nat) (s : St) (op : Op) (h : step p bound s op = none) :
    stepOrStay p bound s op = s := by simp [stepOrStay, h]

/-- following a well-formed chain yields exactly that chain (acyclic, terminated) -/
theorem c04_follow (fatType : Nat) (fat cs : List Nat) (c : Nat) (rest : List Nat)
    (h : IsChain (params fatType) fat cs) (hcs : cs = c :: rest) :
    chainOf (params fatType) fat c = .ok cs :=
  free_follows_chain (params_ok fatType) c rest h hcs

/-- the allocator never touches the two reserved entries, nor any cluster it does not hand out -/
theorem c04_alloc_frame (p : Params) (fat : List Nat) (hint bound n : Nat) (r : AllocResult)
    (h : allocate p fat hint bound n = some r) (x : Nat) (hx : x ∉ r.clusters) :
    r.fat.getD x 0 = fat.getD x 0 := by
  unfold allocate at h
  split at h
  · simp at h
  · simp only [Option.some.injEq] at h; subst h
    exact Proofs.Alloc.link_frame _ _ _ _ hx

theorem c04_alloc_reserved (fatType : Nat) (fat : List Nat) (hint bound n : Nat) (r : AllocResult)
    (h : allocate (params fatType) fat hint bound n = some r) :
    r.fat.getD 0 0 = fat.getD 0 0 ∧ r.fat.getD 1 0 = fat.getD 1 0 := by
  have hp := params_ok fatType
  have key : ∀ x, x < 2 → x ∉ r.clusters := by
    intro x hx hmem
    unfold allocate at h
    split at h
    · simp at h
    · rename_i cs j hscan
      simp only [Option.some.injEq] at h; subst h
      have := (Proofs.Alloc.scan_spec0 _ fat n hint bound cs j hscan).1.data x hmem
      have := hp.min2
      omega
  exact ⟨c04_alloc_frame _ fat hint bound n r h 0 (key 0 (by omega)),
         c04_alloc_frame _ fat hint bound n r h 1 (key 1 (by omega))⟩

/-- the table that `flush_fat` writes parses back to the in-memory table (all copies get the same bytes) -/
theorem c04_flush_parse16 (es : List Nat) (h : Model.FatTable.packable16 es) :
    Model.FatTable.parse16 (Model.FatTable.ser16 es) = es := Proofs.FatTable.dec16_ser16 es h

theorem c04_flush_parse12 (es : List Nat) (h : Model.FatTable.packable12 es) :
    Model.FatTable.dec12 (Model.FatTable.ser12 es) = es := Proofs.FatTable.dec12_ser12 es h

theorem c04_flush_parse32 (es : List Nat) (h : ∀ e ∈ es, e < 268435456) :
    Model.FatTable.parse32 (Model.FatTable.ser32 es) = es := Proofs.FatTable.dec32_ser32 es h

/-! non-vacuity: a concrete table with two chains satisfies the invariant, and a run keeps it -/
def demoFat : List Nat := [4088, 4095, 3, 4095, 0, 6, 4095, 0, 0, 0]
example : (run (params 12) 10 ⟨demoFat, 2, [[2, 3], [5, 6]]⟩
    [.allocNew 1, .extend 0 1, .freeChain 1, .truncate 1 1]).chains = [[5], [4, 7]] := by decide

/-! ## the filesystem level (`Model.Fs`): the FAT against the directory tree -/

/-- **every reachable state of the filesystem model**: after any history of create / create(wipe) /
    makedir / remove / removedir / write / truncate — failed calls included — the in-memory FAT
    represents exactly the chains owned by the directory tree (each entry's, and the FAT32 root
    directory's): well-formed, inside the data area, pairwise disjoint, everything else free or bad;
    the tree is well-formed; every directory's entries fit its chain -/
theorem c04_fs_reachable (v : Model.Fs.Vol) (count : Nat) (hv : Proofs.FsInv.VolOK v count) (s : Model.Fs.St)
    (h : Proofs.FsInv.Inv v count s) (ops : List Model.Fs.Op) : Proofs.FsInv.Inv v count (Model.Fs.run v s ops) :=
  Proofs.FsInv.run_inv hv ops s h

/-- no cross-link: no cluster is in two owned chains (or twice in one) -/
theorem c04_fs_no_crosslink (v : Model.Fs.Vol) (count : Nat) (s : Model.Fs.St) (h : Proofs.FsInv.Inv v count s) :
    (Proofs.FsFat.own s.rootChain s.nodes).flatten.Nodup := Proofs.FsRun.no_crosslink h

/-- no leak: a data cluster owned by nothing is free or marked bad -/
theorem c04_fs_no_leak (v : Model.Fs.Vol) (count : Nat) (s : Model.Fs.St) (h : Proofs.FsInv.Inv v count s)
    (c : Nat) (h2 : 2 ≤ c) (hc : c < count + 2) (hfree : c ∉ (Proofs.FsFat.own s.rootChain s.nodes).flatten) :
    s.fat.getD c 0 = v.p.cv.free ∨ s.fat.getD c 0 = v.p.cv.bad := Proofs.FsRun.no_leak h c h2 hc hfree

/-- the chain follower started at an entry's first cluster returns the entry's chain: acyclic, terminated -/
theorem c04_fs_follow (v : Model.Fs.Vol) (count : Nat) (hv : Proofs.FsInv.VolOK v count) (s : Model.Fs.St)
    (h : Proofs.FsInv.Inv v count s) (n : Model.Fs.Node) (hn : n ∈ s.nodes) (hc : n.chain ≠ []) :
    chainOf v.p s.fat n.clus = .ok n.chain := Proofs.FsRun.follow_node hv h n hn hc

/-- **from any image the verified checker accepts**: if the executable check of the hypotheses (`Model.Fs.checkInv`,
    the driver's `fs check`, which the lock-step suite runs on the state it derives from every image — empty or
    populated, from pyfatfs' mkfs or the independent formatter) returns no failed clause, the state satisfies the
    invariant and the shape of files, and so does every state any history reaches from it -/
theorem c04_fs_checked_start (fatType : Nat) (v : Model.Fs.Vol) (hvp : v.p = params fatType) (count : Nat) (s : Model.Fs.St)
    (h : Model.Fs.checkInv v count s = []) (ops : List Model.Fs.Op) :
    Proofs.FsInv.Inv v count (Model.Fs.run v s ops) ∧
      Proofs.FsShape.ShapeNodes v.bpc (Model.Fs.run v s ops).nodes :=
  Proofs.FsCheck.checked_start v count s (by rw [hvp]; exact params_ok fatType) h ops

example : Model.Fs.checkInv ⟨params 12, 8, 512, true, 512, 1⟩ 6
    ⟨[4088, 4095, 0, 0, 0, 0, 0, 0], 0, [], [], [4088, 4095, 0, 0, 0, 0, 0, 0], []⟩ = [] := by decide

/-- **size against chain length**, every reachable state: a file without a cluster is empty; a file with a chain has
    exactly `max 1 ⌈size / bytes-per-cluster⌉` clusters (an empty file may keep one cluster) -/
theorem c04_fs_size_matches_chain (v : Model.Fs.Vol) (count : Nat) (hv : Proofs.FsInv.VolOK v count) (s : Model.Fs.St)
    (h : Proofs.FsInv.Inv v count s) (hs : Proofs.FsShape.ShapeNodes v.bpc s.nodes) (ops : List Model.Fs.Op)
    (f : Model.Fs.Node) (hf : f ∈ (Model.Fs.run v s ops).nodes) (hfile : f.isDir = false) :
    (f.chain = [] ∧ f.size = 0) ∨
      (f.chain ≠ [] ∧ f.chain.length = max 1 (Proofs.FsShape.cn v.bpc f.size)) := by
  have hb : 0 < v.bpc := by have := hv.bpc; omega
  rcases Proofs.FsInv.run_shape hv ops s h hs f hf hfile with h1 | ⟨h1, h2⟩
  · exact Or.inl h1
  · exact Or.inr ⟨h1, by rw [← Proofs.FsShape.numClus_eq _ _ hb]; exact h2⟩

/-- the translated `calc_num_clusters` is the ceiling of size / bytes-per-cluster -/
theorem c04_num_clusters_is_ceiling (b x : Nat) (hb : 0 < b) :
    Model.Fs.numClus b x = (x + b - 1) / b := Proofs.FsShape.numClus_eq b x hb

/-- The full statement of C04 speaks about the device image after `close()`
    (directory tree → chains, sizes vs. chain lengths, all FAT copies).  It is
    decided on the real code by the independent checker (suites ns/fat); as a
    theorem it needs the directory/ops layer of the model and is not claimed here. -/
def C04_full_statement : Prop :=
  ∀ (fatType count bound : Nat) (s : St) (ops : List Op), bound ≤ count + 2 →
    FatRep (params fatType) count s.fat s.chains →
    FatRep (params fatType) count (run (params fatType) bound s ops).fat (run (params fatType) bound s ops).chains

theorem c04_partial : C04_full_statement :=
  fun fatType count bound s ops hb inv => c04_reachable fatType count bound hb s ops inv

end Props.C04
