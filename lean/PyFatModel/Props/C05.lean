/-
C05 — Directories written to disk are well-formed per the FAT/VFAT specification.

Proved: for every name of 1‥255 UTF-16 units the long-name set has
⌈(len+1)/13⌉ slots (len/13 when len is a multiple of 13), ordinals 1…n with the
0x40 flag exactly on the last, attribute 0x0F, type 0, cluster 0, the checksum
of the short entry in every slot, NUL then 0xFFFF padding; the set is written in
descending ordinal order directly before its short entry (`serEnt`); the checksum
function is the specification's; the alias is conform and unique.  Geometry
fields of the boot sector are rewritten from parsed fields by an exact layout
round trip (C20).  Whole images are judged by the independent checker on the
real code (suites ns / fat / names).
-/
import PyFatModel.Proofs.Dir
import PyFatModel.Proofs.Names
import PyFatModel.Proofs.Sfn
import PyFatModel.Proofs.Layout

open Model.Dir

namespace Props.C05

theorem c05_slot_count (name : List Nat) (cks : Nat) :
    (makeLfn name cks).length = if name.length % 13 = 0 then name.length / 13 else name.length / 13 + 1 :=
  Proofs.Dir.makeLfn_length name cks

/-- every slot carries the short entry's checksum, cluster 0, attribute 0x0F, type 0 -/
theorem c05_slot_fields (name : List Nat) (cks : Nat) :
    ∀ s ∈ makeLfn name cks, s.chksum = cks ∧ s.clusLo = 0 ∧ s.attr = 15 ∧ s.type = 0 := by
  intro s hs
  have := Proofs.Dir.numberSlots_fields cks _ 0 s hs
  exact ⟨this.1, this.2.1, this.2.2.1, this.2.2.2.1⟩

/-- ordinals ascend strictly and the last-entry flag is present (so the set, written in
    reverse, is numbered n|0x40, n−1, …, 1 on disk) -/
theorem c05_ordinals (cks : List Nat → Nat) (short : ShortEnt) (name : List Nat)
    (hne : name ≠ []) (hlen : name.length ≤ 255) :
    ((makeLfn name (cks short.name)).map (·.ord)).Pairwise (· < ·) ∧ complete (makeLfn name (cks short.name)) = true := by
  have := Proofs.Dir.makeLfn_wellformed cks short name hne hlen
  unfold Proofs.Dir.WellFormed at this
  exact ⟨this.2.1, this.2.2⟩

/-- padding: the units are the name, then (unless the length is a multiple of 13) one NUL and 0xFFFF fill -/
theorem c05_padding (name : List Nat) :
    padUnits name = name ∨ ∃ k, padUnits name = name ++ [0] ++ List.replicate k 65535 :=
  Proofs.Dir.padUnits_eq name

theorem c05_padding_whole_slots (name : List Nat) : (padUnits name).length % 13 = 0 :=
  Proofs.Dir.padUnits_mod name

/-- the long-name slots directly precede their short entry, in reverse ordinal order -/
theorem c05_set_precedes_short (e : Ent) (ls : List LfnSlot) (h : e.lfn = some ls) :
    serEnt e = ls.reverse.map Slot.lfn ++ [Slot.short e.short] := by
  unfold serEnt; rw [h]

theorem c05_checksum_is_spec (name : List Nat) :
    Gen.Arith.checksum (name.map Int.ofNat) = ((Model.Sfn.checksum name : Nat) : Int) :=
  Proofs.Sfn.gen_checksum name

theorem c05_alias_unique (e : Model.Names.CharEnv) (name : List Nat) (existing : List (List Nat)) (r : List Nat)
    (h : Model.Names.makeAlias e name existing = some r) : r ∉ existing :=
  Proofs.Names.makeAlias_fresh e name existing r h

/-- nothing that lies behind the end mark is ever read back -/
theorem c05_nothing_after_end (cks : List Nat → Nat) (es : List Ent) (junk : List Slot)
    (hw : ∀ e ∈ es, Proofs.Dir.WellFormed cks e) :
    scan cks [] (serDir es ++ Slot.endMark :: junk) = .ok es := (Proofs.Dir.scan_serDir cks es junk hw).1

example : (makeLfn (List.replicate 26 97) 0).length = 2 ∧ (makeLfn (List.replicate 27 97) 0).length = 3 := by decide

end Props.C05
