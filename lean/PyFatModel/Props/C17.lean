/-
C17 — Timestamps are stored and reported correctly in any time zone.

Proved, for every time-zone environment obeying the database laws at instant t (valid
calendar fields in 1980‥2107, conversion invertible at t — i.e. t not in a DST fold —
and offsets of whole even seconds), with utc on or off (the flag only selects which
environment is used): `getinfo(setinfo(t))` reports t floored to 2 s for created/modified
and the start of t's day for accessed; the stored words are the specification's encoding
of the broken-down time (via the *translated* `serialize_date` / `serialize_time`); the
encoder refuses exactly the years outside 1980‥2107.
Which conversion the code applies with utc on/off, the tz database itself, and the
stamping of new entries against the wall clock are decided on the real code by suite
`time` (8 zones × utc flag × instant grid, in subprocesses).
-/
import PyFatModel.Model.Time
import PyFatModel.Proofs.DosTime

open Model.Time Model.DosTime

namespace Props.C17

theorem c17_roundtrip (e : TzEnv) (t : Int) (law : Lawful e t) :
    load e (store e t) = t - ((e.toFields t).s % 2 : Nat) := by
  unfold load store
  simp only
  rw [Proofs.DosTime.date_roundtrip _ _ _ law.inRange law.validDate,
      Proofs.DosTime.time_roundtrip _ _ _ law.validTime]
  exact law.inverseFloor

/-- at most one second is lost, never gained -/
theorem c17_resolution (e : TzEnv) (t : Int) (law : Lawful e t) :
    t - 1 ≤ load e (store e t) ∧ load e (store e t) ≤ t := by
  rw [c17_roundtrip e t law]
  have : (e.toFields t).s % 2 < 2 := Nat.mod_lt _ (by omega)
  omega

theorem c17_accessed_day (e : TzEnv) (t : Int) (law : Lawful e t) :
    loadDate e (store e t).1 = e.ofFields { e.toFields t with h := 0, mi := 0, s := 0 } ∧ loadDate e (store e t).1 ≤ t := by
  unfold loadDate store
  simp only
  rw [Proofs.DosTime.date_roundtrip _ _ _ law.inRange law.validDate]
  exact ⟨rfl, law.dayStart⟩

/-- what is on disk is the specification's encoding of the broken-down time, computed by the translated encoders -/
theorem c17_on_disk (e : TzEnv) (t : Int) (law : Lawful e t) :
    Gen.Arith.serialize_date (e.toFields t).y (e.toFields t).m (e.toFields t).d = ((store e t).1 : Nat) ∧
    Gen.Arith.serialize_time (e.toFields t).h (e.toFields t).mi (e.toFields t).s = ((store e t).2 : Nat) := by
  have hd := law.validDate
  have ht := law.validTime
  have hle := Proofs.DosTime.daysInMonth_le (e.toFields t).y (e.toFields t).m
  simp only [validDate, Bool.and_eq_true, decide_eq_true_eq] at hd
  simp only [validTime, Bool.and_eq_true, decide_eq_true_eq] at ht
  exact ⟨Proofs.DosTime.gen_serialize_date _ _ _ law.inRange.1 (by omega) (by omega),
         Proofs.DosTime.gen_serialize_time _ _ _ (by omega) (by omega)⟩

/-- out-of-range instants are refused before anything is stored -/
theorem c17_out_of_range_rejected (y m d : Int) :
    Gen.Arith.serialize_date_raises y m d = true ↔ ¬ (1980 ≤ y ∧ y ≤ 2107) := by
  unfold Gen.Arith.serialize_date_raises
  simp only [Bool.not_eq_true', Bool.and_eq_false_iff, decide_eq_false_iff_not]
  omega

/-! non-vacuity: the UTC environment restricted to one day satisfies the laws at a concrete instant -/
def utcDay : TzEnv where
  toFields t := ⟨2021, 7, 1, (t.toNat / 3600) % 24, (t.toNat / 60) % 60, t.toNat % 60⟩
  ofFields f := (f.h * 3600 + f.mi * 60 + f.s : Nat)

example : Lawful utcDay 45297 := by
  refine ⟨by decide, by decide, by decide, by decide, by decide⟩

end Props.C17
