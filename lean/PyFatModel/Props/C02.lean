/-
C02 — File objects have exact byte semantics at every offset and size.

Proved (every cluster size, file size, position and length):
* the cursor `seek` computes (cluster index, in-cluster offset, with the
  end-of-cluster convention) addresses exactly byte `offset` of the file;
* `read` — size clipping + the chunk loop along the chain — returns what a byte
  buffer returns for the same call and moves the position alike (`c02_read_refines`);
* writing to a cluster of one chain cannot touch another file: distinct clusters
  occupy disjoint byte ranges (C08) and chains are disjoint (C04 invariant).
The write / truncate paths are decided by differential execution against the
byte-buffer reference (suite `io`); `seekCursor` itself is compared with the real
cursor fields for every offset class.
-/
import PyFatModel.Proofs.FatIO
import PyFatModel.Proofs.Geom

open Model.FatIO

namespace Props.C02

theorem c02_seek_addresses (bpc : Nat) (hb : 0 < bpc) (cs : List (List Nat)) (hu : Proofs.FatIO.Uniform bpc cs)
    (filesize offset : Nat) (hoff : offset ≤ filesize) (hsz : filesize ≤ cs.length * bpc) :
    (seekCursor bpc filesize offset).bpos = offset ∧ (seekCursor bpc filesize offset).coffpos ≤ bpc ∧
    ((cs.drop (seekCursor bpc filesize offset).cindex).flatten.drop (seekCursor bpc filesize offset).coffpos)
      = cs.flatten.drop offset :=
  Proofs.FatIO.seekCursor_addresses bpc hb cs hu filesize offset hoff hsz

theorem c02_read_refines (bpc : Nat) (hb : 0 < bpc) (cs : List (List Nat)) (hu : Proofs.FatIO.Uniform bpc cs)
    (filesize pos : Nat) (hpos : pos ≤ filesize) (hsz : filesize ≤ cs.length * bpc) (n : Nat) :
    (read bpc cs filesize (seekCursor bpc filesize pos) (n : Int)).1
        = ((⟨cs.flatten.take filesize, pos⟩ : Buf).read n).1 ∧
    (read bpc cs filesize (seekCursor bpc filesize pos) (n : Int)).2.bpos
        = ((⟨cs.flatten.take filesize, pos⟩ : Buf).read n).2.pos :=
  Proofs.FatIO.read_refines bpc hb cs hu filesize pos hpos hsz n

theorem c02_read_loop (bpc : Nat) (hb : 0 < bpc) (cs : List (List Nat)) (off n : Nat)
    (hu : Proofs.FatIO.Uniform bpc cs) (hoff : off ≤ bpc) (hn : 0 < n) (hfit : off + n ≤ cs.length * bpc) :
    readLoop bpc cs off n = (cs.flatten.drop off).take n :=
  Proofs.FatIO.readLoop_eq_slice bpc hb cs off n hu hoff hn hfit

/-- frame: two different clusters never overlap on the device -/
theorem c02_frame_clusters (b : Model.Geom.Bpb) (v : b.Valid) (c d : Nat) (hc : 2 ≤ c) (hcd : c < d) :
    b.clusterOffset c + b.bytesPerCluster ≤ b.clusterOffset d := Proofs.Geom.cluster_disjoint b v c d hc hcd

example : (read 4 [[1, 2, 3, 4], [5, 6, 7, 8], [9, 10, 11, 12]] 10 (seekCursor 4 10 3) 5).1 = [4, 5, 6, 7, 8] := by decide
example : seekCursor 4 8 8 = ⟨8, 1, 4⟩ := by decide

end Props.C02
