/-
C02 — File objects have exact byte semantics at every offset and size.

Proved (every cluster size, file size, position and length):
* the cursor `seek` computes (cluster index, in-cluster offset, with the
  end-of-cluster convention) addresses exactly byte `offset` of the file;
* `read` — size clipping + the chunk loop along the chain — returns what a byte
  buffer returns for the same call and moves the position alike (`c02_read_refines`);
* writing to a cluster of one chain cannot touch another file: distinct clusters
  occupy disjoint byte ranges (C08) and chains are disjoint (C04 invariant).
* `write` — read-modify-write of the cluster the cursor is in, then cluster-sized
  chunks, a shorter last chunk leaving the rest of its cluster alone — replaces
  exactly the bytes `[pos, pos + n)` of the concatenated clusters, so the content
  afterwards is the byte buffer's after the same write, whatever the newly linked
  clusters held before (`c02_write_replaces_range`, `c02_write_refines`);
  `truncate` up = zero-extension, down = prefix (`c02_truncate_*`).
  (How many clusters are linked is the FAT side: `Model.Fs.writeChain`, C04.)
* at the filesystem level (`Model.Fs` + the data area as a function from cluster to bytes): in every
  state with the invariant and well-shaped files — every reachable state — a write through a handle
  makes the file read back as the byte buffer does (`c02_fs_write_reads_back`: the chain `writeChain`
  produced has room, its old part still holds the old content, new clusters may hold anything) and
  leaves the content of every other file and directory as it was (`c02_fs_write_frame`: chains are
  disjoint).
Mode gating, several handles and whole call sequences are decided by differential
execution against the byte-buffer reference (suite `io`); `seekCursor` and
`writeClusters` are compared with the real cursor fields / the real clusters on
the device before and after a real write, for every offset class.
-/
import PyFatModel.Proofs.FatIO
import PyFatModel.Proofs.FatIOWrite
import PyFatModel.Proofs.FsData
import PyFatModel.Proofs.SeekBridge
import PyFatModel.Proofs.Geom

open Model.FatIO

namespace Props.C02

theorem c02_seek_addresses (bpc : Nat) (hb : 0 < bpc) (cs : List (List Nat)) (hu : Proofs.FatIO.Uniform bpc cs)
    (filesize offset : Nat) (hoff : offset ≤ filesize) (hsz : filesize ≤ cs.length * bpc) :
    (seekCursor bpc filesize offset).bpos = offset ∧ (seekCursor bpc filesize offset).coffpos ≤ bpc ∧
    ((cs.drop (seekCursor bpc filesize offset).cindex).flatten.drop (seekCursor bpc filesize offset).coffpos)
      = cs.flatten.drop offset :=
  Proofs.FatIO.seekCursor_addresses bpc hb cs hu filesize offset hoff hsz

theorem c02_read_refines (bpc : Nat) (hb : 0 < bpc) (cs : List (List Nat)) (hu : Proofs.FatIO.Uniform bpc cs)
    (filesize pos : Nat) (hpos : pos ≤ filesize) (hsz : filesize ≤ cs.length * bpc) (n : Nat) :
    (read bpc cs filesize (seekCursor bpc filesize pos) (n : Int)).1
        = ((⟨cs.flatten.take filesize, pos⟩ : Buf).read n).1 ∧
    (read bpc cs filesize (seekCursor bpc filesize pos) (n : Int)).2.bpos
        = ((⟨cs.flatten.take filesize, pos⟩ : Buf).read n).2.pos :=
  Proofs.FatIO.read_refines bpc hb cs hu filesize pos hpos hsz n

theorem c02_read_loop (bpc : Nat) (hb : 0 < bpc) (cs : List (List Nat)) (off n : Nat)
    (hu : Proofs.FatIO.Uniform bpc cs) (hoff : off ≤ bpc) (hn : 0 < n) (hfit : off + n ≤ cs.length * bpc) :
    readLoop bpc cs off n = (cs.flatten.drop off).take n :=
  Proofs.FatIO.readLoop_eq_slice bpc hb cs off n hu hoff hn hfit

/-- the cursor model is the translated source: `Model.FatIO.seekCursor` (on which every theorem here and the
    FAT side of writes rest) computes the values the body of `FatIO.seek` — translated from `/repo` on every run —
    assigns to `__bpos`, `__coffpos`, `__cindex` (clamp to the size, division by the cluster size, end-of-cluster
    adjustment), for every cluster size, file size and target -/
theorem c02_cursor_is_translated_seek (bpc size off : Nat) (junk : Int) :
    ((seekCursor bpc size off).bpos : Int) = Gen.Arith.seek_bpos (offset := off) (filesize := size) ∧
    ((seekCursor bpc size off).coffpos : Int) =
      Gen.Arith.seek_coffpos (offset := off) (filesize := size) (bytes_per_cluster := bpc) ∧
    ((seekCursor bpc size off).cindex : Int) =
      Gen.Arith.seek_cindex (offset := off) (filesize := size) (cindex := junk) (bytes_per_cluster := bpc) :=
  Proofs.SeekBridge.seekCursor_is_source bpc size off junk

/-- the write touches exactly the bytes `[pos, pos + |bs|)` of the file's clusters -/
theorem c02_write_replaces_range (bpc : Nat) (hb : 0 < bpc) (cs : List (List Nat)) (hu : Proofs.FatIO.Uniform bpc cs)
    (filesize pos : Nat) (bs : List Nat) (hpos : pos ≤ filesize) (hsz : filesize ≤ cs.length * bpc)
    (hroom : pos + bs.length ≤ cs.length * bpc) :
    (writeClusters bpc cs filesize pos bs).flatten = cs.flatten.take pos ++ bs ++ cs.flatten.drop (pos + bs.length) :=
  Proofs.FatIOWrite.writeClusters_flat bpc hb cs hu filesize pos bs hpos hsz hroom

/-- `write` refines the byte buffer (every cluster size, file size, position inside the file, data length;
    `cs` = the chain after extension, its new clusters holding arbitrary bytes) -/
theorem c02_write_refines (bpc : Nat) (hb : 0 < bpc) (cs : List (List Nat)) (hu : Proofs.FatIO.Uniform bpc cs)
    (filesize pos : Nat) (bs : List Nat) (hpos : pos ≤ filesize) (hsz : filesize ≤ cs.length * bpc)
    (hroom : pos + bs.length ≤ cs.length * bpc) :
    (writeClusters bpc cs filesize pos bs).flatten.take (max filesize (pos + bs.length)) =
      ((⟨cs.flatten.take filesize, pos⟩ : Buf).write bs).data :=
  Proofs.FatIOWrite.write_refines bpc hb cs hu filesize pos bs hpos hsz hroom

theorem c02_truncate_grow_refines (bpc : Nat) (hb : 0 < bpc) (cs : List (List Nat)) (hu : Proofs.FatIO.Uniform bpc cs)
    (filesize m : Nat) (hm : filesize ≤ m) (hsz : filesize ≤ cs.length * bpc) (hroom : m ≤ cs.length * bpc) :
    (writeClusters bpc cs filesize filesize (List.replicate (m - filesize) 0)).flatten.take m =
      ((⟨cs.flatten.take filesize, 0⟩ : Buf).truncate m).data :=
  Proofs.FatIOWrite.truncate_grow_refines bpc hb cs hu filesize m hm hsz hroom

theorem c02_truncate_shrink_refines (cs : List (List Nat)) (filesize m : Nat) (hm : m ≤ filesize)
    (hsz : filesize ≤ cs.flatten.length) :
    cs.flatten.take m = ((⟨cs.flatten.take filesize, 0⟩ : Buf).truncate m).data :=
  Proofs.FatIOWrite.truncate_shrink_refines cs filesize m hm hsz

example : writeClusters 4 [[1, 2, 3, 4], [5, 6, 7, 8], [90, 91, 92, 93]] 8 8 [20, 21] =
    [[1, 2, 3, 4], [5, 6, 7, 8], [20, 21, 92, 93]] := by decide
example : writeClusters 4 [[1, 2, 3, 4], [5, 6, 7, 8], [90, 91, 92, 93]] 7 3 [20, 21, 22, 23, 24, 25, 26] =
    [[1, 2, 3, 20], [21, 22, 23, 24], [25, 26, 92, 93]] := by decide

/-- **write through a handle, every reachable state of the filesystem model** -/
theorem c02_fs_write_reads_back (v : Model.Fs.Vol) (count : Nat) (hv : Proofs.FsInv.VolOK v count) (s : Model.Fs.St)
    (h : Proofs.FsInv.Inv v count s) (f : Model.Fs.Node) (hf : f ∈ s.nodes) (hshape : Proofs.FsShape.Shape v.bpc f)
    (data : Model.Fs.Data) (pos : Nat) (bs : List Nat) (hbs : 0 < bs.length)
    (fat' : List Nat) (hint' : Nat) (c' : List Nat)
    (hw : Model.Fs.writeChain v s.fat s.hint f.chain f.size pos bs.length = .ok (fat', hint', c'))
    (hnd : c'.Nodup) (hu : ∀ c ∈ c', (data c).length = v.bpc) :
    Model.Fs.contentOf (Model.Fs.writeData v.bpc data c' f.size pos bs)
        { f with chain := c', size := max f.size (min pos f.size + bs.length) } =
      ((⟨Model.Fs.contentOf data f, min pos f.size⟩ : Buf).write bs).data :=
  Proofs.FsData.fs_write_content hv h f hf hshape data pos bs hbs hw hnd hu

/-- **frame, every reachable state**: no other entry's content changes -/
theorem c02_fs_write_frame (v : Model.Fs.Vol) (count : Nat) (s' : Model.Fs.St) (h : Proofs.FsInv.Inv v count s')
    (data : Model.Fs.Data) (f' g : Model.Fs.Node) (hf : f' ∈ s'.nodes) (hg : g ∈ s'.nodes) (hne : g ≠ f')
    (size pos : Nat) (bs : List Nat) :
    Model.Fs.contentOf (Model.Fs.writeData v.bpc data f'.chain size pos bs) g = Model.Fs.contentOf data g :=
  Proofs.FsData.fs_write_frame h data f' g hf hg hne size pos bs

/-! ### known finding D17c, stated formally

`InDomain` restricts `c01_fs_step` / the refinement of `fwrite` to writes that start inside the file.  Outside
that domain the model — which follows the code: `seek` clamps the target to the size — and the reference part
ways; this is the recorded finding, not a gap of the proof: -/

/-- witness: an empty file, three bytes written at position 5.  pyfatfs (the model) puts them at the end: size 3.
    The reference filesystem, like any byte buffer, zero-fills the gap: size 8. -/
theorem c02_d17c_witness :
    let v : Model.Fs.Vol := ⟨Model.Alloc.params 12, 8, 512, true, 512, 1⟩
    let s0 : Model.Fs.St := ⟨[4088, 4095, 0, 0, 0, 0, 0, 0], 0, [], [], [4088, 4095, 0, 0, 0, 0, 0, 0], []⟩
    let s1 := (Model.Fs.step v s0 (.create [3] 1 false)).1
    ((Model.Fs.step v s1 (.fwrite [3] 5 3)).1.nodes.map (·.size) = [3]) ∧
    ((Model.Fs.specStep (Model.Fs.abs s1) (.fwrite [3] 5 3)).1.map (·.size) = [8]) ∧
    ¬ Proofs.FsRefine.InDomain s1 (.fwrite [3] 5 3) := by
  refine ⟨by decide, by decide, ?_⟩
  intro h
  have := h ⟨[3], 0, 3, false, [], 0, 1⟩ (by decide) rfl
  simp at this

/-- in general: a write beyond the end behaves exactly like the same write at the end -/
theorem c02_write_beyond_eof_is_write_at_eof (bpc size pos : Nat) (h : size ≤ pos) :
    seekCursor bpc size pos = seekCursor bpc size size := by
  unfold seekCursor
  simp [Nat.min_eq_right h]

/-- frame: two different clusters never overlap on the device -/
theorem c02_frame_clusters (b : Model.Geom.Bpb) (v : b.Valid) (c d : Nat) (hc : 2 ≤ c) (hcd : c < d) :
    b.clusterOffset c + b.bytesPerCluster ≤ b.clusterOffset d := Proofs.Geom.cluster_disjoint b v c d hc hcd

example : (read 4 [[1, 2, 3, 4], [5, 6, 7, 8], [9, 10, 11, 12]] 10 (seekCursor 4 10 3) 5).1 = [4, 5, 6, 7, 8] := by decide
example : seekCursor 4 8 8 = ⟨8, 1, 4⟩ := by decide

end Props.C02
