/-
C09 — A failed operation changes nothing and does not wedge the filesystem.

Proved: allocation is all-or-nothing — a FAT operation that fails (no space,
bad index) leaves table, hint and ownership exactly as they were, and the
representation invariant keeps holding, so later operations start from a sound
state; the date encoder refuses exactly the years that do not fit the on-disk
field (before anything is stored).  The operation-level statement (every
primitive × every failure point, tree unchanged, follow-ups succeed) is decided
on the real code by suite `fail` (k-th allocation failing for k = 0…, root
directory slot counts, limits, out-of-range times) and `fat`.
-/
import PyFatModel.Proofs.FatMachine
import PyFatModel.Gen.Arith

open Model.Alloc Model.FatMachine Proofs.FatRep

namespace Props.C09

theorem c09_failed_fat_op_is_noop (p : Params) (bound : Nat) (s : St) (op : Op) (h : step p bound s op = none) :
    stepOrStay p bound s op = s := by simp [stepOrStay, h]

/-- ENOSPC leaves the in-memory table untouched: `allocate` either returns a new table or nothing -/
theorem c09_alloc_all_or_nothing (p : Params) (fat : List Nat) (hint bound n : Nat) :
    allocate p fat hint bound n = none ∨ ∃ r, allocate p fat hint bound n = some r := by
  cases allocate p fat hint bound n with
  | none => left; rfl
  | some r => right; exact ⟨r, rfl⟩

/-- after any mix of successful and failed operations the image-level invariant still holds -/
theorem c09_consistent_after_failures (fatType count bound : Nat) (hb : bound ≤ count + 2) (s : St) (ops : List Op)
    (inv : FatRep (params fatType) count s.fat s.chains) :
    FatRep (params fatType) count (run (params fatType) bound s ops).fat (run (params fatType) bound s ops).chains :=
  Proofs.FatMachine.run_preserves (params_ok fatType) hb ops s inv

/-- the (translated) date encoder raises exactly for years outside 1980‥2107 -/
theorem c09_date_rejected_iff (y m d : Int) :
    Gen.Arith.serialize_date_raises y m d = true ↔ ¬ (1980 ≤ y ∧ y ≤ 2107) := by
  unfold Gen.Arith.serialize_date_raises
  simp only [Bool.not_eq_true', Bool.and_eq_false_iff, decide_eq_false_iff_not]
  omega

example : step (params 12) 4 ⟨[4088, 4095, 3, 4095], 2, [[2, 3]]⟩ (.allocNew 1) = none := by decide

end Props.C09
