/-
C09 — A failed operation changes nothing and does not wedge the filesystem.

Proved: allocation is all-or-nothing — a FAT operation that fails (no space,
bad index) leaves table, hint and ownership exactly as they were, and the
representation invariant keeps holding, so later operations start from a sound
state; the date encoder refuses exactly the years that do not fit the on-disk
field (before anything is stored).  The operation-level statement (every
primitive × every failure point, tree unchanged, follow-ups succeed) is decided
on the real code by suite `fail` (k-th allocation failing for k = 0…, root
directory slot counts, limits, out-of-range times) and `fat`.
-/
import PyFatModel.Proofs.FatMachine
import PyFatModel.Gen.Arith
import PyFatModel.Proofs.FsRun

open Model.Alloc Model.FatMachine Proofs.FatRep

namespace Props.C09

theorem c09_failed_fat_op_is_noop (p : Params) (bound : Nat) (s : St) (op : Op) (h : step p bound s op = none) :
    stepOrStay p bound s op = s := by simp [stepOrStay, h]

/-- ENOSPC leaves the in-memory table untouched: `allocate` either returns a new table or nothing -/
theorem c09_alloc_all_or_nothing (p : Params) (fat : List Nat) (hint bound n : Nat) :
    allocate p fat hint bound n = none ∨ ∃ r, allocate p fat hint bound n = some r := by
  cases allocate p fat hint bound n with
  | none => left; rfl
  | some r => right; exact ⟨r, rfl⟩

/-- after any mix of successful and failed operations the image-level invariant still holds -/
theorem c09_consistent_after_failures (fatType count bound : Nat) (hb : bound ≤ count + 2) (s : St) (ops : List Op)
    (inv : FatRep (params fatType) count s.fat s.chains) :
    FatRep (params fatType) count (run (params fatType) bound s ops).fat (run (params fatType) bound s ops).chains :=
  Proofs.FatMachine.run_preserves (params_ok fatType) hb ops s inv

/-- the (translated) date encoder raises exactly for years outside 1980‥2107 -/
theorem c09_date_rejected_iff (y m d : Int) :
    Gen.Arith.serialize_date_raises y m d = true ↔ ¬ (1980 ≤ y ∧ y ≤ 2107) := by
  unfold Gen.Arith.serialize_date_raises
  simp only [Bool.not_eq_true', Bool.and_eq_false_iff, decide_eq_false_iff_not]
  omega

example : step (params 12) 4 ⟨[4088, 4095, 3, 4095], 2, [[2, 3]]⟩ (.allocNew 1) = none := by decide

/-! ## the filesystem level (`Model.Fs`) -/

/-- **a call that ends in out-of-space changes nothing**: in any state satisfying the invariant (every
    reachable state), whatever the call and wherever in it the allocation fails — first allocation of
    makedir, growth of the parent directory after the new directory's cluster was already taken, a full
    fixed root directory, growth of a file — the tree, the sizes and the cluster chains of all entries
    are exactly as before, and the invariant holds, so every later call starts from a sound state.
    The half-done states that `_remove`, `__write` and `truncate` would leave if their directory
    rewrite failed are unreachable (`Proofs.FsInv.updateDir_of_fits`). -/
theorem c09_fs_failed_call_changes_nothing (v : Model.Fs.Vol) (count : Nat) (hv : Proofs.FsInv.VolOK v count)
    (s : Model.Fs.St) (h : Proofs.FsInv.Inv v count s) (op : Model.Fs.Op)
    (hfail : Proofs.FsRefine.Soft (Model.Fs.step v s op).2) :
    (Model.Fs.step v s op).1.nodes = s.nodes ∧ (Model.Fs.step v s op).1.rootChain = s.rootChain ∧
      Proofs.FsInv.Inv v count (Model.Fs.step v s op).1 :=
  let g := Proofs.FsInv.step_good hv h op
  ⟨(g.2.1 hfail).1, (g.2.1 hfail).2, g.1⟩

/-- whenever the reference filesystem leaves its state as it is (every refused call: wrong kind, missing,
    exists, not empty, root), so does the model -/
theorem c09_fs_refused_call_same_tree (v : Model.Fs.Vol) (count : Nat) (hv : Proofs.FsInv.VolOK v count)
    (s : Model.Fs.St) (h : Proofs.FsInv.Inv v count s) (op : Model.Fs.Op) (hdom : Proofs.FsRefine.InDomain s op)
    (hsame : (Model.Fs.specStep (Model.Fs.abs s) op).1 = Model.Fs.abs s) :
    Model.Fs.abs (Model.Fs.step v s op).1 = Model.Fs.abs s := by
  have := (Proofs.FsRun.step_sim hv h op hdom).1
  rw [this]
  unfold Proofs.FsRun.specFollow
  split
  · rfl
  · exact hsame

end Props.C09
