/-
C03 — Everything acknowledged is on the device: remount shows the same tree.

Proved — the two representation round trips a remount goes through:
* FAT: parsing the table that `flush_fat` serialises returns the in-memory table
  (FAT12 every length / FAT16 / FAT32 incl. reserved bits);
* directories: scanning the slot sequence `update_directory_entry` serialises
  returns the in-memory entry list, in order, long names attached, whatever
  follows the end mark; long names decode to the given name.
* the writes are issued: in the filesystem-level model `Model.Fs` (operations written
  after PyFatFS / FatIO call by call, with the device as a second copy that only
  `flush_fat` and `update_directory_entry` change) memory and device agree after
  every call of every history — the FAT as last flushed is the in-memory FAT, the
  entries as last written are the in-memory entries — however the call ended
  (`c03_fs_synced`, `c03_fs_synced_step`).  Tied to the code by suite `fsmodel`,
  which compares the model's device state with what an independent reader finds
  on the real device after every call.
On the real code: suites ns / fat / names / fsmodel remount (or read) a copy of the
device after every completed call and after close().
-/
import PyFatModel.Proofs.FatTable
import PyFatModel.Proofs.Dir
import PyFatModel.Proofs.FsRun

open Model.FatTable Model.Dir Model.Bytes

namespace Props.C03

theorem c03_fat12_persisted (es : List Nat) (h : packable12 es) : dec12 (ser12 es) = es :=
  Proofs.FatTable.dec12_ser12 es h

theorem c03_fat16_persisted (es : List Nat) (h : packable16 es) : parse16 (ser16 es) = es :=
  Proofs.FatTable.dec16_ser16 es h

theorem c03_fat32_persisted (es : List Nat) (h : ∀ e ∈ es, e < 268435456) : parse32 (ser32 es) = es :=
  Proofs.FatTable.dec32_ser32 es h

/-- a FAT region that was parsed and flushed without changes is byte-identical -/
theorem c03_fat32_unchanged (bs : List Nat) (hb : allBytes bs) (h4 : bs.length % 4 = 0) :
    ser32r (parse32 bs) (parse32Reserved bs) = bs := Proofs.FatTable.ser32r_parse32' bs hb h4

theorem c03_directory_persisted (cks : List Nat → Nat) (es : List Ent) (junk : List Slot)
    (hw : ∀ e ∈ es, Proofs.Dir.WellFormed cks e) :
    scan cks [] (serDir es ++ Slot.endMark :: junk) = .ok es ∧ scan cks [] (serDir es) = .ok es :=
  Proofs.Dir.scan_serDir cks es junk hw

theorem c03_long_name_persisted (name : List Nat) (cks : Nat) (hne : name ≠ [])
    (hl : ∀ u ∈ name, u ≠ 0 ∧ u ≠ 65535) : decodeLfn (makeLfn name cks) = name :=
  Proofs.Dir.decode_make name cks hne hl

/-! ## the filesystem level (`Model.Fs`): memory = device after every call -/

/-- one call, in any state that satisfies the invariant and in which memory and device agree:
    they agree afterwards — success, refusal or out-of-space -/
theorem c03_fs_synced_step (v : Model.Fs.Vol) (count : Nat) (hv : Proofs.FsInv.VolOK v count) (s : Model.Fs.St)
    (h : Proofs.FsInv.Inv v count s) (hs : Proofs.FsSync.Sync s) (op : Model.Fs.Op) :
    Proofs.FsSync.Sync (Model.Fs.step v s op).1 :=
  (Proofs.FsInv.step_good hv h op).2.2.1 hs

/-- all histories -/
theorem c03_fs_synced (v : Model.Fs.Vol) (count : Nat) (hv : Proofs.FsInv.VolOK v count) (s : Model.Fs.St)
    (h : Proofs.FsInv.Inv v count s) (hs : Proofs.FsSync.Sync s) (ops : List Model.Fs.Op) :
    (Model.Fs.run v s ops).dfat = (Model.Fs.run v s ops).fat ∧
      (Model.Fs.run v s ops).disk.Perm ((Model.Fs.run v s ops).nodes.map Model.Fs.Node.dent) :=
  let r := Proofs.FsInv.run_sync hv ops s h hs
  ⟨r.fat, r.disk⟩

/-- non-vacuity: the empty volume of `Props.C01` is in sync, and so is the state after a history -/
example : Proofs.FsSync.Sync (⟨[4088, 4095, 0, 0, 0, 0, 0, 0], 0, [], [], [4088, 4095, 0, 0, 0, 0, 0, 0], []⟩ : Model.Fs.St) :=
  ⟨rfl, List.Perm.refl _⟩

end Props.C03
