/-
C03 — Everything acknowledged is on the device: remount shows the same tree.

Proved — the two representation round trips a remount goes through:
* FAT: parsing the table that `flush_fat` serialises returns the in-memory table
  (FAT12 every length / FAT16 / FAT32 incl. reserved bits);
* directories: scanning the slot sequence `update_directory_entry` serialises
  returns the in-memory entry list, in order, long names attached, whatever
  follows the end mark; long names decode to the given name.
Whether each operation actually *issues* those writes (flush / rewrite at the
right moments) is decided on the real code: suites ns / fat / names remount a
copy of the device after every completed call and after close().
-/
import PyFatModel.Proofs.FatTable
import PyFatModel.Proofs.Dir

open Model.FatTable Model.Dir Model.Bytes

namespace Props.C03

theorem c03_fat12_persisted (es : List Nat) (h : packable12 es) : dec12 (ser12 es) = es :=
  Proofs.FatTable.dec12_ser12 es h

theorem c03_fat16_persisted (es : List Nat) (h : packable16 es) : parse16 (ser16 es) = es :=
  Proofs.FatTable.dec16_ser16 es h

theorem c03_fat32_persisted (es : List Nat) (h : ∀ e ∈ es, e < 268435456) : parse32 (ser32 es) = es :=
  Proofs.FatTable.dec32_ser32 es h

/-- a FAT region that was parsed and flushed without changes is byte-identical -/
theorem c03_fat32_unchanged (bs : List Nat) (hb : allBytes bs) (h4 : bs.length % 4 = 0) :
    ser32r (parse32 bs) (parse32Reserved bs) = bs := Proofs.FatTable.ser32r_parse32' bs hb h4

theorem c03_directory_persisted (cks : List Nat → Nat) (es : List Ent) (junk : List Slot)
    (hw : ∀ e ∈ es, Proofs.Dir.WellFormed cks e) :
    scan cks [] (serDir es ++ Slot.endMark :: junk) = .ok es ∧ scan cks [] (serDir es) = .ok es :=
  Proofs.Dir.scan_serDir cks es junk hw

theorem c03_long_name_persisted (name : List Nat) (cks : Nat) (hne : name ≠ [])
    (hl : ∀ u ∈ name, u ≠ 0 ∧ u ≠ 65535) : decodeLfn (makeLfn name cks) = name :=
  Proofs.Dir.decode_make name cks hne hl

end Props.C03
