/-
C08 — All device I/O stays inside the volume.

Proved: on every specification-valid BPB each admissible access kind (boot
sector, FAT32 backup boot sector, FAT copy i < NumFATs, fixed root area, cluster
c with 2 ≤ c < count+2) lies inside [0, TotSec × BytsPerSec); the allocator only
hands out clusters below `bound ≤ count + 2`; the translated address and count
functions are the specification's.  Tied to the code: suite `volume` classifies
*every* device access of real histories into these kinds (an access the model
does not admit is a divergence); suites ns/fat watch guard bands and the device
length on the real code.
-/
import PyFatModel.Proofs.Geom
import PyFatModel.Proofs.Alloc

open Model.Geom Model.Alloc

namespace Props.C08

theorem c08_access_in_volume (b : Bpb) (v : b.Valid) (a : Access) (ha : a.admissible b) :
    (a.range b).1 ≤ (a.range b).2 ∧ (a.range b).2 ≤ b.volumeBytes :=
  Proofs.Geom.access_in_volume b v a ha

theorem c08_classify_sound (b : Bpb) (off len : Nat) (a : Access) (h : classifyAccess b off len = some a) :
    (a.range b).1 ≤ off ∧ off + len ≤ (a.range b).2 := Proofs.Geom.classify_sound b off len a h

/-- the allocator's clusters are all below the scan bound, i.e. inside the data area
    when `bound ≤ count + 2` (the bound the code computes from the cluster count) -/
theorem c08_alloc_in_data_area (p : Params) (fat : List Nat) (hint bound n : Nat) (r : AllocResult)
    (h : allocate p fat hint bound n = some r) (hb : hint ≤ bound) : ∀ c ∈ r.clusters, p.cv.minData ≤ c ∧ c < bound := by
  intro c hc
  unfold allocate at h
  split at h
  · simp at h
  · rename_i cs j hscan
    simp only [Option.some.injEq] at h; subst h
    obtain ⟨ok, hj, _⟩ := Proofs.Alloc.scan_spec0 p fat n hint bound cs j hscan
    have := ok.range c hc
    have := ok.data c hc
    omega

theorem c08_cluster_count (b : Bpb) (hs : 0 < b.spc) (hfit : b.firstDataSector ≤ b.totSec) :
    Gen.Arith.get_cluster_count (BPB_TotSec16 := b.totSec16) (BPB_TotSec32 := b.totSec32)
      (first_data_sector := b.firstDataSector) (BPB_SecPerClus := b.spc) = (b.countOfClusters : Nat) :=
  Proofs.Geom.gen_cluster_count b hs hfit

theorem c08_cluster_in_volume (b : Bpb) (v : b.Valid) (c : Nat) (h2 : 2 ≤ c) (hc : c < b.countOfClusters + 2) :
    b.firstDataSector * b.bps ≤ b.clusterOffset c ∧ b.clusterOffset c + b.bytesPerCluster ≤ b.volumeBytes :=
  Proofs.Geom.cluster_in_volume b v c h2 hc

theorem c08_clusters_disjoint (b : Bpb) (v : b.Valid) (c d : Nat) (hc : 2 ≤ c) (hcd : c < d) :
    b.clusterOffset c + b.bytesPerCluster ≤ b.clusterOffset d := Proofs.Geom.cluster_disjoint b v c d hc hcd

end Props.C08
