/-
C12 — A crash in the middle of an operation damages only what was being changed.

The device is a function from addresses to bytes; an operation is its ordered write
log; a crash image is what the device holds after any number of complete writes and
any number of bytes of the next one (`Model.Crash.crash`; sector boundaries are the
special case "a multiple of the sector size").  Proved, for every image, every write
log, every crash point, every FAT width and table length, every valid geometry:

* `c12_bytes`          a byte of a crash image is the durable byte or a byte one of the
                       operation's writes puts at that address; a region no write touches is intact;
* `c12_fat{12,16,32}_torn`  however the whole-table FAT writes were cut and mixed, every entry on which
                       the durable table and all written tables agree decodes to that value
                       (FAT12: entries share bytes with their neighbours and straddle sectors);
* `c12_tables_agree`   the tables an operation may flush (every intermediate state of the FAT
                       machine: allocate / extend / release / truncate of the *target's* chains) agree
                       with the durable table on every chain that is not the target, and the
                       allocator never hands out a cluster some chain owns;
* `c12_crash_frame_*`  consequently, if each write of the log is a whole-table write of the first
                       FAT copy agreeing on the chain `cs`, or misses that copy and the clusters
                       of `cs`, then in **every** crash image the chain follower started at the
                       head of `cs` yields exactly `cs`, and the bytes read along it are the
                       durable bytes;
* `c12_path_frame`     path resolution through directories whose bytes are unchanged gives the
                       same result, for any directory scan function.

* `c12_fs_outside_footprint`  per primitive (`Model.Fs`, every reachable state, every call, however it
                       ends): an entry that is neither the call's target nor the target's parent directory is an
                       entry of the state after the call — same chain, same size — and shares no cluster with any
                       other entry of that state, in particular none with the target or the rewritten directory;
                       together with `c04_fs_no_leak` (clusters newly taken were free) this is the premise "the
                       call's data writes miss the clusters of `cs`" of `c12_crash_frame_*` for every protected
                       entry, provided the call writes data only to clusters of its target, of the parent
                       directory and to clusters that were free — which suite `fsmodel` checks on the device log
                       of every real call.

Tie to the code: the premises of `c12_crash_frame_*` are checked on every real write
log by suite `crash` (each write classified: reserved region / whole FAT copy with
entries of protected chains compared / root area / clusters that are free in the
durable FAT, the target's, or a rewritten directory's); `Model.Crash.crash` itself is
compared with the harness's reconstruction and pyfatfs' FAT parser on torn regions
(driver command `crashfat`); the FAT machine by suite `volume`.  The statement about
mounting and reading through the real directory code is decided by mounting every
distinct crash image with the real code.
-/
import PyFatModel.Proofs.Crash
import PyFatModel.Proofs.FsFrame

open Model.Crash Model.FatTable Model.Bytes Model.Geom Model.Alloc Model.FatMachine
open Proofs.Crash Proofs.FatRep

namespace Props.C12

/-- every byte of every crash image has a source -/
theorem c12_bytes (base : Img) (ws : List Write) (k j a : Nat) :
    crash base ws k j a = base a ∨
    ∃ w ∈ ws, w.covers a ∧ crash base ws k j a = w.data.getD (a - w.pos) 0 :=
  crash_source base ws k j a

/-- what no write touches is intact at every crash point -/
theorem c12_untouched_region (base : Img) (ws : List Write) (k j lo n : Nat) (h : ∀ w ∈ ws, w.misses lo n) :
    region (crash base ws k j) lo n = region base lo n :=
  region_crash_outside base ws k j lo n h

theorem c12_fat12_torn (m : List Nat) (srcs : List (List Nat)) (k v : Nat)
    (hb : ∀ s ∈ srcs, allBytes s) (hmix : Mix m srcs) (hv : ∀ s ∈ srcs, entry12 s k = v) : entry12 m k = v :=
  entry12_mix m srcs k v hb hmix hv

theorem c12_fat16_torn (m : List Nat) (srcs : List (List Nat)) (k v : Nat)
    (hb : ∀ s ∈ srcs, allBytes s) (hmix : Mix m srcs) (hv : ∀ s ∈ srcs, entry16 s k = v) : entry16 m k = v :=
  entry16_mix m srcs k v hb hmix hv

theorem c12_fat32_torn (m : List Nat) (srcs : List (List Nat)) (k v : Nat)
    (hb : ∀ s ∈ srcs, allBytes s) (hmix : Mix m srcs) (hv : ∀ s ∈ srcs, entry32 s k = v) : entry32 m k = v :=
  entry32_mix m srcs k v hb hmix hv

/-- the tables an operation sequence may flush agree with the durable table on every chain
    it does not address; that chain stays owned (so no later allocation hands it out) -/
theorem c12_tables_agree (fatType count bound : Nat) (hb : bound ≤ count + 2) (cs : List Nat)
    (ops : List Op) (s : St) (inv : FatRep (params fatType) count s.fat s.chains) (hm : cs ∈ s.chains)
    (hsp : Spared (params fatType) bound cs s ops) :
    ∀ t ∈ states (params fatType) bound s ops, cs ∈ t.chains ∧ ∀ x ∈ cs, t.fat.getD x 0 = s.fat.getD x 0 := by
  intro t ht
  obtain ⟨a, _, c⟩ := run_frame (params_ok fatType) hb cs ops s inv hm hsp t ht
  exact ⟨a, c⟩

/-- the allocator never hands out a cluster that some chain owns (data of a new or growing
    file is written to clusters outside every durable chain) -/
theorem c12_alloc_spares_owned (fatType count bound hint n : Nat) (hb : bound ≤ count + 2) (hn : 0 < n)
    (fat : List Nat) (chains : List (List Nat)) (inv : FatRep (params fatType) count fat chains)
    (r : AllocResult) (h : allocate (params fatType) fat hint bound n = some r) :
    ∀ cs ∈ chains, ∀ x ∈ cs, x ∉ r.clusters :=
  fun cs hcs x hx =>
    disjoint_of_head (allocate_preserves (params_ok fatType) inv hint bound n hb hn r h).1 cs hcs x hx

/-- premise about one write of the log, relative to the chain `cs` of a protected file or
    directory: a whole-table write of the first FAT copy (the one a mount reads) whose table
    agrees with the durable table on `cs`, or a write that misses that copy and the clusters of `cs` -/
def WriteSpares (entry : List Nat → Nat → Nat) (b : Bpb) (base : Img) (cs : List Nat) (w : Write) : Prop :=
  (w.pos = b.fatOffset 0 ∧ w.data.length ≤ b.fatBytes ∧ allBytes w.data ∧
      ∀ x ∈ cs, entry w.data x = entry (region base (b.fatOffset 0) b.fatBytes) x)
  ∨ (w.misses (b.fatOffset 0) b.fatBytes ∧ ∀ x ∈ cs, w.misses (b.clusterOffset x) b.bytesPerCluster)

theorem fat0_before_data (b : Bpb) (v : b.Valid) : b.fatOffset 0 + b.fatBytes ≤ b.firstDataSector * b.bps := by
  unfold Bpb.fatOffset Bpb.fatBytes Bpb.firstDataSector
  have hn := v.nfats
  have : b.fatSz ≤ b.nfats * b.fatSz := Nat.le_mul_of_pos_left _ hn
  rw [← Nat.add_mul]
  apply Nat.mul_le_mul_right
  omega

/-- **Crash frame.**  If every write of an operation spares the chain `cs`, then at every
    crash point the follower finds `cs` again from its first cluster and the bytes along it
    are the durable bytes — for any entry decoder that is stable under mixtures. -/
theorem c12_crash_frame (entry : List Nat → Nat → Nat)
    (mixThm : ∀ (m : List Nat) (srcs : List (List Nat)) (k v : Nat),
      (∀ s ∈ srcs, allBytes s) → Mix m srcs → (∀ s ∈ srcs, entry s k = v) → entry m k = v)
    (p : Params) (hp : ParamsOK p) (b : Bpb) (v : b.Valid) (base : Img) (ws : List Write)
    (cs : List Nat) (c : Nat) (rest : List Nat) (size len : Nat)
    (hfat : 0 < b.fatBytes)
    (hbytes : allBytes (region base (b.fatOffset 0) b.fatBytes))
    (hchain : IsChain p (tableOf entry (region base (b.fatOffset 0) b.fatBytes) len) cs) (hcs : cs = c :: rest)
    (hin : ∀ x ∈ cs, 2 ≤ x)
    (hw : ∀ w ∈ ws, WriteSpares entry b base cs w) (k j : Nat) :
    chainOf p (tableOf entry (region (crash base ws k j) (b.fatOffset 0) b.fatBytes) len) c = .ok cs ∧
    fileBytes (crash base ws k j) b cs size = fileBytes base b cs size := by
  constructor
  · apply chain_survives hp _ _ cs c rest hchain hcs
    · rw [tableOf_length, tableOf_length]
    · intro x hx
      have hxl : x < len := by
        have := hchain.inTable x hx
        rwa [tableOf_length] at this
      rw [tableOf_getD _ _ _ _ hxl, tableOf_getD _ _ _ _ hxl]
      apply fat_entry_crash entry mixThm base ws _ _ x _ hfat hbytes rfl
      intro w hwm
      rcases hw w hwm with ⟨hp0, _, hb, he⟩ | ⟨hm, _⟩
      · right; exact ⟨hp0, hb, he x hx⟩
      · left; exact hm
  · unfold fileBytes
    rw [chainBytes_crash b base ws cs k j]
    intro x hx w hwm
    rcases hw w hwm with ⟨hp0, hl, _, _⟩ | ⟨_, hm⟩
    · apply before_data_misses_cluster b v w x (hin x hx)
      have := fat0_before_data b v
      omega
    · exact hm x hx

theorem c12_crash_frame_fat12 (b : Bpb) (v : b.Valid) (base : Img) (ws : List Write)
    (cs : List Nat) (c : Nat) (rest : List Nat) (size len : Nat) (hfat : 0 < b.fatBytes)
    (hbytes : allBytes (region base (b.fatOffset 0) b.fatBytes))
    (hchain : IsChain (params 12) (tableOf entry12 (region base (b.fatOffset 0) b.fatBytes) len) cs)
    (hcs : cs = c :: rest) (hin : ∀ x ∈ cs, 2 ≤ x) (hw : ∀ w ∈ ws, WriteSpares entry12 b base cs w) (k j : Nat) :
    chainOf (params 12) (tableOf entry12 (region (crash base ws k j) (b.fatOffset 0) b.fatBytes) len) c = .ok cs ∧
    fileBytes (crash base ws k j) b cs size = fileBytes base b cs size :=
  c12_crash_frame entry12 entry12_mix _ (params_ok 12) b v base ws cs c rest size len hfat hbytes hchain hcs hin hw k j

theorem c12_crash_frame_fat16 (b : Bpb) (v : b.Valid) (base : Img) (ws : List Write)
    (cs : List Nat) (c : Nat) (rest : List Nat) (size len : Nat) (hfat : 0 < b.fatBytes)
    (hbytes : allBytes (region base (b.fatOffset 0) b.fatBytes))
    (hchain : IsChain (params 16) (tableOf entry16 (region base (b.fatOffset 0) b.fatBytes) len) cs)
    (hcs : cs = c :: rest) (hin : ∀ x ∈ cs, 2 ≤ x) (hw : ∀ w ∈ ws, WriteSpares entry16 b base cs w) (k j : Nat) :
    chainOf (params 16) (tableOf entry16 (region (crash base ws k j) (b.fatOffset 0) b.fatBytes) len) c = .ok cs ∧
    fileBytes (crash base ws k j) b cs size = fileBytes base b cs size :=
  c12_crash_frame entry16 entry16_mix _ (params_ok 16) b v base ws cs c rest size len hfat hbytes hchain hcs hin hw k j

theorem c12_crash_frame_fat32 (b : Bpb) (v : b.Valid) (base : Img) (ws : List Write)
    (cs : List Nat) (c : Nat) (rest : List Nat) (size len : Nat) (hfat : 0 < b.fatBytes)
    (hbytes : allBytes (region base (b.fatOffset 0) b.fatBytes))
    (hchain : IsChain (params 32) (tableOf entry32 (region base (b.fatOffset 0) b.fatBytes) len) cs)
    (hcs : cs = c :: rest) (hin : ∀ x ∈ cs, 2 ≤ x) (hw : ∀ w ∈ ws, WriteSpares entry32 b base cs w) (k j : Nat) :
    chainOf (params 32) (tableOf entry32 (region (crash base ws k j) (b.fatOffset 0) b.fatBytes) len) c = .ok cs ∧
    fileBytes (crash base ws k j) b cs size = fileBytes base b cs size :=
  c12_crash_frame entry32 entry32_mix _ (params_ok 32) b v base ws cs c rest size len hfat hbytes hchain hcs hin hw k j

/-- a write confined to a cluster that `cs` does not own (a cluster that is free in the
    durable FAT, the target's, a rewritten directory's) misses every cluster of `cs` -/
theorem c12_other_cluster_write_spares (b : Bpb) (v : b.Valid) (w : Write) (cs : List Nat) (d : Nat)
    (hd : 2 ≤ d) (hnot : d ∉ cs) (hin : ∀ x ∈ cs, 2 ≤ x) (hw : w.within (b.clusterOffset d) b.bytesPerCluster) :
    ∀ x ∈ cs, w.misses (b.clusterOffset x) b.bytesPerCluster :=
  fun x hx => within_cluster_misses b v w x d (hin x hx) hd (fun e => hnot (e ▸ hx)) hw

/-- path resolution reads the same entries when every directory it visits reads the same bytes -/
theorem c12_path_frame {Name : Type} (rd rd' : Nat → Option (List Nat)) (lookup : List Nat → Name → Option Found)
    (path : List Name) (dir : Nat) (h : ∀ d ∈ visited rd lookup dir path, rd' d = rd d) :
    resolve rd' lookup dir path = resolve rd lookup dir path :=
  resolve_congr rd rd' lookup path dir h

/-! ### non-vacuity: a concrete FAT12 table torn between two flushes

Durable table `[ff8 fff 003 fff 000 000]` (chain 2→3); the operation allocates cluster 4
and flushes `[ff8 fff 003 fff fff 000]`.  Cut after 7 of the 9 bytes (in the middle of the
byte pair shared by entries 4 and 5), entries 2 and 3 still decode to the chain. -/
def demoOld : List Nat := ser12 [0xFF8, 0xFFF, 3, 0xFFF, 0, 0]
def demoNew : List Nat := ser12 [0xFF8, 0xFFF, 3, 0xFFF, 0xFFF, 0]
def demoCrash : Img := crash (ofList demoOld) [⟨0, demoNew⟩] 0 7

example : demoOld ≠ demoNew := by decide
example : region demoCrash 0 9 ≠ demoOld ∧ region demoCrash 0 9 ≠ demoNew := by decide
example : entry12 (region demoCrash 0 9) 2 = 3 ∧ entry12 (region demoCrash 0 9) 3 = 0xFFF := by decide
example : chainOf (params 12) (tableOf entry12 (region demoCrash 0 9) 6) 2 = .ok [2, 3] := by decide

/-- The full statement of C12 (mountability of every crash image and survival of every
    protected path *through pyfatfs' directory reader*) quantifies over the real
    directory code; the theorems above carry the FAT, the data clusters and path
    resolution over unchanged directory bytes.  What is not a theorem: that each primitive's
    write log satisfies `WriteSpares` for every protected chain (checked on every real log
    by suite `crash`), and the behaviour of the directory scan on the *rewritten*
    directory's torn bytes (excluded by the property; observed by the suite — see the known
    finding on compacting rewrites of an ancestor directory). -/
def C12_proved_core : Prop :=
  ∀ (b : Bpb), b.Valid → ∀ (base : Img) (ws : List Write) (cs : List Nat) (c : Nat) (rest : List Nat) (size len : Nat),
    0 < b.fatBytes → allBytes (region base (b.fatOffset 0) b.fatBytes) →
    IsChain (params 12) (tableOf entry12 (region base (b.fatOffset 0) b.fatBytes) len) cs → cs = c :: rest →
    (∀ x ∈ cs, 2 ≤ x) → (∀ w ∈ ws, WriteSpares entry12 b base cs w) → ∀ k j,
    chainOf (params 12) (tableOf entry12 (region (crash base ws k j) (b.fatOffset 0) b.fatBytes) len) c = .ok cs ∧
    fileBytes (crash base ws k j) b cs size = fileBytes base b cs size

theorem c12_partial : C12_proved_core :=
  fun b v base ws cs c rest size len hfat hbytes hchain hcs hin hw k j =>
    c12_crash_frame_fat12 b v base ws cs c rest size len hfat hbytes hchain hcs hin hw k j

/-- per primitive: what lies outside the footprint of a call is untouched by its bookkeeping -/
theorem c12_fs_outside_footprint (v : Model.Fs.Vol) (count : Nat) (hv : Proofs.FsInv.VolOK v count) (s : Model.Fs.St)
    (h : Proofs.FsInv.Inv v count s) (op : Model.Fs.Op) (g : Model.Fs.Node) (hg : g ∈ s.nodes)
    (hp : g.path ≠ Proofs.FsFrame.opPath op) (hpd : g.path ≠ (Proofs.FsFrame.opPath op).dropLast) :
    g ∈ (Model.Fs.step v s op).1.nodes ∧
      ∀ x ∈ (Model.Fs.step v s op).1.nodes, x ≠ g → ∀ c ∈ g.chain, c ∉ x.chain :=
  Proofs.FsFrame.outside_footprint_untouched hv h op g hg hp hpd

end Props.C12
