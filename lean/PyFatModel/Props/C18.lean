/-
C18 — Concurrent readers get the same answers as serial readers.

Model (`Model.Conc.Readers`): any number of reader threads, each listing a sequence of
lazily loaded directories on one shared filesystem object WITHOUT a filesystem-wide
lock.  Listing = test the loaded flag; if clear, read the directory slot by slot (each
slot one atomic seek+read pair on the shared device cursor), link the entries
privately, publish the finished list, set the flag.  Every list of thread ids is a
schedule, so every interleaving at that granularity is covered — including several
threads populating the same directory at once.

Proved:
* `c18_reader_determinism`  under every schedule, the listings a thread has obtained are the
      listings of its program's directories as the (constant) device holds them — in
      particular what it obtains running alone (`c18_same_as_solo`);
* `c18_read_sites_locked`   (decide, regenerated table) every device read outside mkfs is a
      seek+read pair under the device lock — the atomic-read premise;
* `c18_populate_publishes_last`  (decide, regenerated from the AST of `__populate_dirs`) the
      listing is stored to the shared object only after parsing and linking, as a finished
      local list, followed by the loaded flag — the publish-last premise;
* `racy_read_witness`  the witness that atomicity of seek+read is needed: with the pair split
      in two steps a reader returns another directory's slots.

Tied to the code by (a3) and by suite `schedr`: the real pyfatfs under the deterministic
scheduler (pre-emption-bounded exhaustive at lock/device granularity and at the source
lines of every function that stores to a shared object), per-thread results compared with
solo runs.  Not modelled: per-handle cursors (private to a thread by the property's
premise "their own handles"), CPython bytecode atomicity, the OS scheduler.
-/
import PyFatModel.Proofs.Conc
import PyFatModel.Gen.Sites

open Model.Conc Model.Conc.Readers Proofs.Conc.Readers

namespace Props.C18

/-- under every schedule, what a thread has obtained so far are the true listings of the directories
    of its program it has finished, in order -/
theorem c18_reader_determinism (dev : Dev) (progs : Nat → List Nat) (sched : List Nat) (i : Nat) :
    expected dev (progs i) ((run dev true (init progs) sched).th i) :=
  ((run_ginv dev progs sched (init progs) (init_ginv dev progs)).2 i).2

/-- a thread that has finished holds exactly the listings of its program -/
theorem c18_finished (dev : Dev) (progs : Nat → List Nat) (sched : List Nat) (i : Nat)
    (hdone : ((run dev true (init progs) sched).th i).pc = none ∧ ((run dev true (init progs) sched).th i).todo = []) :
    ((run dev true (init progs) sched).th i).results = (progs i).map (parseDir dev) := by
  obtain ⟨dp, h1, h2⟩ := c18_reader_determinism dev progs sched i
  rw [hdone.1, hdone.2] at h1
  simp only [List.append_nil] at h1
  rw [h2, h1]

/-- same answers as running alone: any two schedules (e.g. an arbitrary interleaving with other threads'
    programs `progs`, and a solo run with `progs'` in which only thread `i` has work) in which thread `i`
    finishes the same program give it the same results -/
theorem c18_same_as_solo (dev : Dev) (progs progs' : Nat → List Nat) (sched sched' : List Nat) (i : Nat)
    (hp : progs i = progs' i)
    (h1 : ((run dev true (init progs) sched).th i).pc = none ∧ ((run dev true (init progs) sched).th i).todo = [])
    (h2 : ((run dev true (init progs') sched').th i).pc = none ∧ ((run dev true (init progs') sched').th i).todo = []) :
    ((run dev true (init progs) sched).th i).results = ((run dev true (init progs') sched').th i).results := by
  rw [c18_finished dev progs sched i h1, c18_finished dev progs' sched' i h2, hp]

/-- published listings are always the true ones (what a later reader finds in the cache) -/
theorem c18_cache_coherent (dev : Dev) (progs : Nat → List Nat) (sched : List Nat) (d : Nat) (l : List Nat)
    (h : (run dev true (init progs) sched).sh.cache d = some l) : l = parseDir dev d :=
  (run_ginv dev progs sched (init progs) (init_ginv dev progs)).1 d l h

theorem c18_read_sites_locked :
    ∀ s ∈ Gen.Sites.sites, s.kind = "read" → s.func ≠ "mkfs" → s.underLock = true ∧ s.seekBefore = true := by decide

theorem c18_populate_publishes_last : Gen.Sites.populatePublishesLast = true := by decide

/-! ### why the device lock is needed: seek and read as separate steps

Directory 1 holds slots `[11, 12]`, directory 2 holds `[21, 22]`.  Thread 0 lists 1, thread 1 lists 2.
With the pair split, the schedule below lets thread 1's seek land between thread 0's seek and read. -/
def demoDev : Dev := { len := fun _ => 2, slot := fun d k => 10 * d + k + 1 }
def demoProgs : Nat → List Nat
  | 0 => [1]
  | 1 => [2]
  | _ => []

theorem racy_read_witness :
    ((run demoDev false (init demoProgs) [0, 0, 1, 1, 0, 1, 0, 0, 0, 0, 0, 0, 1, 1, 1, 1, 1, 1]).th 0).results ≠
      [parseDir demoDev 1] := by decide

/-- the same schedule with atomic pairs: both threads get their own directory -/
example : ((run demoDev true (init demoProgs) [0, 0, 1, 1, 0, 1, 0, 0, 0, 0, 0, 0, 1, 1, 1, 1, 1, 1]).th 0).results = [[11, 12]] ∧
    ((run demoDev true (init demoProgs) [0, 0, 1, 1, 0, 1, 0, 0, 0, 0, 0, 0, 1, 1, 1, 1, 1, 1]).th 1).results = [[21, 22]] := by decide

/-- two threads populating the SAME directory at once both get it right -/
example : ((run demoDev true (init (fun _ => [1])) [0, 1, 0, 1, 0, 1, 0, 1, 0, 1, 0, 1]).th 0).results = [[11, 12]] ∧
    ((run demoDev true (init (fun _ => [1])) [0, 1, 0, 1, 0, 1, 0, 1, 0, 1, 0, 1]).th 1).results = [[11, 12]] := by decide

end Props.C18
