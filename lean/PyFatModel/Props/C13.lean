/-
C13 — Corrupt or hostile images cannot hang or crash the library.

Proved, for **every** table content and start cluster (no validity assumption):
* the chain follower terminates: with the source's loop counter it never runs out
  of `len + 2` steps (`c13_follower_terminates`) — the only unbounded loop of the
  library; every other loop is bounded by a list or a `range`;
* its outcome is the chain or one of the five `PyFATException` cases, and the
  chain it produces is at most `len + 1` clusters long (work bound);
* the directory scan is a total function on any slot sequence, with outcomes
  entries / `PyFATException`;
* the date/time decoders are total (C20).
Exception *classes* of the glue (short reads, UTF-16 decoding, header fields) are
decided on the real code by suite `hostile` (structure-aware mutants under a
deterministic work counter); the follower model is compared with the real one on
random garbage tables by suite `volume`.
-/
import PyFatModel.Proofs.FatRep
import PyFatModel.Proofs.Dir
import PyFatModel.Proofs.DosTime

open Model.Alloc

namespace Props.C13

theorem c13_follower_terminates (fatType : Nat) (fat : List Nat) (start : Nat) :
    ∀ c, chainOf (params fatType) fat start ≠ .hang c :=
  Proofs.FatRep.chainOf_never_hangs (params fatType) fat start

/-- work bound: the walk yields at most `len + 1` clusters -/
theorem follow_yield_bound (p : Params) (fat : List Nat) :
    ∀ (fuel steps i : Nat) (acc : List Nat), acc.length = steps →
      ∀ cs, follow p fat fuel steps i acc = .ok cs → cs.length ≤ fat.length + 1 := by
  intro fuel
  induction fuel with
  | zero => intro steps i acc _ cs h; simp [follow] at h
  | succ fuel ih =>
    intro steps i acc hacc cs h
    rw [follow] at h
    split at h
    · simp at h
    · split at h
      · simp at h
      · rename_i h1 h2
        split at h
        · exact ih (steps + 1) _ (acc ++ [i]) (by simp [hacc]) cs h
        · simp only [Walk.ok.injEq] at h; subst h; simp [hacc]; omega
        all_goals simp at h

theorem c13_follower_work_bound (fatType : Nat) (fat : List Nat) (start : Nat) (cs : List Nat)
    (h : chainOf (params fatType) fat start = .ok cs) : cs.length ≤ fat.length + 1 :=
  follow_yield_bound (params fatType) fat _ 0 start [] rfl cs h

/-- the scan of any slot sequence — whatever its content — ends in entries or one of two library errors -/
theorem c13_scan_total (cks : List Nat → Nat) (slots : List Model.Dir.Slot) :
    (∃ es, Model.Dir.scan cks [] slots = .ok es) ∨ Model.Dir.scan cks [] slots = .error .lfnCluster ∨
    Model.Dir.scan cks [] slots = .error .lfnDuplicate := by
  cases h : Model.Dir.scan cks [] slots with
  | ok es => left; exact ⟨es, rfl⟩
  | error e => cases e <;> simp

theorem c13_date_decode_total (w : Nat) :
    Model.DosTime.validDate (Model.DosTime.decodeDate w).1 (Model.DosTime.decodeDate w).2.1 (Model.DosTime.decodeDate w).2.2 = true :=
  Proofs.DosTime.decodeDate_valid w

/-- a cyclic table: the follower reports a loop instead of running forever -/
example : chainOf (params 16) [65528, 65535, 3, 2] 2 = .loop [2, 3, 2, 3, 2] := by decide

end Props.C13
