/-
C20 — On-disk field codecs are exact inverses over their whole domain.

Property theorems only; helper lemmas live in `Proofs/`.  Every statement is
about definitions that are either *generated from the source* (`Gen.*`) or
compared with the running code exhaustively / densely by suite `codec`.
-/
import PyFatModel.Proofs.DosTime
import PyFatModel.Proofs.FatTable
import PyFatModel.Proofs.Sfn
import PyFatModel.Proofs.Layout

open Model Model.Bytes

namespace Props.C20

/-! ## DOS date and time words -/

/-- all 65 536 date words (in fact all naturals) decode to a valid calendar date —
    the decoder cannot raise, invalid fields give 1980-01-01 -/
theorem date_decode_total (w : Nat) :
    DosTime.validDate (DosTime.decodeDate w).1 (DosTime.decodeDate w).2.1 (DosTime.decodeDate w).2.2 = true :=
  Proofs.DosTime.decodeDate_valid w

theorem time_decode_total (w : Nat) :
    DosTime.validTime (DosTime.decodeTime w).1 (DosTime.decodeTime w).2.1 (DosTime.decodeTime w).2.2 = true :=
  Proofs.DosTime.decodeTime_valid w

/-- the *translated* `serialize_date` followed by the decoder is the identity on 1980‥2107 -/
theorem date_roundtrip (y m d : Nat) (hy : 1980 ≤ y ∧ y ≤ 2107) (hv : DosTime.validDate y m d = true) :
    ∃ w : Nat, Gen.Arith.serialize_date y m d = (w : Int) ∧ w < 65536 ∧ DosTime.decodeDate w = (y, m, d) := by
  have hle := Proofs.DosTime.daysInMonth_le y m
  have hv' := hv
  simp only [DosTime.validDate, Bool.and_eq_true, decide_eq_true_eq] at hv'
  refine ⟨DosTime.dateWord y m d, Proofs.DosTime.gen_serialize_date y m d hy.1 (by omega) (by omega),
    Proofs.DosTime.date_word_lt y m d hy.2 (by omega) (by omega),
    Proofs.DosTime.date_roundtrip y m d hy hv⟩

/-- the *translated* `serialize_time` followed by the decoder floors to 2 s -/
theorem time_roundtrip (h mi s : Nat) (hv : DosTime.validTime h mi s = true) :
    ∃ w : Nat, Gen.Arith.serialize_time h mi s = (w : Int) ∧ w < 65536 ∧
      DosTime.decodeTime w = (h, mi, s / 2 * 2) := by
  have hv' := hv
  simp only [DosTime.validTime, Bool.and_eq_true, decide_eq_true_eq] at hv'
  refine ⟨DosTime.timeWord h mi s, Proofs.DosTime.gen_serialize_time h mi s (by omega) (by omega),
    Proofs.DosTime.time_word_lt h mi s (by omega) (by omega) (by omega),
    Proofs.DosTime.time_roundtrip h mi s hv⟩

/-- the decoder's field extraction, as translated from the source, is the specification's bit layout -/
theorem date_fields_eq_spec (w : Nat) :
    Gen.Arith.deserialize_date_day w = (DosTime.dateDay w : Nat) ∧
    Gen.Arith.deserialize_date_month w = (DosTime.dateMonth w : Nat) ∧
    Gen.Arith.deserialize_date_year w = (DosTime.dateYear w : Nat) :=
  ⟨Proofs.DosTime.gen_date_day w, Proofs.DosTime.gen_date_month w, Proofs.DosTime.gen_date_year w⟩

theorem time_fields_eq_spec (w : Nat) :
    Gen.Arith.deserialize_time_second w = (DosTime.timeSecond w : Nat) ∧
    Gen.Arith.deserialize_time_minute w = (DosTime.timeMinute w : Nat) ∧
    Gen.Arith.deserialize_time_hour w = (DosTime.timeHour w : Nat) :=
  ⟨Proofs.DosTime.gen_time_second w, Proofs.DosTime.gen_time_minute w, Proofs.DosTime.gen_time_hour w⟩

/-- valid words re-encode to themselves -/
theorem date_word_roundtrip (w : Nat) (hw : w < 65536)
    (hv : DosTime.validDate (DosTime.dateYear w) (DosTime.dateMonth w) (DosTime.dateDay w) = true) :
    DosTime.dateWord (DosTime.decodeDate w).1 (DosTime.decodeDate w).2.1 (DosTime.decodeDate w).2.2 = w :=
  Proofs.DosTime.date_word_roundtrip w hw hv

theorem time_word_roundtrip (w : Nat) (hw : w < 65536)
    (hv : DosTime.validTime (DosTime.timeHour w) (DosTime.timeMinute w) (DosTime.timeSecond w) = true) :
    DosTime.timeWord (DosTime.decodeTime w).1 (DosTime.decodeTime w).2.1 (DosTime.decodeTime w).2.2 = w :=
  Proofs.DosTime.time_word_roundtrip w hw hv

/-! ## FAT table packing, every table length -/

theorem fat12_parse_serialize (es : List Nat) (h : FatTable.packable12 es) :
    FatTable.dec12 (FatTable.ser12 es) = es := Proofs.FatTable.dec12_ser12 es h

theorem fat12_serialize_parse (bs : List Nat) (hb : allBytes bs) (h3 : bs.length % 3 = 0) :
    FatTable.ser12 (FatTable.dec12 bs) = bs := Proofs.FatTable.ser12_dec12 bs hb h3

theorem fat12_entry_eq_spec (bs : List Nat) (k : Nat) (hk : k < (FatTable.dec12 bs).length)
    (hb : allBytes bs) : (FatTable.dec12 bs)[k] = FatTable.entry12 bs k :=
  Proofs.FatTable.dec12_eq_entry12 bs k hk hb

/-- `_parse_fat` keeps every specification entry of a FAT12 table, for every
    table length, and never raises its AssertionError. -/
theorem fat12_parse_closed (bs : List Nat) :
    FatTable.parse12 bs = .ok ((FatTable.dec12 bs).take (FatTable.total12 bs.length)) :=
  Proofs.FatTable.parse12_closed bs

theorem fat16_parse_serialize (es : List Nat) (h : FatTable.packable16 es) :
    FatTable.dec16 (FatTable.ser16 es) = es := Proofs.FatTable.dec16_ser16 es h

theorem fat16_serialize_parse (bs : List Nat) (hb : allBytes bs) (h2 : bs.length % 2 = 0) :
    FatTable.ser16 (FatTable.dec16 bs) = bs := Proofs.FatTable.ser16_dec16 bs hb h2

theorem fat16_entry_eq_spec (bs : List Nat) (k : Nat) (hk : k < (FatTable.dec16 bs).length) :
    (FatTable.dec16 bs)[k] = FatTable.entry16 bs k := Proofs.FatTable.dec16_eq_entry16 bs k hk

theorem fat32_parse_serialize (es : List Nat) (h : ∀ e ∈ es, e < 268435456) :
    FatTable.dec32 (FatTable.ser32 es) = es := Proofs.FatTable.dec32_ser32 es h

theorem fat32_entry_eq_spec (bs : List Nat) (k : Nat) (hk : k < (FatTable.dec32 bs).length)
    (hb : allBytes bs) : (FatTable.dec32 bs)[k] = FatTable.entry32 bs k :=
  Proofs.FatTable.dec32_eq_entry32 bs k hk hb

/-- FAT32 serialise ∘ parse is the identity on every table whose length is a
    multiple of 4 — reserved upper bits included (fixed: D3). -/
theorem fat32_serialize_parse (bs : List Nat) (hb : allBytes bs) (h4 : bs.length % 4 = 0) :
    FatTable.ser32r (FatTable.parse32 bs) (FatTable.parse32Reserved bs) = bs :=
  Proofs.FatTable.ser32r_parse32' bs hb h4

/-! ## checksum, lead byte, layouts -/

theorem checksum_eq_spec (name : List Nat) :
    Gen.Arith.checksum (name.map Int.ofNat) = ((Sfn.checksum name : Nat) : Int) :=
  Proofs.Sfn.gen_checksum name

theorem lead_byte_roundtrip (b : Nat) (rest : List Nat) (h : b ≠ 5) :
    Sfn.strMutate (Sfn.storeLead (b :: rest)) = b :: rest := Proofs.Sfn.lead_roundtrip b rest h

theorem stored_name_never_free (bs : List Nat) : Sfn.classify (Sfn.storeLead bs) ≠ .free :=
  Proofs.Sfn.storeLead_not_free bs

/-- serialising a parsed boot sector / directory entry / LFN slot reproduces its bytes -/
theorem layout_roundtrip (layout : List Gen.Field) (size : Nat) (bs : List Nat) (hb : allBytes bs)
    (hc : Layout.chained 0 layout = true) (he : Layout.endOf 0 layout = size) (hl : size ≤ bs.length) :
    Layout.pack layout size (Layout.unpack layout bs) = bs.take size :=
  Proofs.Layout.pack_unpack layout size bs hb hc he hl

theorem bpb12_roundtrip (bs : List Nat) (hb : allBytes bs) (hl : Gen.bpb12LayoutSize ≤ bs.length) :
    Layout.pack Gen.bpb12Layout Gen.bpb12LayoutSize (Layout.unpack Gen.bpb12Layout bs)
      = bs.take Gen.bpb12LayoutSize :=
  layout_roundtrip _ _ bs hb Proofs.Layout.bpb12_chained.1 Proofs.Layout.bpb12_chained.2 hl

theorem bpb32_roundtrip (bs : List Nat) (hb : allBytes bs) (hl : Gen.bpb32LayoutSize ≤ bs.length) :
    Layout.pack Gen.bpb32Layout Gen.bpb32LayoutSize (Layout.unpack Gen.bpb32Layout bs)
      = bs.take Gen.bpb32LayoutSize :=
  layout_roundtrip _ _ bs hb Proofs.Layout.bpb32_chained.1 Proofs.Layout.bpb32_chained.2 hl

theorem dir_entry_roundtrip (bs : List Nat) (hb : allBytes bs) (hl : Gen.dirLayoutSize ≤ bs.length) :
    Layout.pack Gen.dirLayout Gen.dirLayoutSize (Layout.unpack Gen.dirLayout bs)
      = bs.take Gen.dirLayoutSize :=
  layout_roundtrip _ _ bs hb Proofs.Layout.dir_chained.1 Proofs.Layout.dir_chained.2 hl

theorem lfn_slot_roundtrip (bs : List Nat) (hb : allBytes bs) (hl : Gen.lfnLayoutSize ≤ bs.length) :
    Layout.pack Gen.lfnLayout Gen.lfnLayoutSize (Layout.unpack Gen.lfnLayout bs)
      = bs.take Gen.lfnLayoutSize :=
  layout_roundtrip _ _ bs hb Proofs.Layout.lfn_chained.1 Proofs.Layout.lfn_chained.2 hl

/-! ## non-vacuity: concrete inputs meeting the hypotheses -/
example : DosTime.validDate 2024 2 29 = true ∧ (1980 ≤ 2024 ∧ 2024 ≤ 2107) := by decide
example : DosTime.decodeDate (DosTime.dateWord 2024 2 29) = (2024, 2, 29) := by decide
example : DosTime.decodeTime (DosTime.timeWord 23 59 59) = (23, 59, 58) := by decide
example : FatTable.packable12 [4088, 4095, 3] ∧ FatTable.dec12 (FatTable.ser12 [4088, 4095, 3]) = [4088, 4095, 3] := by
  constructor
  · intro e he; simp at he; rcases he with rfl | rfl | rfl <;> omega
  · decide
example : Sfn.checksum [70, 79, 79, 32, 32, 32, 32, 32, 66, 65, 82] = 83 := by decide

/-! ## negative facts (witnesses; replayed on the implementation by suite `codec`) -/

/-- regression witness (fixed: D3): without the remembered reserved bits the
    nibble would be lost — `ser32 ∘ dec32` alone is not the identity -/
theorem fat32_reserved_needs_memory : FatTable.ser32 (FatTable.dec32 [1, 2, 3, 240]) ≠ [1, 2, 3, 240] := by decide

/-- regression witness for the repaired FAT12 tail (fixed: D4): a 6-byte table
    holds 4 specification entries and all 4 are kept -/
theorem fat12_last_entry_kept :
    FatTable.parse12 [1, 2, 3, 4, 5, 6] = .ok (FatTable.dec12 [1, 2, 3, 4, 5, 6]) ∧
    (FatTable.dec12 [1, 2, 3, 4, 5, 6]).length = 4 := ⟨rfl, rfl⟩

end Props.C20
