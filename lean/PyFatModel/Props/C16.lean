/-
C16 — Mounting and cleanly unmounting a volume leaves it byte-identical.

Proved: what mount+close rewrites is what was there —
* every FAT copy: serialise(parse(region)) written over the region reproduces it, for
  FAT12 of every table length (1..12 sectors and beyond; all three residues mod 3),
  FAT16, and FAT32 including the reserved upper four bits of every entry;
* the boot sector (and FAT32 backup): repacking the parsed fields reproduces the bytes
  (layouts extracted from the source), and the translated flag arithmetic restores the
  flag byte: mark_clean(mark_dirty(r)) = r for a clean r.
Frame after operations and whole-image identity are judged on the real code: suites
`identity` (builder images with arbitrary FAT/boot garbage) and `foreign`.
-/
import PyFatModel.Proofs.Identity

open Model.Bytes Model.FatTable

namespace Props.C16

theorem c16_fat12_identity (bs : List Nat) (hb : allBytes bs)
    (htail : bs.length % 3 = 2 → ∀ b, bs.getLast? = some b → b < 16) :
    flushed (ser12 ((dec12 bs).take (total12 bs.length))) bs = bs :=
  Proofs.Identity.fat12_flush_identity bs hb htail

/-- … and that is what the model of `_parse_fat` + `flush_fat` does -/
theorem c16_fat12_identity_model (bs : List Nat) (hb : allBytes bs)
    (htail : bs.length % 3 = 2 → ∀ b, bs.getLast? = some b → b < 16) :
    ∃ es, parse12 bs = .ok es ∧ flushed (ser12 es) bs = bs := by
  refine ⟨_, Proofs.FatTable.parse12_closed bs, ?_⟩
  exact Proofs.Identity.fat12_flush_identity bs hb htail

theorem c16_fat16_identity (bs : List Nat) (hb : allBytes bs) (h2 : bs.length % 2 = 0) :
    flushed (ser16 (parse16 bs)) bs = bs := Proofs.Identity.fat16_flush_identity bs hb h2

theorem c16_fat32_identity (bs : List Nat) (hb : allBytes bs) (h4 : bs.length % 4 = 0) :
    flushed (ser32r (parse32 bs) (parse32Reserved bs)) bs = bs := Proofs.Identity.fat32_flush_identity bs hb h4

theorem c16_boot_sector_fields (bs : List Nat) (hb : allBytes bs) (hl : Gen.bpb12LayoutSize ≤ bs.length) :
    Model.Layout.pack Gen.bpb12Layout Gen.bpb12LayoutSize (Model.Layout.unpack Gen.bpb12Layout bs) = bs.take Gen.bpb12LayoutSize :=
  Proofs.Layout.pack_unpack _ _ bs hb Proofs.Layout.bpb12_chained.1 Proofs.Layout.bpb12_chained.2 hl

theorem c16_boot_sector_fields32 (bs : List Nat) (hb : allBytes bs) (hl : Gen.bpb32LayoutSize ≤ bs.length) :
    Model.Layout.pack Gen.bpb32Layout Gen.bpb32LayoutSize (Model.Layout.unpack Gen.bpb32Layout bs) = bs.take Gen.bpb32LayoutSize :=
  Proofs.Layout.pack_unpack _ _ bs hb Proofs.Layout.bpb32_chained.1 Proofs.Layout.bpb32_chained.2 hl

theorem c16_flag_byte_restored (r : Nat) (hr : r % 2 = 0) :
    Gen.Arith.mark_clean_reserved1 (Gen.Arith.mark_dirty_reserved1 (r : Int)) = (r : Int) :=
  Proofs.Identity.reserved1_roundtrip r hr

example : flushed (ser12 ((dec12 [1, 2, 3, 4, 5, 6, 7, 8]).take (total12 8))) [1, 2, 3, 4, 5, 6, 7, 8] = [1, 2, 3, 4, 5, 6, 7, 8] := by decide

end Props.C16
