/-
C06 — Another FAT implementation reads back exactly what pyfatfs reports.

Proved: each on-disk encoding pyfatfs uses equals the specification's formula an
independent reader applies — cluster → byte address and geometry (translated
functions), FAT12/16/32 entry extraction for every table length, DOS date/time
bit fields, short-name checksum, long-name slot layout/decoding.  The image-level
comparison (independent reader vs. last live walk) runs on the real code in
suites ns / fat / foreign with partition offsets and several code pages.
-/
import PyFatModel.Proofs.Geom
import PyFatModel.Proofs.FatTable
import PyFatModel.Proofs.DosTime
import PyFatModel.Proofs.Sfn
import PyFatModel.Proofs.Dir

open Model Model.Geom Model.Bytes

namespace Props.C06

theorem c06_cluster_address (b : Bpb) (c : Nat) (hc : 2 ≤ c) :
    Gen.Arith.get_data_cluster_address (cluster := c) (BPB_SecPerClus := b.spc)
      (first_data_sector := b.firstDataSector) (BPB_BytsPerSec := b.bps) = (b.clusterOffset c : Nat) :=
  Proofs.Geom.gen_cluster_address b c hc

theorem c06_first_data_sector (b : Bpb) (hb : 0 < b.bps) :
    Gen.Arith.parse_header_first_data_sector (BPB_RootEntCnt := b.rootEnt) (BPB_BytsPerSec := b.bps)
      (BPB_RsvdSecCnt := b.rsvd) (BPB_NumFATs := b.nfats) (fat_size := b.fatSz) = (b.firstDataSector : Nat) :=
  Proofs.Geom.gen_first_data_sector b hb

theorem c06_root_dir_sector (b : Bpb) :
    Gen.Arith.parse_header_root_dir_sector (BPB_RsvdSecCnt := b.rsvd) (BPB_NumFATs := b.nfats)
      (fat_size := b.fatSz) = (b.rootDirSector : Nat) := Proofs.Geom.gen_root_dir_sector b

theorem c06_fat12_entry (bs : List Nat) (k : Nat) (hk : k < (FatTable.dec12 bs).length) (hb : allBytes bs) :
    (FatTable.dec12 bs)[k] = FatTable.entry12 bs k := Proofs.FatTable.dec12_eq_entry12 bs k hk hb

theorem c06_fat16_entry (bs : List Nat) (k : Nat) (hk : k < (FatTable.dec16 bs).length) :
    (FatTable.dec16 bs)[k] = FatTable.entry16 bs k := Proofs.FatTable.dec16_eq_entry16 bs k hk

theorem c06_fat32_entry (bs : List Nat) (k : Nat) (hk : k < (FatTable.dec32 bs).length) (hb : allBytes bs) :
    (FatTable.dec32 bs)[k] = FatTable.entry32 bs k := Proofs.FatTable.dec32_eq_entry32 bs k hk hb

/-- what pyfatfs serialises is what the specification's entry formula reads -/
theorem c06_fat12_written_entry (es : List Nat) (h : FatTable.packable12 es) (k : Nat) (hk : k < es.length) :
    FatTable.entry12 (FatTable.ser12 es) k = es[k] := by
  have h1 := Proofs.FatTable.dec12_ser12 es h
  have hk' : k < (FatTable.dec12 (FatTable.ser12 es)).length := by rw [h1]; exact hk
  have hb : allBytes (FatTable.ser12 es) := Proofs.FatTable.ser12_allBytes es h
  have := Proofs.FatTable.dec12_eq_entry12 (FatTable.ser12 es) k hk' hb
  rw [← this]; simp [h1]

theorem c06_date_fields (w : Nat) :
    Gen.Arith.deserialize_date_day w = (DosTime.dateDay w : Nat) ∧
    Gen.Arith.deserialize_date_month w = (DosTime.dateMonth w : Nat) ∧
    Gen.Arith.deserialize_date_year w = (DosTime.dateYear w : Nat) :=
  ⟨Proofs.DosTime.gen_date_day w, Proofs.DosTime.gen_date_month w, Proofs.DosTime.gen_date_year w⟩

theorem c06_date_word (y m d : Nat) (hy : 1980 ≤ y) (hm : m < 16) (hd : d < 32) :
    Gen.Arith.serialize_date (y : Int) m d = (DosTime.dateWord y m d : Nat) :=
  Proofs.DosTime.gen_serialize_date y m d hy hm hd

theorem c06_time_word (h mi s : Nat) (hmi : mi < 64) (hs : s < 64) :
    Gen.Arith.serialize_time (h : Int) mi s = (DosTime.timeWord h mi s : Nat) :=
  Proofs.DosTime.gen_serialize_time h mi s hmi hs

theorem c06_checksum (name : List Nat) :
    Gen.Arith.checksum (name.map Int.ofNat) = ((Sfn.checksum name : Nat) : Int) := Proofs.Sfn.gen_checksum name

theorem c06_long_name (name : List Nat) (cks : Nat) (hne : name ≠ [])
    (hl : ∀ u ∈ name, u ≠ 0 ∧ u ≠ 65535) : Dir.decodeLfn (Dir.makeLfn name cks) = name :=
  Proofs.Dir.decode_make name cks hne hl

end Props.C06
