/-
C15 — Every legal file name can be created, found again and lists unchanged.

Proved (all names, all lengths 1‥255, any single-byte code page as `CharEnv`):
long-name slots decode back to the given name; the slot set is well-formed so
the directory scan re-attaches it to its short entry and returns every earlier
entry unchanged (no shadowing at the slot level); the short alias is 8.3-conform
and differs from every short name already present.  Tied to the code by suite
`names` (naming decisions vs `Model.Names.newName`; oracle: create / exists /
listdir / remount on the real filesystem).
Known findings (see known_findings.json): lead byte 0xE5 (D2), preserve_case=False lookup (D26).
-/
import PyFatModel.Proofs.Dir
import PyFatModel.Proofs.Names

open Model.Dir Model.Names

namespace Props.C15

/-- a legal long name survives the slot encoding, for every length -/
theorem c15_lfn_roundtrip (name : List Nat) (cks : Nat) (hne : name ≠ [])
    (hl : ∀ u ∈ name, u ≠ 0 ∧ u ≠ 65535) : decodeLfn (makeLfn name cks) = name :=
  Proofs.Dir.decode_make name cks hne hl

/-- creating an entry (with or without long name) leaves every earlier entry of the
    directory exactly as it was, and the new one is found after them -/
theorem c15_create_find_list (cks : List Nat → Nat) (es : List Ent) (new : Ent)
    (hw : ∀ e ∈ es, Proofs.Dir.WellFormed cks e) (hn : Proofs.Dir.WellFormed cks new) :
    scan cks [] (serDir (es ++ [new])) = .ok (es ++ [new]) :=
  (Proofs.Dir.scan_serDir cks (es ++ [new]) [] (by
    intro e he; simp at he; rcases he with he | rfl
    · exact hw e he
    · exact hn)).2

theorem c15_lfn_set_wellformed (cks : List Nat → Nat) (short : ShortEnt) (name : List Nat)
    (hne : name ≠ []) (hlen : name.length ≤ 255) :
    Proofs.Dir.WellFormed cks { short := short, lfn := some (makeLfn name (cks short.name)) } :=
  Proofs.Dir.makeLfn_wellformed cks short name hne hlen

/-- the alias is fresh: it cannot equal an existing short name (no entry becomes ambiguous) -/
theorem c15_alias_fresh (e : CharEnv) (name : List Nat) (existing : List (List Nat)) (r : List Nat)
    (h : makeAlias e name existing = some r) : r ∉ existing := Proofs.Names.makeAlias_fresh e name existing r h

theorem c15_new_name (e : CharEnv) (pc : Bool) (name : List Nat) (existing : List (List Nat)) (r : NewName)
    (h : newName e pc name existing = .ok r) :
    ∃ n, makeAlias e name existing = some n ∧ conform e n = true ∧ n ∉ existing ∧
      (r.lfn = none ∨ r.lfn = some (utf16 name)) := Proofs.Names.newName_ok e pc name existing r h

/-! non-vacuity -/
example : decodeLfn (makeLfn [104, 105, 32, 116, 104, 101, 114, 101, 46, 116, 120, 116, 33, 33] 7)
    = [104, 105, 32, 116, 104, 101, 114, 101, 46, 116, 120, 116, 33, 33] := by decide
example : (makeLfn (List.replicate 13 97) 7).length = 1 ∧ (makeLfn (List.replicate 14 97) 7).length = 2 := by decide

end Props.C15
