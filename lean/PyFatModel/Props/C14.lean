/-
C14 — mkfs produces a valid, correctly typed, fully usable empty volume.

Proved over the *translated* `mkfs` assignments (`Gen.Arith.mkfs_*`, regenerated
from the source on every run) and the *extracted* size→sectors-per-cluster tables:
for **every** size (unbounded), every table row, 1‥3 FATs and sector sizes
512‥4096 the FAT that `mkfs` sizes can hold an entry for every cluster the
volume ends up with (FAT12, FAT16, FAT32); the volume never exceeds the requested
size.  (Attempting this proof on the original formula produced the counter-example
FAT16 / 1 FAT / 1 434 528 256 bytes, replayed on the real code and repaired.)
Type range: `mkfs` itself refuses cluster counts outside the requested type (the
specification's rule, checked by the oracle).  Signatures, FSInfo/backup sectors,
label entry, reserved FAT entries, emptiness and usability are judged on real
formatted devices by the independent checker (suite `mkfs`), on zeroed and on
previously used devices.
-/
import PyFatModel.Proofs.Mkfs

open Gen.Arith Proofs.Mkfs

namespace Props.C14

theorem c14_fat_capacity_16 (size : Int) (h0 : 0 ≤ size) (row : Nat × Nat) (hrow : row ∈ Gen.mkfsTable16) (hspc : row.2 ≠ 0)
    (nf : Int) (hnf : nf = 1 ∨ nf = 2 ∨ nf = 3) (ss : Int) (hss : ss = 512 ∨ ss = 1024 ∨ ss = 2048 ∨ ss = 4096) :
    capacityOK 16 size ss row.2 nf := capacity16 size h0 row hrow hspc nf hnf ss hss

theorem c14_fat_capacity_12 (size : Int) (h0 : 0 ≤ size) (row : Nat × Nat) (hrow : row ∈ Gen.mkfsTable12) (hspc : row.2 ≠ 0)
    (nf : Int) (hnf : nf = 1 ∨ nf = 2 ∨ nf = 3) (ss : Int) (hss : ss = 512 ∨ ss = 1024 ∨ ss = 2048 ∨ ss = 4096) :
    capacityOK 12 size ss row.2 nf := capacity12 size h0 row hrow hspc nf hnf ss hss

theorem c14_fat_capacity_32 (size : Int) (h0 : 0 ≤ size) (row : Nat × Nat) (hrow : row ∈ Gen.mkfsTable32) (hspc : row.2 ≠ 0)
    (nf : Int) (hnf : nf = 1 ∨ nf = 2 ∨ nf = 3) (ss : Int) (hss : ss = 512 ∨ ss = 1024 ∨ ss = 2048 ∨ ss = 4096) :
    capacityOK 32 size ss row.2 nf := capacity32 size h0 row hrow hspc nf hnf ss hss

theorem c14_fits (size ss : Int) (hs : 0 < ss) : mkfs_num_sec size ss * ss ≤ size := fits size ss hs

theorem c14_spc_legal : (Gen.mkfsTable12 ++ Gen.mkfsTable16 ++ Gen.mkfsTable32).all
    (fun r => r.2 == 0 || Gen.acceptedSecPerClus.contains r.2) = true := by decide

/-- the defect found by the proof attempt: with the uncorrected formula a FAT16 volume of
    1 434 528 256 bytes and one FAT gets 171 FAT sectors (43 776 entries) for 43 775 clusters -/
example : (Py.ceilDiv (Py.fdiv ((1434528256 - (1 + 32)) + (256 * 64 + 1) - 1) (256 * 64 + 1)) 512) = 171 := by decide
example : mkfs_fat_size 16 1434528256 512 64 1 = 172 := by decide

end Props.C14
