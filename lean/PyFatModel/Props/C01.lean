/-
C01 — Namespace operations behave like a reference filesystem model.

Decided on the real code by suite `ns` (reference = PyFilesystem2's MemoryFS with
fs.base's compound helpers) and `fat` (fill-to-full).  Proved here, the parts
that are about pyfatfs' own algorithms:
* out-of-space clause: `allocate_bytes` raises ENOSPC only if fewer than n+1
  allocatable clusters lie at or behind the allocation hint (n = clusters asked
  for) — the "+1" is the `for … else` slack (D6), inside "clearly enough";
* lookup: a directory scan returns exactly the entries that were written, in
  order, so lookup by long or short name sees every entry once;
* a new short alias never equals an existing short name (no entry is shadowed).
* **refinement** (`Model.Fs`, the composition of the PyFatFS / FatIO primitives on
  the in-memory tree + FAT, tied to the code by suite `fsmodel`): in every state
  that satisfies the invariant — hence in every reachable state — each call
  (create, create(wipe), makedir, remove, removedir, write at a position, truncate)
  returns what the reference filesystem (a set of paths with kind and size)
  returns, or stops with out-of-space and then leaves the tree as it was; after
  any history the tree is the reference's (`c01_fs_step`, `c01_fs_history`).
  Not in the model: file *contents* (C02), the compound helpers of fs.base
  (makedirs, copy, move, removetree — compositions of these primitives), names.
-/
import PyFatModel.Proofs.Alloc
import PyFatModel.Proofs.Dir
import PyFatModel.Proofs.Names
import PyFatModel.Proofs.FsRun
import PyFatModel.Proofs.FsTreeRm

open Model.Alloc

namespace Props.C01

theorem c01_no_spurious_enospc (p : Params) (fat : List Nat) (hint bound n : Nat)
    (h : allocate p fat hint bound n = none) : Proofs.Alloc.avail p fat (bound - hint) hint ≤ n :=
  Proofs.Alloc.allocate_enospc_only_if_short p fat hint bound n h

/-- contrapositive: with more than `n` allocatable clusters from the hint on, allocation succeeds -/
theorem c01_enough_space_succeeds (p : Params) (fat : List Nat) (hint bound n : Nat)
    (h : n < Proofs.Alloc.avail p fat (bound - hint) hint) : (allocate p fat hint bound n).isSome = true := by
  cases ha : allocate p fat hint bound n with
  | none => have := c01_no_spurious_enospc p fat hint bound n ha; omega
  | some r => rfl

theorem c01_listing_complete (cks : List Nat → Nat) (es : List Model.Dir.Ent) (junk : List Model.Dir.Slot)
    (hw : ∀ e ∈ es, Proofs.Dir.WellFormed cks e) :
    Model.Dir.scan cks [] (Model.Dir.serDir es ++ Model.Dir.Slot.endMark :: junk) = .ok es :=
  (Proofs.Dir.scan_serDir cks es junk hw).1

theorem c01_no_shadow (e : Model.Names.CharEnv) (name : List Nat) (existing : List (List Nat)) (r : List Nat)
    (h : Model.Names.makeAlias e name existing = some r) : r ∉ existing :=
  Proofs.Names.makeAlias_fresh e name existing r h

/-- one call in any state satisfying the invariant: same answer as the reference filesystem
    unless out of space; the abstraction of the new state is the reference's new state
    (unchanged when out of space) -/
theorem c01_fs_step (v : Model.Fs.Vol) (count : Nat) (hv : Proofs.FsInv.VolOK v count) (s : Model.Fs.St)
    (h : Proofs.FsInv.Inv v count s) (op : Model.Fs.Op) (hdom : Proofs.FsRefine.InDomain s op) :
    Model.Fs.abs (Model.Fs.step v s op).1 = Proofs.FsRun.specFollow (Model.Fs.abs s) op (Model.Fs.step v s op).2 ∧
      (¬ Proofs.FsRefine.Soft (Model.Fs.step v s op).2 →
        (Model.Fs.step v s op).2 = (Model.Fs.specStep (Model.Fs.abs s) op).2) :=
  Proofs.FsRun.step_sim hv h op hdom

/-- all histories: the final tree is the reference filesystem's final tree -/
theorem c01_fs_history (v : Model.Fs.Vol) (count : Nat) (hv : Proofs.FsInv.VolOK v count) (s : Model.Fs.St)
    (h : Proofs.FsInv.Inv v count s) (ops : List Model.Fs.Op) (hdom : Proofs.FsRun.DomAll v s ops) :
    Model.Fs.abs (Model.Fs.run v s ops) = Proofs.FsRun.specRun v s (Model.Fs.abs s) ops :=
  Proofs.FsRun.run_sim hv ops s h hdom

/-- **out-of-space only when the volume is full** — in every reachable state of the filesystem model (the
    allocation hint never runs ahead of a free cluster, `Proofs.FsHint`): an allocation of `n` clusters is
    refused only if the *whole volume* has at most `n` allocatable clusters -/
theorem c01_fs_enospc_means_full (v : Model.Fs.Vol) (count : Nat) (hv : Proofs.FsInv.VolOK v count) (s : Model.Fs.St)
    (h : Proofs.FsInv.Inv v count s) (ops : List Model.Fs.Op) (n : Nat)
    (hno : allocate v.p (Model.Fs.run v s ops).fat (Model.Fs.run v s ops).hint v.bound n = none) :
    Proofs.Alloc.avail v.p (Model.Fs.run v s ops).fat v.bound 0 ≤ n :=
  Proofs.FsRun.enospc_means_full (Proofs.FsInv.run_inv hv ops s h) n hno

/-- "out of space" is the only way the model leaves the reference: its I/O-error branches are dead code in
    every state with the invariant and well-shaped files (hence in every reachable state) -/
theorem c01_fs_never_io_error (v : Model.Fs.Vol) (count : Nat) (hv : Proofs.FsInv.VolOK v count) (s : Model.Fs.St)
    (h : Proofs.FsInv.Inv v count s) (hs : Proofs.FsShape.ShapeNodes v.bpc s.nodes) (op : Model.Fs.Op) :
    (Model.Fs.step v s op).2 ≠ .err .eio := Proofs.FsRun.never_eio hv h hs op

/-- `removetree` (pyfatfs' own compound call, modelled as the primitive calls it makes — files of a directory
    first, then each sub-directory recursively, then the directory itself): in every state with the invariant it
    keeps the invariant, memory = device and the shape of files, and leaves the tree the reference filesystem has
    after the same primitive calls -/
theorem c01_fs_removetree (v : Model.Fs.Vol) (count : Nat) (hv : Proofs.FsInv.VolOK v count) (s : Model.Fs.St)
    (h : Proofs.FsInv.Inv v count s) (path : List Nat) (loc : Model.Fs.Loc)
    (hr : Model.Fs.resolve s.nodes path = some loc) (hd : loc.isDir = true) :
    Proofs.FsInv.Inv v count (Model.Fs.removetree v s path).1 ∧
      Model.Fs.abs (Model.Fs.removetree v s path).1 =
        Proofs.FsRun.specRun v s (Model.Fs.abs s) (Model.Fs.expandTree (s.nodes.length + 1) s.nodes path loc) :=
  ⟨(Proofs.FsRun.removetree_good hv h path).1, Proofs.FsRun.removetree_sim hv h path loc hr hd⟩

/-- `removetree(path)` against the abstract "delete the subtree" specification, frame half: in every state with
    the invariant — any tree, whether the call succeeds, fails at once or stops half-way — the entries that are
    not at or below `path` are exactly those before the call (order, kind, size), and the call adds no entry.
    (The other half is `c01_fs_removetree_complete`.) -/
theorem c01_fs_removetree_frame (v : Model.Fs.Vol) (count : Nat) (hv : Proofs.FsInv.VolOK v count) (s : Model.Fs.St)
    (h : Proofs.FsInv.Inv v count s) (path : List Nat) :
    (Model.Fs.abs (Model.Fs.removetree v s path).1).filter (Proofs.FsTreeRm.outside path) =
        (Model.Fs.abs s).filter (Proofs.FsTreeRm.outside path) ∧
      (Model.Fs.abs (Model.Fs.removetree v s path).1).Sublist (Model.Fs.abs s) :=
  Proofs.FsTreeRm.removetree_frame hv h path

/-- `removetree(path)`, the other half of the delete-subtree specification: when the last call it makes —
    `removedir(path)` on what is left of the directory — succeeds, no entry at or below `path` remains; with the
    frame half the tree afterwards is the tree before minus the subtree of `path`.  `…_partial`: that the inner
    calls leave the directory empty (so that this last call does succeed) in *every* state with the invariant is
    not a theorem; it is decided on the real code by lock step (suite `fsmodel`). -/
theorem c01_fs_removetree_complete_partial (v : Model.Fs.Vol) (count : Nat) (hv : Proofs.FsInv.VolOK v count)
    (s : Model.Fs.St) (h : Proofs.FsInv.Inv v count s) (path : List Nat) (d : Model.Fs.Node)
    (hr : Model.Fs.resolve s.nodes path = some (.node d)) (hd : d.isDir = true)
    (hok : (Model.Fs.step v (Model.Fs.run v s
        (Model.Fs.expandTree (s.nodes.length + 1) s.nodes path (.node d)).dropLast) (.removedir path)).2 = .ok true) :
    ∀ e ∈ Model.Fs.abs (Model.Fs.removetree v s path).1, Proofs.FsTreeRm.outside path e = true :=
  Proofs.FsTreeRm.removetree_complete hv h path d hr hd hok

/-- path resolution through the directories (what `get_entry` does) is lookup by path -/
theorem c01_fs_lookup (nodes : List Model.Fs.Node) (h : Proofs.FsTree.TreeInv nodes) (q : List Nat) (hq : q ≠ []) :
    Model.Fs.resolve nodes q = (nodes.find? (fun n => n.path == q)).map Model.Fs.Loc.node :=
  Proofs.FsTree.resolve_eq_find h q hq

/-! non-vacuity: a concrete history on a small FAT12 volume (6 data clusters of 512 bytes, fixed root of 512 bytes) -/
def demoVol : Model.Fs.Vol := ⟨params 12, 8, 512, true, 512, 1⟩
def demoSt : Model.Fs.St := ⟨[4088, 4095, 0, 0, 0, 0, 0, 0], 0, [], [], [4088, 4095, 0, 0, 0, 0, 0, 0], []⟩
def demoOps : List Model.Fs.Op :=
  [.makedir [1] 2, .create [1, 2] 3 false, .fwrite [1, 2] 0 700, .create [3] 1 false, .removedir [1], .ftrunc [1, 2] 10, .remove [3]]

example : Proofs.FsInv.VolOK demoVol 6 := ⟨Proofs.FatRep.params_ok 12, by decide, by decide⟩
example : Proofs.FsInv.Inv demoVol 6 demoSt :=
  Proofs.FsRun.inv_empty_fixed demoVol 6 _ 0 _ [] rfl (by decide)
    (fun c h2 hc => by
      have : c = 2 ∨ c = 3 ∨ c = 4 ∨ c = 5 ∨ c = 6 ∨ c = 7 := by omega
      rcases this with rfl | rfl | rfl | rfl | rfl | rfl <;> decide) (by decide)
    (fun i hi _ => by omega)
example : Model.Fs.abs (Model.Fs.removetree demoVol (Model.Fs.run demoVol demoSt (demoOps.take 4)) []).1 = [] := by decide
-- the frame theorem's premise meets a state with entries on both sides: removetree [1] keeps [3], drops [1], [1,2]
example : Model.Fs.abs (Model.Fs.run demoVol demoSt (demoOps.take 4)) =
    [⟨[1], true, 0⟩, ⟨[1, 2], false, 700⟩, ⟨[3], false, 0⟩] := by decide
example : Model.Fs.abs (Model.Fs.removetree demoVol (Model.Fs.run demoVol demoSt (demoOps.take 4)) [1]).1 =
    [⟨[3], false, 0⟩] := by decide
-- … and the premise of the other half (the final `removedir` succeeds) is met there
example : (Model.Fs.step demoVol (Model.Fs.run demoVol (Model.Fs.run demoVol demoSt (demoOps.take 4))
    (Model.Fs.expandTree 4 (Model.Fs.run demoVol demoSt (demoOps.take 4)).nodes [1]
      (.node ⟨[1], 0, 1, true, [2], 0, 2⟩)).dropLast) (.removedir [1])).2 = .ok true := by decide
example : Model.Fs.resolve (Model.Fs.run demoVol demoSt (demoOps.take 4)).nodes [1] =
    some (.node ⟨[1], 0, 1, true, [2], 0, 2⟩) := by decide
example : (Model.Fs.removetree demoVol (Model.Fs.run demoVol demoSt (demoOps.take 4)) [1]).1.fat =
    [4088, 4095, 0, 0, 0, 0, 0, 0] := by decide
example : (Model.Fs.run demoVol demoSt demoOps).fat = [4088, 4095, 4095, 4095, 0, 0, 0, 0] := by decide
example : Model.Fs.abs (Model.Fs.run demoVol demoSt demoOps) = [⟨[1], true, 0⟩, ⟨[1, 2], false, 10⟩] := by decide

example : Proofs.Alloc.avail (params 12) [4088, 4095, 0, 0, 3, 0] 4 2 = 3 := by decide

end Props.C01
