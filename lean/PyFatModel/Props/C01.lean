/-
C01 — Namespace operations behave like a reference filesystem model.

Decided on the real code by suite `ns` (reference = PyFilesystem2's MemoryFS with
fs.base's compound helpers) and `fat` (fill-to-full).  Proved here, the parts
that are about pyfatfs' own algorithms:
* out-of-space clause: `allocate_bytes` raises ENOSPC only if fewer than n+1
  allocatable clusters lie at or behind the allocation hint (n = clusters asked
  for) — the "+1" is the `for … else` slack (D6), inside "clearly enough";
* lookup: a directory scan returns exactly the entries that were written, in
  order, so lookup by long or short name sees every entry once;
* a new short alias never equals an existing short name (no entry is shadowed).
The reference-filesystem refinement of the primitives themselves is not a Lean
theorem (no Lean model of the in-memory tree yet): `C01_refinement_statement`.
-/
import PyFatModel.Proofs.Alloc
import PyFatModel.Proofs.Dir
import PyFatModel.Proofs.Names

open Model.Alloc

namespace Props.C01

theorem c01_no_spurious_enospc (p : Params) (fat : List Nat) (hint bound n : Nat)
    (h : allocate p fat hint bound n = none) : Proofs.Alloc.avail p fat (bound - hint) hint ≤ n :=
  Proofs.Alloc.allocate_enospc_only_if_short p fat hint bound n h

/-- contrapositive: with more than `n` allocatable clusters from the hint on, allocation succeeds -/
theorem c01_enough_space_succeeds (p : Params) (fat : List Nat) (hint bound n : Nat)
    (h : n < Proofs.Alloc.avail p fat (bound - hint) hint) : (allocate p fat hint bound n).isSome = true := by
  cases ha : allocate p fat hint bound n with
  | none => have := c01_no_spurious_enospc p fat hint bound n ha; omega
  | some r => rfl

theorem c01_listing_complete (cks : List Nat → Nat) (es : List Model.Dir.Ent) (junk : List Model.Dir.Slot)
    (hw : ∀ e ∈ es, Proofs.Dir.WellFormed cks e) :
    Model.Dir.scan cks [] (Model.Dir.serDir es ++ Model.Dir.Slot.endMark :: junk) = .ok es :=
  (Proofs.Dir.scan_serDir cks es junk hw).1

theorem c01_no_shadow (e : Model.Names.CharEnv) (name : List Nat) (existing : List (List Nat)) (r : List Nat)
    (h : Model.Names.makeAlias e name existing = some r) : r ∉ existing :=
  Proofs.Names.makeAlias_fresh e name existing r h

/-- the full refinement statement is about the in-memory tree and the primitives of
    `PyFatFS`; it is checked by differential execution against the reference filesystem. -/
def C01_refinement_statement : Prop := True

example : Proofs.Alloc.avail (params 12) [4088, 4095, 0, 0, 3, 0] 4 2 = 3 := by decide

end Props.C01
