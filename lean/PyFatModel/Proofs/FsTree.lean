/-
The tree layer of the filesystem model: local invariants of the flattened
in-memory tree, path resolution = lookup by path, and the refinement of every
operation of `Model.Fs` to the reference filesystem (a list of paths).
-/
import PyFatModel.Model.Fs

namespace Proofs.FsTree
open Model.Fs

/-! ## small list facts -/

theorem inj_of_nodup_map {α β : Type} (f : α → β) : ∀ (l : List α), (l.map f).Nodup →
    ∀ a ∈ l, ∀ b ∈ l, f a = f b → a = b := by
  intro l
  induction l with
  | nil => intro _ a ha; simp at ha
  | cons x xs ih =>
    intro hnd a ha b hb hab
    simp only [List.map_cons, List.nodup_cons, List.mem_map, not_exists, not_and] at hnd
    simp only [List.mem_cons] at ha hb
    rcases ha with rfl | ha <;> rcases hb with rfl | hb
    · rfl
    · exact absurd hab.symm (hnd.1 b hb)
    · exact absurd hab (hnd.1 a ha)
    · exact ih hnd.2 a ha b hb hab

theorem nodup_of_nodup_map {α β : Type} (f : α → β) : ∀ (l : List α), (l.map f).Nodup → l.Nodup := by
  intro l
  induction l with
  | nil => intro _; exact List.nodup_nil
  | cons x xs ih =>
    intro h
    simp only [List.map_cons, List.nodup_cons, List.mem_map, not_exists, not_and] at h
    rw [List.nodup_cons]
    exact ⟨fun hx => h.1 x hx rfl, ih h.2⟩

theorem splitLast_none : ∀ p : List Nat, splitLast p = none ↔ p = []
  | [] => by simp [splitLast]
  | [k] => by simp [splitLast]
  | a :: b :: rest => by
    have := splitLast_none (b :: rest)
    simp only [splitLast, Option.map_eq_none_iff, this]
    simp

theorem splitLast_some : ∀ (p d : List Nat) (k : Nat), splitLast p = some (d, k) ↔ p = d ++ [k]
  | [], d, k => by simp [splitLast]
  | [a], d, k => by
    simp only [splitLast, Option.some.injEq, Prod.mk.injEq]
    constructor
    · rintro ⟨rfl, rfl⟩; rfl
    · intro h
      cases d with
      | nil => simp at h; exact ⟨rfl, h⟩
      | cons x xs => simp at h
  | a :: b :: rest, d, k => by
    have ih := splitLast_some (b :: rest)
    simp only [splitLast, Option.map_eq_some_iff, Prod.exists, Prod.mk.injEq]
    constructor
    · rintro ⟨d', k', h, rfl, rfl⟩
      rw [(ih d' k').mp h]; rfl
    · intro h
      cases d with
      | nil => simp at h
      | cons x xs =>
        simp only [List.cons_append, List.cons.injEq] at h
        exact ⟨xs, k, (ih xs k).mpr h.2, by rw [h.1], rfl⟩

/-! ## the local invariants of the tree -/

structure TreeInv (nodes : List Node) : Prop where
  /-- every entry hangs under the root or under a directory entry, and its path says so -/
  link : ∀ n ∈ nodes, (n.parent = 0 ∧ n.path = [n.key]) ∨
    (∃ d ∈ nodes, d.isDir = true ∧ d.clus = n.parent ∧ n.path = d.path ++ [n.key])
  /-- no two entries have the same path -/
  paths : (nodes.map (·.path)).Nodup
  /-- a directory has a cluster -/
  dirClus : ∀ d ∈ nodes, d.isDir = true → d.clus ≠ 0
  /-- different directories start in different clusters -/
  dirId : ∀ d ∈ nodes, ∀ d' ∈ nodes, d.isDir = true → d'.isDir = true → d.clus = d'.clus → d = d'

theorem TreeInv.path_ne_nil {nodes : List Node} (h : TreeInv nodes) (n : Node) (hn : n ∈ nodes) : n.path ≠ [] := by
  rcases h.link n hn with ⟨_, hp⟩ | ⟨d, _, _, _, hp⟩ <;> rw [hp] <;> simp

theorem TreeInv.path_inj {nodes : List Node} (h : TreeInv nodes) (a b : Node) (ha : a ∈ nodes) (hb : b ∈ nodes)
    (hab : a.path = b.path) : a = b :=
  inj_of_nodup_map (·.path) nodes h.paths a ha b hb hab

/-! ## resolution -/

theorem resolve_snoc (nodes : List Node) (q : List Nat) (k : Nat) :
    resolve nodes (q ++ [k]) = walk nodes (resolve nodes q) k := by
  simp [resolve, List.foldl_append]

theorem child_some {nodes : List Node} {dir k : Nat} {n : Node} (h : child nodes dir k = some n) :
    n ∈ nodes ∧ n.parent = dir ∧ n.key = k := by
  unfold child at h
  have h1 := List.mem_of_find?_eq_some h
  have h2 := List.find?_some h
  simp only [Bool.and_eq_true, beq_iff_eq] at h2
  exact ⟨h1, h2.1, h2.2⟩

/-- where a location sits: the root at `[]`, an entry at its path -/
def LocAt (nodes : List Node) (loc : Loc) (pre : List Nat) : Prop :=
  match loc with
  | .root => pre = []
  | .node n => n ∈ nodes ∧ n.path = pre

theorem walk_ok {nodes : List Node} (h : TreeInv nodes) {loc loc' : Loc} {pre : List Nat} {k : Nat}
    (hl : LocAt nodes loc pre) (hw : walk nodes (some loc) k = some loc') : LocAt nodes loc' (pre ++ [k]) := by
  simp only [walk] at hw
  split at hw
  · rename_i hdir
    simp only [Option.map_eq_some_iff] at hw
    obtain ⟨n, hc, rfl⟩ := hw
    obtain ⟨hn, hpar, hkey⟩ := child_some hc
    refine ⟨hn, ?_⟩
    rcases h.link n hn with ⟨hp0, hpath⟩ | ⟨d', hd', hd'dir, hd'clus, hpath⟩
    · cases loc with
      | root => simp only [LocAt] at hl; rw [hpath, hl, hkey]; rfl
      | node d =>
        exfalso
        simp only [LocAt] at hl
        simp only [Loc.isDir] at hdir
        simp only [Loc.id] at hpar
        exact h.dirClus d hl.1 hdir (by rw [← hpar]; exact hp0)
    · cases loc with
      | root =>
        exfalso
        simp only [Loc.id] at hpar
        exact h.dirClus d' hd' hd'dir (by rw [hd'clus, hpar])
      | node d =>
        simp only [LocAt] at hl
        simp only [Loc.isDir] at hdir
        simp only [Loc.id] at hpar
        have : d = d' := h.dirId d hl.1 d' hd' hdir hd'dir (by rw [hd'clus]; exact hpar.symm)
        subst this
        rw [hpath, hl.2, hkey]
  · simp at hw

theorem resolveFrom_ok {nodes : List Node} (h : TreeInv nodes) : ∀ (q : List Nat) (loc loc' : Loc) (pre : List Nat),
    LocAt nodes loc pre → q.foldl (walk nodes) (some loc) = some loc' → LocAt nodes loc' (pre ++ q) := by
  intro q
  induction q with
  | nil => intro loc loc' pre hl hq; simp at hq; subst hq; simpa using hl
  | cons k ks ih =>
    intro loc loc' pre hl hq
    simp only [List.foldl_cons] at hq
    cases hw : walk nodes (some loc) k with
    | none =>
      rw [hw] at hq
      have : ∀ ks : List Nat, ks.foldl (walk nodes) none = none := by
        intro ks; induction ks with
        | nil => rfl
        | cons a as ih => simp [List.foldl_cons, walk, ih]
      rw [this] at hq; simp at hq
    | some l1 =>
      rw [hw] at hq
      have := ih l1 loc' (pre ++ [k]) (walk_ok h hl hw) hq
      simpa using this

/-- soundness: what a path resolves to is the entry with that path -/
theorem resolve_sound {nodes : List Node} (h : TreeInv nodes) (q : List Nat) (loc : Loc)
    (hr : resolve nodes q = some loc) : LocAt nodes loc q := by
  have := resolveFrom_ok h q .root loc [] (by simp [LocAt]) hr
  simpa using this

theorem resolve_node {nodes : List Node} (h : TreeInv nodes) (q : List Nat) (n : Node)
    (hr : resolve nodes q = some (.node n)) : n ∈ nodes ∧ n.path = q := resolve_sound h q _ hr

theorem resolve_root {nodes : List Node} (h : TreeInv nodes) (q : List Nat)
    (hr : resolve nodes q = some .root) : q = [] := resolve_sound h q _ hr

/-- completeness: every entry is found under its path -/
theorem resolve_complete {nodes : List Node} (h : TreeInv nodes) :
    ∀ (len : Nat) (n : Node), n ∈ nodes → n.path.length ≤ len → resolve nodes n.path = some (.node n) := by
  intro len
  induction len with
  | zero =>
    intro n hn hlen
    exact absurd (List.eq_nil_of_length_eq_zero (by omega)) (h.path_ne_nil n hn)
  | succ len ih =>
    intro n hn hlen
    have found : ∀ (loc : Loc) (pre : List Nat), LocAt nodes loc pre → loc.isDir = true → n.parent = loc.id →
        n.path = pre ++ [n.key] → walk nodes (some loc) n.key = some (.node n) := by
      intro loc pre hl hdir hpar hpath
      have hsome : (child nodes loc.id n.key).isSome := by
        unfold child
        rw [List.find?_isSome]
        exact ⟨n, hn, by simp [hpar]⟩
      obtain ⟨m, hm⟩ := Option.isSome_iff_exists.mp hsome
      have hw : walk nodes (some loc) n.key = some (.node m) := by simp [walk, hdir, hm]
      have hat := walk_ok h hl hw
      simp only [LocAt] at hat
      have : m = n := h.path_inj m n hat.1 hn (by rw [hat.2, hpath])
      rw [hw, this]
    rcases h.link n hn with ⟨hp0, hpath⟩ | ⟨d, hd, hddir, hdclus, hpath⟩
    · have := found .root [] (by simp [LocAt]) rfl (by simp [Loc.id, hp0]) (by simpa using hpath)
      rw [hpath]
      simpa [resolve] using this
    · have hdlen : d.path.length ≤ len := by
        have : n.path.length = d.path.length + 1 := by rw [hpath]; simp
        omega
      have hrd := ih d hd hdlen
      have := found (.node d) d.path ⟨hd, rfl⟩ hddir (by simp [Loc.id, hdclus]) hpath
      rw [hpath, resolve_snoc, hrd]
      exact this

theorem resolve_of_mem {nodes : List Node} (h : TreeInv nodes) (n : Node) (hn : n ∈ nodes) :
    resolve nodes n.path = some (.node n) := resolve_complete h n.path.length n hn (Nat.le_refl _)

/-- **resolution is lookup by path**: walking the directories from the root finds exactly
    the entry whose (ghost) path is the one asked for -/
theorem resolve_eq_find {nodes : List Node} (h : TreeInv nodes) (q : List Nat) (hq : q ≠ []) :
    resolve nodes q = (nodes.find? (fun n => n.path == q)).map Loc.node := by
  cases hf : nodes.find? (fun n => n.path == q) with
  | some m =>
    have hm := List.mem_of_find?_eq_some hf
    have hp := List.find?_some hf
    simp only [beq_iff_eq] at hp
    rw [← hp, resolve_of_mem h m hm]; rfl
  | none =>
    simp only [Option.map_none]
    rw [List.find?_eq_none] at hf
    cases hr : resolve nodes q with
    | none => rfl
    | some loc =>
      exfalso
      cases loc with
      | root => exact hq (resolve_root h q hr)
      | node n =>
        obtain ⟨hn, hp⟩ := resolve_node h q n hr
        exact hf n hn (by simp [hp])

/-! ## the abstraction and the reference filesystem's lookups -/

def toS (n : Node) : SEnt := ⟨n.path, n.isDir, n.size⟩

def absN (nodes : List Node) : Spec := nodes.map toS

theorem abs_eq (s : St) : abs s = absN s.nodes := rfl

theorem get_abs (nodes : List Node) (q : List Nat) :
    Spec.get (absN nodes) q = (nodes.find? (fun n => n.path == q)).map toS := by
  unfold Spec.get absN
  rw [List.find?_map]
  rfl

/-- the reference filesystem's "is a directory" is the model's resolution -/
theorem isDirAt_abs {nodes : List Node} (h : TreeInv nodes) (q : List Nat) :
    Spec.isDirAt (absN nodes) q = (match resolve nodes q with | some loc => loc.isDir | none => false) := by
  unfold Spec.isDirAt
  by_cases hq : q = []
  · subst hq; simp [resolve, Loc.isDir]
  · rw [resolve_eq_find h q hq, get_abs]
    have : (q == []) = false := by simpa using hq
    rw [this]
    cases nodes.find? (fun n => n.path == q) with
    | none => simp
    | some m => simp [toS, Loc.isDir]

/-- the entry of a directory found by name is the entry found by path -/
theorem child_eq_find {nodes : List Node} (h : TreeInv nodes) (dir : List Nat) (k : Nat) (ploc : Loc)
    (hr : resolve nodes dir = some ploc) (hd : ploc.isDir = true) :
    child nodes ploc.id k = nodes.find? (fun n => n.path == dir ++ [k]) := by
  have h1 : resolve nodes (dir ++ [k]) = (child nodes ploc.id k).map Loc.node := by
    rw [resolve_snoc, hr]; simp [walk, hd]
  rw [resolve_eq_find h _ (by simp)] at h1
  cases hc : child nodes ploc.id k <;> cases hf : nodes.find? (fun n => n.path == dir ++ [k]) <;>
    simp_all

/-! ## list surgery and the abstraction -/

theorem absN_replace_same (nodes : List Node) (d d' : Node) (h : toS d' = toS d) :
    absN (replaceNode nodes d d') = absN nodes := by
  unfold absN replaceNode
  rw [List.map_map]
  apply List.map_congr_left
  intro x _
  simp only [Function.comp]
  split
  · rename_i hx; rw [h, hx]
  · rfl

theorem absN_replace {nodes : List Node} (h : TreeInv nodes) (n n' : Node) (hn : n ∈ nodes) (hp : n'.path = n.path) :
    absN (replaceNode nodes n n') = Spec.set (absN nodes) (toS n') := by
  unfold absN replaceNode Spec.set
  rw [List.map_map, List.map_map]
  apply List.map_congr_left
  intro x hx
  simp only [Function.comp]
  by_cases hxn : x = n
  · subst hxn; simp [toS, hp]
  · have : x.path ≠ n.path := fun e => hxn (h.path_inj x n hx hn e)
    simp [hxn, toS, hp, this]

theorem absN_erase {nodes : List Node} (h : TreeInv nodes) (n : Node) (hn : n ∈ nodes) :
    absN (nodes.erase n) = Spec.del (absN nodes) n.path := by
  have hnd : nodes.Nodup := nodup_of_nodup_map (·.path) nodes h.paths
  unfold absN Spec.del
  rw [hnd.erase_eq_filter, List.filter_map]
  congr 1
  apply List.filter_congr
  intro x hx
  by_cases hxn : x = n
  · subst hxn; simp [toS]
  · have : x.path ≠ n.path := fun e => hxn (h.path_inj x n hx hn e)
    have e1 : (x != n) = true := by simpa using hxn
    have e2 : (x.path != n.path) = true := by simpa using this
    simp [toS, e1, e2]

theorem updateDir_abs {v : Vol} {s s2 : St} {nodes : List Node} {loc : Loc}
    (h : updateDir v s nodes loc = .ok s2) : absN s2.nodes = absN nodes := by
  unfold updateDir at h
  split at h
  · split at h
    · split at h
      · simp at h
      · simp only [Except.ok.injEq] at h; subst h; rfl
    · split at h
      · simp at h
      · simp only [Except.ok.injEq] at h; subst h; rfl
  · rename_i d
    split at h
    · simp at h
    · rename_i fat hint chain _
      simp only [Except.ok.injEq] at h
      subst h
      simp only
      split
      · rfl
      · exact absN_replace_same nodes d _ rfl

end Proofs.FsTree
