import PyFatModel.Proofs.Alloc

open Model.Alloc Gen Proofs.Alloc

namespace Proofs.FatRep

/-- end-of-chain as the follower recognises it -/
def isEnd (p : Params) (v : Nat) : Prop :=
  (p.is12 = true ∧ v = Gen.fat12SpecialEoc) ∨ (p.cv.eocMin ≤ v ∧ v ≤ p.cv.eocMax)

/-- facts about a cluster-value table that the reasoning needs; `decide`d for the
    three tables extracted from the source (`params_ok`). -/
structure ParamsOK (p : Params) : Prop where
  freeLow : p.cv.free < p.cv.minData
  dataLtEoc : p.cv.maxData < p.cv.eocMin
  dataLtBad : p.cv.maxData < p.cv.bad
  badLtEoc : p.cv.bad < p.cv.eocMin
  eocOrd : p.cv.eocMin ≤ p.cv.eocMax
  special : p.is12 = true → p.cv.maxData < Gen.fat12SpecialEoc
  specialNe : p.is12 = true → Gen.fat12SpecialEoc ≠ p.cv.bad ∧ Gen.fat12SpecialEoc ≠ p.cv.free
  min2 : p.cv.minData = 2
  minLeMax : p.cv.minData ≤ p.cv.maxData

theorem params_ok (t : Nat) : ParamsOK (params t) := by
  unfold params
  split
  · constructor <;> decide
  · split <;> constructor <;> decide

/-- `cs` is a well-formed cluster chain of `fat` -/
structure IsChain (p : Params) (fat : List Nat) (cs : List Nat) : Prop where
  ne : cs ≠ []
  nodup : cs.Nodup
  inTable : ∀ c ∈ cs, c < fat.length
  next : ∀ ab ∈ pairs cs, fat.getD ab.1 0 = ab.2 ∧ p.cv.minData ≤ ab.2 ∧ ab.2 ≤ p.cv.maxData
  last : ∀ l, cs.getLast? = some l → isEnd p (fat.getD l 0)

theorem mem_pairs_or_last (cs : List Nat) (c : Nat) (hc : c ∈ cs) :
    (∃ b, (c, b) ∈ pairs cs) ∨ cs.getLast? = some c := by
  induction cs with
  | nil => simp at hc
  | cons a rest ih =>
    cases rest with
    | nil => simp at hc; subst hc; right; rfl
    | cons b rest' =>
      simp only [List.mem_cons] at hc
      rcases hc with rfl | hc
      · left; exact ⟨b, by simp [pairs]⟩
      · rcases ih (by simpa using hc) with ⟨b', hb'⟩ | hl
        · left; exact ⟨b', by simp [pairs]; right; exact hb'⟩
        · right; simpa [List.getLast?_cons_cons] using hl

theorem fst_mem_of_pairs (cs : List Nat) (ab : Nat × Nat) (h : ab ∈ pairs cs) : ab.1 ∈ cs := by
  induction cs with
  | nil => simp [pairs] at h
  | cons a rest ih =>
    cases rest with
    | nil => simp [pairs] at h
    | cons b rest' =>
      simp only [pairs, List.mem_cons] at h
      rcases h with rfl | h
      · simp
      · have := ih h; simp at this ⊢; right; exact this

theorem snd_mem_of_pairs (cs : List Nat) (ab : Nat × Nat) (h : ab ∈ pairs cs) : ab.2 ∈ cs := by
  induction cs with
  | nil => simp [pairs] at h
  | cons a rest ih =>
    cases rest with
    | nil => simp [pairs] at h
    | cons b rest' =>
      simp only [pairs, List.mem_cons] at h
      rcases h with rfl | h
      · simp
      · have := ih h; simp at this ⊢; right; exact this

theorem classify_data {p : Params} {v : Nat} (h : p.cv.minData ≤ v ∧ v ≤ p.cv.maxData) :
    classify p v = .data := by
  unfold classify; rw [if_pos h]

theorem classify_end {p : Params} (hp : ParamsOK p) {v : Nat} (h : isEnd p v) : classify p v = .eoc := by
  unfold classify
  have h1 := hp.dataLtEoc
  rcases h with ⟨h12, hv⟩ | ⟨he1, he2⟩
  · have := hp.special h12
    rw [if_neg (by omega), if_pos ⟨h12, hv⟩]
  · rw [if_neg (by omega)]
    split
    · rfl
    · rw [if_pos ⟨he1, he2⟩]

/-- a cluster that belongs to a chain is never marked free (nor bad) -/
theorem chain_member_used {p : Params} (hp : ParamsOK p) {fat cs : List Nat} (h : IsChain p fat cs)
    (c : Nat) (hc : c ∈ cs) : fat.getD c 0 ≠ p.cv.free ∧ fat.getD c 0 ≠ p.cv.bad := by
  have hf := hp.freeLow; have hb := hp.dataLtBad; have he := hp.dataLtEoc; have hbe := hp.badLtEoc
  have hmm := hp.minLeMax
  rcases mem_pairs_or_last cs c hc with ⟨b, hb'⟩ | hl
  · have := h.next (c, b) hb'
    simp only at this
    omega
  · rcases h.last c hl with ⟨h12, hv⟩ | ⟨h1, h2⟩
    · have := hp.special h12
      -- the FAT12 special mark is neither 0 nor the bad mark
      have hs : Gen.fat12SpecialEoc ≠ p.cv.bad ∧ Gen.fat12SpecialEoc ≠ p.cv.free := by
        have := hp.specialNe h12; exact this
      rw [hv]; exact ⟨hs.2, hs.1⟩
    · omega

/-! ## the follower on a well-formed chain -/

theorem follow_chain {p : Params} (hp : ParamsOK p) (fat : List Nat) :
    ∀ (cs : List Nat) (c : Nat) (rest : List Nat) (fuel steps : Nat) (acc : List Nat),
      cs = c :: rest → IsChain p fat cs → cs.length ≤ fuel → steps + cs.length ≤ fat.length + 1 →
      follow p fat fuel steps c acc = .ok (acc ++ cs) := by
  intro cs
  induction cs with
  | nil => intro c rest fuel steps acc h; simp at h
  | cons a tail ih =>
    intro c rest fuel steps acc heq hch hfuel hsteps
    simp only [List.cons.injEq] at heq
    obtain ⟨rfl, rfl⟩ := heq
    obtain ⟨f', rfl⟩ : ∃ f', fuel = f' + 1 := ⟨fuel - 1, by simp at hfuel; omega⟩
    have hlt : a < fat.length := hch.inTable a (by simp)
    simp only [List.length_cons] at hsteps
    rw [follow, if_neg (by omega), if_neg (by omega)]
    cases tail with
    | nil =>
      rw [classify_end hp (hch.last a rfl)]
    | cons b tail' =>
      have hn := hch.next (a, b) (by simp [pairs])
      simp only at hn
      rw [classify_data (by omega)]
      simp only [hn.1]
      have hch' : IsChain p fat (b :: tail') := by
        refine ⟨by simp, (List.nodup_cons.mp hch.nodup).2, fun c hc => hch.inTable c (by simp at hc ⊢; right; exact hc), ?_, ?_⟩
        · intro ab hab; exact hch.next ab (by simp [pairs]; right; exact hab)
        · intro l hl; exact hch.last l (by simpa [List.getLast?_cons_cons] using hl)
      rw [ih b tail' f' (steps + 1) (acc ++ [a]) rfl hch' (by simp at hfuel ⊢; omega) (by simp at hsteps ⊢; omega)]
      simp

/-! ## the invariant -/

/-- The in-memory FAT represents exactly the disjoint chains `chains` inside a data
    area of `count` clusters; every other data cluster is free or marked bad. -/
structure FatRep (p : Params) (count : Nat) (fat : List Nat) (chains : List (List Nat)) : Prop where
  len : count + 2 ≤ fat.length
  chain : ∀ cs ∈ chains, IsChain p fat cs
  inData : ∀ cs ∈ chains, ∀ c ∈ cs, 2 ≤ c ∧ c < count + 2
  disjoint : chains.flatten.Nodup
  rest : ∀ c, 2 ≤ c → c < count + 2 → c ∉ chains.flatten →
    fat.getD c 0 = p.cv.free ∨ fat.getD c 0 = p.cv.bad

theorem isChain_frame {p : Params} {fat fat' cs : List Nat} (h : IsChain p fat cs)
    (hlen : fat'.length = fat.length) (hsame : ∀ c ∈ cs, fat'.getD c 0 = fat.getD c 0) :
    IsChain p fat' cs := by
  refine ⟨h.ne, h.nodup, fun c hc => by rw [hlen]; exact h.inTable c hc, ?_, ?_⟩
  · intro ab hab
    have hmem : ab.1 ∈ cs := fst_mem_of_pairs cs ab hab
    rw [hsame _ hmem]; exact h.next ab hab
  · intro l hl
    have hmem : l ∈ cs := List.mem_of_getLast? hl
    rw [hsame l hmem]; exact h.last l hl

/-- **Allocation preserves the invariant**: the new chain is well-formed, disjoint
    from every existing chain, inside the data area; nothing else changes. -/
theorem allocate_preserves {p : Params} (hp : ParamsOK p) {count : Nat} {fat : List Nat}
    {chains : List (List Nat)} (inv : FatRep p count fat chains)
    (hint bound n : Nat) (hb : bound ≤ count + 2) (hn : 0 < n) (r : AllocResult)
    (h : allocate p fat hint bound n = some r) :
    FatRep p count r.fat (r.clusters :: chains) ∧ r.clusters.length = n := by
  unfold allocate at h
  split at h
  · simp at h
  · rename_i cs j hscan
    simp only [Option.some.injEq] at h
    subst h
    obtain ⟨ok, hj, hlen⟩ := scan_spec0 p fat n hint bound cs j hscan
    simp only
    have hnd : cs.Nodup := by
      have := ok.asc
      exact List.Pairwise.imp (fun {a b} (h : a < b) => Nat.ne_of_lt h) this
    have hin : ∀ c ∈ cs, 2 ≤ c ∧ c < count + 2 := by
      intro c hc
      have := ok.range c hc; have := ok.data c hc; have := hp.min2
      omega
    have hltlen : ∀ c ∈ cs, c < fat.length := fun c hc => by have := hin c hc; have := inv.len; omega
    have hfresh : ∀ c ∈ cs, c ∉ chains.flatten := by
      intro c hc hmem
      obtain ⟨cs0, hcs0, hc0⟩ := List.mem_flatten.mp hmem
      exact (chain_member_used hp (inv.chain cs0 hcs0) c hc0).1 (ok.free c hc)
    obtain ⟨lk1, lk2⟩ := link_chain p.cv.eocMax cs fat hnd hltlen
    refine ⟨⟨by rw [link_length]; exact inv.len, ?_, ?_, ?_, ?_⟩, hlen⟩
    · intro cs0 hcs0
      simp only [List.mem_cons] at hcs0
      rcases hcs0 with rfl | hcs0
      · refine ⟨by intro h; subst h; simp at hlen; omega, hnd,
          fun c hc => by rw [link_length]; exact hltlen c hc, ?_, ?_⟩
        · intro ab hab
          refine ⟨lk1 ab hab, ?_⟩
          have hmem : ab.2 ∈ cs0 := snd_mem_of_pairs cs0 ab hab
          exact ok.data ab.2 hmem
        · intro l hl
          rw [lk2 l hl]
          right; exact ⟨hp.eocOrd, Nat.le_refl _⟩
      · apply isChain_frame (inv.chain cs0 hcs0) (link_length _ _ _)
        intro c hc
        apply link_frame
        intro hcin
        exact hfresh c hcin (List.mem_flatten.mpr ⟨cs0, hcs0, hc⟩)
    · intro cs0 hcs0 c hc
      simp only [List.mem_cons] at hcs0
      rcases hcs0 with rfl | hcs0
      · exact hin c hc
      · exact inv.inData cs0 hcs0 c hc
    · simp only [List.flatten_cons]
      rw [List.nodup_append]
      exact ⟨hnd, inv.disjoint, fun a ha b hb hab => hfresh a ha (hab ▸ hb)⟩
    · intro c h2 hc hnot
      simp only [List.flatten_cons, List.mem_append, not_or] at hnot
      rw [link_frame _ _ _ _ hnot.1]
      exact inv.rest c h2 hc hnot.2

end Proofs.FatRep

namespace Proofs.FatRep
open Model.Alloc Gen Proofs.Alloc

/-! ## release of a chain -/

theorem freeList_length (free : Nat) (cs : List Nat) :
    ∀ fat : List Nat, (freeList free fat cs).length = fat.length := by
  induction cs with
  | nil => intro fat; rfl
  | cons c rest ih => intro fat; simp only [freeList, List.foldl_cons] at ih ⊢; rw [ih]; simp

theorem freeList_frame (free : Nat) (cs : List Nat) :
    ∀ (fat : List Nat) (x : Nat), x ∉ cs → (freeList free fat cs).getD x 0 = fat.getD x 0 := by
  induction cs with
  | nil => intro fat x _; rfl
  | cons c rest ih =>
    intro fat x hx
    simp at hx
    simp only [freeList, List.foldl_cons] at ih ⊢
    rw [ih (fat.set c free) x hx.2]
    exact getD_set_ne fat c x free hx.1

theorem freeList_freed (free : Nat) (cs : List Nat) :
    ∀ (fat : List Nat) (x : Nat), x ∈ cs → x < fat.length → (freeList free fat cs).getD x 0 = free := by
  induction cs with
  | nil => intro fat x hx; simp at hx
  | cons c rest ih =>
    intro fat x hx hlt
    simp only [freeList, List.foldl_cons] at ih ⊢
    by_cases hr : x ∈ rest
    · exact ih (fat.set c free) x hr (by simpa using hlt)
    · simp at hx
      rcases hx with rfl | hx
      · have := freeList_frame free rest (fat.set x free) x hr
        simp only [freeList] at this
        rw [this]; exact getD_set_eq fat x free hlt
      · exact absurd hx hr

/-- **Releasing a chain preserves the invariant**: its clusters become free, every
    other chain is untouched (no cluster of another owner is freed). -/
theorem free_preserves {p : Params} (hp : ParamsOK p) {count : Nat} {fat : List Nat}
    {cs : List Nat} {chains : List (List Nat)} (inv : FatRep p count fat (cs :: chains)) :
    FatRep p count (freeList p.cv.free fat cs) chains := by
  have hdis := inv.disjoint
  simp only [List.flatten_cons] at hdis
  rw [List.nodup_append] at hdis
  obtain ⟨_, hnd, hsep⟩ := hdis
  refine ⟨by rw [freeList_length]; exact inv.len, ?_, ?_, hnd, ?_⟩
  · intro cs0 hcs0
    apply isChain_frame (inv.chain cs0 (by simp [hcs0])) (freeList_length _ _ _)
    intro c hc
    apply freeList_frame
    intro hcin
    exact hsep c hcin c (List.mem_flatten.mpr ⟨cs0, hcs0, hc⟩) rfl
  · intro cs0 hcs0 c hc
    exact inv.inData cs0 (by simp [hcs0]) c hc
  · intro c h2 hc hnot
    by_cases hcin : c ∈ cs
    · left
      exact freeList_freed _ _ _ _ hcin (by have := inv.len; omega)
    · rw [freeList_frame _ _ _ _ hcin]
      apply inv.rest c h2 hc
      simp only [List.flatten_cons, List.mem_append, not_or]
      exact ⟨hcin, hnot⟩

/-- what `free_cluster_chain(first)` frees is exactly the chain that starts there -/
theorem free_follows_chain {p : Params} (hp : ParamsOK p) {fat cs : List Nat} (c : Nat) (rest : List Nat)
    (h : IsChain p fat cs) (hcs : cs = c :: rest) : chainOf p fat c = .ok cs := by
  unfold chainOf
  -- a duplicate-free list of indices below `fat.length` is no longer than the table
  have hlen : cs.length ≤ fat.length := by
    have hsub : cs ⊆ List.range fat.length := fun x hx => List.mem_range.mpr (h.inTable x hx)
    have := List.Nodup.length_le_of_subset h.nodup hsub
    simpa using this
  have := follow_chain hp fat cs c rest (fat.length + 2) 0 [] hcs h (by omega) (by omega)
  simpa using this

/-- **the follower always terminates** (C13): with the loop counter of the source, no table
    and no start cluster make it run out of `len + 2` steps — a cyclic chain ends in `.loop` -/
theorem follow_never_hangs (p : Params) (fat : List Nat) :
    ∀ (fuel steps i : Nat) (acc : List Nat), fat.length + 2 ≤ fuel + steps → steps ≤ fat.length + 1 →
      ∀ c, follow p fat fuel steps i acc ≠ .hang c := by
  intro fuel
  induction fuel with
  | zero => intro steps i acc h hs c; omega
  | succ fuel ih =>
    intro steps i acc h hs c
    rw [follow]
    split
    · simp
    · split
      · simp
      · rename_i h1 h2
        split
        · exact ih (steps + 1) _ _ (by omega) (by omega) c
        all_goals simp

theorem chainOf_never_hangs (p : Params) (fat : List Nat) (start : Nat) : ∀ c, chainOf p fat start ≠ .hang c :=
  follow_never_hangs p fat (fat.length + 2) 0 start [] (by omega) (by omega)

end Proofs.FatRep

namespace Proofs.FatRep
open Model.Alloc Gen Proofs.Alloc

/-! ## joining (chain extension) and splitting (truncate) -/

theorem mem_pairs_append (b a : List Nat) (lb ha : Nat) (hb : b.getLast? = some lb) (hha : a.head? = some ha)
    (ab : Nat × Nat) :
    ab ∈ pairs (b ++ a) ↔ ab ∈ pairs b ∨ ab = (lb, ha) ∨ ab ∈ pairs a := by
  induction b with
  | nil => simp at hb
  | cons x rest ih =>
    cases rest with
    | nil =>
      simp at hb; subst hb
      cases a with
      | nil => simp at hha
      | cons y a' =>
        simp at hha; subst hha
        simp [pairs]
    | cons y rest' =>
      have hb' : (y :: rest').getLast? = some lb := by simpa [List.getLast?_cons_cons] using hb
      have := ih hb'
      simp only [List.cons_append, pairs, List.mem_cons] at this ⊢
      rw [this]
      constructor
      · rintro (h | h | h | h)
        · left; left; exact h
        · left; right; exact h
        · right; left; exact h
        · right; right; exact h
      · rintro ((h | h) | h | h)
        · left; exact h
        · right; left; exact h
        · right; right; left; exact h
        · right; right; right; exact h

theorem getLast?_append_of_ne (b a : List Nat) (h : a ≠ []) : (b ++ a).getLast? = a.getLast? := by
  rw [List.getLast?_append]
  cases ha : a.getLast? with
  | none => simp [List.getLast?_eq_none_iff] at ha; exact absurd ha h
  | some x => simp

/-- a pair's first component is never the last element of a duplicate-free list -/
theorem pair_fst_ne_last (cs : List Nat) (hnd : cs.Nodup) (ab : Nat × Nat) (h : ab ∈ pairs cs) :
    cs.getLast? ≠ some ab.1 := by
  induction cs with
  | nil => simp [pairs] at h
  | cons x rest ih =>
    cases rest with
    | nil => simp [pairs] at h
    | cons y rest' =>
      have hnd' := (List.nodup_cons.mp hnd).2
      have hx := (List.nodup_cons.mp hnd).1
      simp only [pairs, List.mem_cons] at h
      rw [List.getLast?_cons_cons]
      rcases h with rfl | h
      · intro hl
        exact hx (List.mem_of_getLast? hl)
      · exact ih hnd' h

/-- **Chain extension** (`write_data_to_cluster`: `fat[last] = new_chain[0]`):
    linking the fresh chain `a` behind chain `b` yields the single chain `b ++ a`. -/
theorem join_preserves {p : Params} (hp : ParamsOK p) {count : Nat} {fat : List Nat}
    {a b : List Nat} {chains : List (List Nat)} (inv : FatRep p count fat (a :: b :: chains))
    (lb ha : Nat) (hlb : b.getLast? = some lb) (hha : a.head? = some ha)
    (hdata : p.cv.minData ≤ ha ∧ ha ≤ p.cv.maxData) :
    FatRep p count (fat.set lb ha) ((b ++ a) :: chains) := by
  have ca := inv.chain a (by simp)
  have cb := inv.chain b (by simp)
  have hdis := inv.disjoint
  simp only [List.flatten_cons] at hdis
  rw [List.nodup_append] at hdis
  obtain ⟨nda, hrest, hsepa⟩ := hdis
  rw [List.nodup_append] at hrest
  obtain ⟨ndb, ndc, hsepb⟩ := hrest
  have hlbmem : lb ∈ b := List.mem_of_getLast? hlb
  have hlblt : lb < fat.length := cb.inTable lb hlbmem
  have hab : ∀ x ∈ a, x ∉ b := fun x hx hxb => hsepa x hx x (by simp [hxb]) rfl
  have hane : a ≠ [] := ca.ne
  refine ⟨by simpa using inv.len, ?_, ?_, ?_, ?_⟩
  · intro cs hcs
    simp only [List.mem_cons] at hcs
    rcases hcs with rfl | hcs
    · refine ⟨by simp [cb.ne], ?_, ?_, ?_, ?_⟩
      · rw [List.nodup_append]
        exact ⟨ndb, nda, fun x hx y hy hxy => hab y hy (hxy ▸ hx)⟩
      · intro c hc; simp only [List.length_set]
        simp only [List.mem_append] at hc
        rcases hc with hc | hc
        · exact cb.inTable c hc
        · exact ca.inTable c hc
      · intro pr hpr
        rw [mem_pairs_append b a lb ha hlb hha] at hpr
        rcases hpr with hpr | rfl | hpr
        · have hne : pr.1 ≠ lb := fun h => pair_fst_ne_last b ndb pr hpr (h ▸ hlb)
          rw [getD_set_ne _ _ _ _ hne]; exact cb.next pr hpr
        · exact ⟨getD_set_eq _ _ _ hlblt, hdata⟩
        · have hne : pr.1 ≠ lb := fun h => hab pr.1 (fst_mem_of_pairs a pr hpr) (h ▸ hlbmem)
          rw [getD_set_ne _ _ _ _ hne]; exact ca.next pr hpr
      · intro l hl
        rw [getLast?_append_of_ne b a hane] at hl
        have hne : l ≠ lb := fun h => hab l (List.mem_of_getLast? hl) (h ▸ hlbmem)
        rw [getD_set_ne _ _ _ _ hne]; exact ca.last l hl
    · apply isChain_frame (inv.chain cs (by simp [hcs])) (by simp)
      intro c hc
      apply getD_set_ne
      intro h
      exact hsepb lb hlbmem c (List.mem_flatten.mpr ⟨cs, hcs, hc⟩) h.symm
  · intro cs hcs c hc
    simp only [List.mem_cons] at hcs
    rcases hcs with rfl | hcs
    · simp only [List.mem_append] at hc
      rcases hc with hc | hc
      · exact inv.inData b (by simp) c hc
      · exact inv.inData a (by simp) c hc
    · exact inv.inData cs (by simp [hcs]) c hc
  · simp only [List.flatten_cons]
    rw [List.nodup_append]
    refine ⟨?_, ndc, ?_⟩
    · rw [List.nodup_append]
      exact ⟨ndb, nda, fun x hx y hy hxy => hab y hy (hxy ▸ hx)⟩
    · intro x hx y hy hxy
      simp only [List.mem_append] at hx
      rcases hx with hx | hx
      · exact hsepb x hx y hy hxy
      · exact hsepa x hx y (by simp [hy]) hxy
  · intro c h2 hc hnot
    simp only [List.flatten_cons, List.mem_append, not_or] at hnot
    have hne : c ≠ lb := fun h => hnot.1.1 (h ▸ hlbmem)
    rw [getD_set_ne _ _ _ _ hne]
    apply inv.rest c h2 hc
    simp only [List.flatten_cons, List.mem_append, not_or]
    exact ⟨hnot.1.2, hnot.1.1, hnot.2⟩

/-- **Truncation** (`FatIO.truncate`, shrinking): freeing the tail of a chain and
    writing an end mark into the last kept cluster leaves the kept part as a
    well-formed chain and every other chain untouched. -/
theorem split_preserves {p : Params} (hp : ParamsOK p) {count : Nat} {fat : List Nat}
    {keep tail : List Nat} {chains : List (List Nat)} (inv : FatRep p count fat ((keep ++ tail) :: chains))
    (lk : Nat) (hlk : keep.getLast? = some lk) :
    FatRep p count ((freeList p.cv.free fat tail).set lk p.cv.eocMax) (keep :: chains) := by
  have ck := inv.chain (keep ++ tail) (by simp)
  have hdis := inv.disjoint
  simp only [List.flatten_cons] at hdis
  rw [List.nodup_append] at hdis
  obtain ⟨ndkt, ndc, hsep⟩ := hdis
  rw [List.nodup_append] at ndkt
  obtain ⟨ndk, ndt, hkt⟩ := ndkt
  have hlkmem : lk ∈ keep := List.mem_of_getLast? hlk
  have hkne : keep ≠ [] := fun h => by simp [h] at hlkmem
  have hlklt : lk < fat.length := ck.inTable lk (by simp [hlkmem])
  have hlen : ((freeList p.cv.free fat tail).set lk p.cv.eocMax).length = fat.length := by
    simp [freeList_length]
  -- entries outside `tail` and different from `lk` are unchanged
  have hsame : ∀ x, x ∉ tail → x ≠ lk →
      ((freeList p.cv.free fat tail).set lk p.cv.eocMax).getD x 0 = fat.getD x 0 := by
    intro x hx hne
    rw [getD_set_ne _ _ _ _ hne, freeList_frame _ _ _ _ hx]
  refine ⟨by rw [hlen]; exact inv.len, ?_, ?_, ?_, ?_⟩
  · intro cs hcs
    simp only [List.mem_cons] at hcs
    rcases hcs with rfl | hcs
    · refine ⟨hkne, ndk, fun c hc => by rw [hlen]; exact ck.inTable c (by simp [hc]), ?_, ?_⟩
      · intro pr hpr
        have hne : pr.1 ≠ lk := fun h => pair_fst_ne_last cs ndk pr hpr (h ▸ hlk)
        have hnt : pr.1 ∉ tail := fun h => hkt pr.1 (fst_mem_of_pairs cs pr hpr) pr.1 h rfl
        rw [hsame pr.1 hnt hne]
        by_cases htl : tail = []
        · subst htl; simp at ck; exact ck.next pr hpr
        · obtain ⟨ht, hht⟩ : ∃ ht, tail.head? = some ht := by
            cases tail with
            | nil => exact absurd rfl htl
            | cons t _ => exact ⟨t, rfl⟩
          exact ck.next pr ((mem_pairs_append cs tail lk ht hlk hht pr).mpr (Or.inl hpr))
      · intro l hl
        rw [hlk] at hl; simp at hl; subst hl
        rw [getD_set_eq _ _ _ (by rw [freeList_length]; exact hlklt)]
        right; exact ⟨hp.eocOrd, Nat.le_refl _⟩
    · apply isChain_frame (inv.chain cs (by simp [hcs])) hlen
      intro c hc
      have hcf : c ∈ chains.flatten := List.mem_flatten.mpr ⟨cs, hcs, hc⟩
      apply hsame
      · intro h; exact hsep c (by simp [h]) c hcf rfl
      · intro h; exact hsep lk (by simp [hlkmem]) c hcf h.symm
  · intro cs hcs c hc
    simp only [List.mem_cons] at hcs
    rcases hcs with rfl | hcs
    · exact inv.inData (cs ++ tail) (by simp) c (by simp [hc])
    · exact inv.inData cs (by simp [hcs]) c hc
  · simp only [List.flatten_cons]
    rw [List.nodup_append]
    exact ⟨ndk, ndc, fun x hx y hy hxy => hsep x (by simp [hx]) y hy hxy⟩
  · intro c h2 hc hnot
    simp only [List.flatten_cons, List.mem_append, not_or] at hnot
    have hne : c ≠ lk := fun h => hnot.1 (h ▸ hlkmem)
    by_cases hct : c ∈ tail
    · left
      rw [getD_set_ne _ _ _ _ hne]
      exact freeList_freed _ _ _ _ hct (by have := inv.len; omega)
    · rw [hsame c hct hne]
      apply inv.rest c h2 hc
      simp only [List.flatten_cons, List.mem_append, not_or]
      exact ⟨⟨hnot.1, hct⟩, hnot.2⟩

end Proofs.FatRep
