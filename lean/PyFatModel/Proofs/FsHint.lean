/-
The allocation hint never runs ahead of a free cluster: in every state the
filesystem model reaches, no allocatable cluster lies below
`first_free_cluster`.  With the allocator's own completeness
(`allocate_enospc_only_if_short`) this turns "refused for lack of space only if
fewer than n+1 allocatable clusters lie *behind the hint*" into "… lie *in the
volume*".
-/
import PyFatModel.Proofs.FsFat

namespace Proofs.FsHint
open Model.Fs Model.Alloc Proofs.FatRep Proofs.FsFat Proofs.Alloc

/-- nothing below the hint can be handed out -/
def HintOK (p : Params) (bound : Nat) (fat : List Nat) (hint : Nat) : Prop :=
  ∀ i, i < hint → i < bound → allocatable p fat i = false

theorem allocatable_congr {p : Params} {fat fat' : List Nat} {i : Nat} (h : fat'.getD i 0 = fat.getD i 0) :
    allocatable p fat' i = allocatable p fat i := by
  unfold allocatable; rw [h]

theorem allocatable_false_of_ne {p : Params} {fat : List Nat} {i : Nat} (h : fat.getD i 0 ≠ p.cv.free) :
    allocatable p fat i = false := by
  unfold allocatable
  rw [decide_eq_false h]; simp

/-- the scan takes every allocatable index it passes -/
theorem scan_complete (p : Params) (fat : List Nat) (n : Nat) :
    ∀ (fuel i : Nat) (acc cs : List Nat) (j : Nat), scan p fat n fuel i acc = some (cs, j) →
      ∀ x, i ≤ x → x < j → allocatable p fat x = true → x ∈ cs := by
  intro fuel
  induction fuel with
  | zero => intro i acc cs j h; simp [scan] at h
  | succ fuel ih =>
    intro i acc cs j h x hix hxj hal
    rw [scan] at h
    have keep : ∀ acc', scan p fat n fuel (i + 1) acc' = some (cs, j) → i < x → x ∈ cs :=
      fun acc' h' hlt => ih (i + 1) acc' cs j h' x (by omega) hxj hal
    -- membership of an index that was appended is kept by the rest of the scan
    have mono : ∀ (fuel' i' : Nat) (acc' : List Nat), scan p fat n fuel' i' acc' = some (cs, j) → ∀ y ∈ acc', y ∈ cs := by
      intro fuel'
      induction fuel' with
      | zero => intro i' acc' h'; simp [scan] at h'
      | succ f ihf =>
        intro i' acc' h' y hy
        rw [scan] at h'
        split at h'
        · exact ihf _ _ h' y hy
        · split at h'
          · simp only [Option.some.injEq, Prod.mk.injEq] at h'; rw [← h'.1]; exact hy
          · split at h'
            · exact ihf _ _ h' y (by simp [hy])
            · exact ihf _ _ h' y hy
    split at h
    · rename_i hr
      rcases Nat.lt_or_ge i x with hlt | hge
      · exact keep _ h hlt
      · have : x = i := by omega
        subst this
        exfalso
        unfold allocatable at hal
        rw [decide_eq_true hr] at hal
        simp at hal
    · split at h
      · simp only [Option.some.injEq, Prod.mk.injEq] at h
        omega
      · split at h
        · rcases Nat.lt_or_ge i x with hlt | hge
          · exact keep _ h hlt
          · have : x = i := by omega
            subst this
            exact mono _ _ _ h x (by simp)
        · rename_i hfree
          rcases Nat.lt_or_ge i x with hlt | hge
          · exact keep _ h hlt
          · have : x = i := by omega
            subst this
            exfalso
            unfold allocatable at hal
            simp only [Bool.and_eq_true, Bool.not_eq_true', decide_eq_true_eq] at hal
            exact hfree ⟨hal.1.2, hal.2⟩

/-- allocation keeps the hint sound: what lies below the new hint was not allocatable, or has just been taken -/
theorem alloc_hint {p : Params} (hp : ParamsOK p) {fat : List Nat} {hint bound n : Nat} {r : AllocResult}
    (hh : HintOK p bound fat hint) (h : allocate p fat hint bound n = some r) (hc : IsChain p r.fat r.clusters ∨ r.clusters = []) :
    HintOK p bound r.fat r.hint := by
  have h0 := h
  unfold allocate at h
  split at h
  · simp at h
  · rename_i cs j hscan
    simp only [Option.some.injEq] at h
    subst h
    simp only at hc ⊢
    obtain ⟨hok, _, _⟩ := scan_spec0 p fat n hint bound cs j hscan
    intro x hxj hxb
    by_cases hx : x ∈ cs
    · rcases hc with hc | hc
      · exact allocatable_false_of_ne (chain_member_used hp hc x hx).1
      · rw [hc] at hx; simp at hx
    · rw [allocatable_congr (link_frame _ _ _ _ hx)]
      rcases Nat.lt_or_ge x hint with hlt | hge
      · exact hh x hlt hxb
      · cases ha : allocatable p fat x with
        | false => rfl
        | true => exact absurd (scan_complete p fat n _ _ _ cs j hscan x hge hxj ha) hx

theorem set_hint {p : Params} {bound : Nat} {fat : List Nat} {hint l v : Nat} (hh : HintOK p bound fat hint) (hv : v ≠ p.cv.free)
    (hl : l < fat.length) : HintOK p bound (fat.set l v) hint := by
  intro x hx hxb
  by_cases hxl : x = l
  · subst hxl
    exact allocatable_false_of_ne (by rw [getD_set_eq fat x v hl]; exact hv)
  · rw [allocatable_congr (getD_set_ne fat l x v hxl)]
    exact hh x hx hxb

theorem lowerHint_le (cs : List Nat) : ∀ hint : Nat, lowerHint hint cs ≤ hint ∧ ∀ c ∈ cs, lowerHint hint cs ≤ c := by
  induction cs with
  | nil => intro hint; simp [lowerHint]
  | cons c rest ih =>
    intro hint
    simp only [lowerHint, List.foldl_cons] at ih ⊢
    obtain ⟨h1, h2⟩ := ih (min c hint)
    refine ⟨by omega, ?_⟩
    intro x hx
    simp only [List.mem_cons] at hx
    rcases hx with rfl | hx
    · omega
    · exact h2 x hx

/-- releasing a chain lowers the hint to its lowest cluster -/
theorem release_hint {p : Params} {bound : Nat} {fat : List Nat} {hint : Nat} (cs : List Nat) (hh : HintOK p bound fat hint) :
    HintOK p bound (freeList p.cv.free fat cs) (lowerHint hint cs) := by
  obtain ⟨h1, h2⟩ := lowerHint_le cs hint
  intro x hx hxb
  have hnot : x ∉ cs := fun hm => by have := h2 x hm; omega
  rw [allocatable_congr (freeList_frame _ _ _ _ hnot)]
  exact hh x (by omega) hxb

theorem data_ne_free {p : Params} (hp : ParamsOK p) {c : Nat} (h : p.cv.minData ≤ c) : c ≠ p.cv.free := by
  have := hp.freeLow; omega

theorem eoc_ne_free {p : Params} (hp : ParamsOK p) : p.cv.eocMax ≠ p.cv.free := by
  have h1 := hp.freeLow; have h2 := hp.minLeMax; have h3 := hp.dataLtEoc; have h4 := hp.eocOrd; omega

/-- extension of a chain: allocate, then link behind its last cluster -/
theorem extend_hint {p : Params} (hp : ParamsOK p) {count bound : Nat} (hb : bound ≤ count + 2)
    {fat : List Nat} {hint n : Nat} {b : List Nat} {rest : List (List Nat)} (inv : FatRep p count fat (b :: rest))
    (hh : HintOK p bound fat hint) (hn : 0 < n) {l : Nat} (hl : b.getLast? = some l) {r : AllocResult}
    (ha : allocate p fat hint bound n = some r) {hd : Nat} (hhd : r.clusters.head? = some hd) :
    HintOK p bound (r.fat.set l hd) r.hint := by
  obtain ⟨inv2, _⟩ := allocate_preserves hp inv hint bound n hb hn r ha
  have hch := inv2.chain r.clusters (by simp)
  have h1 := alloc_hint hp hh ha (Or.inl hch)
  have hdata := alloc_head_data ha hd (List.mem_of_mem_head? hhd)
  have hlt : l < r.fat.length := (inv2.chain b (by simp)).inTable l (List.mem_of_getLast? hl)
  exact set_hint h1 (data_ne_free hp hdata.1) hlt

theorem growChain_hint {v : Vol} (hp : ParamsOK v.p) {count : Nat} (hb : v.bound ≤ count + 2) (hbpc : 0 < v.bpc)
    {fat : List Nat} {hint : Nat} {b : List Nat} {bytes : Nat} {rest : List (List Nat)}
    {fat' : List Nat} {hint' : Nat} {b' : List Nat}
    (inv : FatRep v.p count fat (b :: rest)) (hh : HintOK v.p v.bound fat hint)
    (h : growChain v fat hint b bytes = .ok (fat', hint', b')) : HintOK v.p v.bound fat' hint' := by
  unfold growChain at h
  split at h
  · simp only [Except.ok.injEq, Prod.mk.injEq] at h
    obtain ⟨rfl, rfl, _⟩ := h
    exact hh
  · rename_i hgt
    split at h
    · rename_i l r hl ha
      split at h
      · rename_i hd hhd
        simp only [Except.ok.injEq, Prod.mk.injEq] at h
        obtain ⟨rfl, rfl, _⟩ := h
        exact extend_hint hp hb inv hh (numClus_pos _ _ hbpc (by omega)) hl ha hhd
      · simp at h
    · simp at h
    · simp at h

theorem writeChain_hint {v : Vol} (hp : ParamsOK v.p) {count : Nat} (hb : v.bound ≤ count + 2) (hbpc : 0 < v.bpc)
    {fat : List Nat} {hint : Nat} {c : List Nat} {size pos n : Nat} {rest : List (List Nat)}
    {fat' : List Nat} {hint' : Nat} {c' : List Nat}
    (inv : FatRep v.p count fat (opt c ++ rest)) (hh : HintOK v.p v.bound fat hint) (hn : 0 < n)
    (h : writeChain v fat hint c size pos n = .ok (fat', hint', c')) : HintOK v.p v.bound fat' hint' := by
  unfold writeChain at h
  cases c with
  | nil =>
    simp only at h
    split at h
    · simp at h
    · rename_i r ha
      simp only [Except.ok.injEq, Prod.mk.injEq] at h
      obtain ⟨rfl, rfl, _⟩ := h
      have hpos := numClus_pos v.bpc n hbpc hn
      obtain ⟨inv2, _⟩ := allocate_preserves hp (by simpa [opt] using inv) hint v.bound _ hb hpos r ha
      exact alloc_hint hp hh ha (Or.inl (inv2.chain r.clusters (by simp)))
  | cons x xs =>
    simp only at h
    split at h
    · simp at h
    · split at h
      · simp only [Except.ok.injEq, Prod.mk.injEq] at h
        obtain ⟨rfl, rfl, _⟩ := h
        exact hh
      · rename_i hgt
        split at h
        · rename_i l r hl ha
          split at h
          · rename_i hd hhd
            simp only [Except.ok.injEq, Prod.mk.injEq] at h
            obtain ⟨rfl, rfl, _⟩ := h
            rw [opt_of_ne (by simp)] at inv
            exact extend_hint hp hb inv hh (numClus_pos _ _ hbpc (by omega)) hl ha hhd
          · simp at h
        · simp at h
        · simp at h

/-- `FatIO.truncate`: free the tail, end mark into the last kept cluster, lower the hint -/
theorem trunc_hint {p : Params} (hp : ParamsOK p) {bound : Nat} {fat : List Nat} {hint : Nat} (tail : List Nat) (l : Nat)
    (hl : l < fat.length) (hh : HintOK p bound fat hint) :
    HintOK p bound ((freeList p.cv.free fat tail).set l p.cv.eocMax) (lowerHint hint tail) :=
  set_hint (release_hint tail hh) (eoc_ne_free hp) (by rw [freeList_length]; exact hl)

/-- with a sound hint, out-of-space means: fewer than `n + 1` allocatable clusters in the whole volume -/
theorem avail_below_hint {p : Params} {bound : Nat} {fat : List Nat} {hint : Nat} (hh : HintOK p bound fat hint) :
    ∀ (fuel i : Nat), i + fuel ≤ hint → i + fuel ≤ bound → avail p fat fuel i = 0 := by
  intro fuel
  induction fuel with
  | zero => intro i _ _; rfl
  | succ f ih =>
    intro i h1 h2
    simp only [avail]
    rw [hh i (by omega) (by omega), ih (i + 1) (by omega) (by omega)]
    rfl

theorem avail_split (p : Params) (fat : List Nat) : ∀ (a b i : Nat), avail p fat (a + b) i = avail p fat a i + avail p fat b (i + a) := by
  intro a
  induction a with
  | zero => intro b i; simp [avail]
  | succ a ih =>
    intro b i
    have : a + 1 + b = (a + b) + 1 := by omega
    rw [this]
    simp only [avail]
    rw [ih b (i + 1)]
    have : i + 1 + a = i + (a + 1) := by omega
    rw [this]
    omega

/-- **no spurious out-of-space**: if `allocate_bytes` refuses `n` clusters, the whole volume (indices `0 … bound`)
    holds at most `n` allocatable clusters -/
theorem enospc_means_full {p : Params} {bound : Nat} {fat : List Nat} {hint n : Nat} (hh : HintOK p bound fat hint)
    (h : allocate p fat hint bound n = none) : avail p fat bound 0 ≤ n := by
  have h1 := allocate_enospc_only_if_short p fat hint bound n h
  rcases Nat.lt_or_ge hint bound with hlt | hge
  · have : bound = hint + (bound - hint) := by omega
    rw [this, avail_split, avail_below_hint hh hint 0 (by omega) (by omega)]
    simpa using h1
  · rw [avail_below_hint hh bound 0 (by omega) (by omega)]
    omega

end Proofs.FsHint
