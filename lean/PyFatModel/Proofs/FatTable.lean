import PyFatModel.Model.FatTable

open Model.Bytes Model.FatTable

namespace Proofs.FatTable

/-! ## FAT12 -/

theorem orNib (hi lo : Nat) (h : lo < 16) : hi * 16 ||| lo = hi * 16 + lo := by
  have := Nat.shiftLeft_add_eq_or_of_lt (show lo < 2 ^ 4 from h) hi
  rw [Nat.shiftLeft_eq] at this
  exact this.symm

/-- serialise then decode: every entry list that `struct.pack` accepts comes back,
    for **every** length (odd lengths end in a 2-byte half-filled tail). -/
theorem dec12_ser12 (es : List Nat) (h : packable12 es) : dec12 (ser12 es) = es := by
  fun_induction ser12 es with
  | case1 => rfl
  | case2 e =>
    have : e < 4096 := h e (by simp)
    simp [dec12]; omega
  | case3 e0 e1 rest ih =>
    have h0 : e0 < 4096 := h e0 (by simp)
    have h1 : e1 < 4096 := h e1 (by simp)
    have hr : packable12 rest := fun x hx => h x (by simp [hx])
    have hor : (e1 % 16) * 16 ||| e0 / 256 = (e1 % 16) * 16 + e0 / 256 := orNib _ _ (by omega)
    simp only [dec12, hor, ih hr]
    congr 1
    · omega
    · congr 1; omega

theorem ser12_allBytes (es : List Nat) (h : packable12 es) : allBytes (ser12 es) := by
  fun_induction ser12 es with
  | case1 => intro b hb; simp at hb
  | case2 e =>
    have he := h e (by simp)
    intro b hb; simp at hb; rcases hb with rfl | rfl <;> omega
  | case3 e0 e1 rest ih =>
    have h0 := h e0 (by simp); have h1 := h e1 (by simp)
    have := ih (fun x hx => h x (by simp [hx]))
    intro b hb
    simp only [List.mem_cons] at hb
    rcases hb with rfl | rfl | rfl | hb
    · omega
    · rw [orNib _ _ (by omega)]; omega
    · omega
    · exact this b hb

/-- decode then serialise: a table whose length is a multiple of 3 is reproduced byte for byte -/
theorem ser12_dec12 (bs : List Nat) (hb : allBytes bs) (h3 : bs.length % 3 = 0) :
    ser12 (dec12 bs) = bs := by
  fun_induction dec12 bs with
  | case1 b0 b1 b2 rest ih =>
    have h0 : b0 < 256 := hb b0 (by simp)
    have h1 : b1 < 256 := hb b1 (by simp)
    have h2 : b2 < 256 := hb b2 (by simp)
    have hr : allBytes rest := fun x hx => hb x (by simp [hx])
    have hor : ((b1 / 16 + 16 * b2) % 16) * 16 ||| (b0 + 256 * (b1 % 16)) / 256
        = ((b1 / 16 + 16 * b2) % 16) * 16 + (b0 + 256 * (b1 % 16)) / 256 := orNib _ _ (by omega)
    simp only [ser12, hor]
    rw [ih hr (by simp at h3; omega)]
    congr 1
    · omega
    · congr 1
      · omega
      · congr 1; omega
  | case2 b0 b1 => simp at h3
  | case3 b0 => simp at h3
  | case4 => rfl

/-- the 2-byte tail: only the unused upper nibble of the last byte is lost -/
theorem ser12_dec12_tail (b0 b1 : Nat) (h0 : b0 < 256) :
    ser12 (dec12 [b0, b1]) = [b0, b1 % 16] := by
  simp [dec12, ser12]; omega

theorem dec12_length (bs : List Nat) : (dec12 bs).length = (2 * bs.length + 1) / 3 := by
  fun_induction dec12 bs with
  | case1 b0 b1 b2 rest ih => simp [ih]; omega
  | case2 => simp
  | case3 => simp
  | case4 => simp

/-- the chunked decoder is the specification's entry formula -/
theorem dec12_eq_entry12 (bs : List Nat) (k : Nat) (hk : k < (dec12 bs).length)
    (hb : allBytes bs) : (dec12 bs)[k] = entry12 bs k := by
  fun_induction dec12 bs generalizing k with
  | case1 b0 b1 b2 rest ih =>
    have h0 : b0 < 256 := hb b0 (by simp)
    have h1 : b1 < 256 := hb b1 (by simp)
    have h2 : b2 < 256 := hb b2 (by simp)
    have hr : allBytes rest := fun x hx => hb x (by simp [hx])
    match k with
    | 0 => simp [entry12, word]; omega
    | 1 => simp [entry12, word]; omega
    | k + 2 =>
      simp only [List.length_cons] at hk
      have := ih k (by omega) hr
      simp only [List.getElem_cons_succ, this]
      unfold entry12 word
      have e : 3 * (k + 2) / 2 = 3 * k / 2 + 3 := by omega
      have em : (k + 2) % 2 = k % 2 := by omega
      rw [e, em]
      simp [List.getD_cons_succ]
  | case2 b0 b1 =>
    have h0 : b0 < 256 := hb b0 (by simp)
    have h1 : b1 < 256 := hb b1 (by simp)
    match k with
    | 0 => simp [entry12, word]; omega
  | case3 b0 =>
    have h0 : b0 < 256 := hb b0 (by simp)
    match k with
    | 0 => simp [entry12, word]; omega
  | case4 => simp at hk

/-! ### the FAT12 end-of-table control flow, closed form -/

theorem ctl_run (n : Nat) (d : Nat) :
    ∀ k f, k + d = total12 n → d < f →
      parse12Ctl n (total12 n) f k = (total12 n, total12 n) := by
  induction d with
  | zero =>
    intro k f hk hf
    obtain ⟨f', rfl⟩ : ∃ f', f = f' + 1 := ⟨f - 1, by omega⟩
    simp at hk; subst hk
    rw [parse12Ctl]; split <;> simp
  | succ d ih =>
    intro k f hk hf
    obtain ⟨f', rfl⟩ : ∃ f', f = f' + 1 := ⟨f - 1, by omega⟩
    have h1 : 3 * k < 2 * n := by unfold total12 at hk; omega
    have h2 : ¬ total12 n ≤ k := by omega
    rw [parse12Ctl]; simp only [h1, h2, if_true, if_false]
    exact ih (k + 1) f' (by omega) (by omega)

/-- **Closed form of the FAT12 parse loop**: for every table length all
    `⌊2n/3⌋` entries are kept (no AssertionError, nothing dropped). -/
theorem parse12Ctl_closed (n : Nat) :
    parse12Ctl n (total12 n) (total12 n + 2) 0 = (total12 n, total12 n) :=
  ctl_run n (total12 n) 0 (total12 n + 2) (by simp) (by omega)

/-- `_parse_fat` returns exactly the specification's entries of a FAT12 table, for every length -/
theorem parse12_closed (bs : List Nat) :
    parse12 bs = .ok ((dec12 bs).take (total12 bs.length)) := by
  unfold parse12
  simp [parse12Ctl_closed bs.length]

/-! ## FAT16 -/

theorem dec16_ser16 (es : List Nat) (h : packable16 es) : dec16 (ser16 es) = es := by
  induction es with
  | nil => rfl
  | cons e es ih =>
    have he : e < 65536 := h e (by simp)
    have hr : packable16 es := fun x hx => h x (by simp [hx])
    simp only [ser16, dec16, ih hr]
    congr 1; omega

theorem ser16_dec16 (bs : List Nat) (hb : allBytes bs) (h2 : bs.length % 2 = 0) :
    ser16 (dec16 bs) = bs := by
  fun_induction dec16 bs with
  | case1 b0 b1 rest ih =>
    have h0 : b0 < 256 := hb b0 (by simp)
    have h1 : b1 < 256 := hb b1 (by simp)
    have hr : allBytes rest := fun x hx => hb x (by simp [hx])
    simp only [ser16]
    rw [ih hr (by simp at h2; omega)]
    congr 1
    · omega
    · congr 1; omega
  | case2 bs hne =>
    match bs with
    | [] => rfl
    | [b] => simp at h2
    | b0 :: b1 :: rest => exact absurd rfl (hne b0 b1 rest)

theorem dec16_eq_entry16 (bs : List Nat) (k : Nat) (hk : k < (dec16 bs).length) :
    (dec16 bs)[k] = entry16 bs k := by
  fun_induction dec16 bs generalizing k with
  | case1 b0 b1 rest ih =>
    match k with
    | 0 => simp [entry16, word]
    | k + 1 =>
      simp only [List.length_cons] at hk
      simp only [List.getElem_cons_succ, ih k (by omega)]
      unfold entry16 word
      rw [show 2 * (k + 1) = 2 * k + 2 by omega]
      simp [List.getD_cons_succ]
  | case2 bs hne => simp [dec16] at hk

/-! ## FAT32 -/

theorem dec32_ser32 (es : List Nat) (h : ∀ e ∈ es, e < 268435456) : dec32 (ser32 es) = es := by
  induction es with
  | nil => rfl
  | cons e es ih =>
    have he : e < 268435456 := h e (by simp)
    have hr : ∀ x ∈ es, x < 268435456 := fun x hx => h x (by simp [hx])
    simp only [ser32, dec32, ih hr]
    congr 1; omega

/-- clear the reserved nibble of every 4th byte -/
def clearReserved : List Nat → List Nat
  | b0 :: b1 :: b2 :: b3 :: rest => b0 :: b1 :: b2 :: (b3 % 16) :: clearReserved rest
  | _ => []

/-- **What the code does to a FAT32 table on every flush**: the reserved upper
    four bits of each entry are cleared (fatgen103 requires them preserved). -/
theorem ser32_dec32 (bs : List Nat) (hb : allBytes bs) :
    ser32 (dec32 bs) = clearReserved bs := by
  fun_induction dec32 bs with
  | case1 b0 b1 b2 b3 rest ih =>
    have h0 : b0 < 256 := hb b0 (by simp)
    have h1 : b1 < 256 := hb b1 (by simp)
    have h2 : b2 < 256 := hb b2 (by simp)
    have h3 : b3 < 256 := hb b3 (by simp)
    have hr : allBytes rest := fun x hx => hb x (by simp [hx])
    simp only [ser32, clearReserved]
    rw [ih hr]
    congr 1
    · omega
    · congr 1
      · omega
      · congr 1
        · omega
        · congr 1; omega
  | case2 bs hne =>
    unfold clearReserved
    split
    · rename_i b0 b1 b2 b3 rest; exact absurd rfl (hne b0 b1 b2 b3 rest)
    · rfl

theorem res32_length (bs : List Nat) : (res32 bs).length = (dec32 bs).length := by
  fun_induction dec32 bs with
  | case1 b0 b1 b2 b3 rest ih => simp [res32, ih]
  | case2 bs hne =>
    unfold res32
    split
    · rename_i a b c d rest; exact absurd rfl (hne a b c d rest)
    · rfl

theorem or_hi (lo hi : Nat) (h : lo < 268435456) : lo ||| hi * 268435456 = lo + hi * 268435456 := by
  have := Nat.shiftLeft_add_eq_or_of_lt (show lo < 2 ^ 28 from h) hi
  rw [Nat.shiftLeft_eq, show (2 : Nat) ^ 28 = 268435456 from rfl] at this
  rw [Nat.or_comm]; omega

/-- **FAT32 parse → serialise is the identity on the whole table** (every length
    that is a multiple of 4), reserved bits included. -/
theorem ser32r_parse32 (bs : List Nat) (hb : allBytes bs) (h4 : bs.length % 4 = 0) :
    ser32 (orList (dec32 bs) (res32 bs)) = bs := by
  fun_induction dec32 bs with
  | case1 b0 b1 b2 b3 rest ih =>
    have h0 : b0 < 256 := hb b0 (by simp)
    have h1 : b1 < 256 := hb b1 (by simp)
    have h2 : b2 < 256 := hb b2 (by simp)
    have h3 : b3 < 256 := hb b3 (by simp)
    have hr : allBytes rest := fun x hx => hb x (by simp [hx])
    simp only [res32, orList, ser32]
    rw [or_hi _ _ (by omega), ih hr (by simp at h4; omega)]
    congr 1
    · omega
    · congr 1
      · omega
      · congr 1
        · omega
        · congr 1; omega
  | case2 bs hne =>
    match bs with
    | [] => rfl
    | [_] => simp at h4
    | [_, _] => simp at h4
    | [_, _, _] => simp at h4
    | a :: b :: c :: d :: rest => exact absurd rfl (hne a b c d rest)

theorem ser32r_parse32' (bs : List Nat) (hb : allBytes bs) (h4 : bs.length % 4 = 0) :
    ser32r (parse32 bs) (parse32Reserved bs) = bs := by
  unfold ser32r parse32 parse32Reserved
  rw [if_pos (res32_length bs)]
  exact ser32r_parse32 bs hb h4

theorem dec32_eq_entry32 (bs : List Nat) (k : Nat) (hk : k < (dec32 bs).length)
    (hb : allBytes bs) : (dec32 bs)[k] = entry32 bs k := by
  fun_induction dec32 bs generalizing k with
  | case1 b0 b1 b2 b3 rest ih =>
    have h0 : b0 < 256 := hb b0 (by simp)
    have h1 : b1 < 256 := hb b1 (by simp)
    have h2 : b2 < 256 := hb b2 (by simp)
    have h3 : b3 < 256 := hb b3 (by simp)
    have hr : allBytes rest := fun x hx => hb x (by simp [hx])
    match k with
    | 0 => simp [entry32, word]; omega
    | k + 1 =>
      simp only [List.length_cons] at hk
      simp only [List.getElem_cons_succ, ih k (by omega) hr]
      unfold entry32 word
      rw [show 4 * (k + 1) = 4 * k + 4 by omega, show 4 * k + 4 + 2 = 4 * k + 2 + 4 by omega,
          show 4 * k + 4 + 1 = 4 * k + 1 + 4 by omega, show 4 * k + 2 + 4 + 1 = 4 * k + 3 + 4 by omega]
      simp [List.getD_cons_succ]
  | case2 bs hne => simp [dec32] at hk

end Proofs.FatTable
