import PyFatModel.Model.Crash
import PyFatModel.Proofs.FatMachine
import PyFatModel.Proofs.FatTable
import PyFatModel.Proofs.Geom

open Model.Crash Model.FatTable Model.Bytes Model.Geom

namespace Proofs.Crash

/-! ## where the bytes of a crash image come from -/

theorem apply_not_covered (img : Img) (w : Write) (a : Nat) (h : ¬ w.covers a) : apply img w a = img a := by
  simp [apply, h]

theorem apply_covered (img : Img) (w : Write) (a : Nat) (h : w.covers a) :
    apply img w a = w.data.getD (a - w.pos) 0 := by
  simp [apply, h]

/-- every byte after a sequence of writes is the old byte or the byte some write put there -/
theorem applyAll_source (ws : List Write) : ∀ (img : Img) (a : Nat),
    applyAll img ws a = img a ∨ ∃ w ∈ ws, w.covers a ∧ applyAll img ws a = w.data.getD (a - w.pos) 0 := by
  induction ws with
  | nil => intro img a; left; rfl
  | cons w ws ih =>
    intro img a
    have h := ih (apply img w) a
    simp only [applyAll, List.foldl_cons] at h ⊢
    rcases h with h | ⟨w', hw', hc, hv⟩
    · by_cases hc : w.covers a
      · right; exact ⟨w, by simp, hc, by rw [h, apply_covered _ _ _ hc]⟩
      · left; rw [h, apply_not_covered _ _ _ hc]
    · right; exact ⟨w', by simp [hw'], hc, hv⟩

theorem torn_covers (w : Write) (j a : Nat) (h : (torn w j).covers a) :
    w.covers a ∧ (torn w j).data.getD (a - (torn w j).pos) 0 = w.data.getD (a - w.pos) 0 := by
  unfold Write.covers torn at *
  simp only [List.length_take] at h
  refine ⟨⟨h.1, by omega⟩, ?_⟩
  simp only
  have hlt : a - w.pos < min j w.data.length := by omega
  rw [List.getD_eq_getElem?_getD, List.getD_eq_getElem?_getD, List.getElem?_take]
  have : a - w.pos < j := by omega
  simp [this]

/-- **Every byte of every crash image** (any number of complete writes, any number of
    bytes of the next one) is the durable byte or a byte one of the operation's writes
    puts at that address. -/
theorem crash_source (base : Img) (ws : List Write) (k j a : Nat) :
    crash base ws k j a = base a ∨
    ∃ w ∈ ws, w.covers a ∧ crash base ws k j a = w.data.getD (a - w.pos) 0 := by
  unfold crash
  have sub : ∀ w, w ∈ ws.take k → w ∈ ws := fun w h => List.mem_of_mem_take h
  cases hd : ws[k]? with
  | none =>
    simp only
    rcases applyAll_source (ws.take k) base a with h | ⟨w, hw, hc, hv⟩
    · left; exact h
    · right; exact ⟨w, sub w hw, hc, hv⟩
  | some w =>
    simp only
    have hwmem : w ∈ ws := List.mem_of_getElem? hd
    by_cases hc : (torn w j).covers a
    · right
      obtain ⟨hc', hv⟩ := torn_covers w j a hc
      exact ⟨w, hwmem, hc', by rw [apply_covered _ _ _ hc, hv]⟩
    · rw [apply_not_covered _ _ _ hc]
      rcases applyAll_source (ws.take k) base a with h | ⟨w', hw', hc', hv⟩
      · left; exact h
      · right; exact ⟨w', sub w' hw', hc', hv⟩

/-- an address no write of the operation covers keeps its durable byte in every crash image -/
theorem crash_outside (base : Img) (ws : List Write) (k j a : Nat) (h : ∀ w ∈ ws, ¬ w.covers a) :
    crash base ws k j a = base a := by
  rcases crash_source base ws k j a with h' | ⟨w, hw, hc, _⟩
  · exact h'
  · exact absurd hc (h w hw)

theorem region_length (img : Img) (off n : Nat) : (region img off n).length = n := by simp [region]

theorem region_getD (img : Img) (off n i : Nat) (h : i < n) : (region img off n).getD i 0 = img (off + i) := by
  simp [region, List.getD_eq_getElem?_getD, h]

theorem region_getD_ge (img : Img) (off n i : Nat) (h : n ≤ i) : (region img off n).getD i 0 = 0 := by
  simp [region, List.getD_eq_getElem?_getD, h]

/-- a region no write touches is byte-identical in every crash image -/
theorem region_crash_outside (base : Img) (ws : List Write) (k j lo n : Nat) (h : ∀ w ∈ ws, w.misses lo n) :
    region (crash base ws k j) lo n = region base lo n := by
  unfold region
  apply List.map_congr_left
  intro i hi
  simp only [List.mem_range] at hi
  apply crash_outside
  intro w hw hc
  have := h w hw
  unfold Write.misses at this
  unfold Write.covers at hc
  omega

/-! ## a FAT region torn between several serialised tables -/

/-- byte list `m` takes each of its bytes from one of `srcs`, at the same index -/
def Mix (m : List Nat) (srcs : List (List Nat)) : Prop := ∀ i, ∃ s ∈ srcs, m.getD i 0 = s.getD i 0

theorem getD_lt_of_allBytes (s : List Nat) (h : allBytes s) (i : Nat) : s.getD i 0 < 256 := by
  rw [List.getD_eq_getElem?_getD]
  cases hs : s[i]? with
  | none => simp
  | some x => simp; exact h x (List.mem_of_getElem? hs)

/-- **FAT12**: if every table that was ever written (and the durable one) holds `v` for
    cluster `k`, so does any byte-wise mixture of them — wherever the write was cut. -/
theorem entry12_mix (m : List Nat) (srcs : List (List Nat)) (k v : Nat)
    (hb : ∀ s ∈ srcs, allBytes s) (hmix : Mix m srcs) (hv : ∀ s ∈ srcs, entry12 s k = v) :
    entry12 m k = v := by
  obtain ⟨s0, hs0, e0⟩ := hmix (3 * k / 2)
  obtain ⟨s1, hs1, e1⟩ := hmix (3 * k / 2 + 1)
  have v0 := hv s0 hs0
  have v1 := hv s1 hs1
  have b00 := getD_lt_of_allBytes s0 (hb s0 hs0) (3 * k / 2)
  have b01 := getD_lt_of_allBytes s0 (hb s0 hs0) (3 * k / 2 + 1)
  have b10 := getD_lt_of_allBytes s1 (hb s1 hs1) (3 * k / 2)
  have b11 := getD_lt_of_allBytes s1 (hb s1 hs1) (3 * k / 2 + 1)
  unfold entry12 word at *
  rw [e0, e1]
  split at v0 <;> rename_i hk <;> simp only [hk, ↓reduceIte] at v1 ⊢ <;> omega

theorem entry16_mix (m : List Nat) (srcs : List (List Nat)) (k v : Nat)
    (hb : ∀ s ∈ srcs, allBytes s) (hmix : Mix m srcs) (hv : ∀ s ∈ srcs, entry16 s k = v) :
    entry16 m k = v := by
  obtain ⟨s0, hs0, e0⟩ := hmix (2 * k)
  obtain ⟨s1, hs1, e1⟩ := hmix (2 * k + 1)
  have v0 := hv s0 hs0
  have v1 := hv s1 hs1
  have b00 := getD_lt_of_allBytes s0 (hb s0 hs0) (2 * k)
  have b01 := getD_lt_of_allBytes s0 (hb s0 hs0) (2 * k + 1)
  have b10 := getD_lt_of_allBytes s1 (hb s1 hs1) (2 * k)
  have b11 := getD_lt_of_allBytes s1 (hb s1 hs1) (2 * k + 1)
  unfold entry16 word at *
  rw [e0, e1]
  omega

theorem entry32_mix (m : List Nat) (srcs : List (List Nat)) (k v : Nat)
    (hb : ∀ s ∈ srcs, allBytes s) (hmix : Mix m srcs) (hv : ∀ s ∈ srcs, entry32 s k = v) :
    entry32 m k = v := by
  obtain ⟨s0, hs0, e0⟩ := hmix (4 * k)
  obtain ⟨s1, hs1, e1⟩ := hmix (4 * k + 1)
  obtain ⟨s2, hs2, e2⟩ := hmix (4 * k + 2)
  obtain ⟨s3, hs3, e3⟩ := hmix (4 * k + 2 + 1)
  have v0 := hv s0 hs0
  have v1 := hv s1 hs1
  have v2 := hv s2 hs2
  have v3 := hv s3 hs3
  have b00 := getD_lt_of_allBytes s0 (hb s0 hs0) (4 * k)
  have b01 := getD_lt_of_allBytes s0 (hb s0 hs0) (4 * k + 1)
  have b02 := getD_lt_of_allBytes s0 (hb s0 hs0) (4 * k + 2)
  have b03 := getD_lt_of_allBytes s0 (hb s0 hs0) (4 * k + 2 + 1)
  have b10 := getD_lt_of_allBytes s1 (hb s1 hs1) (4 * k)
  have b11 := getD_lt_of_allBytes s1 (hb s1 hs1) (4 * k + 1)
  have b12 := getD_lt_of_allBytes s1 (hb s1 hs1) (4 * k + 2)
  have b13 := getD_lt_of_allBytes s1 (hb s1 hs1) (4 * k + 2 + 1)
  have b20 := getD_lt_of_allBytes s2 (hb s2 hs2) (4 * k)
  have b21 := getD_lt_of_allBytes s2 (hb s2 hs2) (4 * k + 1)
  have b22 := getD_lt_of_allBytes s2 (hb s2 hs2) (4 * k + 2)
  have b23 := getD_lt_of_allBytes s2 (hb s2 hs2) (4 * k + 2 + 1)
  have b30 := getD_lt_of_allBytes s3 (hb s3 hs3) (4 * k)
  have b31 := getD_lt_of_allBytes s3 (hb s3 hs3) (4 * k + 1)
  have b32 := getD_lt_of_allBytes s3 (hb s3 hs3) (4 * k + 2)
  have b33 := getD_lt_of_allBytes s3 (hb s3 hs3) (4 * k + 2 + 1)
  unfold entry32 word at *
  rw [e0, e1, e2, e3]
  omega

/-- how the writes of an operation relate to FAT copy `[fo, fo+n)` and cluster `k`'s entry:
    a write either misses the copy, or it is a whole-table write (from the start of the
    copy) whose table holds `v` for cluster `k` -/
def FatWriteOK (entry : List Nat → Nat → Nat) (fo n k v : Nat) (w : Write) : Prop :=
  w.misses fo n ∨ (w.pos = fo ∧ allBytes w.data ∧ entry w.data k = v)

/-- the FAT copy of any crash image is a mixture of the durable copy and the tables written -/
theorem fat_region_mix (entry : List Nat → Nat → Nat) (base : Img) (ws : List Write) (fo n k v : Nat)
    (hw : ∀ w ∈ ws, FatWriteOK entry fo n k v w) (kk j : Nat) :
    Mix (region (crash base ws kk j) fo n)
      (region base fo n :: (ws.filter (fun w => decide (w.pos = fo ∧ w.data ≠ []))).map (·.data)) := by
  intro i
  by_cases hi : i < n
  · rw [region_getD _ _ _ _ hi]
    rcases crash_source base ws kk j (fo + i) with h | ⟨w, hwm, hc, hval⟩
    · exact ⟨region base fo n, by simp, by rw [h, region_getD _ _ _ _ hi]⟩
    · rcases hw w hwm with hm | ⟨hp, _, _⟩
      · unfold Write.misses at hm; unfold Write.covers at hc; omega
      · refine ⟨w.data, ?_, ?_⟩
        · simp only [List.mem_cons, List.mem_map, List.mem_filter, decide_eq_true_eq]
          right
          refine ⟨w, ⟨hwm, hp, ?_⟩, rfl⟩
          intro hnil
          unfold Write.covers at hc
          simp [hnil] at hc
          omega
        · rw [hval, hp]; congr 1; omega
  · refine ⟨region base fo n, by simp, ?_⟩
    rw [region_getD_ge _ _ _ _ (by omega), region_getD_ge _ _ _ _ (by omega)]

theorem fat_entry_crash (entry : List Nat → Nat → Nat)
    (mixThm : ∀ (m : List Nat) (srcs : List (List Nat)) (k v : Nat),
      (∀ s ∈ srcs, allBytes s) → Mix m srcs → (∀ s ∈ srcs, entry s k = v) → entry m k = v)
    (base : Img) (ws : List Write) (fo n k v : Nat) (hn : 0 < n)
    (hbase : allBytes (region base fo n)) (hk : entry (region base fo n) k = v)
    (hw : ∀ w ∈ ws, FatWriteOK entry fo n k v w) (kk j : Nat) :
    entry (region (crash base ws kk j) fo n) k = v := by
  have key : ∀ s ∈ region base fo n :: (ws.filter (fun w => decide (w.pos = fo ∧ w.data ≠ []))).map (·.data),
      allBytes s ∧ entry s k = v := by
    intro s hs
    simp only [List.mem_cons, List.mem_map, List.mem_filter, decide_eq_true_eq] at hs
    rcases hs with rfl | ⟨w, ⟨hwm, hp, hne⟩, rfl⟩
    · exact ⟨hbase, hk⟩
    · rcases hw w hwm with hm | ⟨_, hb, he⟩
      · unfold Write.misses at hm
        have : 0 < w.data.length := List.length_pos_iff.mpr hne
        omega
      · exact ⟨hb, he⟩
  exact mixThm _ _ k v (fun s hs => (key s hs).1) (fat_region_mix entry base ws fo n k v hw kk j)
    (fun s hs => (key s hs).2)

/-! ## which FAT entries an operation can change -/

open Model.Alloc Model.FatMachine Proofs.FatRep Proofs.Alloc Proofs.FatMachine

/-- the chains a FAT operation does not address (everything but its target) -/
def untouched (s : St) : Op → List (List Nat)
  | .allocNew _ => s.chains
  | .extend k _ => match pick k s.chains with | some (_, rest) => rest | none => s.chains
  | .freeChain k => match pick k s.chains with | some (_, rest) => rest | none => s.chains
  | .truncate k _ => match pick k s.chains with | some (_, rest) => rest | none => s.chains

theorem disjoint_of_head {p : Params} {count : Nat} {fat : List Nat} {c : List Nat} {rest : List (List Nat)}
    (inv : FatRep p count fat (c :: rest)) (cs : List Nat) (hcs : cs ∈ rest) (x : Nat) (hx : x ∈ cs) : x ∉ c := by
  have hd := inv.disjoint
  simp only [List.flatten_cons] at hd
  rw [List.nodup_append] at hd
  intro hxc
  exact hd.2.2 x hxc x (List.mem_flatten.mpr ⟨cs, hcs, hx⟩) rfl

/-- **Frame of one FAT operation**: every chain other than the operation's target is still
    a chain afterwards and none of its FAT entries changed — the allocator hands out only
    clusters no chain owns, release and truncation touch only the target's clusters. -/
theorem step_frame {p : Params} (hp : ParamsOK p) {count bound : Nat} (hb : bound ≤ count + 2)
    (s s' : St) (op : Op) (inv : FatRep p count s.fat s.chains) (h : step p bound s op = some s') :
    ∀ cs ∈ untouched s op, cs ∈ s'.chains ∧ ∀ x ∈ cs, s'.fat.getD x 0 = s.fat.getD x 0 := by
  intro cs hcs
  cases op with
  | allocNew n =>
    simp only [untouched] at hcs
    simp only [step] at h
    split at h
    · simp at h
    · rename_i hn
      simp only [Option.map_eq_some_iff] at h
      obtain ⟨r, hr, rfl⟩ := h
      have inv' := (allocate_preserves hp inv s.hint bound n hb (by omega) r hr).1
      refine ⟨by simp [hcs], fun x hx => ?_⟩
      have hnot : x ∉ r.clusters := disjoint_of_head inv' cs hcs x hx
      simp only
      unfold allocate at hr
      split at hr
      · simp at hr
      · simp only [Option.some.injEq] at hr; subst hr
        exact link_frame _ _ _ _ hnot
  | extend k n =>
    simp only [step] at h
    split at h
    · simp at h
    · rename_i hn
      split at h
      · simp at h
      · rename_i c rest hpick
        simp only [untouched, hpick] at hcs
        have invp : FatRep p count s.fat (c :: rest) := fatRep_perm (pick_perm k s.chains c rest hpick) inv
        split at h
        · rename_i l r hl hr
          split at h
          · rename_i hd hhd
            simp only [Option.some.injEq] at h; subst h
            have inv' := (allocate_preserves hp invp s.hint bound n hb (by omega) r hr).1
            refine ⟨by simp [hcs], fun x hx => ?_⟩
            have hnotc : x ∉ c := disjoint_of_head invp cs hcs x hx
            have hnotr : x ∉ r.clusters := disjoint_of_head inv' cs (by simp [hcs]) x hx
            have hxl : x ≠ l := fun e => hnotc (e ▸ List.mem_of_getLast? hl)
            simp only
            rw [getD_set_ne _ _ _ _ hxl]
            unfold allocate at hr
            split at hr
            · simp at hr
            · simp only [Option.some.injEq] at hr; subst hr
              exact link_frame _ _ _ _ hnotr
          · simp at h
        · simp at h
  | freeChain k =>
    simp only [step] at h
    split at h
    · simp at h
    · rename_i c rest hpick
      simp only [untouched, hpick] at hcs
      have invp : FatRep p count s.fat (c :: rest) := fatRep_perm (pick_perm k s.chains c rest hpick) inv
      simp only [Option.some.injEq] at h; subst h
      exact ⟨hcs, fun x hx => freeList_frame _ _ _ _ (disjoint_of_head invp cs hcs x hx)⟩
  | truncate k keep =>
    simp only [step] at h
    split at h
    · simp at h
    · rename_i c rest hpick
      simp only [untouched, hpick] at hcs
      have invp : FatRep p count s.fat (c :: rest) := fatRep_perm (pick_perm k s.chains c rest hpick) inv
      split at h
      · simp at h
      · split at h
        · rename_i l hl
          simp only [Option.some.injEq] at h; subst h
          refine ⟨by simp [hcs], fun x hx => ?_⟩
          have hnotc : x ∉ c := disjoint_of_head invp cs hcs x hx
          have hxl : x ≠ l := fun e => hnotc (e ▸ List.mem_of_mem_take (List.mem_of_getLast? hl))
          simp only
          rw [getD_set_ne _ _ _ _ hxl]
          exact freeList_frame _ _ _ _ (fun hm => hnotc (List.mem_of_mem_drop hm))
        · simp at h

/-- the states an operation sequence passes through (each may be flushed to the device) -/
def states (p : Params) (bound : Nat) : St → List Op → List St
  | s, [] => [s]
  | s, op :: ops => s :: states p bound (stepOrStay p bound s op) ops

/-- `cs` is never the target: it is among the untouched chains at every step -/
def Spared (p : Params) (bound : Nat) (cs : List Nat) : St → List Op → Prop
  | _, [] => True
  | s, op :: ops => (step p bound s op ≠ none → cs ∈ untouched s op) ∧ Spared p bound cs (stepOrStay p bound s op) ops

/-- **Every table an operation sequence may flush agrees with the durable table on a
    spared chain**, and the chain stays a chain of every intermediate state. -/
theorem run_frame {p : Params} (hp : ParamsOK p) {count bound : Nat} (hb : bound ≤ count + 2)
    (cs : List Nat) : ∀ (ops : List Op) (s : St), FatRep p count s.fat s.chains → cs ∈ s.chains →
    Spared p bound cs s ops →
    ∀ t ∈ states p bound s ops, cs ∈ t.chains ∧ FatRep p count t.fat t.chains ∧
      ∀ x ∈ cs, t.fat.getD x 0 = s.fat.getD x 0 := by
  intro ops
  induction ops with
  | nil => intro s inv hm _ t ht; simp [states] at ht; subst ht; exact ⟨hm, inv, fun _ _ => rfl⟩
  | cons op ops ih =>
    intro s inv hm hsp t ht
    simp only [states, List.mem_cons] at ht
    rcases ht with rfl | ht
    · exact ⟨hm, inv, fun _ _ => rfl⟩
    · simp only [Spared] at hsp
      cases hstep : step p bound s op with
      | none =>
        have e : stepOrStay p bound s op = s := by simp [stepOrStay, hstep]
        rw [e] at ht hsp
        exact ih s inv hm hsp.2 t ht
      | some s' =>
        have e : stepOrStay p bound s op = s' := by simp [stepOrStay, hstep]
        rw [e] at ht hsp
        have hun := hsp.1 (by simp [hstep])
        obtain ⟨hm', hsame⟩ := step_frame hp hb s s' op inv hstep cs hun
        have inv' := step_preserves hp hb s s' op inv hstep
        obtain ⟨a, b, c⟩ := ih s' inv' hm' hsp.2 t ht
        exact ⟨a, b, fun x hx => by rw [c x hx, hsame x hx]⟩

/-! ## data clusters -/

theorem cluster_ranges_disjoint (b : Bpb) (v : b.Valid) (c d : Nat) (hc : 2 ≤ c) (hd : 2 ≤ d) (hne : c ≠ d) :
    b.clusterOffset c + b.bytesPerCluster ≤ b.clusterOffset d ∨
    b.clusterOffset d + b.bytesPerCluster ≤ b.clusterOffset c := by
  rcases Nat.lt_or_gt_of_ne hne with h | h
  · left; exact Proofs.Geom.cluster_disjoint b v c d hc h
  · right; exact Proofs.Geom.cluster_disjoint b v d c hd h

/-- a write that stays inside cluster `d` misses every other cluster -/
theorem within_cluster_misses (b : Bpb) (v : b.Valid) (w : Write) (c d : Nat) (hc : 2 ≤ c) (hd : 2 ≤ d)
    (hne : c ≠ d) (hw : w.within (b.clusterOffset d) b.bytesPerCluster) :
    w.misses (b.clusterOffset c) b.bytesPerCluster := by
  unfold Write.within at hw
  unfold Write.misses
  rcases cluster_ranges_disjoint b v c d hc hd hne with h | h <;> omega

/-- the first FAT copy, the other copies, the reserved sectors and the fixed root area all
    end before the first data cluster begins -/
theorem before_data_misses_cluster (b : Bpb) (v : b.Valid) (w : Write) (c : Nat) (hc : 2 ≤ c)
    (hw : w.pos + w.data.length ≤ b.firstDataSector * b.bps) :
    w.misses (b.clusterOffset c) b.bytesPerCluster := by
  unfold Write.misses
  left
  have : b.firstDataSector * b.bps ≤ b.clusterOffset c := by
    unfold Bpb.clusterOffset
    apply Nat.mul_le_mul_right
    omega
  omega

theorem chainBytes_crash (b : Bpb) (base : Img) (ws : List Write) (cs : List Nat) (k j : Nat)
    (h : ∀ c ∈ cs, ∀ w ∈ ws, w.misses (b.clusterOffset c) b.bytesPerCluster) :
    chainBytes (crash base ws k j) b cs = chainBytes base b cs := by
  unfold chainBytes
  congr 1
  apply List.map_congr_left
  intro c hc
  exact region_crash_outside base ws k j _ _ (h c hc)

/-! ## the chain is still found -/

theorem tableOf_length (entry : List Nat → Nat → Nat) (bs : List Nat) (len : Nat) :
    (tableOf entry bs len).length = len := by simp [tableOf]

theorem tableOf_getD (entry : List Nat → Nat → Nat) (bs : List Nat) (len k : Nat) (h : k < len) :
    (tableOf entry bs len).getD k 0 = entry bs k := by
  simp [tableOf, List.getD_eq_getElem?_getD, h]

/-- a chain whose entries are the same in another table of the same length is followed
    to the same cluster list there -/
theorem chain_survives {p : Params} (hp : ParamsOK p) (fat fat' cs : List Nat) (c : Nat) (rest : List Nat)
    (h : IsChain p fat cs) (hcs : cs = c :: rest) (hlen : fat'.length = fat.length)
    (hsame : ∀ x ∈ cs, fat'.getD x 0 = fat.getD x 0) :
    chainOf p fat' c = .ok cs :=
  free_follows_chain hp c rest (isChain_frame h hlen hsame) hcs

/-! ## path resolution -/

theorem resolve_congr {Name : Type} (rd rd' : Nat → Option (List Nat)) (lookup : List Nat → Name → Option Found) :
    ∀ (path : List Name) (dir : Nat), (∀ d ∈ visited rd lookup dir path, rd' d = rd d) →
      resolve rd' lookup dir path = resolve rd lookup dir path := by
  intro path
  induction path with
  | nil => intro dir _; rfl
  | cons n rest ih =>
    intro dir h
    cases rest with
    | nil =>
      simp only [visited, List.mem_singleton, forall_eq] at h
      simp only [resolve, h]
    | cons m rest' =>
      have hd : rd' dir = rd dir := h dir (by simp [visited])
      simp only [resolve, hd]
      cases hf : (rd dir).bind (fun bs => lookup bs n) with
      | none => rfl
      | some f =>
        simp only
        by_cases hdir : f.isDir = true
        · simp only [hdir, ↓reduceIte]
          apply ih
          intro d hdm
          apply h
          simp only [visited, hf, hdir, ↓reduceIte, List.mem_cons]
          right; exact hdm
        · simp [hdir]

end Proofs.Crash
