/-
`FatIO.__write` refines the byte buffer: writing `bs` at position `pos ≤ size`
through the cursor (read-modify-write of the current cluster, cluster-sized
chunks after it, a shorter last chunk leaving the rest of its cluster alone)
replaces exactly the bytes `[pos, pos + |bs|)` of the concatenated clusters —
hence the file's content afterwards is what a byte buffer holds after the same
write, whatever the new clusters contained before.
-/
import PyFatModel.Proofs.FatIO

open Model.FatIO

namespace Proofs.FatIOWrite
open Proofs.FatIO

theorem take_clusters (bpc : Nat) : ∀ (k : Nat) (l : List (List Nat)), Uniform bpc l →
    (l.take k).flatten = l.flatten.take (k * bpc) := by
  intro k
  induction k with
  | zero => intro l _; simp
  | succ k ih =>
    intro l hl
    cases l with
    | nil => simp
    | cons c rest =>
      have hc : c.length = bpc := hl c (by simp)
      simp only [List.take_succ_cons, List.flatten_cons]
      rw [ih rest (fun x hx => hl x (by simp [hx])), List.take_append]
      have h1 : c.take ((k + 1) * bpc) = c := List.take_of_length_le (by rw [hc, Nat.add_mul]; omega)
      have h2 : (k + 1) * bpc - c.length = k * bpc := by rw [hc, Nat.add_mul]; omega
      rw [h1, h2]

/-- overwriting cluster by cluster replaces a prefix of the concatenation -/
theorem overwrite_flat (bpc : Nat) (hb : 0 < bpc) : ∀ (cs : List (List Nat)) (data : List Nat), Uniform bpc cs →
    data.length ≤ cs.length * bpc → (overwrite bpc cs data).flatten = data ++ cs.flatten.drop data.length := by
  intro cs
  induction cs with
  | nil => intro data _ h; simp at h; simp [overwrite, h]
  | cons c rest ih =>
    intro data hu hlen
    have hc : c.length = bpc := hu c (by simp)
    have hur : Uniform bpc rest := fun x hx => hu x (by simp [hx])
    simp only [overwrite]
    split
    · rename_i he
      have : data = [] := by simpa using he
      subst this; simp
    · rename_i hne
      simp only [List.flatten_cons]
      rcases Nat.lt_or_ge data.length bpc with hlt | hge
      · -- the data ends inside this cluster
        have h1 : data.take bpc = data := List.take_of_length_le (by omega)
        have h2 : data.drop bpc = [] := List.drop_of_length_le (by omega)
        have h3 : min bpc data.length = data.length := by omega
        rw [h1, h2, h3]
        have hr : (overwrite bpc rest []).flatten = rest.flatten := by
          cases rest with
          | nil => simp [overwrite]
          | cons d ds => simp [overwrite]
        rw [hr, List.drop_append_of_le_length (by omega)]
        simp
      · have h3 : min bpc data.length = bpc := by omega
        have h4 : c.drop bpc = [] := List.drop_of_length_le (by omega)
        rw [h3, h4, List.append_nil]
        have hl2 : (data.drop bpc).length ≤ rest.length * bpc := by
          simp only [List.length_drop, List.length_cons, Nat.add_mul, Nat.one_mul] at hlen ⊢
          omega
        rw [ih (data.drop bpc) hur hl2]
        rw [← List.append_assoc, List.take_append_drop]
        congr 1
        rw [List.drop_append]
        have h5 : c.drop data.length = [] := List.drop_of_length_le (by omega)
        rw [h5, List.nil_append, hc, List.length_drop]

/-- **the write replaces exactly the bytes `[pos, pos + |bs|)`** of the concatenated clusters -/
theorem writeClusters_flat (bpc : Nat) (hb : 0 < bpc) (cs : List (List Nat)) (hu : Uniform bpc cs)
    (filesize pos : Nat) (bs : List Nat) (hpos : pos ≤ filesize) (hsz : filesize ≤ cs.length * bpc)
    (hroom : pos + bs.length ≤ cs.length * bpc) :
    (writeClusters bpc cs filesize pos bs).flatten = cs.flatten.take pos ++ bs ++ cs.flatten.drop (pos + bs.length) := by
  obtain ⟨_, hco, haddr⟩ := seekCursor_addresses bpc hb cs hu filesize pos hpos hsz
  unfold writeClusters
  simp only
  generalize hcur : seekCursor bpc filesize pos = cur at hco haddr
  have hflat := flatten_length_uniform bpc cs hu
  -- the cursor addresses `pos`: ci * bpc + co = pos
  have hsum : cur.cindex * bpc + cur.coffpos = pos := by
    have h1 : ((cs.drop cur.cindex).flatten.drop cur.coffpos).length = (cs.flatten.drop pos).length := by rw [haddr]
    rw [drop_clusters bpc cur.cindex cs hu] at h1
    simp only [List.length_drop, hflat] at h1
    -- both sides are `total - offset`; the offsets agree unless both run past the end
    have hdm := Nat.div_add_mod pos bpc
    rw [← hcur]
    simp only [seekCursor, Nat.min_eq_left hpos]
    rw [Nat.mul_comm] at hdm
    split
    · rename_i h
      obtain ⟨_, hp, hz⟩ := h
      simp only
      have hq : 1 ≤ pos / bpc := by
        rcases Nat.eq_zero_or_pos (pos / bpc) with h0 | h0
        · rw [h0] at hdm; omega
        · exact h0
      have : (pos / bpc - 1) * bpc + bpc = pos / bpc * bpc := by
        rw [Nat.sub_mul, Nat.one_mul]
        have : bpc ≤ pos / bpc * bpc := by
          calc bpc = 1 * bpc := (Nat.one_mul _).symm
            _ ≤ pos / bpc * bpc := Nat.mul_le_mul_right _ hq
        omega
      omega
    · simp only; exact hdm
  have hul : Uniform bpc (cs.drop cur.cindex) := fun x hx => hu x (List.mem_of_mem_drop hx)
  have hG : (cs.drop cur.cindex).flatten = cs.flatten.drop (cur.cindex * bpc) := drop_clusters bpc _ cs hu
  -- the payload is the bytes of the current cluster before the position, then the new bytes
  have hpay : writePayload (cs.getD cur.cindex []) cur.coffpos bs = (cs.flatten.drop (cur.cindex * bpc)).take cur.coffpos ++ bs := by
    unfold writePayload
    split
    · congr 1
      cases hd : cs.drop cur.cindex with
      | nil =>
        have : cs.length ≤ cur.cindex := by
          have := congrArg List.length hd
          simp only [List.length_drop, List.length_nil] at this
          omega
        rw [List.getD_eq_getElem?_getD, List.getElem?_eq_none this]
        rw [← hG, hd]; simp
      | cons c rest =>
        have hget : cs.getD cur.cindex [] = c := by
          have : cs[cur.cindex]? = some c := by
            have h1 := List.getElem?_drop (xs := cs) (i := cur.cindex) (j := 0)
            rw [hd] at h1; simpa using h1.symm
          rw [List.getD_eq_getElem?_getD, this]; rfl
        have hc : c.length = bpc := hul c (by rw [hd]; simp)
        rw [hget, ← hG, hd, List.flatten_cons, List.take_append_of_le_length (by omega)]
    · rename_i h0
      have : cur.coffpos = 0 := by omega
      simp [this]
  have hlenp : (writePayload (cs.getD cur.cindex []) cur.coffpos bs).length ≤ (cs.drop cur.cindex).length * bpc := by
    rw [hpay, List.length_append, List.length_take, List.length_drop, List.length_drop, hflat]
    have : (cs.length - cur.cindex) * bpc + cur.cindex * bpc = cs.length * bpc ∨ cs.length < cur.cindex := by
      rcases Nat.lt_or_ge cs.length cur.cindex with h | h
      · exact Or.inr h
      · left; rw [← Nat.add_mul, Nat.sub_add_cancel h]
    rcases this with h | h
    · omega
    · exfalso
      have : cs.length * bpc < cur.cindex * bpc := Nat.mul_lt_mul_of_pos_right h hb
      omega
  rw [List.flatten_append, take_clusters bpc _ cs hu, overwrite_flat bpc hb _ _ hul hlenp, hG, hpay]
  -- list algebra on F = cs.flatten
  generalize cs.flatten = F at *
  have hco' : cur.coffpos ≤ (F.drop (cur.cindex * bpc)).length := by
    rw [List.length_drop, hflat]
    have : cur.cindex * bpc + cur.coffpos ≤ cs.length * bpc := by omega
    omega
  rw [List.length_append, List.length_take, Nat.min_eq_left hco', List.drop_drop]
  have e1 : F.take (cur.cindex * bpc) ++ ((F.drop (cur.cindex * bpc)).take cur.coffpos ++ bs) =
      F.take pos ++ bs := by
    rw [← List.append_assoc]
    congr 1
    rw [← hsum, List.take_add]
  rw [← List.append_assoc, e1]
  congr 2
  omega

/-- **`write` refines the byte buffer**: the content of the file (the first `size'` bytes of its clusters)
    after the write is the content before with `bs` written at `pos` -/
theorem write_refines (bpc : Nat) (hb : 0 < bpc) (cs : List (List Nat)) (hu : Uniform bpc cs)
    (filesize pos : Nat) (bs : List Nat) (hpos : pos ≤ filesize) (hsz : filesize ≤ cs.length * bpc)
    (hroom : pos + bs.length ≤ cs.length * bpc) :
    (writeClusters bpc cs filesize pos bs).flatten.take (max filesize (pos + bs.length)) =
      ((⟨cs.flatten.take filesize, pos⟩ : Buf).write bs).data := by
  rw [writeClusters_flat bpc hb cs hu filesize pos bs hpos hsz hroom]
  simp only [Buf.write]
  have hflat := flatten_length_uniform bpc cs hu
  generalize cs.flatten = F at *
  have hFl : filesize ≤ F.length := by omega
  have h1 : (F.take filesize).take pos = F.take pos := by rw [List.take_take, Nat.min_eq_left hpos]
  rw [h1]
  have hl1 : (F.take pos).length = pos := by rw [List.length_take]; omega
  rw [List.append_assoc, List.take_append, hl1]
  have ht : (F.take pos).take (max filesize (pos + bs.length)) = F.take pos := by
    rw [List.take_take]; congr 1; omega
  rw [ht, List.take_append]
  have ht2 : bs.take (max filesize (pos + bs.length) - pos) = bs := List.take_of_length_le (by omega)
  rw [ht2, List.append_assoc]
  congr 2
  -- the tail: bytes of the old content behind the written range
  rw [List.drop_take]
  congr 1
  omega

/-- **`truncate` to a larger size** is a write of zeros at the end: the content is zero-extended -/
theorem truncate_grow_refines (bpc : Nat) (hb : 0 < bpc) (cs : List (List Nat)) (hu : Uniform bpc cs)
    (filesize m : Nat) (hm : filesize ≤ m) (hsz : filesize ≤ cs.length * bpc) (hroom : m ≤ cs.length * bpc) :
    (writeClusters bpc cs filesize filesize (List.replicate (m - filesize) 0)).flatten.take m =
      ((⟨cs.flatten.take filesize, 0⟩ : Buf).truncate m).data := by
  have h := write_refines bpc hb cs hu filesize filesize (List.replicate (m - filesize) 0) (Nat.le_refl _) hsz
    (by simp; omega)
  have hflat := flatten_length_uniform bpc cs hu
  simp only [List.length_replicate] at h
  have e : max filesize (filesize + (m - filesize)) = m := by omega
  rw [e] at h
  rw [h]
  simp only [Buf.write, Buf.truncate, List.length_replicate]
  have hl : (cs.flatten.take filesize).length = filesize := by rw [List.length_take]; omega
  rw [List.take_of_length_le (by omega : (cs.flatten.take filesize).length ≤ filesize)]
  rw [List.take_of_length_le (by omega : (cs.flatten.take filesize).length ≤ m)]
  rw [List.drop_of_length_le (by omega), hl]
  simp

/-- **`truncate` to a smaller size** keeps a prefix of the content (the clusters themselves are not written) -/
theorem truncate_shrink_refines (cs : List (List Nat)) (filesize m : Nat) (hm : m ≤ filesize)
    (hsz : filesize ≤ cs.flatten.length) :
    cs.flatten.take m = ((⟨cs.flatten.take filesize, 0⟩ : Buf).truncate m).data := by
  simp only [Buf.truncate]
  rw [List.take_take, Nat.min_eq_left hm]
  have : m - (cs.flatten.take filesize).length = 0 := by rw [List.length_take]; omega
  rw [this]; simp

end Proofs.FatIOWrite
