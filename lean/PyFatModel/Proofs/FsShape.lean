/-
File size against chain length: a file without a cluster is empty, a file with a
chain has exactly `max 1 ⌈size / bytes-per-cluster⌉` clusters ("an empty file may
keep one cluster").  The arithmetic of `FatIO.__write` / `truncate` that keeps it.
-/
import PyFatModel.Proofs.FsFat

namespace Proofs.FsShape
open Model.Fs Model.Alloc Proofs.FatRep Proofs.FsFat

/-- ceiling division on naturals -/
def cn (b x : Nat) : Nat := (x + b - 1) / b

/-- the translated `calc_num_clusters` is the ceiling -/
theorem numClus_eq (b x : Nat) (hb : 0 < b) : numClus b x = cn b x := by
  unfold numClus Gen.Arith.calc_num_clusters Py.ceilDiv cn
  have hb' : (0 : Int) < (b : Int) := by exact_mod_cast hb
  rw [Int.fdiv_eq_ediv_of_nonneg _ (Int.le_of_lt hb')]
  -- m := ⌈x / b⌉ ;  -x = r + (-m) * b with 0 ≤ r < b
  have h1 : (x + b - 1) / b * b ≤ x + b - 1 := Nat.div_mul_le_self _ _
  have h2 : x + b - 1 < (x + b - 1) / b * b + b := Nat.lt_div_mul_add hb
  generalize hm : (x + b - 1) / b = m at h1 h2
  have e : (-(x : Int)) = ((m * b - x : Nat) : Int) + (-(m : Int)) * (b : Int) := by
    have : x ≤ m * b := by omega
    rw [Int.ofNat_sub this]
    push_cast
    rw [Int.neg_mul]
    omega
  rw [e, Int.add_mul_ediv_right _ _ (Int.ne_of_gt hb')]
  have hr : (((m * b - x : Nat) : Int)) / (b : Int) = 0 :=
    Int.ediv_eq_zero_of_lt (Int.natCast_nonneg _) (by exact_mod_cast (by omega : m * b - x < b))
  rw [hr]
  simp

theorem cn_le_iff (b x L : Nat) (hb : 0 < b) : cn b x ≤ L ↔ x ≤ L * b := by
  unfold cn
  rw [← Nat.lt_succ_iff, Nat.div_lt_iff_lt_mul hb, Nat.succ_mul]
  omega

theorem cn_add_mul (b y L : Nat) (hb : 0 < b) : cn b (y + L * b) = cn b y + L := by
  unfold cn
  have : y + L * b + b - 1 = (y + b - 1) + L * b := by omega
  rw [this, Nat.add_mul_div_right _ _ hb]

theorem cn_mono (b x y : Nat) (h : x ≤ y) : cn b x ≤ cn b y := by
  unfold cn
  exact Nat.div_le_div_right (by omega)

theorem cn_pos (b x : Nat) (hb : 0 < b) (hx : 0 < x) : 0 < cn b x := by
  rcases Nat.eq_zero_or_pos (cn b x) with h | h
  · have := (cn_le_iff b x 0 hb).mp (by omega)
    omega
  · exact h

/-- the cursor `seek` derives for a position inside the file addresses that position -/
theorem cursor_split (b size p : Nat) (hb : 0 < b) (hp : p ≤ size) :
    (Model.FatIO.seekCursor b size p).cindex * b + (Model.FatIO.seekCursor b size p).coffpos = p ∧
      (Model.FatIO.seekCursor b size p).coffpos ≤ b := by
  unfold Model.FatIO.seekCursor
  simp only [Nat.min_eq_left hp]
  have hdm := Nat.div_add_mod p b
  have hmod := Nat.mod_lt p hb
  rw [Nat.mul_comm] at hdm
  split
  · rename_i hc
    obtain ⟨_, hpos, hz⟩ := hc
    simp only
    have hq : 1 ≤ p / b := by
      rcases Nat.eq_zero_or_pos (p / b) with h0 | h0
      · rw [h0] at hdm; omega
      · exact h0
    refine ⟨?_, Nat.le_refl _⟩
    have : (p / b - 1) * b + b = p / b * b := by
      rw [Nat.sub_mul, Nat.one_mul]
      have : b ≤ p / b * b := by
        calc b = 1 * b := (Nat.one_mul _).symm
          _ ≤ p / b * b := Nat.mul_le_mul_right _ hq
      omega
    omega
  · simp only
    exact ⟨hdm, by omega⟩

/-- the cursor of a position inside a file whose chain is long enough lies inside the chain -/
theorem cursor_index_lt (b size p L : Nat) (hb : 0 < b) (hp : p ≤ size) (hsz : size ≤ L * b) (hL : 1 ≤ L) :
    (Model.FatIO.seekCursor b size p).cindex < L := by
  unfold Model.FatIO.seekCursor
  simp only [Nat.min_eq_left hp]
  have hdm := Nat.div_add_mod p b
  rw [Nat.mul_comm] at hdm
  have hle : p / b ≤ L := by
    have : p / b * b ≤ L * b := by omega
    exact Nat.le_of_mul_le_mul_right this hb
  split
  · rename_i hc
    simp only
    have hq : 1 ≤ p / b := by
      rcases Nat.eq_zero_or_pos (p / b) with h0 | h0
      · rw [h0] at hdm; omega
      · exact h0
    omega
  · rename_i hc
    simp only
    rcases Nat.lt_or_ge (p / b) L with hlt | hge
    · exact hlt
    · exfalso
      have heq : p / b = L := by omega
      have : L * b ≤ p := by rw [← heq]; omega
      have hps : p = size := by omega
      have hpl : p = L * b := by omega
      have hmod : p % b = 0 := by rw [hpl]; exact Nat.mul_mod_left _ _
      have hpos : p > 0 := by
        have : 1 * b ≤ L * b := Nat.mul_le_mul_right _ hL
        omega
      exact hc ⟨hps, hpos, hmod⟩

/-- the shape of a file entry -/
def Shape (b : Nat) (f : Node) : Prop :=
  (f.chain = [] ∧ f.size = 0) ∨ (f.chain ≠ [] ∧ f.chain.length = max 1 (numClus b f.size))

/-- **`FatIO.__write` keeps the shape**: after writing `n > 0` bytes at position `min pos size` the chain has
    exactly the clusters the new size needs -/
theorem writeChain_len {v : Vol} {count : Nat} (hp : ParamsOK v.p) (hb : v.bound ≤ count + 2) (hbpc : 0 < v.bpc)
    {fat : List Nat} {hint : Nat} {f : Node} {pos n : Nat} {rest : List (List Nat)}
    {fat' : List Nat} {hint' : Nat} {c' : List Nat}
    (inv : FatRep v.p count fat (opt f.chain ++ rest)) (hs : Shape v.bpc f) (hn : 0 < n)
    (h : writeChain v fat hint f.chain f.size pos n = .ok (fat', hint', c')) :
    c' ≠ [] ∧ c'.length = max 1 (numClus v.bpc (max f.size (min pos f.size + n))) := by
  have nc := fun x => numClus_eq v.bpc x hbpc
  unfold writeChain at h
  rcases hs with ⟨hc, hsz⟩ | ⟨hc, hlen⟩
  · -- no cluster yet: the whole chain is allocated
    rw [hc] at h inv
    simp only at h
    split at h
    · simp at h
    · rename_i r ha
      simp only [Except.ok.injEq, Prod.mk.injEq] at h
      obtain ⟨_, _, rfl⟩ := h
      have hpos := numClus_pos v.bpc n hbpc hn
      obtain ⟨_, hl⟩ := allocate_preserves hp (by simpa [opt] using inv) hint v.bound _ hb hpos r ha
      refine ⟨by intro e; rw [e] at hl; simp at hl; omega, ?_⟩
      rw [hl, hsz]
      simp only [Nat.min_zero, Nat.zero_add, Nat.zero_max]
      omega
  · cases hcc : f.chain with
    | nil => exact absurd hcc hc
    | cons x xs =>
      rw [hcc] at h inv
      simp only at h
      have hp' : min pos f.size ≤ f.size := Nat.min_le_right _ _
      -- the cursor of `seek(pos)` is the cursor of the clamped position
      have hcur : Model.FatIO.seekCursor v.bpc f.size pos = Model.FatIO.seekCursor v.bpc f.size (min pos f.size) := by
        unfold Model.FatIO.seekCursor
        simp [Nat.min_assoc]
      obtain ⟨hsplit, hco⟩ := cursor_split v.bpc f.size (min pos f.size) hbpc hp'
      rw [← hcur] at hsplit hco
      generalize Model.FatIO.seekCursor v.bpc f.size pos = cur at h hsplit hco
      generalize hp0 : min pos f.size = p at hsplit hp' ⊢
      have hL : (x :: xs).length = max 1 (cn v.bpc f.size) := by rw [← hcc, hlen, nc]
      generalize hLdef : (x :: xs).length = L at h hL
      have hL1 : 1 ≤ L := by rw [hL]; exact Nat.le_max_left _ _
      have hsizeL : f.size ≤ L * v.bpc := (cn_le_iff v.bpc f.size L hbpc).mp (by rw [hL]; exact Nat.le_max_right _ _)
      rw [nc]
      split at h
      · simp at h
      · rename_i hci
        have hci' : cur.cindex < L := by omega
        have hsum : (L - cur.cindex) * v.bpc + cur.cindex * v.bpc = L * v.bpc := by
          rw [← Nat.add_mul, Nat.sub_add_cancel (Nat.le_of_lt hci')]
        split at h
        · -- fits into the clusters from the cursor on
          rename_i hfit
          simp only [Except.ok.injEq, Prod.mk.injEq] at h
          obtain ⟨_, _, rfl⟩ := h
          refine ⟨by simp, ?_⟩
          rw [hLdef]
          have hle : max f.size (p + n) ≤ L * v.bpc := by
            apply Nat.max_le.mpr
            exact ⟨hsizeL, by omega⟩
          have h1 : cn v.bpc (max f.size (p + n)) ≤ L := (cn_le_iff v.bpc _ L hbpc).mpr hle
          have h2 : cn v.bpc f.size ≤ cn v.bpc (max f.size (p + n)) := cn_mono _ _ _ (Nat.le_max_left _ _)
          omega
        · rename_i hgrow
          split at h
          · rename_i l r hl ha
            split at h
            · rename_i hd hh
              simp only [Except.ok.injEq, Prod.mk.injEq] at h
              obtain ⟨_, _, rfl⟩ := h
              refine ⟨by simp, ?_⟩
              have hy : 0 < cur.coffpos + n - (L - cur.cindex) * v.bpc := by omega
              have hpos := numClus_pos v.bpc _ hbpc hy
              rw [opt_of_ne (by simp)] at inv
              obtain ⟨_, hl2⟩ := extend_rep hp hb inv hpos hl ha hh
              rw [List.length_append, hLdef, hl2, nc]
              have hbig : f.size ≤ p + n := by omega
              rw [Nat.max_eq_right hbig]
              have : p + n = (cur.coffpos + n - (L - cur.cindex) * v.bpc) + L * v.bpc := by omega
              rw [this, cn_add_mul _ _ _ hbpc]
              have := cn_pos v.bpc _ hbpc hy
              omega
            · simp at h
          · simp at h
          · simp at h

/-- shrinking (or keeping) the size keeps the shape -/
theorem trunc_len (b : Nat) (hb : 0 < b) (f : Node) (m : Nat) (hs : Shape b f) (hm : m ≤ f.size) :
    Shape b { f with chain := if m < f.size ∧ max 1 (numClus b m) < f.chain.length
                              then f.chain.take (max 1 (numClus b m)) else f.chain, size := m } := by
  have nc := fun x => numClus_eq b x hb
  rcases hs with ⟨hc, hsz⟩ | ⟨hc, hlen⟩
  · left
    have : m = 0 := by omega
    simp [hc, this]
  · right
    simp only
    split
    · rename_i hcut
      refine ⟨?_, ?_⟩
      · intro e
        have : (f.chain.take (max 1 (numClus b m))).length = 0 := by rw [e]; rfl
        rw [List.length_take] at this
        have h1 : 1 ≤ max 1 (numClus b m) := Nat.le_max_left _ _
        omega
      · rw [List.length_take]
        omega
    · rename_i hcut
      refine ⟨hc, ?_⟩
      rw [hlen]
      have hmono : numClus b m ≤ numClus b f.size := by rw [nc, nc]; exact cn_mono _ _ _ hm
      rcases Nat.lt_or_ge m f.size with hlt | hge
      · have : ¬ max 1 (numClus b m) < f.chain.length := fun h => hcut ⟨hlt, h⟩
        rw [hlen] at this
        omega
      · have : m = f.size := by omega
        rw [this]

/-- every file entry of a node list has the shape -/
def ShapeNodes (b : Nat) (nodes : List Node) : Prop := ∀ f ∈ nodes, f.isDir = false → Shape b f

theorem shape_replace {b : Nat} {nodes : List Node} {o n : Node} (h : ShapeNodes b nodes)
    (hn : n.isDir = false → Shape b n) : ShapeNodes b (replaceNode nodes o n) := by
  intro x hx hxd
  rcases mem_replace hx with rfl | ⟨hx', _⟩
  · exact hn hxd
  · exact h x hx' hxd

theorem shape_updateDir {v : Vol} {s s2 : St} {nodes : List Node} {loc : Loc} (hu : updateDir v s nodes loc = .ok s2)
    (hd : loc.isDir = true) (h : ShapeNodes v.bpc nodes) : ShapeNodes v.bpc s2.nodes := by
  unfold updateDir at hu
  split at hu
  · split at hu
    · split at hu
      · simp at hu
      · simp only [Except.ok.injEq] at hu; subst hu; exact h
    · split at hu
      · simp at hu
      · simp only [Except.ok.injEq] at hu; subst hu; exact h
  · rename_i d
    split at hu
    · simp at hu
    · simp only [Except.ok.injEq] at hu
      subst hu
      simp only
      split
      · exact h
      · apply shape_replace h
        intro hf
        simp only [Loc.isDir] at hd
        rw [hd] at hf; cases hf

end Proofs.FsShape
