import PyFatModel.Gen.Arith
import PyFatModel.Model.DosTime
import PyFatModel.Proofs.Bits

open Model.DosTime

namespace Proofs.DosTime

/-! ## bridge: translated Python = arithmetic model -/

theorem gen_serialize_date (y m d : Nat) (hy : 1980 ≤ y) (hm : m < 16) (hd : d < 32) :
    Gen.Arith.serialize_date (y : Int) m d = (dateWord y m d : Nat) := by
  obtain ⟨k, rfl⟩ : ∃ k, y = 1980 + k := ⟨y - 1980, by omega⟩
  have e : ((1980 + k : Nat) : Int) - 1980 = (k : Nat) := by omega
  unfold Gen.Arith.serialize_date
  simp only [e]
  show Py.lor (Py.lor (Py.shl (k : Int) ((9 : Nat) : Int)) (Py.shl (m : Int) ((5 : Nat) : Int))) (d : Int) = _
  simp only [Py.shl_ofNat, Py.lor_ofNat]
  rw [show (9 : Nat) = 4 + 5 from rfl, Bits.or3 k m d 4 5 (by simpa using hm) (by simpa using hd)]
  simp [dateWord]

theorem gen_serialize_time (h mi s : Nat) (hmi : mi < 64) (hs : s < 64) :
    Gen.Arith.serialize_time (h : Int) mi s = (timeWord h mi s : Nat) := by
  unfold Gen.Arith.serialize_time
  have e : Py.fdiv ((s : Int) - Py.fmod (s : Int) 2) 2 = ((s / 2 : Nat) : Int) := by
    simp only [Py.fdiv, Py.fmod]
    have h2 : Int.fmod (s : Int) 2 = ((s % 2 : Nat) : Int) := by
      rw [Int.fmod_eq_emod_of_nonneg _ (by omega)]; omega
    rw [h2]
    have : ((s : Int) - ((s % 2 : Nat) : Int)) = (((s / 2) * 2 : Nat) : Int) := by omega
    rw [this, Int.fdiv_eq_ediv_of_nonneg _ (by omega)]
    omega
  simp only [e]
  show Py.lor (Py.lor (Py.shl (h : Int) ((11 : Nat) : Int)) (Py.shl (mi : Int) ((5 : Nat) : Int))) _ = _
  simp only [Py.shl_ofNat, Py.lor_ofNat]
  rw [show (11 : Nat) = 6 + 5 from rfl, Bits.or3 h mi (s / 2) 6 5 (by simpa using hmi) (by omega)]
  simp [timeWord]

theorem mask (w i : Nat) (m : Nat) (hm : m = 2 ^ i - 1) :
    Py.land (w : Int) (m : Int) = ((w % 2 ^ i : Nat) : Int) := by
  subst hm; simp

theorem gen_date_day (w : Nat) : Gen.Arith.deserialize_date_day (w : Int) = (dateDay w : Nat) := by
  unfold Gen.Arith.deserialize_date_day dateDay
  exact mask w 5 31 rfl

theorem gen_date_month (w : Nat) : Gen.Arith.deserialize_date_month (w : Int) = (dateMonth w : Nat) := by
  unfold Gen.Arith.deserialize_date_month dateMonth
  show Py.land (Py.shr (w : Int) ((5 : Nat) : Int)) ((15 : Nat) : Int) = _
  rw [Py.shr_ofNat, mask _ 4 15 rfl, Bits.shr]

theorem gen_date_year (w : Nat) : Gen.Arith.deserialize_date_year (w : Int) = (dateYear w : Nat) := by
  unfold Gen.Arith.deserialize_date_year dateYear
  show Py.land (Py.shr (w : Int) ((9 : Nat) : Int)) ((127 : Nat) : Int) + 1980 = _
  rw [Py.shr_ofNat, mask _ 7 127 rfl, Bits.shr]; rfl

theorem gen_time_second (w : Nat) : Gen.Arith.deserialize_time_second (w : Int) = (timeSecond w : Nat) := by
  unfold Gen.Arith.deserialize_time_second timeSecond
  show Py.land (w : Int) ((31 : Nat) : Int) * 2 = _
  rw [mask w 5 31 rfl]; simp

theorem gen_time_minute (w : Nat) : Gen.Arith.deserialize_time_minute (w : Int) = (timeMinute w : Nat) := by
  unfold Gen.Arith.deserialize_time_minute timeMinute
  show Py.land (Py.shr (w : Int) ((5 : Nat) : Int)) ((63 : Nat) : Int) = _
  rw [Py.shr_ofNat, mask _ 6 63 rfl, Bits.shr]

theorem gen_time_hour (w : Nat) : Gen.Arith.deserialize_time_hour (w : Int) = (timeHour w : Nat) := by
  unfold Gen.Arith.deserialize_time_hour timeHour
  show Py.land (Py.shr (w : Int) ((11 : Nat) : Int)) ((31 : Nat) : Int) = _
  rw [Py.shr_ofNat, mask _ 5 31 rfl, Bits.shr]

/-! ## round trips over the whole domain -/

theorem daysInMonth_le (y m : Nat) : daysInMonth y m ≤ 31 := by
  unfold daysInMonth; split <;> (try split) <;> omega

/-- every calendar date 1980‥2107 survives encode → decode -/
theorem date_roundtrip (y m d : Nat) (hy : 1980 ≤ y ∧ y ≤ 2107) (hv : validDate y m d = true) :
    decodeDate (dateWord y m d) = (y, m, d) := by
  have hle := daysInMonth_le y m
  simp only [validDate, Bool.and_eq_true, decide_eq_true_eq] at hv
  obtain ⟨⟨⟨⟨⟨_, _⟩, hm1⟩, hm2⟩, hd1⟩, hd2⟩ := hv
  have e1 : dateDay (dateWord y m d) = d := by unfold dateDay dateWord; omega
  have e2 : dateMonth (dateWord y m d) = m := by unfold dateMonth dateWord; omega
  have e3 : dateYear (dateWord y m d) = y := by unfold dateYear dateWord; omega
  unfold decodeDate
  rw [e1, e2, e3]
  simp [validDate, *]

/-- the word fits 16 bits exactly on 1980‥2107 -/
theorem date_word_lt (y m d : Nat) (hy : y ≤ 2107) (hm : m ≤ 12) (hd : d ≤ 31) :
    dateWord y m d < 65536 := by unfold dateWord; omega

/-- every valid time survives encode → decode up to the 2-second floor -/
theorem time_roundtrip (h mi s : Nat) (hv : validTime h mi s = true) :
    decodeTime (timeWord h mi s) = (h, mi, s / 2 * 2) := by
  simp only [validTime, Bool.and_eq_true, decide_eq_true_eq] at hv
  obtain ⟨⟨hh, hmi⟩, hs⟩ := hv
  have e1 : timeSecond (timeWord h mi s) = s / 2 * 2 := by unfold timeSecond timeWord; omega
  have e2 : timeMinute (timeWord h mi s) = mi := by unfold timeMinute timeWord; omega
  have e3 : timeHour (timeWord h mi s) = h := by unfold timeHour timeWord; omega
  unfold decodeTime
  rw [e1, e2, e3]
  simp [validTime, *]
  omega

theorem time_word_lt (h mi s : Nat) (hh : h < 24) (hmi : mi < 60) (hs : s < 60) :
    timeWord h mi s < 65536 := by unfold timeWord; omega

/-- decode ∘ encode on words: a word whose fields are a valid date re-encodes to itself -/
theorem date_word_roundtrip (w : Nat) (hw : w < 65536)
    (hv : validDate (dateYear w) (dateMonth w) (dateDay w) = true) :
    dateWord (decodeDate w).1 (decodeDate w).2.1 (decodeDate w).2.2 = w := by
  unfold decodeDate; rw [if_pos hv]
  simp only [dateWord, dateYear, dateMonth, dateDay]; omega

theorem time_word_roundtrip (w : Nat) (hw : w < 65536)
    (hv : validTime (timeHour w) (timeMinute w) (timeSecond w) = true) :
    timeWord (decodeTime w).1 (decodeTime w).2.1 (decodeTime w).2.2 = w := by
  unfold decodeTime; rw [if_pos hv]
  simp only [timeWord, timeHour, timeMinute, timeSecond]; omega

/-- totality: every 16-bit word decodes to a valid calendar date / time (never an exception) -/
theorem decodeDate_valid (w : Nat) :
    validDate (decodeDate w).1 (decodeDate w).2.1 (decodeDate w).2.2 = true := by
  unfold decodeDate
  by_cases h : validDate (dateYear w) (dateMonth w) (dateDay w) = true
  · rw [if_pos h]; exact h
  · rw [if_neg h]; decide

theorem decodeTime_valid (w : Nat) :
    validTime (decodeTime w).1 (decodeTime w).2.1 (decodeTime w).2.2 = true := by
  unfold decodeTime
  by_cases h : validTime (timeHour w) (timeMinute w) (timeSecond w) = true
  · rw [if_pos h]; exact h
  · rw [if_neg h]; decide

/-- decoded years are always inside the representable range -/
theorem decodeDate_year_range (w : Nat) : 1980 ≤ (decodeDate w).1 ∧ (decodeDate w).1 ≤ 2107 := by
  unfold decodeDate; split <;> simp [dateYear] <;> omega

end Proofs.DosTime
