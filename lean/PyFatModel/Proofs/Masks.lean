/-
The dirty-flag arithmetic of `_is_dirty`, `_mark_dirty`, `_mark_clean`, as
translated from the source (`Gen.Arith.is_dirty_*`, `mark_dirty_*`,
`mark_clean_*`), for any single-bit mask `2^k` (the masks extracted into
`Gen.Consts` are `2^15`, `2^27` and `2^0`).
-/
import PyFatModel.Gen.Arith
import PyFatModel.Gen.Consts

namespace Proofs.Masks

theorem and_pow (f k : Nat) : f &&& 2 ^ k = (f / 2 ^ k % 2) * 2 ^ k := by
  apply Nat.eq_of_testBit_eq; intro i
  rw [Nat.testBit_and, Nat.testBit_two_pow]
  by_cases hb : f / 2 ^ k % 2 = 1
  · rw [hb, Nat.one_mul, Nat.testBit_two_pow]
    by_cases hki : k = i
    · subst hki; simp [Nat.testBit_eq_decide_div_mod_eq, hb]
    · simp [hki]
  · have h0 : f / 2 ^ k % 2 = 0 := by omega
    rw [h0, Nat.zero_mul]
    by_cases hki : k = i
    · subst hki; simp [Nat.testBit_eq_decide_div_mod_eq, h0]
    · simp [hki]

/-- clearing: `(f & ~m) | (0 & m)` has the bit cleared -/
theorem cleared (f k : Nat) : (f - (f &&& 2 ^ k)) &&& 2 ^ k = 0 := by
  have hp : 0 < 2 ^ k := Nat.pow_pos (by omega)
  rw [and_pow (f - (f &&& 2 ^ k)) k, and_pow f k]
  generalize hpp : 2 ^ k = p at *
  have h1 := Nat.div_add_mod f p
  have hr : f % p < p := Nat.mod_lt _ hp
  rcases Nat.mod_two_eq_zero_or_one (f / p) with h | h
  · simp [h]
  · rw [h, Nat.one_mul]
    have hq : 1 ≤ f / p := by
      rcases Nat.eq_zero_or_pos (f / p) with h0 | hpos
      · rw [h0] at h; simp at h
      · exact hpos
    have e : p * (f / p - 1) = p * (f / p) - p := by rw [Nat.mul_sub, Nat.mul_one]
    have hge : p ≤ p * (f / p) := Nat.le_mul_of_pos_right p (by omega)
    have hf : f - p = p * (f / p - 1) + f % p := by omega
    have hd : (f - p) / p = f / p - 1 := by
      rw [hf, Nat.mul_add_div hp, Nat.div_eq_of_lt hr]; omega
    rw [hd]
    have : (f / p - 1) % 2 = 0 := by omega
    simp [this]

/-- setting: `f | m` has the bit set -/
theorem set_bit (f k : Nat) : (f ||| 2 ^ k) &&& 2 ^ k = 2 ^ k := by
  rw [Nat.and_or_distrib_right, Nat.and_self, and_pow]
  rcases Nat.mod_two_eq_zero_or_one (f / 2 ^ k) with h | h <;> simp [h]

/-! ### the translated functions -/

theorem land_zero_left (m : Nat) : Py.land (0 : Int) (m : Int) = 0 := by
  show Py.land ((0 : Nat) : Int) (m : Int) = 0
  rw [Py.land_ofNat, Nat.zero_and]; rfl

/-- `_mark_dirty` makes `_is_dirty`'s FAT test true, for every FAT[1] value -/
theorem mark_dirty_then_dirty (f k : Nat) :
    Gen.Arith.is_dirty_dos_dirty (Gen.Arith.mark_dirty_fat1 (f : Int) ((2 ^ k : Nat) : Int)) ((2 ^ k : Nat) : Int) = 1 := by
  unfold Gen.Arith.mark_dirty_fat1 Gen.Arith.is_dirty_dos_dirty
  rw [Py.land_not_ofNat, land_zero_left]
  show (if decide (Py.land (Py.lor ((f - (f &&& 2 ^ k) : Nat) : Int) ((0 : Nat) : Int)) ((2 ^ k : Nat) : Int) ≠ ((2 ^ k : Nat) : Int)) = true then (1 : Int) else 0) = 1
  rw [Py.lor_ofNat, Nat.or_zero, Py.land_ofNat, cleared]
  have hp : 0 < 2 ^ k := Nat.pow_pos (by omega)
  have : (0 : Nat) ≠ 2 ^ k := Nat.ne_of_lt hp
  simp
  first
    | exact this
    | exact_mod_cast this
    | (intro h; have hpi : (0 : Int) < 2 ^ k := Int.pow_pos (by omega); omega)

/-- `_mark_clean` makes the FAT test false -/
theorem mark_clean_then_clean (f k : Nat) :
    Gen.Arith.is_dirty_dos_dirty (Gen.Arith.mark_clean_fat1 (f : Int) ((2 ^ k : Nat) : Int)) ((2 ^ k : Nat) : Int) = 0 := by
  unfold Gen.Arith.mark_clean_fat1 Gen.Arith.is_dirty_dos_dirty
  rw [Py.lor_ofNat, Py.land_ofNat, set_bit]
  simp

/-- the boot-sector flag: set by `_mark_dirty`, cleared by `_mark_clean`, for every byte value -/
theorem reserved1_dirty (r : Nat) : Gen.Arith.is_dirty_nt_dirty (Gen.Arith.mark_dirty_reserved1 (r : Int)) = 1 := by
  unfold Gen.Arith.mark_dirty_reserved1 Gen.Arith.is_dirty_nt_dirty
  show (if decide (Py.land (Py.lor (r : Int) ((1 : Nat) : Int)) ((1 : Nat) : Int) = ((1 : Nat) : Int)) = true then (1 : Int) else 0) = 1
  rw [Py.lor_ofNat, Py.land_ofNat]
  have h := set_bit r 0
  rw [Nat.pow_zero] at h
  rw [h]; simp

theorem reserved1_clean (r : Nat) : Gen.Arith.is_dirty_nt_dirty (Gen.Arith.mark_clean_reserved1 (r : Int)) = 0 := by
  unfold Gen.Arith.mark_clean_reserved1 Gen.Arith.is_dirty_nt_dirty
  show (if decide (Py.land (Py.lor (Py.land (r : Int) (Py.lnot ((1 : Nat) : Int))) (Py.land ((0 : Nat) : Int) ((1 : Nat) : Int))) ((1 : Nat) : Int) = ((1 : Nat) : Int)) = true then (1 : Int) else 0) = 0
  rw [Py.land_not_ofNat, Py.land_ofNat, Py.lor_ofNat, Py.land_ofNat]
  have h := cleared r 0
  rw [Nat.pow_zero] at h
  rw [Nat.zero_and, Nat.or_zero, h]; simp

/-- the masks the code uses are single bits -/
theorem masks_are_bits : Gen.fat16CleanMask = 2 ^ 15 ∧ Gen.fat32CleanMask = 2 ^ 27 ∧ Gen.fatDirtyBitMask = 2 ^ 0 := by decide

end Proofs.Masks
