/-
Mount + close without operations rewrites every FAT copy from the parsed table and
the boot sector from the parsed fields.  These lemmas show the rewritten bytes are
the original ones (C16).
-/
import PyFatModel.Proofs.FatTable
import PyFatModel.Proofs.Layout
import PyFatModel.Proofs.Masks

open Model.Bytes Model.FatTable

namespace Proofs.Identity

theorem dec12_append (pre : List Nat) : ∀ (tail : List Nat), pre.length % 3 = 0 →
    dec12 (pre ++ tail) = dec12 pre ++ dec12 tail := by
  fun_induction dec12 pre with
  | case1 b0 b1 b2 rest ih =>
    intro tail h
    simp only [List.cons_append, dec12]
    rw [ih tail (by simp at h; omega)]
  | case2 b0 b1 => intro tail h; simp at h
  | case3 b0 => intro tail h; simp at h
  | case4 => intro tail _; rfl

theorem ser12_append_even (a : List Nat) : ∀ (b : List Nat), a.length % 2 = 0 → ser12 (a ++ b) = ser12 a ++ ser12 b := by
  fun_induction ser12 a with
  | case1 => intro b _; rfl
  | case2 e => intro b h; simp at h
  | case3 e0 e1 rest ih =>
    intro b h
    simp only [List.cons_append, ser12]
    rw [ih b (by simp at h; omega)]

theorem dec12_length_mul3 (pre : List Nat) (h : pre.length % 3 = 0) : (dec12 pre).length = 2 * (pre.length / 3) := by
  rw [Proofs.FatTable.dec12_length]; omega

/-- **FAT12 mount+close identity, every table length**: serialising the parsed table and
    writing it over the FAT region reproduces the region (the half entry of a table whose
    length is ≡ 2 mod 3 carries 0, as in every valid image). -/
theorem fat12_flush_identity (bs : List Nat) (hb : allBytes bs)
    (htail : bs.length % 3 = 2 → ∀ b, bs.getLast? = some b → b < 16) :
    flushed (ser12 ((dec12 bs).take (total12 bs.length))) bs = bs := by
  unfold flushed total12
  obtain ⟨q, r, hq, hr⟩ : ∃ q r, bs.length = 3 * q + r ∧ r < 3 := ⟨bs.length / 3, bs.length % 3, by omega, by omega⟩
  have hsplit : bs = bs.take (3 * q) ++ bs.drop (3 * q) := (List.take_append_drop _ _).symm
  have hpl : (bs.take (3 * q)).length = 3 * q := by simp; omega
  have hpb : allBytes (bs.take (3 * q)) := fun x hx => hb x (List.mem_of_mem_take hx)
  have hdl : (bs.drop (3 * q)).length = r := by simp; omega
  have hdec : dec12 bs = dec12 (bs.take (3 * q)) ++ dec12 (bs.drop (3 * q)) := by
    conv => lhs; rw [hsplit]
    exact dec12_append _ _ (by rw [hpl]; omega)
  have hlenp : (dec12 (bs.take (3 * q))).length = 2 * q := by
    rw [dec12_length_mul3 _ (by rw [hpl]; omega), hpl]; omega
  have hser : ser12 (dec12 (bs.take (3 * q))) = bs.take (3 * q) :=
    Proofs.FatTable.ser12_dec12 _ hpb (by rw [hpl]; omega)
  match r, hr with
  | 0, _ =>
    have hd : bs.drop (3 * q) = [] := List.eq_nil_of_length_eq_zero hdl
    have : 2 * bs.length / 3 = 2 * q := by omega
    rw [this, hdec, hd]
    simp only [dec12, List.append_nil]
    rw [List.take_of_length_le (by omega), hser]
    simp [hpl]
  | 1, _ =>
    have : 2 * bs.length / 3 = 2 * q := by omega
    rw [this, hdec, List.take_append_of_le_length (by omega), List.take_of_length_le (by omega), hser, hpl]
    exact (List.take_append_drop _ _)
  | 2, _ =>
    have : 2 * bs.length / 3 = 2 * q + 1 := by omega
    rw [this, hdec]
    obtain ⟨b0, b1, hd⟩ : ∃ b0 b1, bs.drop (3 * q) = [b0, b1] := by
      match hdd : bs.drop (3 * q), hdl with
      | [x, y], _ => exact ⟨x, y, rfl⟩
      | [], h => simp at h
      | [_], h => simp at h
      | _ :: _ :: _ :: _, h => simp at h
    have hb0 : b0 < 256 := hb b0 (List.mem_of_mem_drop (by rw [hd]; simp))
    have hb1 : b1 < 16 := by
      apply htail (by omega) b1
      have : bs.getLast? = (bs.take (3 * q) ++ [b0, b1]).getLast? := by rw [← hd, List.take_append_drop]
      rw [this]; simp
    rw [hd]
    simp only [dec12]
    rw [List.take_of_length_le (by simp; omega), ser12_append_even _ _ (by omega), hser]
    simp only [ser12, List.length_append, hpl, List.length_cons, List.length_nil]
    have e1 : (b0 + 256 * (b1 % 16)) % 256 = b0 := by omega
    have e2 : (b0 + 256 * (b1 % 16)) / 256 = b1 := by omega
    rw [e1, e2]
    have : bs.drop (3 * q + (0 + 1 + 1)) = [] := by
      apply List.drop_eq_nil_of_le; omega
    rw [this, List.append_nil]
    conv => rhs; rw [hsplit, hd]

theorem fat16_flush_identity (bs : List Nat) (hb : allBytes bs) (h2 : bs.length % 2 = 0) :
    flushed (ser16 (parse16 bs)) bs = bs := by
  unfold flushed parse16
  rw [Proofs.FatTable.ser16_dec16 bs hb h2]
  simp

theorem fat32_flush_identity (bs : List Nat) (hb : allBytes bs) (h4 : bs.length % 4 = 0) :
    flushed (ser32r (parse32 bs) (parse32Reserved bs)) bs = bs := by
  unfold flushed
  rw [Proofs.FatTable.ser32r_parse32' bs hb h4]
  simp

/-- the boot-sector flag byte survives mark-dirty then mark-clean when it was clean (translated arithmetic) -/
theorem reserved1_roundtrip (r : Nat) (hr : r % 2 = 0) :
    Gen.Arith.mark_clean_reserved1 (Gen.Arith.mark_dirty_reserved1 (r : Int)) = (r : Int) := by
  unfold Gen.Arith.mark_clean_reserved1 Gen.Arith.mark_dirty_reserved1
  show Py.lor (Py.land (Py.lor (r : Int) ((1 : Nat) : Int)) (Py.lnot ((1 : Nat) : Int))) (Py.land ((0 : Nat) : Int) ((1 : Nat) : Int)) = _
  rw [Py.lor_ofNat, Py.land_not_ofNat, Py.land_ofNat, Py.lor_ofNat, Nat.zero_and, Nat.or_zero]
  have h1 := Proofs.Masks.set_bit r 0
  rw [Nat.pow_zero] at h1
  rw [h1]
  -- r even: r ||| 1 = r + 1
  have h2 : r ||| 1 = r + 1 := by
    have := Nat.or_two_pow_eq_add_of_lt (a := r / 2 * 2) (n := 0)
    apply Nat.eq_of_testBit_eq; intro i
    rw [Nat.testBit_or]
    cases i with
    | zero => simp [Nat.testBit_zero]; omega
    | succ j => simp [Nat.testBit_succ]; congr 1; omega
  rw [h2]; simp

end Proofs.Identity
