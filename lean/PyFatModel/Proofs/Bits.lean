/-
Bit-operation lemmas: masks and shifts on `Nat` are `/`, `%`, `*`, `+`.
Used to bring the translated Python (`Gen.Arith`, over `Py.*` operators) into
the form `omega` decides.
-/
import PyFatModel.PyInt

namespace Bits

theorem shl_or (a b i : Nat) (hb : b < 2 ^ i) : a <<< i ||| b = a * 2 ^ i + b := by
  rw [← Nat.shiftLeft_add_eq_or_of_lt hb, Nat.shiftLeft_eq]

theorem and_mask (w i : Nat) : w &&& (2 ^ i - 1) = w % 2 ^ i :=
  Nat.and_two_pow_sub_one_eq_mod w i

theorem shr (w i : Nat) : w >>> i = w / 2 ^ i := Nat.shiftRight_eq_div_pow w i

theorem shl (w i : Nat) : w <<< i = w * 2 ^ i := Nat.shiftLeft_eq w i

/-- `a<<9 | m<<5 | d` with `m < 16`, `d < 32` (DOS date) and the same shape for time. -/
theorem or3 (a m d i j : Nat) (hm : m < 2 ^ i) (hd : d < 2 ^ j) :
    (a <<< (i + j) ||| m <<< j) ||| d = (a * 2 ^ i + m) * 2 ^ j + d := by
  have h1 : a <<< (i + j) ||| m <<< j = (a <<< i ||| m) <<< j := by
    rw [Nat.shiftLeft_or_distrib, ← Nat.shiftLeft_add]
  rw [h1, shl_or _ _ _ hd, shl_or _ _ _ hm]

end Bits
