/-
C02 at the filesystem level: after a write through a handle the file reads back
as the byte buffer does, and no other file's content changes — in every state
the filesystem model can reach (chains disjoint: `Inv`; chain long enough for the
new size: `Shape`).
-/
import PyFatModel.Model.FsData
import PyFatModel.Proofs.FsRun
import PyFatModel.Proofs.FatIOWrite

namespace Proofs.FsData
open Model.Fs Model.FatIO Proofs.FsFat Proofs.FsInv Proofs.FsShape Proofs.FatIO

/-- mapping a function that looks up positions over a duplicate-free list -/
theorem map_getD_idxOf (l : List Nat) (hnd : l.Nodup) (cs : List (List Nat)) (hlen : cs.length = l.length) :
    l.map (fun c => cs.getD (l.idxOf c) []) = cs := by
  apply List.ext_getElem
  · simp [hlen]
  · intro i h1 h2
    simp only [List.getElem_map]
    have hi : i < l.length := by simpa using h1
    have : l.idxOf l[i] = i := List.Nodup.idxOf_getElem hnd i hi
    rw [this, List.getD_eq_getElem?_getD, List.getElem?_eq_getElem h2]
    rfl

theorem overwrite_length (bpc : Nat) : ∀ (cs : List (List Nat)) (d : List Nat), (overwrite bpc cs d).length = cs.length := by
  intro cs
  induction cs with
  | nil => intro d; simp [overwrite]
  | cons c rest ih =>
    intro d
    simp only [overwrite]
    split
    · rfl
    · simp [ih]

theorem writeClusters_length (bpc : Nat) (cs : List (List Nat)) (size pos : Nat) (bs : List Nat) :
    (writeClusters bpc cs size pos bs).length = cs.length := by
  unfold writeClusters
  simp only [List.length_append, List.length_take, overwrite_length, List.length_drop]
  omega

/-- the clusters of the written chain after the write are what `writeClusters` computed -/
theorem writeData_chain (bpc : Nat) (data : Data) (chain' : List Nat) (hnd : chain'.Nodup) (size pos : Nat) (bs : List Nat) :
    chain'.map (writeData bpc data chain' size pos bs) =
      writeClusters bpc (chain'.map data) size (min pos size) bs := by
  unfold writeData
  simp only
  have : chain'.map (fun c => if c ∈ chain' then
      (writeClusters bpc (chain'.map data) size (min pos size) bs).getD (chain'.idxOf c) [] else data c) =
      chain'.map (fun c => (writeClusters bpc (chain'.map data) size (min pos size) bs).getD (chain'.idxOf c) []) := by
    apply List.map_congr_left
    intro c hc
    simp [hc]
  rw [this]
  exact map_getD_idxOf chain' hnd _ (by rw [writeClusters_length]; simp)

/-- **frame**: an entry whose chain shares no cluster with the written chain keeps its content -/
theorem writeData_frame (bpc : Nat) (data : Data) (chain' : List Nat) (size pos : Nat) (bs : List Nat) (g : Node)
    (hdis : ∀ c ∈ g.chain, c ∉ chain') :
    contentOf (writeData bpc data chain' size pos bs) g = contentOf data g := by
  unfold contentOf
  congr 2
  apply List.map_congr_left
  intro c hc
  unfold writeData
  simp [hdis c hc]

/-- **the written file reads back as the byte buffer**: content after = content before with `bs` written at the
    (clamped) position -/
theorem writeData_content (bpc : Nat) (hb : 0 < bpc) (data : Data) (f : Node) (chain' : List Nat) (hnd : chain'.Nodup)
    (pos : Nat) (bs : List Nat)
    (hu : ∀ c ∈ chain', (data c).length = bpc)
    (hpre : (chain'.map data).flatten.take f.size = contentOf data f)
    (hsz : f.size ≤ chain'.length * bpc) (hroom : min pos f.size + bs.length ≤ chain'.length * bpc) :
    contentOf (writeData bpc data chain' f.size pos bs)
        { f with chain := chain', size := max f.size (min pos f.size + bs.length) } =
      ((⟨contentOf data f, min pos f.size⟩ : Buf).write bs).data := by
  unfold contentOf at *
  simp only
  rw [writeData_chain bpc data chain' hnd]
  have hun : Uniform bpc (chain'.map data) := by
    intro x hx
    rw [List.mem_map] at hx
    obtain ⟨c, hc, rfl⟩ := hx
    exact hu c hc
  have := Proofs.FatIOWrite.write_refines bpc hb (chain'.map data) hun f.size (min pos f.size) bs
    (Nat.min_le_right _ _) (by simpa using hsz) (by simpa using hroom)
  rw [this, hpre]

/-- the chain `writeChain` produces has room for the new size (so the hypotheses above hold in reachable states) -/
theorem writeChain_room {v : Vol} {count : Nat} (hv : VolOK v count) {fat : List Nat} {hint : Nat} {f : Node} {pos n : Nat}
    {rest : List (List Nat)} {fat' : List Nat} {hint' : Nat} {c' : List Nat}
    (inv : Proofs.FatRep.FatRep v.p count fat (opt f.chain ++ rest)) (hs : Shape v.bpc f) (hn : 0 < n)
    (h : writeChain v fat hint f.chain f.size pos n = .ok (fat', hint', c')) :
    f.size ≤ c'.length * v.bpc ∧ min pos f.size + n ≤ c'.length * v.bpc := by
  have hb : 0 < v.bpc := by have := hv.bpc; omega
  obtain ⟨_, hl⟩ := writeChain_len hv.params hv.bound hb inv hs hn h
  rw [numClus_eq _ _ hb] at hl
  have h1 : cn v.bpc (max f.size (min pos f.size + n)) ≤ c'.length := by rw [hl]; exact Nat.le_max_right _ _
  have h2 := (cn_le_iff v.bpc _ _ hb).mp h1
  have := Nat.le_max_left f.size (min pos f.size + n)
  have := Nat.le_max_right f.size (min pos f.size + n)
  omega

/-- in a state with the invariant two different entries share no cluster -/
theorem chains_disjoint {v : Vol} {count : Nat} {s : St} (h : Inv v count s) (a b : Node) (ha : a ∈ s.nodes) (hb : b ∈ s.nodes)
    (hab : a ≠ b) : ∀ c ∈ a.chain, c ∉ b.chain := by
  intro c hc hcb
  have hane : a.chain ≠ [] := by intro e; rw [e] at hc; simp at hc
  have hbne : b.chain ≠ [] := by intro e; rw [e] at hcb; simp at hcb
  have hperm := own_erase s.rootChain ha
  rw [opt_of_ne hane] at hperm
  have hrep := Proofs.FatMachine.fatRep_perm hperm (by simpa using h.rep)
  have hbe : b ∈ s.nodes.erase a := by
    rw [(nodup_of_tree h.tree).mem_erase_iff]
    exact ⟨fun e => hab e.symm, hb⟩
  exact (fresh_clusters hrep c hc).2 b.chain (chain_mem_own hbe hbne) hcb

/-- **frame, every reachable state**: writing through a handle on `f'` (its chain already extended) leaves the
    content of every other entry as it was -/
theorem fs_write_frame {v : Vol} {count : Nat} {s' : St} (h : Inv v count s') (data : Data) (f' g : Node)
    (hf : f' ∈ s'.nodes) (hg : g ∈ s'.nodes) (hne : g ≠ f') (size pos : Nat) (bs : List Nat) :
    contentOf (writeData v.bpc data f'.chain size pos bs) g = contentOf data g :=
  writeData_frame v.bpc data f'.chain size pos bs g (chains_disjoint h g f' hg hf hne)

/-- the FAT side only appends to the chain -/
theorem writeChain_prefix {v : Vol} {fat : List Nat} {hint : Nat} {c : List Nat} {size pos n : Nat}
    {fat' : List Nat} {hint' : Nat} {c' : List Nat}
    (h : writeChain v fat hint c size pos n = .ok (fat', hint', c')) : ∃ ext, c' = c ++ ext := by
  unfold writeChain at h
  cases c with
  | nil =>
    simp only at h
    split at h
    · simp at h
    · simp only [Except.ok.injEq, Prod.mk.injEq] at h
      exact ⟨c', by simp⟩
  | cons x xs =>
    simp only at h
    split at h
    · simp at h
    · split at h
      · simp only [Except.ok.injEq, Prod.mk.injEq] at h
        exact ⟨[], by rw [← h.2.2]; simp⟩
      · split at h
        · rename_i l r _ _
          split at h
          · simp only [Except.ok.injEq, Prod.mk.injEq] at h
            exact ⟨r.clusters, h.2.2.symm⟩
          · simp at h
        · simp at h
        · simp at h

/-- **write through a handle, every reachable state**: in a state with the invariant and well-shaped files, when
    the FAT side of the write succeeds with chain `c'`, the file's content afterwards (new chain, new size, data
    area as `__write` leaves it) is the old content with `bs` written at the clamped position -/
theorem fs_write_content {v : Vol} {count : Nat} (hv : VolOK v count) {s : St} (h : Inv v count s)
    (f : Node) (hf : f ∈ s.nodes) (hshape : Shape v.bpc f) (data : Data)
    (pos : Nat) (bs : List Nat) (hbs : 0 < bs.length) {fat' : List Nat} {hint' : Nat} {c' : List Nat}
    (hw : writeChain v s.fat s.hint f.chain f.size pos bs.length = .ok (fat', hint', c'))
    (hnd : c'.Nodup) (hu : ∀ c ∈ c', (data c).length = v.bpc) :
    contentOf (writeData v.bpc data c' f.size pos bs)
        { f with chain := c', size := max f.size (min pos f.size + bs.length) } =
      ((⟨contentOf data f, min pos f.size⟩ : Buf).write bs).data := by
  have hb : 0 < v.bpc := by have := hv.bpc; omega
  have hown := Proofs.FatMachine.fatRep_perm (own_erase s.rootChain hf) (by simpa using h.rep)
  obtain ⟨hsz, hroom⟩ := writeChain_room hv hown hshape hbs hw
  obtain ⟨ext, hext⟩ := writeChain_prefix hw
  apply writeData_content v.bpc hb data f c' hnd pos bs hu ?_ hsz hroom
  -- the old content is a prefix of the bytes along the extended chain
  unfold contentOf
  rw [hext, List.map_append, List.flatten_append]
  rcases hshape with ⟨hc, hz⟩ | ⟨hc, hlen⟩
  · rw [hc, hz]; simp
  · have hun : Uniform v.bpc (f.chain.map data) := by
      intro x hx
      rw [List.mem_map] at hx
      obtain ⟨c, hcm, rfl⟩ := hx
      exact hu c (by rw [hext]; exact List.mem_append_left _ hcm)
    have hl := flatten_length_uniform v.bpc _ hun
    have hsize : f.size ≤ (f.chain.map data).flatten.length := by
      rw [hl, List.length_map, hlen, numClus_eq _ _ hb]
      exact (cn_le_iff v.bpc f.size _ hb).mp (Nat.le_max_right _ _)
    rw [List.take_append_of_le_length hsize]

end Proofs.FsData
