import PyFatModel.Model.Conc

open Model.Conc

namespace Proofs.Conc

theorem upd_same {α : Type} (f : Nat → α) (i : Nat) (v : α) : upd f i v i = v := by simp [upd]
theorem upd_other {α : Type} (f : Nat → α) (i j : Nat) (v : α) (h : j ≠ i) : upd f i v j = f j := by simp [upd, h]

/-! ## writers under one lock -/
namespace Mutex
open Model.Conc.Mutex

variable {S : Type}

theorem applyOp_append (a b : Op S) (s : S) : applyOp (a ++ b) s = applyOp b (applyOp a s) := by
  simp [applyOp, List.foldl_append]

theorem applyOps_append (a b : List (Op S)) (s : S) : applyOps (a ++ b) s = applyOps b (applyOps a s) := by
  simp [applyOps, List.foldl_append]

/-- the invariant: with the lock free the shared state is the result of the logged
    operations run one after the other; with the lock held by `i` it is that of the
    earlier operations plus the micro-steps of `i`'s operation done so far, and nobody
    else is inside an operation -/
def Inv (s0 : S) (g : G S) : Prop :=
  match g.owner with
  | none => (∀ j, (g.th j).cur = none) ∧ g.shared = applyOps (g.log.map (·.2)) s0
  | some i => (∀ j, j ≠ i → (g.th j).cur = none) ∧
      ∃ pre done ms, (g.th i).cur = some ms ∧ g.log.map (·.2) = pre ++ [done ++ ms] ∧
        g.shared = applyOp done (applyOps pre s0)

theorem inv_init (s0 : S) (progs : Nat → List (Op S)) : Inv s0 (init s0 progs) := by
  simp [Inv, init, applyOps]

theorem step_inv (s0 : S) (g : G S) (i : Nat) (h : Inv s0 g) : Inv s0 (step g i) := by
  unfold step
  split
  · -- acquire
    rename_i op rest hc ht ho
    simp only [Inv, ho] at h
    simp only [Inv]
    refine ⟨fun j hj => by rw [upd_other _ _ _ _ hj]; exact h.1 j, ?_⟩
    refine ⟨g.log.map (·.2), [], op, by rw [upd_same], by simp, ?_⟩
    simp [applyOp, h.2]
  · -- micro-step
    rename_i own m ms hc
    cases ho : g.owner with
    | none =>
      simp only [Inv, ho] at h
      have := h.1 i
      rw [hc] at this
      cases this
    | some k =>
      simp only [Inv, ho] at h ⊢
      by_cases hik : i = k
      · subst hik
        obtain ⟨hoth, pre, done, ms', hcur, hlog, hsh⟩ := h
        rw [hc] at hcur
        cases hcur
        refine ⟨fun j hj => by rw [upd_other _ _ _ _ hj]; exact hoth j hj, pre, done ++ [m], ms, by rw [upd_same], ?_, ?_⟩
        · simp [hlog]
        · rw [applyOp_append, ← hsh]; simp [applyOp]
      · have := h.1 i hik
        rw [hc] at this
        cases this
  · -- release
    rename_i hc
    cases ho : g.owner with
    | none =>
      simp only [Inv, ho] at h
      have := h.1 i
      rw [hc] at this
      cases this
    | some k =>
      simp only [Inv, ho] at h
      by_cases hik : i = k
      · subst hik
        obtain ⟨hoth, pre, done, ms', hcur, hlog, hsh⟩ := h
        rw [hc] at hcur
        cases hcur
        simp only [Inv]
        refine ⟨fun j => ?_, ?_⟩
        · by_cases hj : j = i
          · subst hj; rw [upd_same]
          · rw [upd_other _ _ _ _ hj]; exact hoth j hj
        · rw [hlog, applyOps_append, hsh]; simp [applyOps]
      · have := h.1 i hik
        rw [hc] at this
        cases this
  · exact h

theorem run_inv (s0 : S) (sched : List Nat) : ∀ g : G S, Inv s0 g → Inv s0 (run g sched) := by
  induction sched with
  | nil => intro g h; exact h
  | cons i rest ih => intro g h; exact ih (step g i) (step_inv s0 g i h)

/-- what each thread has issued so far, followed by what it still has to do, is its program;
    an operation in progress has been issued -/
def ProgInv (progs : Nat → List (Op S)) (g : G S) : Prop :=
  ∀ i, issued g.log i ++ (g.th i).todo = progs i

theorem issued_append_self (log : List (Nat × Op S)) (i : Nat) (op : Op S) :
    issued (log ++ [(i, op)]) i = issued log i ++ [op] := by
  simp [issued, List.filter_append]

theorem issued_append_other (log : List (Nat × Op S)) (i j : Nat) (op : Op S) (h : j ≠ i) :
    issued (log ++ [(i, op)]) j = issued log j := by
  have : (i == j) = false := by simp; exact fun e => h e.symm
  simp [issued, List.filter_append, this]

theorem step_prog (progs : Nat → List (Op S)) (g : G S) (i : Nat) (h : ProgInv progs g) : ProgInv progs (step g i) := by
  unfold step
  split
  · rename_i op rest hc ht ho
    intro j
    by_cases hj : j = i
    · subst hj
      simp only [upd_same]
      rw [issued_append_self, List.append_assoc]
      have := h j
      rw [ht] at this
      simpa using this
    · simp only [upd_other _ _ _ _ hj]
      rw [issued_append_other _ _ _ _ hj]
      exact h j
  · intro j
    by_cases hj : j = i
    · subst hj; simp only [upd_same]; exact h j
    · simp only [upd_other _ _ _ _ hj]; exact h j
  · intro j
    by_cases hj : j = i
    · subst hj; simp only [upd_same]; exact h j
    · simp only [upd_other _ _ _ _ hj]; exact h j
  · exact h

theorem run_prog (progs : Nat → List (Op S)) (sched : List Nat) : ∀ g : G S, ProgInv progs g → ProgInv progs (run g sched) := by
  induction sched with
  | nil => intro g h; exact h
  | cons i rest ih => intro g h; exact ih (step g i) (step_prog progs g i h)

theorem prog_init (s0 : S) (progs : Nat → List (Op S)) : ProgInv progs (init s0 progs) := by
  intro i; simp [init, issued]

end Mutex

/-! ## readers -/
namespace Readers
open Model.Conc.Readers

/-- published listings are what the directory holds -/
def Coherent (dev : Dev) (sh : Shared) : Prop := ∀ d l, sh.cache d = some l → l = parseDir dev d

/-- a thread's partial parse is a prefix of the directory; what it is about to publish is the listing -/
def LocalOK (dev : Dev) (t : Thread) : Prop :=
  match t.pc with
  | none => True
  | some (.start _) => True
  | some (.parsing d k acc) => k ≤ dev.len d ∧ acc = (List.range k).map (dev.slot d)
  | some (.seeked _ _ _) => False          -- does not occur with atomic reads
  | some (.publish d l) => l = parseDir dev d

theorem stepThread_ok (dev : Dev) (prog : List Nat) (sh : Shared) (t : Thread)
    (hc : Coherent dev sh) (hl : LocalOK dev t) (he : expected dev prog t) :
    Coherent dev (stepThread dev true sh t).1 ∧ LocalOK dev (stepThread dev true sh t).2 ∧
      expected dev prog (stepThread dev true sh t).2 := by
  unfold stepThread
  split
  · -- pc = none
    rename_i hpc
    split
    · exact ⟨hc, hl, he⟩
    · rename_i d rest htodo
      refine ⟨hc, by simp [LocalOK], ?_⟩
      obtain ⟨dp, h1, h2⟩ := he
      simp only [hpc, htodo] at h1
      exact ⟨dp, by simpa using h1, h2⟩
  · -- start d
    rename_i d hpc
    split
    · rename_i l hcache
      refine ⟨hc, by simp [LocalOK], ?_⟩
      obtain ⟨dp, h1, h2⟩ := he
      simp only [hpc] at h1
      refine ⟨dp ++ [d], by simp [h1], ?_⟩
      simp [h2, hc d l hcache]
    · refine ⟨hc, by simp [LocalOK], ?_⟩
      obtain ⟨dp, h1, h2⟩ := he
      simp only [hpc] at h1
      exact ⟨dp, by simpa using h1, h2⟩
  · -- parsing
    rename_i d k acc hpc
    simp only [LocalOK, hpc] at hl
    split
    · rename_i hk
      simp only [↓reduceIte]
      refine ⟨fun d' l h => hc d' l h, ?_, ?_⟩
      · simp only [LocalOK]
        refine ⟨by omega, ?_⟩
        rw [hl.2, List.range_succ, List.map_append]; simp
      · obtain ⟨dp, h1, h2⟩ := he
        simp only [hpc] at h1
        exact ⟨dp, by simpa using h1, h2⟩
    · rename_i hk
      refine ⟨hc, ?_, ?_⟩
      · simp only [LocalOK, parseDir]
        have : k = dev.len d := by omega
        rw [hl.2, this]
      · obtain ⟨dp, h1, h2⟩ := he
        simp only [hpc] at h1
        exact ⟨dp, by simpa using h1, h2⟩
  · -- seeked: impossible
    rename_i d k acc hpc
    simp [LocalOK, hpc] at hl
  · -- publish
    rename_i d l hpc
    simp only [LocalOK, hpc] at hl
    refine ⟨?_, by simp [LocalOK], ?_⟩
    · intro d' l' h
      simp only [upd] at h
      split at h
      · rename_i e; cases h; rw [e]; exact hl
      · exact hc d' l' h
    · obtain ⟨dp, h1, h2⟩ := he
      simp only [hpc] at h1
      refine ⟨dp ++ [d], by simp [h1], ?_⟩
      simp [h2, hl]

def GInv (dev : Dev) (progs : Nat → List Nat) (g : G) : Prop :=
  Coherent dev g.sh ∧ ∀ i, LocalOK dev (g.th i) ∧ expected dev (progs i) (g.th i)

theorem step_ginv (dev : Dev) (progs : Nat → List Nat) (g : G) (i : Nat) (h : GInv dev progs g) :
    GInv dev progs (step dev true g i) := by
  obtain ⟨hc, hth⟩ := h
  have key := stepThread_ok dev (progs i) g.sh (g.th i) hc (hth i).1 (hth i).2
  refine ⟨key.1, fun j => ?_⟩
  simp only [step]
  by_cases hj : j = i
  · subst hj; rw [upd_same]; exact key.2
  · rw [upd_other _ _ _ _ hj]; exact hth j

theorem run_ginv (dev : Dev) (progs : Nat → List Nat) (sched : List Nat) :
    ∀ g, GInv dev progs g → GInv dev progs (run dev true g sched) := by
  induction sched with
  | nil => intro g h; exact h
  | cons i rest ih => intro g h; exact ih _ (step_ginv dev progs g i h)

theorem init_ginv (dev : Dev) (progs : Nat → List Nat) : GInv dev progs (init progs) := by
  refine ⟨fun d l h => by simp [init] at h, fun i => ⟨by simp [init, LocalOK], ⟨[], by simp [init], by simp [init]⟩⟩⟩

end Readers

end Proofs.Conc
