/-
The invariant of the filesystem model and its preservation by every operation,
failed ones included:

* the tree is well-formed (`TreeInv`),
* the in-memory FAT represents exactly the chains the tree owns — the root
  directory's (FAT32) and every entry's — disjoint, well-formed, inside the data
  area, everything else free or bad (`FatRep … (own …)`): no cross-link, no leak,
* every directory has a cluster and its entries fit into its chain (the fixed root:
  into its region).

Consequences proved here: `update_directory_entry` cannot fail where the entries
already fit, so the half-done states of `_remove` / `__write` / `truncate` are
unreachable, and an operation that ends in out-of-space leaves tree, sizes and
chains exactly as they were.
-/
import PyFatModel.Proofs.FsFat
import PyFatModel.Proofs.FsRefine
import PyFatModel.Proofs.FsSync
import PyFatModel.Proofs.FsShape
import PyFatModel.Proofs.FsHint

namespace Proofs.FsInv
open Model.Fs Model.Alloc Proofs.FatRep Proofs.FatMachine Proofs.FsTree Proofs.FsFat Proofs.FsSync Proofs.FsShape Proofs.FsHint

/-! ## tree surgery -/

/-- same position in the tree -/
def SameSkel (a b : Node) : Prop :=
  a.path = b.path ∧ a.parent = b.parent ∧ a.key = b.key ∧ a.isDir = b.isDir ∧ a.slots = b.slots ∧
    (b.isDir = true → a.clus = b.clus)

theorem treeInv_map {nodes : List Node} (h : TreeInv nodes) (φ : Node → Node)
    (hφ : ∀ x ∈ nodes, SameSkel (φ x) x) : TreeInv (nodes.map φ) := by
  refine ⟨?_, ?_, ?_, ?_⟩
  · intro y hy
    rw [List.mem_map] at hy
    obtain ⟨x, hx, rfl⟩ := hy
    obtain ⟨e1, e2, e3, _, _, _⟩ := hφ x hx
    rcases h.link x hx with ⟨hp0, hpath⟩ | ⟨d, hd, hddir, hdclus, hpath⟩
    · left; rw [e1, e2, e3]; exact ⟨hp0, hpath⟩
    · right
      obtain ⟨f1, _, _, f4, _, f6⟩ := hφ d hd
      refine ⟨φ d, List.mem_map.mpr ⟨d, hd, rfl⟩, by rw [f4]; exact hddir, ?_, ?_⟩
      · rw [f6 hddir, e2]; exact hdclus
      · rw [e1, f1, e3]; exact hpath
  · rw [List.map_map]
    have : nodes.map ((·.path) ∘ φ) = nodes.map (·.path) := by
      apply List.map_congr_left
      intro x hx
      exact (hφ x hx).1
    rw [this]; exact h.paths
  · intro y hy hdir
    rw [List.mem_map] at hy
    obtain ⟨x, hx, rfl⟩ := hy
    obtain ⟨_, _, _, e4, _, e6⟩ := hφ x hx
    rw [e4] at hdir
    rw [e6 hdir]; exact h.dirClus x hx hdir
  · intro y hy y' hy' hdir hdir' hc
    rw [List.mem_map] at hy hy'
    obtain ⟨x, hx, rfl⟩ := hy
    obtain ⟨x', hx', rfl⟩ := hy'
    obtain ⟨_, _, _, e4, _, e6⟩ := hφ x hx
    obtain ⟨_, _, _, f4, _, f6⟩ := hφ x' hx'
    rw [e4] at hdir
    rw [f4] at hdir'
    rw [e6 hdir, f6 hdir'] at hc
    rw [h.dirId x hx x' hx' hdir hdir' hc]

theorem sameSkel_refl (a : Node) : SameSkel a a := ⟨rfl, rfl, rfl, rfl, rfl, fun _ => rfl⟩

theorem treeInv_replace {nodes : List Node} (h : TreeInv nodes) (o n : Node) (hs : SameSkel n o) :
    TreeInv (replaceNode nodes o n) := by
  unfold replaceNode
  apply treeInv_map h
  intro x _
  split
  · rename_i hx; subst hx; exact hs
  · exact sameSkel_refl x

theorem nodup_of_tree {nodes : List Node} (h : TreeInv nodes) : nodes.Nodup :=
  nodup_of_nodup_map (·.path) nodes h.paths

theorem treeInv_erase {nodes : List Node} (h : TreeInv nodes) (n : Node)
    (hch : n.isDir = true → ∀ x ∈ nodes, x.parent ≠ n.clus) : TreeInv (nodes.erase n) := by
  have hnd := nodup_of_tree h
  have sub : ∀ x, x ∈ nodes.erase n → x ∈ nodes := fun x hx => List.mem_of_mem_erase hx
  refine ⟨?_, ?_, fun d hd => h.dirClus d (sub d hd), fun d hd d' hd' => h.dirId d (sub d hd) d' (sub d' hd')⟩
  · intro x hx
    rcases h.link x (sub x hx) with h0 | ⟨d, hd, hddir, hdclus, hpath⟩
    · exact Or.inl h0
    · right
      refine ⟨d, ?_, hddir, hdclus, hpath⟩
      rw [hnd.mem_erase_iff]
      refine ⟨?_, hd⟩
      intro hdn
      subst hdn
      exact hch hddir x (sub x hx) hdclus.symm
  · exact List.Nodup.sublist ((List.erase_sublist).map _) h.paths

theorem treeInv_append {nodes : List Node} (h : TreeInv nodes) (n : Node) (ploc : Loc) (dir : List Nat)
    (hl : LocAt nodes ploc dir) (hpd : ploc.isDir = true) (hpar : n.parent = ploc.id) (hpath : n.path = dir ++ [n.key])
    (hfresh : ∀ x ∈ nodes, x.path ≠ n.path)
    (hdir : n.isDir = true → n.clus ≠ 0 ∧ ∀ d ∈ nodes, d.isDir = true → d.clus ≠ n.clus) :
    TreeInv (nodes ++ [n]) := by
  refine ⟨?_, ?_, ?_, ?_⟩
  · intro x hx
    rw [List.mem_append, List.mem_singleton] at hx
    rcases hx with hx | rfl
    · rcases h.link x hx with h0 | ⟨d, hd, r⟩
      · exact Or.inl h0
      · exact Or.inr ⟨d, List.mem_append_left _ hd, r⟩
    · cases ploc with
      | root =>
        left
        simp only [LocAt] at hl
        subst hl
        exact ⟨by rw [hpar]; rfl, by simpa using hpath⟩
      | node d =>
        right
        simp only [LocAt] at hl
        exact ⟨d, List.mem_append_left _ hl.1, hpd, by rw [hpar]; rfl, by rw [hl.2]; exact hpath⟩
  · rw [List.map_append, List.nodup_append]
    refine ⟨h.paths, by simp, ?_⟩
    intro a ha b hb
    simp only [List.map_cons, List.map_nil, List.mem_singleton] at hb
    rw [List.mem_map] at ha
    obtain ⟨x, hx, rfl⟩ := ha
    rw [hb]
    exact hfresh x hx
  · intro d hd hdd
    rw [List.mem_append, List.mem_singleton] at hd
    rcases hd with hd | rfl
    · exact h.dirClus d hd hdd
    · exact (hdir hdd).1
  · intro d hd d' hd' hdd hdd' hc
    rw [List.mem_append, List.mem_singleton] at hd hd'
    rcases hd with hd | rfl <;> rcases hd' with hd' | rfl
    · exact h.dirId d hd d' hd' hdd hdd' hc
    · exact absurd hc ((hdir hdd').2 d hd hdd)
    · exact absurd hc.symm ((hdir hdd).2 d' hd' hdd')
    · rfl

/-! ## directory sizes under surgery -/

theorem childSlots_append (nodes : List Node) (n : Node) (d : Nat) :
    childSlots (nodes ++ [n]) d = childSlots nodes d + (if n.parent = d then n.slots else 0) := by
  unfold childSlots
  rw [List.filter_append, List.map_append, List.sum_append]
  by_cases hp : n.parent = d <;> simp [hp]

theorem childSlots_map (nodes : List Node) (φ : Node → Node)
    (hφ : ∀ x ∈ nodes, (φ x).parent = x.parent ∧ (φ x).slots = x.slots) (d : Nat) :
    childSlots (nodes.map φ) d = childSlots nodes d := by
  unfold childSlots
  induction nodes with
  | nil => rfl
  | cons x xs ih =>
    have hx := hφ x (by simp)
    have ih' := ih (fun y hy => hφ y (by simp [hy]))
    simp only [List.map_cons, List.filter_cons, hx.1]
    split
    · simp only [List.map_cons, List.sum_cons, hx.2]; rw [ih']
    · exact ih'

theorem childSlots_replace (nodes : List Node) (o n : Node) (hs : SameSkel n o) (d : Nat) :
    childSlots (replaceNode nodes o n) d = childSlots nodes d := by
  unfold replaceNode
  apply childSlots_map
  intro x _
  split
  · rename_i hx; subst hx; exact ⟨hs.2.1, hs.2.2.2.2.1⟩
  · exact ⟨rfl, rfl⟩

theorem childSlots_erase_le (nodes : List Node) (n : Node) (d : Nat) :
    childSlots (nodes.erase n) d ≤ childSlots nodes d := by
  unfold childSlots
  induction nodes with
  | nil => simp
  | cons x xs ih =>
    by_cases hx : x = n
    · subst hx
      simp only [List.erase_cons_head, List.filter_cons]
      split
      · simp only [List.map_cons, List.sum_cons]; omega
      · exact Nat.le_refl _
    · have hne : (x == n) = false := by simpa using hx
      simp only [List.erase_cons, hne, Bool.false_eq_true, ↓reduceIte, List.filter_cons]
      split
      · simp only [List.map_cons, List.sum_cons]; omega
      · exact ih

theorem dirBytes_id (v : Vol) (nodes nodes' : List Node) (loc : Loc)
    (h : childSlots nodes' loc.id = childSlots nodes loc.id) : dirBytes v nodes' loc = dirBytes v nodes loc := by
  unfold dirBytes; rw [h]

/-! ## the invariant -/

structure VolOK (v : Vol) (count : Nat) : Prop where
  params : ParamsOK v.p
  bound : v.bound ≤ count + 2
  bpc : 64 ≤ v.bpc

/-- `ex` = the directory (by id) whose entries need not fit (it is about to be rewritten);
    `extra` = chains that are allocated but not (or no longer) owned by an entry of `s.nodes` -/
structure InvX (v : Vol) (count : Nat) (s : St) (ex : Option Nat) (extra : List (List Nat)) : Prop where
  tree : TreeInv s.nodes
  rep : FatRep v.p count s.fat (extra ++ own s.rootChain s.nodes)
  hintOK : HintOK v.p v.bound s.fat s.hint
  rootFixed : v.fixedRoot = true → s.rootChain = []
  rootChain : v.fixedRoot = false → s.rootChain ≠ []
  dirs : ∀ d ∈ s.nodes, d.isDir = true → d.chain ≠ []
  fitsRoot : ex ≠ some 0 → dirBytes v s.nodes .root ≤ (if v.fixedRoot then v.rootCap else s.rootChain.length * v.bpc)
  fitsDir : ∀ d ∈ s.nodes, d.isDir = true → ex ≠ some d.clus → dirBytes v s.nodes (.node d) ≤ d.chain.length * v.bpc

abbrev Inv (v : Vol) (count : Nat) (s : St) : Prop := InvX v count s none []

theorem InvX.weaken {v : Vol} {count : Nat} {s : St} {extra : List (List Nat)} (h : InvX v count s none extra) (ex : Option Nat) :
    InvX v count s ex extra :=
  ⟨h.tree, h.rep, h.hintOK, h.rootFixed, h.rootChain, h.dirs, fun _ => h.fitsRoot (by simp), fun d hd hdd _ => h.fitsDir d hd hdd (by simp)⟩

/-- the invariant does not look at the device copies -/
theorem InvX.congr {v : Vol} {count : Nat} {s s' : St} {ex : Option Nat} {extra : List (List Nat)} (h : InvX v count s ex extra)
    (e1 : s'.fat = s.fat) (e0 : s'.hint = s.hint) (e2 : s'.rootChain = s.rootChain) (e3 : s'.nodes = s.nodes) : InvX v count s' ex extra := by
  refine ⟨by rw [e3]; exact h.tree, by rw [e1, e2, e3]; exact h.rep, by rw [e1, e0]; exact h.hintOK, by rw [e2]; exact h.rootFixed,
    by rw [e2]; exact h.rootChain, by rw [e3]; exact h.dirs, by rw [e2, e3]; exact h.fitsRoot, by rw [e3]; exact h.fitsDir⟩

theorem clus_of_chain {n : Node} {c : Nat} {rest : List Nat} (h : n.chain = c :: rest) : n.clus = c := by
  simp [Node.clus, h]

theorem clus_mem {n : Node} (h : n.chain ≠ []) : n.clus ∈ n.chain := by
  cases hc : n.chain with
  | nil => exact absurd hc h
  | cons c rest => simp [Node.clus, hc]

/-- an owned chain is in the list the FAT represents -/
theorem chain_mem_own {root : List Nat} {nodes : List Node} {n : Node} (hn : n ∈ nodes) (hc : n.chain ≠ []) :
    n.chain ∈ own root nodes := by
  unfold own
  rw [List.mem_filter]
  refine ⟨List.mem_cons_of_mem _ (List.mem_map.mpr ⟨n, hn, rfl⟩), ?_⟩
  cases h : n.chain with
  | nil => exact absurd h hc
  | cons a b => simp [ne]

theorem replace_self (nodes : List Node) (f : Node) : replaceNode nodes f f = nodes := by
  unfold replaceNode
  rw [List.map_congr_left (g := id)]
  · simp
  · intro x _; by_cases hx : x = f <;> simp [hx]

theorem headD_of_head? {a b : List Nat} (h : a.head? = b.head?) : a.headD 0 = b.headD 0 := by
  cases a <;> cases b <;> simp_all

/-- the directory handed to `update_directory_entry` is the root or a directory entry of the tree -/
def HLoc (nodes : List Node) (loc : Loc) : Prop :=
  match loc with
  | .root => True
  | .node d => d ∈ nodes ∧ d.isDir = true

theorem hloc_of_locAt {nodes : List Node} {ploc : Loc} {dir : List Nat} (hl : LocAt nodes ploc dir) (hpd : ploc.isDir = true) :
    HLoc nodes ploc := by
  cases ploc with
  | root => trivial
  | node d => exact ⟨hl.1, hpd⟩

theorem HLoc.mono {nodes nodes' : List Node} {loc : Loc} (h : HLoc nodes loc)
    (hsub : ∀ d, d ∈ nodes → d.isDir = true → d ∈ nodes') : HLoc nodes' loc := by
  cases loc with
  | root => trivial
  | node d => exact ⟨hsub d h.1 h.2, h.2⟩

/-- **`update_directory_entry` re-establishes the invariant**: started where everything but the
    directory being written is in order, it leaves every directory fitting its chain, the FAT
    representing exactly the owned chains (the grown one included), the tree as it was. -/
theorem updateDir_inv {v : Vol} {count : Nat} (hv : VolOK v count) {s : St} {loc : Loc} {extra : List (List Nat)}
    (h : InvX v count s (some loc.id) extra)
    (hloc : HLoc s.nodes loc)
    {s2 : St} (hu : updateDir v s s.nodes loc = .ok s2) :
    InvX v count s2 none extra ∧ absN s2.nodes = absN s.nodes := by
  have hbpc : 0 < v.bpc := by have := hv.bpc; omega
  have dirNe0 : ∀ d ∈ s.nodes, d.isDir = true → (some (0 : Nat)) ≠ some d.clus := by
    intro d hd hdd e
    simp only [Option.some.injEq] at e
    exact h.tree.dirClus d hd hdd e.symm
  refine ⟨?_, updateDir_abs hu⟩
  unfold updateDir at hu
  cases loc with
  | root =>
    simp only at hu
    split at hu
    · rename_i hfix
      split at hu
      · simp at hu
      · rename_i hle
        simp only [Except.ok.injEq] at hu
        subst hu
        refine ⟨h.tree, h.rep, h.hintOK, h.rootFixed, h.rootChain, h.dirs, fun _ => ?_, fun d hd hdd _ => h.fitsDir d hd hdd (dirNe0 d hd hdd)⟩
        simp only [hfix, ↓reduceIte]
        simp only [Nat.not_lt] at hle
        exact hle
    · rename_i hfix
      have hfix' : v.fixedRoot = false := by simpa using hfix
      split at hu
      · simp at hu
      · rename_i fat' hint' c' hg
        simp only [Except.ok.injEq] at hu
        subst hu
        have hrne := h.rootChain hfix'
        have p1 : (extra ++ own s.rootChain s.nodes).Perm (s.rootChain :: (extra ++ own [] s.nodes)) := by
          rw [own_root, opt_of_ne hrne]
          exact List.perm_middle
        obtain ⟨rep', _, hlen, hfit, _⟩ := growChain_rep hv.params hv.bound hbpc (fatRep_perm p1 h.rep) hg
        have hh' := growChain_hint hv.params hv.bound hbpc (fatRep_perm p1 h.rep) h.hintOK hg
        have hc'ne : c' ≠ [] := by
          intro e; rw [e] at hlen
          have : s.rootChain.length = 0 := by simpa using hlen
          exact hrne (List.eq_nil_of_length_eq_zero this)
        have p2 : (c' :: (extra ++ own [] s.nodes)).Perm (extra ++ own c' s.nodes) := by
          rw [own_root c', opt_of_ne hc'ne]
          exact List.perm_middle.symm
        refine ⟨h.tree, fatRep_perm p2 rep', hh', (fun (hf : v.fixedRoot = true) => by rw [hfix'] at hf; cases hf), fun _ => hc'ne, h.dirs, fun _ => ?_,
          fun d hd hdd _ => h.fitsDir d hd hdd (dirNe0 d hd hdd)⟩
        simp only [hfix', Bool.false_eq_true, ↓reduceIte]
        exact hfit
  | node d =>
    obtain ⟨hd, hddir⟩ := hloc
    simp only at hu
    split at hu
    · simp at hu
    · rename_i fat' hint' c' hg
      simp only [Except.ok.injEq] at hu
      have hdne := h.dirs d hd hddir
      have hnd := nodup_of_tree h.tree
      have p1 : (extra ++ own s.rootChain s.nodes).Perm (d.chain :: (extra ++ own s.rootChain (s.nodes.erase d))) := by
        have := own_erase s.rootChain hd
        rw [opt_of_ne hdne] at this
        exact (List.Perm.append_left extra this).trans List.perm_middle
      obtain ⟨rep', hhead, hlen, hfit, _⟩ := growChain_rep hv.params hv.bound hbpc (fatRep_perm p1 h.rep) hg
      have hh' := growChain_hint hv.params hv.bound hbpc (fatRep_perm p1 h.rep) h.hintOK hg
      have hc'ne : c' ≠ [] := by
        intro e; rw [e] at hlen
        have : d.chain.length = 0 := by simpa using hlen
        exact hdne (List.eq_nil_of_length_eq_zero this)
      -- in both branches the node list is `replaceNode … d d'`
      have hn' : (if c' = d.chain then s.nodes else replaceNode s.nodes d { d with chain := c' }) =
          replaceNode s.nodes d { d with chain := c' } := by
        split
        · rename_i e
          have : ({ d with chain := c' } : Node) = d := by rw [e]
          rw [this, replace_self]
        · rfl
      rw [hn'] at hu
      subst hu
      have hskel : SameSkel ({ d with chain := c' } : Node) d :=
        ⟨rfl, rfl, rfl, rfl, rfl, fun _ => headD_of_head? hhead⟩
      have hclus : ({ d with chain := c' } : Node).clus = d.clus := headD_of_head? hhead
      have p2 : (c' :: (extra ++ own s.rootChain (s.nodes.erase d))).Perm
          (extra ++ own s.rootChain (replaceNode s.nodes d { d with chain := c' })) := by
        have := own_replace s.rootChain (new := ({ d with chain := c' } : Node)) hnd hd
        simp only [opt_of_ne hc'ne] at this
        exact (List.perm_middle.symm).trans (List.Perm.append_left extra this.symm)
      refine ⟨treeInv_replace h.tree d _ hskel, fatRep_perm p2 rep', hh', h.rootFixed, h.rootChain, ?_, fun _ => ?_, ?_⟩
      · intro x hx hxd
        rcases mem_replace hx with rfl | ⟨hx', _⟩
        · exact hc'ne
        · exact h.dirs x hx' hxd
      · have := h.fitsRoot (by
          intro e; simp only [Loc.id, Option.some.injEq] at e
          exact h.tree.dirClus d hd hddir e)
        rw [dirBytes_id v s.nodes _ .root (childSlots_replace s.nodes d _ hskel _)]
        exact this
      · intro x hx hxd _
        rcases mem_replace hx with rfl | ⟨hx', hxne⟩
        · rw [dirBytes_id v s.nodes _ _ (childSlots_replace s.nodes d _ hskel _)]
          simp only [dirBytes, Loc.id, hclus] at hfit ⊢
          exact hfit
        · rw [dirBytes_id v s.nodes _ _ (childSlots_replace s.nodes d _ hskel _)]
          apply h.fitsDir x hx' hxd
          intro e
          simp only [Loc.id, Option.some.injEq] at e
          exact hxne (h.tree.dirId x hx' d hd hxd hddir e.symm)

/-- where the entries already fit, `update_directory_entry` succeeds and changes only the device -/
theorem updateDir_of_fits {v : Vol} {count : Nat} {s : St} {loc : Loc} {extra : List (List Nat)}
    (h : InvX v count s none extra)
    (hloc : HLoc s.nodes loc) :
    ∃ s2, updateDir v s s.nodes loc = .ok s2 ∧ s2.fat = s.fat ∧ s2.hint = s.hint ∧ s2.rootChain = s.rootChain ∧
      s2.nodes = s.nodes ∧ s2.dfat = s.dfat := by
  unfold updateDir
  cases loc with
  | root =>
    have hf := h.fitsRoot (by simp)
    by_cases hfix : v.fixedRoot = true
    · simp only [hfix, ↓reduceIte] at hf ⊢
      have : ¬ dirBytes v s.nodes Loc.root > v.rootCap := by omega
      simp only [this, ↓reduceIte]
      exact ⟨_, rfl, rfl, rfl, rfl, rfl, rfl⟩
    · simp only [hfix, Bool.false_eq_true, ↓reduceIte] at hf ⊢
      rw [growChain_fits hf]
      exact ⟨_, rfl, rfl, rfl, rfl, rfl, rfl⟩
  | node d =>
    obtain ⟨hd, hddir⟩ := hloc
    have hf := h.fitsDir d hd hddir (by simp)
    simp only
    rw [growChain_fits hf]
    simp only [↓reduceIte]
    exact ⟨_, rfl, rfl, rfl, rfl, rfl, rfl⟩


/-! ## the I/O error branches of the model are dead -/

theorem growChain_no_eio {v : Vol} {count : Nat} (hv : VolOK v count) {fat : List Nat} {hint : Nat} {b : List Nat} {bytes : Nat}
    {rest : List (List Nat)} (inv : FatRep v.p count fat (b :: rest)) {e : Err}
    (h : growChain v fat hint b bytes = .error e) : e = .noSpace := by
  have hbpc : 0 < v.bpc := by have := hv.bpc; omega
  have hbne : b ≠ [] := (inv.chain b (by simp)).ne
  unfold growChain at h
  split at h
  · simp at h
  · rename_i hgt
    split at h
    · rename_i l r hl ha
      split at h
      · simp at h
      · rename_i hh
        exfalso
        have hpos : 0 < numClus v.bpc (bytes - b.length * v.bpc) := numClus_pos _ _ hbpc (by omega)
        obtain ⟨_, hlen⟩ := allocate_preserves hv.params inv hint v.bound _ hv.bound hpos r ha
        cases hc : r.clusters with
        | nil => rw [hc] at hlen; simp at hlen; omega
        | cons x xs => rw [hc] at hh; simp at hh
    · rename_i _ hl
      exfalso
      exact hbne (List.getLast?_eq_none_iff.mp hl)
    · simp only [Except.error.injEq] at h; exact h.symm

theorem updateDir_no_eio {v : Vol} {count : Nat} (hv : VolOK v count) {s : St} {loc : Loc} {ex : Option Nat} {extra : List (List Nat)}
    (h : InvX v count s ex extra) (hloc : HLoc s.nodes loc) {e : Err}
    (hu : updateDir v s s.nodes loc = .error e) : e = .noSpace := by
  unfold updateDir at hu
  cases loc with
  | root =>
    simp only at hu
    split at hu
    · split at hu
      · simp only [Except.error.injEq] at hu; exact hu.symm
      · simp at hu
    · rename_i hfix
      have hfix' : v.fixedRoot = false := by simpa using hfix
      split at hu
      · rename_i e' hg
        simp only [Except.error.injEq] at hu
        subst hu
        have hrne := h.rootChain hfix'
        have p1 : (extra ++ own s.rootChain s.nodes).Perm (s.rootChain :: (extra ++ own [] s.nodes)) := by
          rw [own_root, opt_of_ne hrne]
          exact List.perm_middle
        exact growChain_no_eio hv (fatRep_perm p1 h.rep) hg
      · simp at hu
  | node d =>
    obtain ⟨hd, hddir⟩ := hloc
    simp only at hu
    split at hu
    · rename_i e' hg
      simp only [Except.error.injEq] at hu
      subst hu
      have hdne := h.dirs d hd hddir
      have p1 : (extra ++ own s.rootChain s.nodes).Perm (d.chain :: (extra ++ own s.rootChain (s.nodes.erase d))) := by
        have := own_erase s.rootChain hd
        rw [opt_of_ne hdne] at this
        exact (List.Perm.append_left extra this).trans List.perm_middle
      exact growChain_no_eio hv (fatRep_perm p1 h.rep) hg
    · simp at hu

theorem writeChain_no_eio {v : Vol} {count : Nat} (hv : VolOK v count) {fat : List Nat} {hint : Nat} {f : Node} {pos n : Nat}
    {rest : List (List Nat)} (inv : FatRep v.p count fat (opt f.chain ++ rest)) (hs : Shape v.bpc f) (_hn : 0 < n) {e : Err}
    (h : writeChain v fat hint f.chain f.size pos n = .error e) : e = .noSpace := by
  have hbpc : 0 < v.bpc := by have := hv.bpc; omega
  unfold writeChain at h
  rcases hs with ⟨hc, _⟩ | ⟨hc, hlen⟩
  · rw [hc] at h
    simp only at h
    split at h
    · simp only [Except.error.injEq] at h; exact h.symm
    · simp at h
  · cases hcc : f.chain with
    | nil => exact absurd hcc hc
    | cons x xs =>
      rw [hcc] at h inv
      simp only at h
      split at h
      · -- the cursor lies inside the chain
        rename_i hci
        exfalso
        have hp' : min pos f.size ≤ f.size := Nat.min_le_right _ _
        have hcur : Model.FatIO.seekCursor v.bpc f.size pos = Model.FatIO.seekCursor v.bpc f.size (min pos f.size) := by
          unfold Model.FatIO.seekCursor
          simp [Nat.min_assoc]
        have hL : (x :: xs).length = max 1 (cn v.bpc f.size) := by rw [← hcc, hlen, numClus_eq _ _ hbpc]
        have hsizeL : f.size ≤ (x :: xs).length * v.bpc :=
          (cn_le_iff v.bpc f.size _ hbpc).mp (by rw [hL]; exact Nat.le_max_right _ _)
        have := cursor_index_lt v.bpc f.size (min pos f.size) (x :: xs).length hbpc hp' hsizeL (by simp)
        rw [← hcur] at this
        omega
      · split at h
        · simp at h
        · rename_i hgrow
          split at h
          · rename_i l r hl ha
            split at h
            · simp at h
            · rename_i hh
              exfalso
              have hpos : 0 < numClus v.bpc
                  ((Model.FatIO.seekCursor v.bpc f.size pos).coffpos + n -
                    ((x :: xs).length - (Model.FatIO.seekCursor v.bpc f.size pos).cindex) * v.bpc) :=
                numClus_pos _ _ hbpc (by omega)
              rw [opt_of_ne (by simp)] at inv
              obtain ⟨_, hlen2⟩ := allocate_preserves hv.params inv hint v.bound _ hv.bound hpos r ha
              cases hc2 : r.clusters with
              | nil => rw [hc2] at hlen2; simp only [List.length_nil] at hlen2; omega
              | cons y ys => rw [hc2] at hh; simp at hh
          · rename_i _ hl
            simp at hl
          · simp only [Except.error.injEq] at h; exact h.symm

/-! ## the operations -/

/-- what every call guarantees: the invariant afterwards, and after out-of-space the same tree, sizes and chains -/
def Good (v : Vol) (count : Nat) (s : St) (out : St × Res) : Prop :=
  Inv v count out.1 ∧ (Proofs.FsRefine.Soft out.2 → out.1.nodes = s.nodes ∧ out.1.rootChain = s.rootChain) ∧
    (Sync s → Sync out.1) ∧ (ShapeNodes v.bpc s.nodes → ShapeNodes v.bpc out.1.nodes) ∧
    (ShapeNodes v.bpc s.nodes → out.2 ≠ .err .eio)

theorem good_same {v : Vol} {count : Nat} {s : St} (h : Inv v count s) (r : Res) (hr : r ≠ .err .eio) : Good v count s (s, r) :=
  ⟨h, fun _ => ⟨rfl, rfl⟩, fun hs => hs, fun hs => hs, fun _ => hr⟩

theorem shape_append {b : Nat} {nodes : List Node} {n : Node} (h : ShapeNodes b nodes) (hn : n.isDir = false → Shape b n) :
    ShapeNodes b (nodes ++ [n]) := by
  intro x hx hxd
  rw [List.mem_append, List.mem_singleton] at hx
  rcases hx with hx | rfl
  · exact h x hx hxd
  · exact hn hxd

theorem sync_flush {s : St} (hs : Sync s) : Sync (flush s) := ⟨rfl, hs.disk⟩

theorem updateDir_irrel (v : Vol) (s : St) (nodes : List Node) (loc : Loc) :
    updateDir v s nodes loc = updateDir v { s with nodes := nodes } nodes loc := by
  unfold updateDir; rfl

theorem flush_inv {v : Vol} {count : Nat} {s : St} {ex : Option Nat} {extra : List (List Nat)} (h : InvX v count s ex extra) :
    InvX v count (flush s) ex extra := h.congr rfl rfl rfl rfl

/-- appending a fresh entry under `ploc`: everything but `ploc`'s size is in order -/
theorem invX_append {v : Vol} {count : Nat} (hv : VolOK v count) {s : St} (h : Inv v count s) (n : Node) (ploc : Loc) (dir : List Nat)
    (hl : LocAt s.nodes ploc dir) (hpd : ploc.isDir = true) (hpar : n.parent = ploc.id) (hpath : n.path = dir ++ [n.key])
    (hfresh : ∀ x ∈ s.nodes, x.path ≠ n.path)
    (fat' : List Nat) (hint' : Nat)
    (hrep : FatRep v.p count fat' (opt n.chain ++ own s.rootChain s.nodes)) (hh : HintOK v.p v.bound fat' hint')
    (hdir : n.isDir = true → n.chain ≠ [] ∧ 64 ≤ n.chain.length * v.bpc ∧ n.clus ≠ 0 ∧
      (∀ d ∈ s.nodes, d.isDir = true → d.clus ≠ n.clus)) :
    InvX v count { s with fat := fat', hint := hint', nodes := s.nodes ++ [n] } (some ploc.id) [] := by
  have hidne : ∀ d ∈ s.nodes, d.isDir = true → some ploc.id ≠ some d.clus → n.parent ≠ d.clus := by
    intro d _ _ hne e
    exact hne (by rw [← hpar, e])
  refine ⟨?_, ?_, hh, h.rootFixed, h.rootChain, ?_, ?_, ?_⟩
  · exact treeInv_append h.tree n ploc dir hl hpd hpar hpath hfresh (fun hd => ⟨(hdir hd).2.2.1, (hdir hd).2.2.2⟩)
  · simp only [List.nil_append]
    exact fatRep_perm (own_append s.rootChain s.nodes n).symm hrep
  · intro d hd hdd
    simp only [List.mem_append, List.mem_singleton] at hd
    rcases hd with hd | rfl
    · exact h.dirs d hd hdd
    · exact (hdir hdd).1
  · intro hne
    have : n.parent ≠ 0 := by
      intro e; apply hne; rw [← hpar, e]
    have e := childSlots_append s.nodes n 0
    simp only [this, ↓reduceIte, Nat.add_zero] at e
    have := h.fitsRoot (by simp)
    rw [dirBytes_id v s.nodes _ .root e]
    exact this
  · intro d hd hdd hne
    simp only [List.mem_append, List.mem_singleton] at hd
    rcases hd with hd | rfl
    · have e := childSlots_append s.nodes n d.clus
      simp only [hidne d hd hdd hne, ↓reduceIte, Nat.add_zero] at e
      rw [dirBytes_id v s.nodes _ (.node d) e]
      exact h.fitsDir d hd hdd (by simp)
    · -- the new directory itself: nothing is in it yet
      obtain ⟨_, h64, hc0, hfreshc⟩ := hdir hdd
      have hz : childSlots (s.nodes ++ [d]) d.clus = 0 := by
        rw [childSlots_append]
        have h1 : childSlots s.nodes d.clus = 0 := by
          unfold childSlots
          have : s.nodes.filter (fun x => x.parent == d.clus) = [] := by
            rw [List.filter_eq_nil_iff]
            intro x hx
            simp only [beq_iff_eq]
            intro e
            rcases h.tree.link x hx with ⟨hp0, _⟩ | ⟨d', hd', hd'dir, hd'clus, _⟩
            · exact hc0 (by rw [← e, hp0])
            · exact hfreshc d' hd' hd'dir (by rw [hd'clus, e])
          rw [this]; rfl
        have h2 : d.parent ≠ d.clus := by
          intro e
          cases ploc with
          | root => simp only [Loc.id] at hpar; exact hc0 (by rw [← e, hpar])
          | node p =>
            simp only [Loc.id] at hpar
            simp only [LocAt] at hl
            exact hfreshc p hl.1 hpd (by rw [← hpar, e])
        simp [h1, h2]
      simp only [dirBytes, Loc.id, hz]
      omega

theorem not_soft_ok (b : Bool) : ¬ Proofs.FsRefine.Soft (.ok b) := by
  intro hs; rcases hs with hs | hs <;> cases hs

/-- replacing a file entry by one at the same place (other chain, other size) -/
theorem invX_replace_file {v : Vol} {count : Nat} {s : St} (h : Inv v count s) (f f' : Node) (hf : f ∈ s.nodes)
    (hfd : f.isDir = false) (hs : SameSkel f' f) (fat' : List Nat) (hint' : Nat)
    (hrep : FatRep v.p count fat' (opt f'.chain ++ own s.rootChain (s.nodes.erase f))) (hh : HintOK v.p v.bound fat' hint') :
    InvX v count { s with fat := fat', hint := hint', nodes := replaceNode s.nodes f f' } none [] := by
  have hf'd : f'.isDir = false := by rw [hs.2.2.2.1]; exact hfd
  have hnd := nodup_of_tree h.tree
  refine ⟨treeInv_replace h.tree f f' hs, ?_, hh, h.rootFixed, h.rootChain, ?_, fun _ => ?_, ?_⟩
  · simp only [List.nil_append]
    exact fatRep_perm (own_replace s.rootChain hnd hf).symm hrep
  · intro x hx hxd
    rcases mem_replace hx with rfl | ⟨hx', _⟩
    · rw [hf'd] at hxd; cases hxd
    · exact h.dirs x hx' hxd
  · rw [dirBytes_id v s.nodes _ .root (childSlots_replace s.nodes f f' hs _)]
    exact h.fitsRoot (by simp)
  · intro x hx hxd _
    rcases mem_replace hx with rfl | ⟨hx', _⟩
    · rw [hf'd] at hxd; cases hxd
    · rw [dirBytes_id v s.nodes _ (.node x) (childSlots_replace s.nodes f f' hs _)]
      exact h.fitsDir x hx' hxd (by simp)

/-- the FAT side of a file write keeps the representation: the file's chain is replaced by the grown one -/
theorem writeChain_rep {v : Vol} {count : Nat} (hv : VolOK v count) {fat : List Nat} {hint : Nat} {c : List Nat}
    {size pos n : Nat} {rest : List (List Nat)} {fat' : List Nat} {hint' : Nat} {c' : List Nat}
    (inv : FatRep v.p count fat (opt c ++ rest)) (hn : 0 < n)
    (h : writeChain v fat hint c size pos n = .ok (fat', hint', c')) :
    FatRep v.p count fat' (opt c' ++ rest) := by
  have hbpc : 0 < v.bpc := by have := hv.bpc; omega
  unfold writeChain at h
  cases c with
  | nil =>
    simp only at h
    split at h
    · simp at h
    · rename_i r ha
      simp only [Except.ok.injEq, Prod.mk.injEq] at h
      obtain ⟨rfl, rfl, rfl⟩ := h
      have hpos := numClus_pos v.bpc n hbpc hn
      obtain ⟨inv2, hlen⟩ := allocate_preserves hv.params (by simpa [opt] using inv) hint v.bound _ hv.bound hpos r ha
      have : r.clusters ≠ [] := by
        intro e; rw [e] at hlen; simp at hlen; omega
      rw [opt_of_ne this]; exact inv2
  | cons x xs =>
    simp only at h
    split at h
    · simp at h
    · split at h
      · simp only [Except.ok.injEq, Prod.mk.injEq] at h
        obtain ⟨rfl, rfl, rfl⟩ := h
        exact inv
      · rename_i hgt
        split at h
        · rename_i l r hl ha
          split at h
          · rename_i hd hh
            simp only [Except.ok.injEq, Prod.mk.injEq] at h
            obtain ⟨rfl, rfl, rfl⟩ := h
            have hpos : 0 < numClus v.bpc
                ((Model.FatIO.seekCursor v.bpc size pos).coffpos + n -
                  ((x :: xs).length - (Model.FatIO.seekCursor v.bpc size pos).cindex) * v.bpc) :=
              numClus_pos _ _ hbpc (by omega)
            rw [opt_of_ne (by simp)] at inv
            obtain ⟨inv2, _⟩ := extend_rep hv.params hv.bound inv hpos hl ha hh
            rw [opt_of_ne (by simp)]
            exact inv2
          · simp at h
        · simp at h
        · simp at h

/-- run `update_directory_entry` where everything fits: only the device changes -/
theorem updateDir_fits_good {v : Vol} {count : Nat} {s : St} {loc : Loc} {extra : List (List Nat)}
    (h : InvX v count s none extra) (hloc : HLoc s.nodes loc) :
    ∃ s2, updateDir v s s.nodes loc = .ok s2 ∧ InvX v count s2 none extra ∧ s2.fat = s.fat ∧ s2.hint = s.hint ∧
      s2.rootChain = s.rootChain ∧ s2.nodes = s.nodes ∧ s2.dfat = s.dfat := by
  obtain ⟨s2, hu, e1, e2, e3, e4, e5⟩ := updateDir_of_fits h hloc
  exact ⟨s2, hu, h.congr e1 e2 e3 e4, e1, e2, e3, e4, e5⟩

/-- an entry without children can go: what is left fits everywhere, its chain is the only thing left over -/
theorem invX_erase {v : Vol} {count : Nat} {s : St} (h : Inv v count s) (n : Node) (hn : n ∈ s.nodes)
    (hch : n.isDir = true → ∀ x ∈ s.nodes, x.parent ≠ n.clus) :
    InvX v count { s with nodes := s.nodes.erase n } none (opt n.chain) := by
  have sub : ∀ x, x ∈ s.nodes.erase n → x ∈ s.nodes := fun x hx => List.mem_of_mem_erase hx
  refine ⟨treeInv_erase h.tree n hch, ?_, h.hintOK, h.rootFixed, h.rootChain, fun d hd => h.dirs d (sub d hd), fun _ => ?_, ?_⟩
  · exact fatRep_perm (own_erase s.rootChain hn) (by simpa using h.rep)
  · have := h.fitsRoot (by simp)
    have hle := childSlots_erase_le s.nodes n 0
    simp only [dirBytes, Loc.id] at this ⊢
    omega
  · intro d hd hdd _
    have := h.fitsDir d (sub d hd) hdd (by simp)
    have hle := childSlots_erase_le s.nodes n d.clus
    simp only [dirBytes, Loc.id] at this ⊢
    omega

theorem removeEntry_good {v : Vol} {count : Nat} (hv : VolOK v count) {s : St} (h : Inv v count s) (ploc : Loc) (n : Node)
    (hn : n ∈ s.nodes) (hch : n.isDir = true → ∀ x ∈ s.nodes, x.parent ≠ n.clus)
    (hloc : HLoc (s.nodes.erase n) ploc) (hpar : n.parent = ploc.id) : Good v count s (removeEntry v s ploc n) := by
  unfold removeEntry
  rw [updateDir_irrel]
  have hx := invX_erase h n hn hch
  obtain ⟨s2, hu, hi2, e1, _, e3, e4, e5⟩ := updateDir_fits_good hx hloc
  rw [hu]
  simp only
  have hdisk : Sync s → s2.disk.Perm (D s2.nodes) := fun hs => sync_update hs rfl hu (others_erase _ _ _ hpar)
  have hshape : ShapeNodes v.bpc s.nodes → ShapeNodes v.bpc s2.nodes := by
    intro hsh x hx hxd
    rw [e4] at hx
    exact hsh x (List.mem_of_mem_erase hx) hxd
  split
  · rename_i hc
    refine ⟨?_, fun hs => absurd hs (not_soft_ok _), fun hs => ⟨by rw [e5, e1]; exact hs.fat, hdisk hs⟩, hshape, fun _ => by simp⟩
    have : opt n.chain = [] := by simp [opt, hc]
    rw [this] at hi2
    exact hi2
  · rename_i hc
    refine ⟨?_, fun hs => absurd hs (not_soft_ok _), fun hs => ⟨rfl, hdisk hs⟩, hshape, fun _ => by simp⟩
    have hrep := release_rep hv.params hi2.rep hc
    exact ⟨hi2.tree, by simpa [flush, release] using hrep, release_hint n.chain hi2.hintOK, hi2.rootFixed, hi2.rootChain, hi2.dirs, hi2.fitsRoot, hi2.fitsDir⟩

theorem find_none_fresh {nodes : List Node} {q : List Nat} (h : nodes.find? (fun n => n.path == q) = none) :
    ∀ x ∈ nodes, x.path ≠ q := by
  rw [List.find?_eq_none] at h
  intro x hx e
  exact h x hx (by simp [e])

theorem create_good {v : Vol} {count : Nat} (hv : VolOK v count) {s : St} (h : Inv v count s)
    (path : List Nat) (slots : Nat) (wipe : Bool) : Good v count s (create v s path slots wipe) := by
  unfold create
  cases hsl : splitLast path with
  | none => exact good_same h _ (by decide)
  | some dk =>
    obtain ⟨dir, k⟩ := dk
    have hp : path = dir ++ [k] := (splitLast_some path dir k).mp hsl
    subst hp
    simp only
    cases hr : resolve s.nodes dir with
    | none => exact good_same h _ (by decide)
    | some ploc =>
      simp only
      by_cases hpd : ploc.isDir = true
      case neg => simp only [hpd, Bool.not_false, ↓reduceIte]; exact good_same h _ (by decide)
      case pos =>
        simp only [hpd, Bool.not_true, Bool.false_eq_true, ↓reduceIte]
        have hl := resolve_sound h.tree dir ploc hr
        rw [child_eq_find h.tree dir k ploc hr hpd]
        cases hf : s.nodes.find? (fun n => n.path == dir ++ [k]) with
        | none =>
          simp only
          rw [updateDir_irrel]
          have hx := invX_append hv h ⟨dir ++ [k], ploc.id, k, false, [], 0, slots⟩ ploc dir hl hpd rfl rfl
            (find_none_fresh hf) s.fat s.hint (by simpa [opt] using h.rep) h.hintOK (by simp)
          have hx' : InvX v count { s with nodes := s.nodes ++ [⟨dir ++ [k], ploc.id, k, false, [], 0, slots⟩] } (some ploc.id) [] :=
            hx.congr rfl rfl rfl rfl
          split
          · rename_i e hu
            have he := updateDir_no_eio hv hx' ((hloc_of_locAt hl hpd).mono (fun d hd _ => List.mem_append_left _ hd)) hu
            exact good_same h _ (by rw [he]; decide)
          · rename_i s2 hu
            have := (updateDir_inv hv hx' ((hloc_of_locAt hl hpd).mono (fun d hd _ => List.mem_append_left _ hd)) hu).1
            exact ⟨flush_inv this, fun hs => absurd hs (not_soft_ok _),
              fun hs => sync_flush_update hs (by rfl) hu (others_append s.nodes ⟨dir ++ [k], ploc.id, k, false, [], 0, slots⟩ ploc.id rfl),
              fun hsh => (shape_updateDir hu hpd (shape_append (n := ⟨dir ++ [k], ploc.id, k, false, [], 0, slots⟩) hsh (fun _ => Or.inl ⟨rfl, rfl⟩)) : ShapeNodes v.bpc s2.nodes),
              fun _ => by simp⟩
        | some n =>
          obtain ⟨hn, hnp⟩ := Proofs.FsRefine.find_path hf
          have hnpar : n.parent = ploc.id := by
            have hc : child s.nodes ploc.id k = some n := by rw [child_eq_find h.tree dir k ploc hr hpd]; exact hf
            exact (child_some hc).2.1
          simp only
          by_cases hnd : n.isDir = true
          · simp only [hnd, ↓reduceIte]; exact good_same h _ (by decide)
          · simp only [hnd, Bool.false_eq_true, ↓reduceIte]
            cases wipe with
            | false => simp only [Bool.not_false, ↓reduceIte]; exact good_same h _ (by decide)
            | true =>
              simp only [Bool.not_true, Bool.false_eq_true, ↓reduceIte]
              have hnd' : n.isDir = false := by simpa using hnd
              -- the FAT after the release (if any)
              have hrep : FatRep v.p count (if n.chain = [] then s else release v s n.chain).fat
                  (opt ([] : List Nat) ++ own s.rootChain (s.nodes.erase n)) := by
                have p := own_erase s.rootChain hn
                split
                · rename_i hc
                  simp only [hc, opt, ↓reduceIte, List.nil_append] at p ⊢
                  exact fatRep_perm p (by simpa using h.rep)
                · rename_i hc
                  simp only [opt, ↓reduceIte, List.nil_append]
                  exact release_rep hv.params (fatRep_perm p (by simpa using h.rep)) hc
              have hs1h : HintOK v.p v.bound (if n.chain = [] then s else release v s n.chain).fat
                  (if n.chain = [] then s else release v s n.chain).hint := by
                split
                · exact h.hintOK
                · exact release_hint n.chain h.hintOK
              have hs1n : (if n.chain = [] then s else release v s n.chain).nodes = s.nodes := by split <;> rfl
              have hs1r : (if n.chain = [] then s else release v s n.chain).rootChain = s.rootChain := by split <;> rfl
              have hs1d : (if n.chain = [] then s else release v s n.chain).disk = s.disk := by split <;> rfl
              generalize (if n.chain = [] then s else release v s n.chain) = s1 at hrep hs1n hs1r hs1d hs1h
              have hx := invX_replace_file h n ⟨n.path, n.parent, n.key, false, [], 0, n.slots⟩ hn hnd'
                ⟨rfl, rfl, rfl, hnd'.symm, rfl, fun hd => by rw [hnd'] at hd; cases hd⟩ s1.fat s1.hint hrep hs1h
              rw [updateDir_irrel, hs1n]
              have hx' : InvX v count { s1 with nodes := replaceNode s.nodes n ⟨n.path, n.parent, n.key, false, [], 0, n.slots⟩ } none [] := by
                refine hx.congr rfl rfl ?_ rfl
                exact hs1r
              have hloc : HLoc (replaceNode s.nodes n ⟨n.path, n.parent, n.key, false, [], 0, n.slots⟩) ploc :=
                (hloc_of_locAt hl hpd).mono (fun d hd hdd => mem_replace_of hd (by
                  intro e; rw [e, hnd'] at hdd; cases hdd))
              obtain ⟨s2, hu, hi2, _, _, _, _⟩ := updateDir_fits_good hx' hloc
              rw [hu]
              exact ⟨flush_inv hi2, fun hs => absurd hs (not_soft_ok _),
                fun hs => sync_flush_update hs hs1d hu (others_replace _ _ _ _ hnpar hnpar),
                fun hsh => (shape_updateDir hu hpd (shape_replace (o := n) (n := ⟨n.path, n.parent, n.key, false, [], 0, n.slots⟩) hsh (fun _ => Or.inl ⟨rfl, rfl⟩)) : ShapeNodes v.bpc s2.nodes),
                fun _ => by simp⟩

/-- a cluster of an owned chain is not zero and not in any other owned chain -/
theorem fresh_clusters {p : Params} {count : Nat} {fat : List Nat} {a : List Nat} {chains : List (List Nat)}
    (inv : FatRep p count fat (a :: chains)) (c : Nat) (hc : c ∈ a) :
    c ≠ 0 ∧ ∀ b ∈ chains, c ∉ b := by
  constructor
  · have := inv.inData a (by simp) c hc; omega
  · intro b hb hcb
    have hdis := inv.disjoint
    simp only [List.flatten_cons] at hdis
    rw [List.nodup_append] at hdis
    exact hdis.2.2 c hc c (List.mem_flatten.mpr ⟨b, hb, hcb⟩) rfl

theorem makedir_good {v : Vol} {count : Nat} (hv : VolOK v count) {s : St} (h : Inv v count s)
    (path : List Nat) (slots : Nat) : Good v count s (makedir v s path slots) := by
  have hbpc : 0 < v.bpc := by have := hv.bpc; omega
  unfold makedir
  cases hsl : splitLast path with
  | none => exact good_same h _ (by decide)
  | some dk =>
    obtain ⟨dir, k⟩ := dk
    have hp : path = dir ++ [k] := (splitLast_some path dir k).mp hsl
    subst hp
    simp only
    cases hr : resolve s.nodes dir with
    | none => exact good_same h _ (by decide)
    | some ploc =>
      simp only
      by_cases hpd : ploc.isDir = true
      case neg => simp only [hpd, Bool.not_false, ↓reduceIte]; exact good_same h _ (by decide)
      case pos =>
        simp only [hpd, Bool.not_true, Bool.false_eq_true, ↓reduceIte]
        have hl := resolve_sound h.tree dir ploc hr
        rw [child_eq_find h.tree dir k ploc hr hpd]
        cases hf : s.nodes.find? (fun n => n.path == dir ++ [k]) with
        | some n => exact good_same h _ (by decide)
        | none =>
          simp only
          cases ha : allocate v.p s.fat s.hint v.bound (numClus v.bpc 64) with
          | none => exact good_same h _ (by decide)
          | some r =>
            simp only
            have hpos := numClus_pos v.bpc 64 hbpc (by omega)
            obtain ⟨inv2, hlen⟩ := allocate_preserves hv.params (by simpa using h.rep) s.hint v.bound _ hv.bound hpos r ha
            have hcne : r.clusters ≠ [] := by
              intro e; rw [e] at hlen; simp at hlen; omega
            rw [updateDir_irrel]
            have hclus : (⟨dir ++ [k], ploc.id, k, true, r.clusters, 0, slots⟩ : Node).clus ∈ r.clusters :=
              clus_mem (n := ⟨dir ++ [k], ploc.id, k, true, r.clusters, 0, slots⟩) hcne
            have hfr := fresh_clusters inv2 _ hclus
            have hx := invX_append hv h ⟨dir ++ [k], ploc.id, k, true, r.clusters, 0, slots⟩ ploc dir hl hpd rfl rfl
              (find_none_fresh hf) r.fat r.hint (by rw [opt_of_ne hcne]; exact inv2)
              (alloc_hint hv.params h.hintOK ha (Or.inl (inv2.chain r.clusters (by simp))))
              (fun _ => ⟨hcne, by
                have : 1 ≤ r.clusters.length := by
                  rcases Nat.eq_zero_or_pos r.clusters.length with e | e
                  · exact absurd (List.eq_nil_of_length_eq_zero e) hcne
                  · exact e
                have h64 := hv.bpc
                calc 64 ≤ v.bpc := h64
                  _ = 1 * v.bpc := (Nat.one_mul _).symm
                  _ ≤ r.clusters.length * v.bpc := Nat.mul_le_mul_right _ this,
                hfr.1, fun d hd hdd e => hfr.2 d.chain (chain_mem_own hd (h.dirs d hd hdd)) (by
                  rw [← e]; exact clus_mem (h.dirs d hd hdd))⟩)
            split
            · -- the parent could not be written: the new cluster is released again
              rename_i e hu
              have he := updateDir_no_eio hv (hx.congr rfl rfl rfl rfl)
                ((hloc_of_locAt hl hpd).mono (fun d hd _ => List.mem_append_left _ hd)) hu
              refine ⟨?_, fun _ => ⟨rfl, rfl⟩, fun hs => ?_, fun hsh => hsh, fun _ => by rw [he]; simp⟩
              · have := free_preserves hv.params inv2
                exact ⟨h.tree, by simpa [release] using this,
                  release_hint r.clusters (alloc_hint hv.params h.hintOK ha (Or.inl (inv2.chain r.clusters (by simp)))),
                  h.rootFixed, h.rootChain, h.dirs, h.fitsRoot, h.fitsDir⟩
              · have hbl : v.bound ≤ s.fat.length := by
                  have h1 := hv.bound
                  have h2 := h.rep.len
                  omega
                refine ⟨?_, hs.disk⟩
                simp only [release]
                rw [alloc_release_cancel ha hbl]
                exact hs.fat
            · rename_i s2 hu
              have := (updateDir_inv hv (hx.congr rfl rfl rfl rfl)
                ((hloc_of_locAt hl hpd).mono (fun d hd _ => List.mem_append_left _ hd)) hu).1
              exact ⟨flush_inv this, fun hs => absurd hs (not_soft_ok _),
                fun hs => sync_flush_update hs (by rfl) hu (others_append s.nodes ⟨dir ++ [k], ploc.id, k, true, r.clusters, 0, slots⟩ ploc.id rfl),
                fun hsh => (shape_updateDir hu hpd (shape_append (n := ⟨dir ++ [k], ploc.id, k, true, r.clusters, 0, slots⟩) hsh (fun hf => by cases hf)) : ShapeNodes v.bpc s2.nodes),
                fun _ => by simp⟩

/-- the directory part of a resolving path is a directory of the tree, different from the entry itself -/
theorem parent_loc {nodes : List Node} (h : TreeInv nodes) {dir : List Nat} {k : Nat} {n : Node} {ploc : Loc}
    (hrn : resolve nodes (dir ++ [k]) = some (.node n)) (hrp : resolve nodes dir = some ploc) :
    HLoc (nodes.erase n) ploc ∧ ploc.isDir = true ∧ LocAt nodes ploc dir ∧ n.parent = ploc.id := by
  have hl := resolve_sound h dir ploc hrp
  have hpd : ploc.isDir = true := by
    rw [resolve_snoc, hrp] at hrn
    simp only [walk] at hrn
    split at hrn
    · assumption
    · simp at hrn
  obtain ⟨_, hnp⟩ := resolve_node h _ n hrn
  have hpar : n.parent = ploc.id := by
    have hrn' := hrn
    rw [resolve_snoc, hrp] at hrn'
    simp only [walk, hpd, ↓reduceIte, Option.map_eq_some_iff] at hrn'
    obtain ⟨m, hc, hm⟩ := hrn'
    simp only [Loc.node.injEq] at hm
    subst hm
    exact (child_some hc).2.1
  refine ⟨?_, hpd, hl, hpar⟩
  cases ploc with
  | root => trivial
  | node d =>
    simp only [LocAt] at hl
    refine ⟨?_, hpd⟩
    rw [(nodup_of_tree h).mem_erase_iff]
    refine ⟨?_, hl.1⟩
    intro e
    have : d.path.length = n.path.length := by rw [e]
    rw [hl.2, hnp] at this
    simp at this

theorem remove_good {v : Vol} {count : Nat} (hv : VolOK v count) {s : St} (h : Inv v count s)
    (path : List Nat) : Good v count s (remove v s path) := by
  unfold remove
  cases hsl : splitLast path with
  | none => exact good_same h _ (by decide)
  | some dk =>
    obtain ⟨dir, k⟩ := dk
    have hp : path = dir ++ [k] := (splitLast_some path dir k).mp hsl
    subst hp
    simp only
    split
    · rename_i n ploc hrn hrp
      split
      · exact good_same h _ (by decide)
      · rename_i hnd
        obtain ⟨hn, _⟩ := resolve_node h.tree _ n hrn
        obtain ⟨hloc, _, _, hpar⟩ := parent_loc h.tree hrn hrp
        exact removeEntry_good hv h ploc n hn (fun hd => absurd hd hnd) hloc hpar
    · exact good_same h _ (by decide)
    · exact good_same h _ (by decide)

theorem removedir_good {v : Vol} {count : Nat} (hv : VolOK v count) {s : St} (h : Inv v count s)
    (path : List Nat) : Good v count s (removedir v s path) := by
  unfold removedir
  cases hsl : splitLast path with
  | none => exact good_same h _ (by decide)
  | some dk =>
    obtain ⟨dir, k⟩ := dk
    have hp : path = dir ++ [k] := (splitLast_some path dir k).mp hsl
    subst hp
    simp only
    split
    · rename_i n ploc hrn hrp
      split
      · exact good_same h _ (by decide)
      · split
        · exact good_same h _ (by decide)
        · rename_i hany
          obtain ⟨hn, _⟩ := resolve_node h.tree _ n hrn
          obtain ⟨hloc, _, _, hpar⟩ := parent_loc h.tree hrn hrp
          refine removeEntry_good hv h ploc n hn (fun _ x hx e => hany ?_) hloc hpar
          rw [List.any_eq_true]
          exact ⟨x, hx, by simp [e]⟩
    · exact good_same h _ (by decide)
    · exact good_same h _ (by decide)

/-- a file entry is rewritten in place (new chain, new size), the FAT already updated: the parent is
    rewritten without a change to the FAT and the invariant holds again -/
theorem replace_then_update {v : Vol} {count : Nat} {s : St} (h : Inv v count s) (f f' : Node) (hf : f ∈ s.nodes)
    (hfd : f.isDir = false) (hs' : SameSkel f' f) (s1 : St) (e2 : s1.rootChain = s.rootChain) (e3 : s1.nodes = s.nodes)
    (hrep : FatRep v.p count s1.fat (opt f'.chain ++ own s.rootChain (s.nodes.erase f)))
    (hh : HintOK v.p v.bound s1.fat s1.hint)
    (ploc : Loc) (hloc : HLoc s.nodes ploc) (e4 : s1.disk = s.disk) (hpar : f.parent = ploc.id)
    (hsf : ShapeNodes v.bpc s.nodes → Shape v.bpc f') :
    ∃ s2, updateDir v s1 (replaceNode s1.nodes f f') ploc = .ok s2 ∧ Inv v count (flush s2) ∧ (Sync s → Sync (flush s2)) ∧
      (ShapeNodes v.bpc s.nodes → ShapeNodes v.bpc (flush s2).nodes) := by
  have hfd' : ∀ d, d ∈ s.nodes → d.isDir = true → d ≠ f := by
    intro d _ hdd e; rw [e, hfd] at hdd; cases hdd
  have hx := invX_replace_file h f f' hf hfd hs' s1.fat s1.hint hrep hh
  rw [updateDir_irrel, e3]
  have hx' : InvX v count { s1 with nodes := replaceNode s.nodes f f' } none [] := hx.congr rfl rfl e2 rfl
  have hloc' : HLoc (replaceNode s.nodes f f') ploc := hloc.mono (fun d hd hdd => mem_replace_of hd (hfd' d hd hdd))
  obtain ⟨s2, hu, hi2, _, _, _, en, _⟩ := updateDir_fits_good hx' hloc'
  refine ⟨s2, hu, flush_inv hi2, fun hs => sync_flush_update hs e4 hu (others_replace _ _ _ _ hpar (by rw [hs'.2.1]; exact hpar)), ?_⟩
  intro hsh
  simp only [flush]
  rw [en]
  exact shape_replace hsh (fun _ => hsf hsh)

theorem fwrite_good {v : Vol} {count : Nat} (hv : VolOK v count) {s : St} (h : Inv v count s)
    (path : List Nat) (pos n : Nat) : Good v count s (fwrite v s path pos n) := by
  unfold fwrite
  cases hsl : splitLast path with
  | none => exact good_same h _ (by decide)
  | some dk =>
    obtain ⟨dir, k⟩ := dk
    have hp : path = dir ++ [k] := (splitLast_some path dir k).mp hsl
    subst hp
    simp only
    split
    · rename_i f ploc hrn hrp
      split
      · exact good_same h _ (by decide)
      · rename_i hfd
        have hfd' : f.isDir = false := by simpa using hfd
        obtain ⟨hf, _⟩ := resolve_node h.tree _ f hrn
        obtain ⟨_, hpd, hl, hpar⟩ := parent_loc h.tree hrn hrp
        split
        · exact ⟨flush_inv h, fun _ => ⟨rfl, rfl⟩, sync_flush, fun hsh => hsh, fun _ => by simp⟩
        · rename_i hn0
          split
          · rename_i e hw
            exact ⟨flush_inv h, fun _ => ⟨rfl, rfl⟩, sync_flush, fun hsh => hsh, fun hsh => by
              rw [writeChain_no_eio hv (fatRep_perm (own_erase s.rootChain hf) (by simpa using h.rep)) (hsh f hf hfd') (by omega) hw]
              simp⟩
          · rename_i fat hint chain hw
            have hrep := writeChain_rep hv (fatRep_perm (own_erase s.rootChain hf) (by simpa using h.rep)) (by omega) hw
            obtain ⟨s2, hu, hi2, hsy, hshp⟩ := replace_then_update h f { f with chain := chain, size := max f.size (min pos f.size + n) } hf hfd'
              ⟨rfl, rfl, rfl, rfl, rfl, fun hd => by rw [hfd'] at hd; cases hd⟩
              { s with fat := fat, hint := hint } rfl rfl hrep
              (writeChain_hint hv.params hv.bound (by have := hv.bpc; omega)
                (fatRep_perm (own_erase s.rootChain hf) (by simpa using h.rep)) h.hintOK (by omega) hw)
              ploc (hloc_of_locAt hl hpd) rfl hpar
              (fun hsh => by
                have hb0 : 0 < v.bpc := by have := hv.bpc; omega
                obtain ⟨h1, h2⟩ := writeChain_len hv.params hv.bound hb0
                  (fatRep_perm (own_erase s.rootChain hf) (by simpa using h.rep)) (hsh f hf hfd') (by omega) hw
                exact Or.inr ⟨h1, h2⟩)
            simp only at hu ⊢
            rw [hu]
            exact ⟨hi2, fun hs => absurd hs (not_soft_ok _), hsy, hshp, fun _ => by simp⟩
    · exact good_same h _ (by decide)
    · exact good_same h _ (by decide)

theorem take_getLast_none {c : List Nat} {k : Nat} (hk : 1 ≤ k) (hc : k < c.length) : (c.take k).getLast? ≠ none := by
  intro e
  rw [List.getLast?_eq_none_iff] at e
  have : (c.take k).length = 0 := by rw [e]; rfl
  rw [List.length_take] at this
  omega

theorem ftrunc_good {v : Vol} {count : Nat} (hv : VolOK v count) {s : St} (h : Inv v count s)
    (path : List Nat) (m : Nat) : Good v count s (ftrunc v s path m) := by
  unfold ftrunc
  cases hsl : splitLast path with
  | none => exact good_same h _ (by decide)
  | some dk =>
    obtain ⟨dir, k⟩ := dk
    have hp : path = dir ++ [k] := (splitLast_some path dir k).mp hsl
    subst hp
    simp only
    split
    · rename_i f ploc hrn hrp
      split
      · exact good_same h _ (by decide)
      · rename_i hfd
        have hfd' : f.isDir = false := by simpa using hfd
        obtain ⟨hf, _⟩ := resolve_node h.tree _ f hrn
        obtain ⟨_, hpd, hl, hpar⟩ := parent_loc h.tree hrn hrp
        have hown := fatRep_perm (own_erase s.rootChain hf) (by simpa using h.rep)
        split
        · -- grow
          rename_i hgt
          split
          · rename_i e hw
            exact ⟨flush_inv h, fun _ => ⟨rfl, rfl⟩, sync_flush, fun hsh => hsh, fun hsh => by
              rw [writeChain_no_eio hv hown (hsh f hf hfd') (by omega) hw]
              simp⟩
          · rename_i fat hint chain hw
            have hrep := writeChain_rep hv hown (by omega) hw
            obtain ⟨s2, hu, hi2, hsy, hshp⟩ := replace_then_update h f { f with chain := chain, size := m } hf hfd'
              ⟨rfl, rfl, rfl, rfl, rfl, fun hd => by rw [hfd'] at hd; cases hd⟩
              { s with fat := fat, hint := hint } rfl rfl hrep
              (writeChain_hint hv.params hv.bound (by have := hv.bpc; omega) hown h.hintOK (by omega) hw)
              ploc (hloc_of_locAt hl hpd) rfl hpar
              (fun hsh => by
                have hb0 : 0 < v.bpc := by have := hv.bpc; omega
                obtain ⟨h1, h2⟩ := writeChain_len hv.params hv.bound hb0 hown (hsh f hf hfd') (by omega) hw
                refine Or.inr ⟨h1, ?_⟩
                have : max f.size (min f.size f.size + (m - f.size)) = m := by
                  rw [Nat.min_self]; omega
                rw [this] at h2
                exact h2)
            simp only at hu ⊢
            rw [hu]
            exact ⟨hi2, fun hs => absurd hs (not_soft_ok _), hsy, hshp, fun _ => by simp⟩
        · -- shrink or same size
          rename_i hngt
          have hb0 : 0 < v.bpc := by have := hv.bpc; omega
          have hmle : m ≤ f.size := by omega
          by_cases hcut : m < f.size ∧ max 1 (numClus v.bpc m) < f.chain.length
          · simp only [hcut, and_self, ↓reduceIte]
            have hk1 : 1 ≤ max 1 (numClus v.bpc m) := Nat.le_max_left _ _
            cases hgl : (List.take (max 1 (numClus v.bpc m)) f.chain).getLast? with
            | none => exact absurd hgl (take_getLast_none hk1 hcut.2)
            | some l =>
              simp only
              have hcne : f.chain ≠ [] := by
                intro e; rw [e] at hcut; simp at hcut
              have hkne : List.take (max 1 (numClus v.bpc m)) f.chain ≠ [] := by
                intro e; rw [e] at hgl; simp at hgl
              have hown' : FatRep v.p count s.fat
                  ((List.take (max 1 (numClus v.bpc m)) f.chain ++ List.drop (max 1 (numClus v.bpc m)) f.chain) ::
                    own s.rootChain (s.nodes.erase f)) := by
                rw [List.take_append_drop]
                rw [opt_of_ne hcne] at hown
                exact hown
              have hrep := split_preserves hv.params hown' l hgl
              obtain ⟨s2, hu, hi2, hsy, hshp⟩ := replace_then_update h f
                { f with chain := List.take (max 1 (numClus v.bpc m)) f.chain, size := m } hf hfd'
                ⟨rfl, rfl, rfl, rfl, rfl, fun hd => by rw [hfd'] at hd; cases hd⟩
                (flush { s with fat := (freeList v.p.cv.free s.fat (List.drop (max 1 (numClus v.bpc m)) f.chain)).set l v.p.cv.eocMax,
                                hint := lowerHint s.hint (List.drop (max 1 (numClus v.bpc m)) f.chain) }) rfl rfl
                (by rw [opt_of_ne hkne]; exact hrep)
                (trunc_hint hv.params _ l (by
                  have hch := hown'.chain (List.take (max 1 (numClus v.bpc m)) f.chain ++ List.drop (max 1 (numClus v.bpc m)) f.chain) (by simp)
                  exact hch.inTable l (List.mem_append_left _ (List.mem_of_getLast? hgl))) h.hintOK)
                ploc (hloc_of_locAt hl hpd) rfl hpar
                (fun hsh => by
                  have := trunc_len v.bpc hb0 f m (hsh f hf hfd') hmle
                  simpa only [hcut, and_self, ↓reduceIte] using this)
              rw [hu]
              exact ⟨hi2, fun hs => absurd hs (not_soft_ok _), hsy, hshp, fun _ => by simp⟩
          · simp only [hcut, ↓reduceIte]
            obtain ⟨s2, hu, hi2, hsy, hshp⟩ := replace_then_update h f { f with chain := f.chain, size := m } hf hfd'
              ⟨rfl, rfl, rfl, rfl, rfl, fun hd => by rw [hfd'] at hd; cases hd⟩ s rfl rfl hown h.hintOK ploc (hloc_of_locAt hl hpd) rfl hpar
              (fun hsh => by
                have := trunc_len v.bpc hb0 f m (hsh f hf hfd') hmle
                simpa only [hcut, ↓reduceIte] using this)
            rw [hu]
            exact ⟨hi2, fun hs => absurd hs (not_soft_ok _), hsy, hshp, fun _ => by simp⟩
    · exact good_same h _ (by decide)
    · exact good_same h _ (by decide)

/-- **every call keeps the invariant, and a call that ends in out-of-space changes neither tree nor chains** -/
theorem step_good {v : Vol} {count : Nat} (hv : VolOK v count) {s : St} (h : Inv v count s) (op : Op) :
    Good v count s (step v s op) := by
  cases op with
  | create p sl w => exact create_good hv h p sl w
  | makedir p sl => exact makedir_good hv h p sl
  | remove p => exact remove_good hv h p
  | removedir p => exact removedir_good hv h p
  | fwrite p pos n => exact fwrite_good hv h p pos n
  | ftrunc p m => exact ftrunc_good hv h p m

theorem run_inv {v : Vol} {count : Nat} (hv : VolOK v count) (ops : List Op) :
    ∀ s : St, Inv v count s → Inv v count (run v s ops) := by
  induction ops with
  | nil => intro s h; exact h
  | cons op rest ih =>
    intro s h
    simp only [run, List.foldl_cons]
    exact ih _ (step_good hv h op).1

/-- memory and device agree after every call of every history -/
theorem run_sync {v : Vol} {count : Nat} (hv : VolOK v count) (ops : List Op) :
    ∀ s : St, Inv v count s → Sync s → Sync (run v s ops) := by
  induction ops with
  | nil => intro s _ hs; exact hs
  | cons op rest ih =>
    intro s h hs
    simp only [run, List.foldl_cons]
    exact ih _ (step_good hv h op).1 ((step_good hv h op).2.2.1 hs)

/-- every file's chain has exactly the clusters its size needs, after every call of every history -/
theorem run_shape {v : Vol} {count : Nat} (hv : VolOK v count) (ops : List Op) :
    ∀ s : St, Inv v count s → ShapeNodes v.bpc s.nodes → ShapeNodes v.bpc (run v s ops).nodes := by
  induction ops with
  | nil => intro s _ hs; exact hs
  | cons op rest ih =>
    intro s h hs
    simp only [run, List.foldl_cons]
    exact ih _ (step_good hv h op).1 ((step_good hv h op).2.2.2.1 hs)

end Proofs.FsInv
