import PyFatModel.Model.Dirty
import PyFatModel.Gen.Arith
import PyFatModel.Proofs.Bits

open Model.Dirty

namespace Proofs.Dirty

/-! ## the protocol brackets the session -/

theorem run_append (s : Ind) (a b : List W) : run s (a ++ b) = run (run s a) b := by
  simp [run, List.foldl_append]

/-- FAT flushes with the dirty bit and data writes never clear a mark -/
theorem body_keeps_flag (body : List W) (hb : bodyOK body = true) (s : Ind) :
    (run s body).flag = s.flag ∧ (s.fat1Clean = false → (run s body).fat1Clean = false) := by
  induction body generalizing s with
  | nil => simp [run]
  | cons w r ih =>
    cases w with
    | data =>
      simp only [bodyOK] at hb
      have := ih hb (apply s .data)
      simpa [run, apply] using this
    | fatCopy i c =>
      cases c with
      | true => simp [bodyOK] at hb
      | false =>
        simp only [bodyOK] at hb
        have := ih hb (apply s (.fatCopy i false))
        simp only [run, List.foldl_cons] at this ⊢
        constructor
        · rw [this.1]; cases i <;> simp [apply]
        · intro h; apply this.2; cases i <;> simp [apply, h]
    | bootHdr f => simp [bodyOK] at hb
    | bootSig => simp [bodyOK] at hb
    | backupHdr f => simp [bodyOK] at hb
    | backupSig => simp [bodyOK] at hb

theorem flushFat_effect (n : Nat) (c : Bool) (s : Ind) (hn : 0 < n) :
    run s (flushFat n c) = { s with fat1Clean := c } := by
  unfold flushFat
  obtain ⟨m, rfl⟩ : ∃ m, n = m + 1 := ⟨n - 1, by omega⟩
  -- only copy 0 touches the indicator
  have key : ∀ (l : List Nat) (t : Ind), (∀ i ∈ l, i ≠ 0) → run t (l.map (fun i => W.fatCopy i c)) = t := by
    intro l
    induction l with
    | nil => intro t _; rfl
    | cons i r ih =>
      intro t h
      have hi : i ≠ 0 := h i (by simp)
      obtain ⟨j, rfl⟩ : ∃ j, i = j + 1 := ⟨i - 1, by omega⟩
      simp only [List.map_cons, run, List.foldl_cons, apply]
      exact ih t (fun x hx => h x (by simp [hx]))
  rw [List.range_succ_eq_map]
  simp only [List.map_cons, run, List.foldl_cons, apply, List.map_map]
  have := key ((List.range m).map Nat.succ) { s with fat1Clean := c } (by intro i hi; simp at hi; obtain ⟨a, _, rfl⟩ := hi; omega)
  simpa [run, List.map_map] using this

/-- "after this write the image is marked, or only boot-sector copies remain (or nothing)" for every write -/
def good (is12 : Bool) (s : Ind) (rest : List W) : Bool := rest.isEmpty || marked is12 s || rest.all isBootCopy

def bracketOK (is12 : Bool) : Ind → List W → Bool
  | _, [] => true
  | s, w :: rest => good is12 (apply s w) rest && bracketOK is12 (apply s w) rest

/-- every state reached while writing `a` is marked -/
def allMarked (is12 : Bool) : Ind → List W → Bool
  | _, [] => true
  | s, w :: r => marked is12 (apply s w) && allMarked is12 (apply s w) r

theorem bracketOK_append (is12 : Bool) (a b : List W) : ∀ s, allMarked is12 s a = true →
    bracketOK is12 s (a ++ b) = bracketOK is12 (run s a) b := by
  induction a with
  | nil => intro s _; rfl
  | cons w r ih =>
    intro s h
    simp only [allMarked, Bool.and_eq_true] at h
    simp only [List.cons_append, bracketOK, good, h.1, Bool.or_true, Bool.true_or, Bool.true_and]
    rw [ih (apply s w) h.2]
    simp [run]

def noFlagClear : W → Bool
  | .bootHdr false => false
  | _ => true

/-- while the boot flag is set and nobody clears it, every state is marked -/
theorem allMarked_of_flag (is12 : Bool) (a : List W) : ∀ s, s.flag = true → a.all noFlagClear = true →
    allMarked is12 s a = true ∧ (run s a).flag = true := by
  induction a with
  | nil => intro s h _; exact ⟨rfl, h⟩
  | cons w r ih =>
    intro s h ha
    simp only [List.all_cons, Bool.and_eq_true] at ha
    have hf : (apply s w).flag = true := by
      cases w with
      | bootHdr f => cases f <;> simp_all [noFlagClear, apply]
      | fatCopy i c => cases i <;> simp [apply, h]
      | _ => simp [apply, h]
    have := ih (apply s w) hf ha.2
    simp only [allMarked, marked, hf, Bool.true_or, Bool.true_and, run, List.foldl_cons]
    exact ⟨this.1, by simpa [run] using this.2⟩

def keepsFatDirty : W → Bool
  | .fatCopy 0 true => false
  | _ => true

/-- FAT16/32: while FAT[1]'s clean bit stays cleared, every state is marked -/
theorem allMarked_of_fatDirty (a : List W) : ∀ s, s.fat1Clean = false → a.all keepsFatDirty = true →
    allMarked false s a = true ∧ (run s a).fat1Clean = false := by
  induction a with
  | nil => intro s h _; exact ⟨rfl, h⟩
  | cons w r ih =>
    intro s h ha
    simp only [List.all_cons, Bool.and_eq_true] at ha
    have hf : (apply s w).fat1Clean = false := by
      cases w with
      | fatCopy i c =>
        cases i with
        | zero => cases c <;> simp_all [keepsFatDirty, apply]
        | succ j => simp [apply, h]
      | _ => simp [apply, h]
    have := ih (apply s w) hf ha.2
    simp only [allMarked, marked, hf, Bool.not_false, Bool.true_and, Bool.or_true, run, List.foldl_cons]
    exact ⟨this.1, by simpa [run] using this.2⟩

theorem flushFat_noFlagClear (n : Nat) (c : Bool) : (flushFat n c).all noFlagClear = true := by
  simp [flushFat, List.all_map, noFlagClear]

theorem flushFat_false_keeps (n : Nat) : (flushFat n false).all keepsFatDirty = true := by
  simp only [flushFat, List.all_map, List.all_eq_true]
  intro i _; cases i <;> rfl

theorem body_noFlagClear (body : List W) (hb : bodyOK body = true) : body.all noFlagClear = true := by
  induction body with
  | nil => rfl
  | cons w r ih =>
    cases w with
    | data => simp only [bodyOK] at hb; simp [noFlagClear, ih hb]
    | fatCopy i c => cases c <;> simp_all [bodyOK, noFlagClear]
    | bootHdr f => simp [bodyOK] at hb
    | bootSig => simp [bodyOK] at hb
    | backupHdr f => simp [bodyOK] at hb
    | backupSig => simp [bodyOK] at hb

theorem flag_after_flush (n : Nat) (c : Bool) : ∀ s, (run s (flushFat n c)).flag = s.flag := by
  intro s
  unfold flushFat
  generalize List.range n = l
  induction l generalizing s with
  | nil => rfl
  | cons i r ih =>
    simp only [List.map_cons, run, List.foldl_cons]
    have := ih (apply s (W.fatCopy i c))
    simp only [run] at this
    rw [this]; cases i <;> simp [apply]

/-- **C11 bracket (write-call granularity), every FAT type, any number of FATs, any session body**:
    from a clean image, after each write of the session the image carries a dirty mark, or only
    boot-sector copies remain to be written. -/
theorem session_bracket (is12 is32 : Bool) (nfats : Nat) (hn : 0 < nfats) (body : List W) (hb : bodyOK body = true) :
    bracketOK is12 ⟨false, true⟩ (session is12 is32 nfats body) = true := by
  unfold session markDirty markClean
  cases is12 with
  | true =>
    -- FAT12: the boot flag is the only indicator; it is set by the very first write
    simp only [if_true, List.nil_append]
    have hD : writeBpb is32 true = [W.bootHdr true] ++ (writeBpb is32 true).drop 1 := by cases is32 <;> rfl
    rw [hD, List.append_assoc, List.append_assoc]
    simp only [List.singleton_append, bracketOK, good, apply, marked, Bool.true_or, Bool.or_true, Bool.true_and]
    have hmid : ((writeBpb is32 true).drop 1 ++ body).all noFlagClear = true := by
      rw [List.all_append, body_noFlagClear body hb]; cases is32 <;> rfl
    obtain ⟨h1, h2⟩ := allMarked_of_flag true _ ⟨true, true⟩ rfl hmid
    rw [← List.append_assoc, bracketOK_append true _ _ _ h1]
    generalize run ⟨true, true⟩ ((writeBpb is32 true).drop 1 ++ body) = t at h2
    cases is32 <;> simp [writeBpb, bracketOK, good, apply, marked, isBootCopy, h2]
  | false =>
    simp only [Bool.false_eq_true, if_false]
    obtain ⟨m, rfl⟩ : ∃ m, nfats = m + 1 := ⟨nfats - 1, by omega⟩
    -- split off the very first write: FAT copy 0 with the clean bit cleared
    have hsplit : flushFat (m + 1) false = W.fatCopy 0 false :: (List.range m).map (fun i => W.fatCopy (i + 1) false) := by
      simp [flushFat, List.range_succ_eq_map, List.map_map, Function.comp_def]
    let rest1 := (List.range m).map (fun i => W.fatCopy (i + 1) false)
    have hshape : flushFat (m + 1) false ++ writeBpb is32 true ++ body ++ (flushFat (m + 1) true ++ writeBpb is32 false)
        = W.fatCopy 0 false :: ((rest1 ++ writeBpb is32 true ++ body) ++ (flushFat (m + 1) true ++ writeBpb is32 false)) := by
      rw [hsplit]; simp [rest1, List.append_assoc]
    rw [hshape]
    simp only [bracketOK, good, apply, marked, Bool.false_or, Bool.not_false, Bool.true_and, Bool.or_true, Bool.true_or]
    -- phase 1+2: the cleared FAT[1] bit marks every state up to the end of the body
    have hA : (rest1 ++ writeBpb is32 true ++ body).all keepsFatDirty = true := by
      simp only [List.all_append, Bool.and_eq_true]
      refine ⟨⟨?_, by cases is32 <;> rfl⟩, ?_⟩
      · simp [rest1, List.all_map, keepsFatDirty]
      · clear hshape hsplit
        induction body with
        | nil => rfl
        | cons w r ih =>
          cases w with
          | data => simp only [bodyOK] at hb; simp [keepsFatDirty, ih hb]
          | fatCopy i c => cases c <;> simp_all [bodyOK, keepsFatDirty]
          | bootHdr f => simp [bodyOK] at hb
          | bootSig => simp [bodyOK] at hb
          | backupHdr f => simp [bodyOK] at hb
          | backupSig => simp [bodyOK] at hb
    obtain ⟨h1, _⟩ := allMarked_of_fatDirty _ ⟨false, false⟩ rfl hA
    rw [bracketOK_append false _ _ _ h1]
    -- the boot flag is set by then
    have hflag : (run ⟨false, false⟩ (rest1 ++ writeBpb is32 true ++ body)).flag = true := by
      rw [run_append, (body_keeps_flag body hb _).1, run_append]
      cases is32 <;> simp [writeBpb, run, apply]
    generalize run ⟨false, false⟩ (rest1 ++ writeBpb is32 true ++ body) = t at hflag
    -- phase 3: flushing the FAT with the clean bit set happens under the boot flag
    obtain ⟨h3, h4⟩ := allMarked_of_flag false (flushFat (m + 1) true) t hflag (flushFat_noFlagClear _ _)
    rw [bracketOK_append false _ _ _ h3]
    generalize run t (flushFat (m + 1) true) = u at h4
    -- phase 4: clearing the flag is followed by boot-sector copies only
    cases is32 <;> simp [writeBpb, bracketOK, good, apply, marked, isBootCopy, h4]

/-- `bracketOK` is the statement about every prefix -/
theorem bracketOK_prefix (is12 : Bool) : ∀ (ws : List W) (s : Ind), bracketOK is12 s ws = true →
    ∀ k, 0 < k → k < ws.length →
      marked is12 (run s (ws.take k)) = true ∨ (ws.drop k).all isBootCopy = true := by
  intro ws
  induction ws with
  | nil => intro s _ k _ hk; simp at hk
  | cons w r ih =>
    intro s h k hk0 hk
    simp only [bracketOK, Bool.and_eq_true] at h
    obtain ⟨k', rfl⟩ : ∃ k', k = k' + 1 := ⟨k - 1, by omega⟩
    cases k' with
    | zero =>
      simp only [List.take_succ_cons, List.take_zero, run, List.foldl_cons, List.foldl_nil, List.drop_succ_cons, List.drop_zero]
      have hg := h.1
      simp only [good, Bool.or_eq_true] at hg
      rcases hg with (he | hm) | hb
      · simp at he; subst he; simp at hk
      · left; exact hm
      · right; exact hb
    | succ j =>
      have := ih (apply s w) h.2 (j + 1) (by omega) (by simp at hk ⊢; omega)
      simpa [run] using this

end Proofs.Dirty
