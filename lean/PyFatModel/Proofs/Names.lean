import PyFatModel.Model.Names

open Model.Names

namespace Proofs.Names

theorem aliasLoop_fresh (existing : List (List Nat)) (extsep extname : List Nat) :
    ∀ (fuel i : Nat) (basename r : List Nat),
      aliasLoop existing extsep extname fuel i basename = some r → r ∉ existing := by
  intro fuel
  induction fuel with
  | zero => intro i b r h; simp [aliasLoop] at h
  | succ fuel ih =>
    intro i b r h
    rw [aliasLoop] at h
    split at h
    · split at h
      · rename_i hc
        simp only [Option.some.injEq] at h
        subst h
        simpa using hc
      · exact ih _ _ _ h
    · simp at h

/-- **the short alias never collides** with a short name already in the directory -/
theorem makeAlias_fresh (e : CharEnv) (name : List Nat) (existing : List (List Nat)) (r : List Nat)
    (h : makeAlias e name existing = some r) : r ∉ existing := by
  unfold makeAlias at h
  simp only at h
  split at h
  · rename_i hc
    simp only [Option.some.injEq] at h
    subst h
    simp only [Bool.and_eq_true, Bool.not_eq_true', List.contains_eq_mem, decide_eq_false_iff_not] at hc
    exact hc.1
  · exact aliasLoop_fresh existing _ _ _ _ _ r h

/-- whatever `create`/`makedir` store as short name is 8.3-conform (legal characters,
    upper case, 8+3) and was not in the directory before; a long-name set is written
    exactly when the short name does not reproduce the given name -/
theorem newName_ok (e : CharEnv) (pc : Bool) (name : List Nat) (existing : List (List Nat)) (r : NewName)
    (h : newName e pc name existing = .ok r) :
    ∃ n, makeAlias e name existing = some n ∧ conform e n = true ∧ n ∉ existing ∧
      (r.lfn = none ∨ r.lfn = some (utf16 name)) := by
  unfold newName at h
  split at h
  · simp at h
  · rename_i n hn
    refine ⟨n, hn, ?_, makeAlias_fresh e name existing n hn, ?_⟩
    · by_cases hc : conform e n = true
      · exact hc
      · simp [hc] at h
    · split at h
      · simp at h
      · split at h
        · simp at h
        · simp only at h
          split at h
          · split at h
            · simp at h
            · split at h
              · simp at h
              · simp only [Except.ok.injEq] at h; subst h; right; rfl
          · simp only [Except.ok.injEq] at h; subst h; left; rfl

end Proofs.Names
