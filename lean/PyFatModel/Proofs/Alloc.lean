import PyFatModel.Model.Alloc

open Model.Alloc Gen

namespace Proofs.Alloc

/-! ## the scan -/

/-- what the allocator's scan guarantees about the clusters it appends -/
structure ScanOK (p : Params) (fat : List Nat) (lo hi : Nat) (new : List Nat) : Prop where
  range : ∀ c ∈ new, lo ≤ c ∧ c < hi
  data : ∀ c ∈ new, p.cv.minData ≤ c ∧ c ≤ p.cv.maxData
  free : ∀ c ∈ new, fat.getD c 0 = p.cv.free
  notSpecial : ∀ c ∈ new, skipIdx p c = false
  asc : new.Pairwise (· < ·)

theorem ScanOK.nil (p : Params) (fat : List Nat) (lo hi : Nat) : ScanOK p fat lo hi [] :=
  ⟨by simp, by simp, by simp, by simp, List.Pairwise.nil⟩

theorem ScanOK.snoc {p : Params} {fat : List Nat} {lo hi i : Nat} {new : List Nat}
    (h : ScanOK p fat lo i new) (hlo : lo ≤ i) (hhi : i < hi)
    (hd : p.cv.minData ≤ i ∧ i ≤ p.cv.maxData) (hf : fat.getD i 0 = p.cv.free)
    (hs : skipIdx p i = false) : ScanOK p fat lo hi (new ++ [i]) := by
  refine ⟨?_, ?_, ?_, ?_, ?_⟩
  · intro c hc; simp at hc; rcases hc with hc | rfl
    · have := h.range c hc; omega
    · omega
  · intro c hc; simp at hc; rcases hc with hc | rfl
    · exact h.data c hc
    · exact hd
  · intro c hc; simp at hc; rcases hc with hc | rfl
    · exact h.free c hc
    · exact hf
  · intro c hc; simp at hc; rcases hc with hc | rfl
    · exact h.notSpecial c hc
    · exact hs
  · rw [List.pairwise_append]
    refine ⟨h.asc, by simp, ?_⟩
    intro a ha b hb; simp at hb; subst hb
    exact (h.range a ha).2

theorem ScanOK.mono {p : Params} {fat : List Nat} {lo hi hi' : Nat} {new : List Nat}
    (h : ScanOK p fat lo hi new) (hh : hi ≤ hi') : ScanOK p fat lo hi' new :=
  ⟨fun c hc => ⟨(h.range c hc).1, Nat.lt_of_lt_of_le (h.range c hc).2 hh⟩, h.data, h.free, h.notSpecial, h.asc⟩

/-- **Allocator scan**: whatever `scan` returns through `break` is `acc` plus
    free, in-range, non-special, strictly ascending clusters below the new hint,
    and exactly `n` of them in total. -/
theorem scan_spec (p : Params) (fat : List Nat) (n : Nat) :
    ∀ (fuel i : Nat) (acc new0 : List Nat) (lo : Nat) (cs : List Nat) (j : Nat),
      ScanOK p fat lo i new0 → lo ≤ i →
      scan p fat n fuel i (acc ++ new0) = some (cs, j) →
      ∃ new, cs = acc ++ new ∧ ScanOK p fat lo j new ∧ j < i + fuel ∧ i ≤ j ∧ cs.length = n := by
  intro fuel
  induction fuel with
  | zero => intro i acc new0 lo cs j _ _ h; simp [scan] at h
  | succ fuel ih =>
    intro i acc new0 lo cs j hok hlo h
    rw [scan] at h
    split at h
    · obtain ⟨new, h1, h2, h3, h4, h5⟩ := ih (i + 1) acc new0 lo cs j (hok.mono (by omega)) (by omega) h
      exact ⟨new, h1, h2, by omega, by omega, h5⟩
    · rename_i hrange
      split at h
      · rename_i hn
        simp only [Option.some.injEq, Prod.mk.injEq] at h
        obtain ⟨rfl, rfl⟩ := h
        exact ⟨new0, rfl, hok, by omega, by omega, hn.symm⟩
      · split at h
        · rename_i hfree
          have hd : p.cv.minData ≤ i ∧ i ≤ p.cv.maxData := by omega
          have hok' := hok.snoc (hi := i + 1) hlo (by omega) hd hfree.1 hfree.2
          rw [List.append_assoc] at h
          obtain ⟨new, h1, h2, h3, h4, h5⟩ := ih (i + 1) acc (new0 ++ [i]) lo cs j hok' (by omega) h
          exact ⟨new, h1, h2, by omega, by omega, h5⟩
        · obtain ⟨new, h1, h2, h3, h4, h5⟩ := ih (i + 1) acc new0 lo cs j (hok.mono (by omega)) (by omega) h
          exact ⟨new, h1, h2, by omega, by omega, h5⟩

/-- the scan as `allocate_bytes` starts it -/
theorem scan_spec0 (p : Params) (fat : List Nat) (n hint bound : Nat) (cs : List Nat) (j : Nat)
    (h : scan p fat n (bound - hint) hint [] = some (cs, j)) :
    ScanOK p fat hint j cs ∧ j < hint + (bound - hint) ∧ cs.length = n := by
  obtain ⟨new, h1, h2, h3, _, h5⟩ :=
    scan_spec p fat n (bound - hint) hint [] [] hint cs j (ScanOK.nil _ _ _ _) (Nat.le_refl _) (by simpa using h)
  simp at h1; subst h1
  exact ⟨h2, h3, h5⟩

/-! ## linking -/

theorem getD_set_ne (fat : List Nat) (c x v : Nat) (h : x ≠ c) : (fat.set c v).getD x 0 = fat.getD x 0 := by
  simp only [List.getD_eq_getElem?_getD, List.getElem?_set]
  split
  · omega
  · rfl

theorem getD_set_eq (fat : List Nat) (c v : Nat) (h : c < fat.length) : (fat.set c v).getD c 0 = v := by
  simp [List.getD_eq_getElem?_getD, List.getElem?_set, h]

theorem link_length (eoc : Nat) (cs : List Nat) : ∀ fat : List Nat, (link eoc fat cs).length = fat.length := by
  induction cs with
  | nil => intro fat; rfl
  | cons c rest ih =>
    intro fat
    cases rest with
    | nil => simp [link]
    | cons d rest' => simp only [link]; rw [ih]; simp

/-- entries of clusters that are not being allocated are untouched -/
theorem link_frame (eoc : Nat) (cs : List Nat) :
    ∀ (fat : List Nat) (x : Nat), x ∉ cs → (link eoc fat cs).getD x 0 = fat.getD x 0 := by
  induction cs with
  | nil => intro fat x _; rfl
  | cons c rest ih =>
    intro fat x hx
    simp at hx
    cases rest with
    | nil =>
      simp only [link]
      exact getD_set_ne fat c x eoc hx.1
    | cons d rest' =>
      simp only [link]
      rw [ih (fat.set c d) x (by simp; simp at hx; exact hx.2)]
      exact getD_set_ne fat c x d hx.1

/-- consecutive pairs of a list -/
def pairs : List Nat → List (Nat × Nat)
  | a :: b :: rest => (a, b) :: pairs (b :: rest)
  | _ => []

/-- after linking, each allocated cluster points to the next one and the last carries the end mark -/
theorem link_chain (eoc : Nat) (cs : List Nat) :
    ∀ (fat : List Nat), cs.Nodup → (∀ c ∈ cs, c < fat.length) →
      (∀ ab ∈ pairs cs, (link eoc fat cs).getD ab.1 0 = ab.2) ∧
      (∀ l, cs.getLast? = some l → (link eoc fat cs).getD l 0 = eoc) := by
  induction cs with
  | nil => intro fat _ _; simp [pairs]
  | cons c rest ih =>
    intro fat hnd hlt
    cases rest with
    | nil =>
      simp only [link, pairs]
      refine ⟨by simp, ?_⟩
      intro l hl; simp at hl; subst hl
      exact getD_set_eq fat c eoc (hlt c (by simp))
    | cons d rest' =>
      have hnd' : (d :: rest').Nodup := (List.nodup_cons.mp hnd).2
      have hc : c ∉ d :: rest' := (List.nodup_cons.mp hnd).1
      have hlt' : ∀ x ∈ d :: rest', x < (fat.set c d).length := by
        intro x hx; simp; exact hlt x (by simp at hx ⊢; right; exact hx)
      obtain ⟨ih1, ih2⟩ := ih (fat.set c d) hnd' hlt'
      simp only [link, pairs]
      refine ⟨?_, ?_⟩
      · intro ab hab
        simp only [List.mem_cons] at hab
        rcases hab with rfl | hab
        · rw [link_frame eoc (d :: rest') (fat.set c d) c hc]
          exact getD_set_eq fat c d (hlt c (by simp))
        · exact ih1 ab hab
      · intro l hl
        apply ih2 l
        simpa [List.getLast?_cons_cons] using hl

end Proofs.Alloc

namespace Proofs.Alloc
open Model.Alloc

/-! ## completeness of the scan: no spurious out-of-space beyond the documented slack -/

/-- may index `i` be handed out -/
def allocatable (p : Params) (fat : List Nat) (i : Nat) : Bool :=
  !(decide (p.cv.minData > i ∨ i > p.cv.maxData)) && decide (fat.getD i 0 = p.cv.free) && !skipIdx p i

/-- number of allocatable indices in `[i, i + fuel)` -/
def avail (p : Params) (fat : List Nat) : (fuel i : Nat) → Nat
  | 0, _ => 0
  | fuel + 1, i => (if allocatable p fat i then 1 else 0) + avail p fat fuel (i + 1)

/-- if the scan gives up, the range held at most `n - |acc|` allocatable clusters:
    i.e. `allocate_bytes` raises ENOSPC only when fewer than `n + 1` clusters are
    available from the hint on (the `for … else` needs one index *after* the last
    cluster it takes — defect D6, inside the property's "clearly enough" slack). -/
theorem scan_none_avail (p : Params) (fat : List Nat) (n : Nat) :
    ∀ (fuel i : Nat) (acc : List Nat), acc.length ≤ n → scan p fat n fuel i acc = none →
      acc.length + avail p fat fuel i ≤ n := by
  intro fuel
  induction fuel with
  | zero => intro i acc h _; simp [avail]; exact h
  | succ fuel ih =>
    intro i acc hacc h
    rw [scan] at h
    simp only [avail]
    split at h
    · rename_i hr
      have : allocatable p fat i = false := by
        unfold allocatable; rw [decide_eq_true hr]; rfl
      simp only [this]
      have := ih (i + 1) acc hacc h
      simp at this ⊢; omega
    · rename_i hr
      split at h
      · simp at h
      · rename_i hn
        split at h
        · rename_i hfree
          have ha : allocatable p fat i = true := by
            unfold allocatable
            rw [decide_eq_false hr, decide_eq_true hfree.1, hfree.2]; rfl
          have := ih (i + 1) (acc ++ [i]) (by simp; omega) h
          simp [ha] at this ⊢; omega
        · rename_i hfree
          have ha : allocatable p fat i = false := by
            unfold allocatable
            by_cases h1 : fat.getD i 0 = p.cv.free
            · have hs : skipIdx p i = true := by
                cases hs : skipIdx p i
                · exact absurd ⟨h1, hs⟩ hfree
                · rfl
              rw [hs]; simp
            · rw [decide_eq_false h1]; simp
          have := ih (i + 1) acc hacc h
          simp [ha] at this ⊢; omega

theorem allocate_enospc_only_if_short (p : Params) (fat : List Nat) (hint bound n : Nat)
    (h : allocate p fat hint bound n = none) : avail p fat (bound - hint) hint ≤ n := by
  unfold allocate at h
  split at h
  · rename_i hs
    have := scan_none_avail p fat n (bound - hint) hint [] (by simp) hs
    simpa using this
  · simp at h

end Proofs.Alloc
