/-
`mkfs` arithmetic over the *translated* assignments (`Gen.Arith.mkfs_*`) and the
*extracted* size tables (`Gen.mkfsTable12/16/32`): for every size (unbounded),
every table row, 1..3 FATs and every sector size the FAT is large enough for the
clusters the volume ends up with.
-/
import PyFatModel.Gen.Arith
import PyFatModel.Gen.Consts

open Gen.Arith

namespace Proofs.Mkfs

/-- the cluster count `mkfs` validates (its own formula, over the translated pieces) -/
def countOf (ty size ss spc nf : Int) : Int :=
  let numSec := mkfs_num_sec size ss
  let rsvd := mkfs_rsvd_sec_cnt ty
  let rds := mkfs_root_dir_sectors ty ss
  let fsz := mkfs_fat_size ty size ss spc nf
  Py.fdiv (numSec - ((rsvd + rds) + (nf * fsz))) spc

/-- FAT bits available ≥ FAT bits needed -/
def capacityOK (ty size ss spc nf : Int) : Prop :=
  mkfs_fat_size ty size ss spc nf * ss * 8 ≥ (countOf ty size ss spc nf + 2) * ty

macro "mkfs_case" : tactic => `(tactic|
  (unfold capacityOK countOf
   simp only []
   generalize hf : mkfs_fat_size _ _ _ _ _ = f
   unfold mkfs_fat_size at hf
   unfold mkfs_rsvd_sec_cnt mkfs_root_dir_sectors mkfs_num_sec
   simp only [Py.fdiv, Py.ceilDiv, Py.pmax] at hf ⊢
   simp (config := {decide := true}) only [ite_true, ite_false] at hf ⊢
   simp (disch := omega) only [Int.fdiv_eq_ediv_of_nonneg] at hf ⊢
   split at hf <;> subst hf <;> simp only [decide_eq_true_eq] at * <;> omega))

theorem capacity16 (size : Int) (h0 : 0 ≤ size) (row : Nat × Nat) (hrow : row ∈ Gen.mkfsTable16) (hspc : row.2 ≠ 0)
    (nf : Int) (hnf : nf = 1 ∨ nf = 2 ∨ nf = 3) (ss : Int) (hss : ss = 512 ∨ ss = 1024 ∨ ss = 2048 ∨ ss = 4096) :
    capacityOK 16 size ss row.2 nf := by
  simp only [Gen.mkfsTable16, List.mem_cons, List.mem_nil_iff, or_false] at hrow
  rcases hrow with rfl | rfl | rfl | rfl | rfl | rfl | rfl <;> (try exact absurd rfl hspc) <;>
    rcases hnf with rfl | rfl | rfl <;> rcases hss with rfl | rfl | rfl | rfl <;> mkfs_case

theorem capacity12 (size : Int) (h0 : 0 ≤ size) (row : Nat × Nat) (hrow : row ∈ Gen.mkfsTable12) (hspc : row.2 ≠ 0)
    (nf : Int) (hnf : nf = 1 ∨ nf = 2 ∨ nf = 3) (ss : Int) (hss : ss = 512 ∨ ss = 1024 ∨ ss = 2048 ∨ ss = 4096) :
    capacityOK 12 size ss row.2 nf := by
  simp only [Gen.mkfsTable12, List.mem_cons, List.mem_nil_iff, or_false] at hrow
  rcases hrow with rfl | rfl | rfl | rfl | rfl | rfl | rfl | rfl <;> (try exact absurd rfl hspc) <;>
    rcases hnf with rfl | rfl | rfl <;> rcases hss with rfl | rfl | rfl | rfl <;> mkfs_case

theorem capacity32 (size : Int) (h0 : 0 ≤ size) (row : Nat × Nat) (hrow : row ∈ Gen.mkfsTable32) (hspc : row.2 ≠ 0)
    (nf : Int) (hnf : nf = 1 ∨ nf = 2 ∨ nf = 3) (ss : Int) (hss : ss = 512 ∨ ss = 1024 ∨ ss = 2048 ∨ ss = 4096) :
    capacityOK 32 size ss row.2 nf := by
  simp only [Gen.mkfsTable32, List.mem_cons, List.mem_nil_iff, or_false] at hrow
  rcases hrow with rfl | rfl | rfl | rfl | rfl <;> (try exact absurd rfl hspc) <;>
    rcases hnf with rfl | rfl | rfl <;> rcases hss with rfl | rfl | rfl | rfl <;> mkfs_case

/-- the volume never exceeds the requested size: sectors are counted by rounding down -/
theorem fits (size ss : Int) (hs : 0 < ss) : mkfs_num_sec size ss * ss ≤ size := by
  unfold mkfs_num_sec
  simp only [Py.fdiv]
  rw [Int.fdiv_eq_ediv_of_nonneg _ (by omega)]
  have := Int.ediv_mul_le size (show ss ≠ 0 by omega)
  exact this

end Proofs.Mkfs
