import PyFatModel.Gen.Arith
import PyFatModel.Model.Geom

open Model.Geom Model.Geom.Bpb

namespace Proofs.Geom

theorem fdiv_nat (a b : Nat) (hb : 0 < b) : Py.fdiv (a : Int) (b : Int) = ((a / b : Nat) : Int) := by
  unfold Py.fdiv
  rw [Int.fdiv_eq_ediv_of_nonneg _ (by omega)]
  simp

/-! ## bridges: translated Python = specification formulas -/

theorem gen_total_sectors (b : Bpb) :
    Gen.Arith.get_total_sectors (BPB_TotSec16 := b.totSec16) (BPB_TotSec32 := b.totSec32) = (b.totSec : Nat) := by
  unfold Gen.Arith.get_total_sectors Bpb.totSec
  by_cases h : b.totSec16 = 0
  · simp [h]
  · have : (b.totSec16 : Int) ≠ 0 := by omega
    simp [h, this]

theorem gen_root_dir_sectors (b : Bpb) (hb : 0 < b.bps) :
    Gen.Arith.parse_header_root_dir_sectors (BPB_RootEntCnt := b.rootEnt) (BPB_BytsPerSec := b.bps)
      = (b.rootDirSectors : Nat) := by
  unfold Gen.Arith.parse_header_root_dir_sectors Bpb.rootDirSectors
  simp only
  have : ((b.rootEnt : Int) * 32 + ((b.bps : Int) - 1)) = ((b.rootEnt * 32 + (b.bps - 1) : Nat) : Int) := by omega
  rw [this, fdiv_nat _ _ hb]

theorem gen_first_data_sector (b : Bpb) (hb : 0 < b.bps) :
    Gen.Arith.parse_header_first_data_sector (BPB_RootEntCnt := b.rootEnt) (BPB_BytsPerSec := b.bps)
      (BPB_RsvdSecCnt := b.rsvd) (BPB_NumFATs := b.nfats) (fat_size := b.fatSz) = (b.firstDataSector : Nat) := by
  unfold Gen.Arith.parse_header_first_data_sector Bpb.firstDataSector Bpb.rootDirSectors
  simp only
  have : ((b.rootEnt : Int) * 32 + ((b.bps : Int) - 1)) = ((b.rootEnt * 32 + (b.bps - 1) : Nat) : Int) := by omega
  rw [this, fdiv_nat _ _ hb]
  simp

theorem gen_root_dir_sector (b : Bpb) :
    Gen.Arith.parse_header_root_dir_sector (BPB_RsvdSecCnt := b.rsvd) (BPB_NumFATs := b.nfats)
      (fat_size := b.fatSz) = (b.rootDirSector : Nat) := by
  unfold Gen.Arith.parse_header_root_dir_sector Bpb.rootDirSector
  simp

/-- `get_data_cluster_address` is the specification's `FirstSectorofCluster(N) * BytsPerSec` -/
theorem gen_cluster_address (b : Bpb) (c : Nat) (hc : 2 ≤ c) :
    Gen.Arith.get_data_cluster_address (cluster := c) (BPB_SecPerClus := b.spc)
      (first_data_sector := b.firstDataSector) (BPB_BytsPerSec := b.bps) = (b.clusterOffset c : Nat) := by
  unfold Gen.Arith.get_data_cluster_address Bpb.clusterOffset
  simp only
  have : ((c : Int) - 2) = ((c - 2 : Nat) : Int) := by omega
  rw [this]; simp

theorem gen_cluster_count (b : Bpb) (hs : 0 < b.spc) (hfit : b.firstDataSector ≤ b.totSec) :
    Gen.Arith.get_cluster_count (BPB_TotSec16 := b.totSec16) (BPB_TotSec32 := b.totSec32)
      (first_data_sector := b.firstDataSector) (BPB_SecPerClus := b.spc) = (b.countOfClusters : Nat) := by
  unfold Gen.Arith.get_cluster_count
  simp only [gen_total_sectors]
  have : ((b.totSec : Int) - (b.firstDataSector : Int)) = ((b.totSec - b.firstDataSector : Nat) : Int) := by omega
  rw [this, fdiv_nat _ _ hs]
  rfl

/-- **C07, type rule**: on every specification-valid BPB the translated
    `__determine_fat_type`, fed the root-directory size that `parse_header`
    computes, returns the type the specification's cluster-count rule assigns. -/
theorem gen_fat_type (b : Bpb) (v : b.Valid) :
    Gen.Arith.determine_fat_type (BPB_TotSec16 := b.totSec16) (BPB_TotSec32 := b.totSec32)
      (BPB_RsvdSecCnt := b.rsvd) (BPB_NumFATs := b.nfats) (fat_size := b.fatSz)
      (root_dir_sectors := b.rootDirSectors) (BPB_SecPerClus := b.spc)
      (BPB_FATSz16 := b.fatSz16) (BPB_FATSz32 := b.fatSz32) = (b.fatType : Nat) := by
  have hfit := v.fits
  have hcount : Py.fdiv (((b.totSec : Nat) : Int) - ((b.rsvd : Int) + (b.nfats : Int) * (b.fatSz : Int) + (b.rootDirSectors : Int)))
      (b.spc : Int) = ((b.countOfClusters : Nat) : Int) := by
    have : ((b.totSec : Nat) : Int) - ((b.rsvd : Int) + (b.nfats : Int) * (b.fatSz : Int) + (b.rootDirSectors : Int))
        = ((b.totSec - b.firstDataSector : Nat) : Int) := by
      unfold Bpb.firstDataSector at hfit ⊢
      have h2 : ((b.nfats * b.fatSz : Nat) : Int) = (b.nfats : Int) * (b.fatSz : Int) := by simp
      omega
    rw [this, fdiv_nat _ _ v.spc]; rfl
  unfold Gen.Arith.determine_fat_type
  simp only [gen_total_sectors, hcount]
  unfold Bpb.fatType
  by_cases h16 : b.fatSz16 = 0
  · obtain ⟨h32, hc⟩ := v.layout32 h16
    have e1 : ¬ ((b.countOfClusters : Int) < 4085) := by omega
    have e2 : ¬ ((b.countOfClusters : Int) < 65525) := by omega
    have e3 : ¬ (b.countOfClusters < 4085) := by omega
    have e4 : ¬ (b.countOfClusters < 65525) := by omega
    have e5 : (b.fatSz32 : Int) ≠ 0 := by omega
    simp [h16, e1, e2, e3, e4, e5]
  · have hc := v.layout16 h16
    have e0 : (b.fatSz16 : Int) ≠ 0 := by omega
    by_cases h12 : b.countOfClusters < 4085
    · have e1 : ((b.countOfClusters : Int) < 4085) := by omega
      have e2 : ¬ ((b.countOfClusters : Int) ≥ 4085) := by omega
      simp [e0, e1, e2, h12, h16]
    · have e1 : ¬ ((b.countOfClusters : Int) < 4085) := by omega
      have e2 : ((b.countOfClusters : Int) < 65525) := by omega
      have e3 : ((b.countOfClusters : Int) ≥ 4085) := by omega
      simp [e0, e1, e2, e3, h12, hc, h16]

/-! ## every admissible access lies inside the volume -/

theorem bps_pos (b : Bpb) (v : b.Valid) : 512 ≤ b.bps := by
  rcases v.bps with h | h | h | h <;> omega

theorem rootDirSectors_mul (b : Bpb) (v : b.Valid) : b.rootDirSectors * b.bps = b.rootEnt * 32 := by
  have hb := bps_pos b v
  have ha := v.rootAligned
  unfold Bpb.rootDirSectors
  obtain ⟨k, hk⟩ : ∃ k, b.rootEnt * 32 = b.bps * k := by
    have := Nat.div_add_mod (b.rootEnt * 32) b.bps
    rw [ha] at this
    exact ⟨b.rootEnt * 32 / b.bps, by omega⟩
  rw [hk]
  have : (b.bps * k + (b.bps - 1)) / b.bps = k := by
    rw [Nat.mul_add_div (by omega)]
    have : (b.bps - 1) / b.bps = 0 := Nat.div_eq_of_lt (by omega)
    omega
  rw [this, Nat.mul_comm]

theorem cluster_end (b : Bpb) (c : Nat) :
    ((c - 2) * b.spc + b.firstDataSector) * b.bps + b.bps * b.spc
      = ((c - 2 + 1) * b.spc + b.firstDataSector) * b.bps := by
  rw [Nat.add_mul (c - 2) 1, Nat.one_mul, Nat.add_mul, Nat.add_mul ((c - 2) * b.spc + b.spc), Nat.add_mul,
    Nat.mul_comm b.bps b.spc]
  omega

/-- a valid cluster lies wholly inside the volume, behind the root area -/
theorem cluster_in_volume (b : Bpb) (v : b.Valid) (c : Nat) (h2 : 2 ≤ c) (hc : c < b.countOfClusters + 2) :
    b.firstDataSector * b.bps ≤ b.clusterOffset c ∧
    b.clusterOffset c + b.bytesPerCluster ≤ b.volumeBytes := by
  unfold Bpb.clusterOffset Bpb.bytesPerCluster Bpb.volumeBytes
  have hs := v.spc
  have hcnt : (c - 2 + 1) * b.spc ≤ b.dataSec := by
    have h1 : c - 2 + 1 ≤ b.countOfClusters := by omega
    have h2 : b.countOfClusters * b.spc ≤ b.dataSec := by
      unfold Bpb.countOfClusters; exact Nat.div_mul_le_self _ _
    exact Nat.le_trans (Nat.mul_le_mul_right _ h1) h2
  have hd : b.dataSec + b.firstDataSector = b.totSec := by
    unfold Bpb.dataSec; have := v.fits; omega
  constructor
  · exact Nat.mul_le_mul_right _ (by omega)
  · rw [cluster_end]
    exact Nat.mul_le_mul_right _ (by omega)

theorem fat_in_volume (b : Bpb) (v : b.Valid) (i : Nat) (hi : i < b.nfats) :
    b.rsvd * b.bps ≤ b.fatOffset i ∧ b.fatOffset i + b.fatBytes ≤ b.rootOffset := by
  unfold Bpb.fatOffset Bpb.fatBytes Bpb.rootOffset Bpb.rootDirSector
  constructor
  · exact Nat.mul_le_mul_right _ (by omega)
  · rw [← Nat.add_mul]
    apply Nat.mul_le_mul_right
    have : (i + 1) * b.fatSz ≤ b.nfats * b.fatSz := Nat.mul_le_mul_right _ (by omega)
    rw [Nat.add_mul, Nat.one_mul] at this
    rw [Nat.mul_comm b.fatSz b.nfats]; omega

theorem root_in_volume (b : Bpb) (v : b.Valid) :
    b.rootOffset + b.rootBytes = b.firstDataSector * b.bps ∧ b.firstDataSector * b.bps < b.volumeBytes := by
  unfold Bpb.rootOffset Bpb.rootBytes Bpb.rootDirSector Bpb.firstDataSector Bpb.volumeBytes
  constructor
  · rw [← Nat.add_mul, Nat.mul_comm b.fatSz b.nfats]
  · have := v.fits
    unfold Bpb.firstDataSector at this
    exact Nat.mul_lt_mul_of_pos_right this (by have := bps_pos b v; omega)

/-- **C08 core**: every admissible access kind stays inside `[0, TotSec × BytsPerSec)`.
    (The reserved region must hold the 512-byte boot sector, resp. its backup.) -/
theorem access_in_volume (b : Bpb) (v : b.Valid) (a : Access) (ha : a.admissible b) :
    (a.range b).1 ≤ (a.range b).2 ∧ (a.range b).2 ≤ b.volumeBytes := by
  have hb := bps_pos b v
  have hr := root_in_volume b v
  have hfd : b.rsvd * b.bps ≤ b.firstDataSector * b.bps := by
    apply Nat.mul_le_mul_right; unfold Bpb.firstDataSector; omega
  cases a with
  | bootSector =>
    simp only [Access.range]
    have : 512 ≤ b.rsvd * b.bps := by
      have := v.rsvd
      calc 512 ≤ b.bps := hb
        _ = 1 * b.bps := by omega
        _ ≤ b.rsvd * b.bps := Nat.mul_le_mul_right _ (by omega)
    omega
  | backupBoot =>
    simp only [Access.range, Access.admissible] at ha ⊢
    have : (b.bkBoot + 1) * b.bps ≤ b.rsvd * b.bps := Nat.mul_le_mul_right _ (by omega)
    rw [Nat.add_mul, Nat.one_mul] at this
    omega
  | fat i =>
    simp only [Access.range, Access.admissible] at ha ⊢
    have := fat_in_volume b v i ha
    omega
  | root =>
    simp only [Access.range]
    omega
  | cluster c =>
    simp only [Access.range, Access.admissible] at ha ⊢
    have := cluster_in_volume b v c ha.1 ha.2
    omega

/-- distinct valid clusters occupy disjoint byte ranges -/
theorem cluster_disjoint (b : Bpb) (v : b.Valid) (c d : Nat) (hc : 2 ≤ c) (hcd : c < d) :
    b.clusterOffset c + b.bytesPerCluster ≤ b.clusterOffset d := by
  unfold Bpb.clusterOffset Bpb.bytesPerCluster
  rw [cluster_end]
  apply Nat.mul_le_mul_right
  have : (c - 2 + 1) * b.spc ≤ (d - 2) * b.spc := Nat.mul_le_mul_right _ (by omega)
  omega

/-- what `classifyAccess` returns is admissible and contains the access -/
theorem classify_sound (b : Bpb) (off len : Nat) (a : Access) (h : classifyAccess b off len = some a) :
    (a.range b).1 ≤ off ∧ off + len ≤ (a.range b).2 := by
  unfold classifyAccess at h
  simp only at h
  repeat' split at h
  all_goals first
    | (simp only [Option.some.injEq] at h; subst h; simp_all)
    | simp at h

end Proofs.Geom
