/-
Refinement of the filesystem model to the reference filesystem: every
operation of `Model.Fs`, started in a state whose tree satisfies `TreeInv`,
returns what `specStep` returns on the abstraction and leaves a state whose
abstraction is `specStep`'s — unless it stops with out-of-space / I/O error
(what the state is then is the subject of `Proofs.FsInv`).
-/
import PyFatModel.Proofs.FsTree

namespace Proofs.FsRefine
open Model.Fs Proofs.FsTree

/-- out of space (or the unreachable I/O error): the only results the reference does not predict -/
def Soft (r : Res) : Prop := r = .err .noSpace ∨ r = .err .eio

theorem growChain_err {v : Vol} {fat : List Nat} {hint : Nat} {chain : List Nat} {bytes : Nat} {e : Err}
    (h : growChain v fat hint chain bytes = .error e) : e = .noSpace ∨ e = .eio := by
  unfold growChain at h
  split at h
  · simp at h
  · split at h
    · split at h
      · simp at h
      · simp only [Except.error.injEq] at h; exact Or.inr h.symm
    · simp only [Except.error.injEq] at h; exact Or.inr h.symm
    · simp only [Except.error.injEq] at h; exact Or.inl h.symm

theorem updateDir_err {v : Vol} {s : St} {nodes : List Node} {loc : Loc} {e : Err}
    (h : updateDir v s nodes loc = .error e) : e = .noSpace ∨ e = .eio := by
  unfold updateDir at h
  split at h
  · split at h
    · split at h
      · simp only [Except.error.injEq] at h; exact Or.inl h.symm
      · simp at h
    · split at h
      · rename_i e' he; simp only [Except.error.injEq] at h; subst h; exact growChain_err he
      · simp at h
  · split at h
    · rename_i e' he; simp only [Except.error.injEq] at h; subst h; exact growChain_err he
    · simp at h

theorem writeChain_err {v : Vol} {fat : List Nat} {hint : Nat} {chain : List Nat} {size pos n : Nat} {e : Err}
    (h : writeChain v fat hint chain size pos n = .error e) : e = .noSpace ∨ e = .eio := by
  unfold writeChain at h
  split at h
  · split at h
    · simp only [Except.error.injEq] at h; exact Or.inl h.symm
    · simp at h
  · simp only at h
    split at h
    · simp only [Except.error.injEq] at h; exact Or.inr h.symm
    · split at h
      · simp at h
      · split at h
        · split at h
          · simp at h
          · simp only [Except.error.injEq] at h; exact Or.inr h.symm
        · simp only [Except.error.injEq] at h; exact Or.inr h.symm
        · simp only [Except.error.injEq] at h; exact Or.inl h.symm

theorem soft_of {e : Err} (h : e = .noSpace ∨ e = .eio) : Soft (.err e) := by
  rcases h with rfl | rfl
  · exact Or.inl rfl
  · exact Or.inr rfl

/-- what a found entry tells -/
theorem find_path {nodes : List Node} {q : List Nat} {n : Node}
    (h : nodes.find? (fun n => n.path == q) = some n) : n ∈ nodes ∧ n.path = q := by
  have h1 := List.mem_of_find?_eq_some h
  have h2 := List.find?_some h
  simp only [beq_iff_eq] at h2
  exact ⟨h1, h2⟩

/-- the statement of refinement for one call -/
def Refines (s : St) (op : Op) (out : St × Res) : Prop :=
  Soft out.2 ∨ (out.2 = (specStep (abs s) op).2 ∧ abs out.1 = (specStep (abs s) op).1)

theorem create_refines (v : Vol) (s : St) (path : List Nat) (slots : Nat) (wipe : Bool) (h : TreeInv s.nodes) :
    Refines s (.create path slots wipe) (create v s path slots wipe) := by
  unfold Refines create
  simp only [specStep]
  cases hsl : splitLast path with
  | none =>
    have hp : path = [] := (splitLast_none path).mp hsl
    subst hp; right; simp [abs_eq]
  | some dk =>
    obtain ⟨dir, k⟩ := dk
    have hp : path = dir ++ [k] := (splitLast_some path dir k).mp hsl
    subst hp
    have hne : (dir ++ [k]) ≠ [] := by simp
    simp only [hne, ↓reduceIte, List.dropLast_concat]
    rw [abs_eq, isDirAt_abs h dir]
    cases hr : resolve s.nodes dir with
    | none => right; simp [abs_eq]
    | some ploc =>
      simp only
      by_cases hd : ploc.isDir = true
      case neg => right; simp [hd, abs_eq]
      case pos =>
        simp only [hd, Bool.not_true, Bool.false_eq_true, ↓reduceIte]
        rw [child_eq_find h dir k ploc hr hd, get_abs]
        cases hf : s.nodes.find? (fun n => n.path == dir ++ [k]) with
        | none =>
          simp only [Option.map_none]
          split
          · rename_i e hu; left; exact soft_of (updateDir_err hu)
          · rename_i s1 hu
            right
            simp only [flush, abs_eq, updateDir_abs hu, true_and]
            simp [absN, Spec.add, toS]
        | some n =>
          obtain ⟨hn, hnp⟩ := find_path hf
          simp only [Option.map_some, toS]
          cases hnd : n.isDir with
          | true => right; simp [abs_eq]
          | false =>
            simp only [Bool.false_eq_true, ↓reduceIte]
            cases wipe with
            | false => right; simp [abs_eq]
            | true =>
              simp only [Bool.not_true, Bool.false_eq_true, ↓reduceIte]
              have hs1 : (if n.chain = [] then s else release v s n.chain).nodes = s.nodes := by
                split <;> rfl
              generalize hS1 : (if n.chain = [] then s else release v s n.chain) = s1 at *
              split
              · rename_i e hu; left; exact soft_of (updateDir_err hu)
              · rename_i s2 hu
                right
                simp only [flush, abs_eq, updateDir_abs hu, true_and, hs1]
                rw [absN_replace h n _ hn (by rfl)]
                simp [toS, hnp]

theorem makedir_refines (v : Vol) (s : St) (path : List Nat) (slots : Nat) (h : TreeInv s.nodes) :
    Refines s (.makedir path slots) (makedir v s path slots) := by
  unfold Refines makedir
  simp only [specStep]
  cases hsl : splitLast path with
  | none =>
    have hp : path = [] := (splitLast_none path).mp hsl
    subst hp; right; simp [abs_eq]
  | some dk =>
    obtain ⟨dir, k⟩ := dk
    have hp : path = dir ++ [k] := (splitLast_some path dir k).mp hsl
    subst hp
    have hne : (dir ++ [k]) ≠ [] := by simp
    simp only [hne, ↓reduceIte, List.dropLast_concat]
    rw [abs_eq, isDirAt_abs h dir]
    cases hr : resolve s.nodes dir with
    | none => right; simp [abs_eq]
    | some ploc =>
      simp only
      by_cases hd : ploc.isDir = true
      case neg => right; simp [hd, abs_eq]
      case pos =>
        simp only [hd, Bool.not_true, Bool.false_eq_true, ↓reduceIte]
        rw [child_eq_find h dir k ploc hr hd, get_abs]
        cases hf : s.nodes.find? (fun n => n.path == dir ++ [k]) with
        | some n => right; simp [abs_eq]
        | none =>
          simp only [Option.map_none]
          cases ha : Model.Alloc.allocate v.p s.fat s.hint v.bound (numClus v.bpc 64) with
          | none => left; exact Or.inl rfl
          | some r =>
            simp only
            split
            · rename_i e hu; left; exact soft_of (updateDir_err hu)
            · rename_i s2 hu
              right
              simp only [flush, abs_eq, updateDir_abs hu, true_and]
              simp [absN, Spec.add, toS]

theorem removeEntry_abs (v : Vol) (s : St) (ploc : Loc) (n : Node) (h : TreeInv s.nodes) (hn : n ∈ s.nodes) :
    Soft (removeEntry v s ploc n).2 ∨
      ((removeEntry v s ploc n).2 = .ok true ∧ abs (removeEntry v s ploc n).1 = Spec.del (abs s) n.path) := by
  unfold removeEntry
  split
  · rename_i e hu; left; exact soft_of (updateDir_err hu)
  · rename_i s1 hu
    right
    split
    · simp only [abs_eq, updateDir_abs hu, true_and]; exact absN_erase h n hn
    · simp only [flush, release, abs_eq, updateDir_abs hu, true_and]; exact absN_erase h n hn

/-- a path that resolves has a resolving directory part -/
theorem resolve_parent {nodes : List Node} {dir : List Nat} {k : Nat} {loc : Loc}
    (hr : resolve nodes (dir ++ [k]) = some loc) : ∃ ploc, resolve nodes dir = some ploc := by
  rw [resolve_snoc] at hr
  cases hd : resolve nodes dir with
  | none => rw [hd] at hr; simp [walk] at hr
  | some p => exact ⟨p, rfl⟩

theorem remove_refines (v : Vol) (s : St) (path : List Nat) (h : TreeInv s.nodes) :
    Refines s (.remove path) (remove v s path) := by
  unfold Refines remove
  simp only [specStep]
  cases hsl : splitLast path with
  | none =>
    have hp : path = [] := (splitLast_none path).mp hsl
    subst hp; right; simp [abs_eq]
  | some dk =>
    obtain ⟨dir, k⟩ := dk
    have hp : path = dir ++ [k] := (splitLast_some path dir k).mp hsl
    subst hp
    have hne : (dir ++ [k]) ≠ [] := by simp
    simp only [hne, ↓reduceIte]
    rw [abs_eq, get_abs]
    have hrf := resolve_eq_find h (dir ++ [k]) hne
    cases hf : s.nodes.find? (fun n => n.path == dir ++ [k]) with
    | none =>
      rw [hf] at hrf
      simp only [Option.map_none] at hrf
      right; simp [hrf, abs_eq]
    | some n =>
      rw [hf] at hrf
      simp only [Option.map_some] at hrf
      obtain ⟨hn, hnp⟩ := find_path hf
      obtain ⟨ploc, hpl⟩ := resolve_parent hrf
      simp only [hrf, hpl, Option.map_some, toS]
      cases hnd : n.isDir with
      | true => right; simp [abs_eq]
      | false =>
        simp only [Bool.false_eq_true, ↓reduceIte]
        rcases removeEntry_abs v s ploc n h hn with hs | ⟨h1, h2⟩
        · left; exact hs
        · right; rw [h1, h2, hnp, abs_eq]; simp

/-- a directory entry has children in the tree iff the reference filesystem has paths below it -/
theorem hasChildren_abs {nodes : List Node} (h : TreeInv nodes) (n : Node) (hn : n ∈ nodes) (hd : n.isDir = true) :
    Spec.hasChildren (absN nodes) n.path = nodes.any (fun c => c.parent == n.clus) := by
  unfold Spec.hasChildren absN
  rw [List.any_map]
  rw [Bool.eq_iff_iff, List.any_eq_true, List.any_eq_true]
  constructor
  · rintro ⟨c, hc, hcc⟩
    simp only [Function.comp, toS, Bool.and_eq_true, beq_iff_eq, bne_iff_ne, ne_eq] at hcc
    refine ⟨c, hc, ?_⟩
    rcases h.link c hc with ⟨hp0, hpath⟩ | ⟨d, hdm, hddir, hdclus, hpath⟩
    · exfalso
      rw [hpath] at hcc
      simp only [List.dropLast_singleton] at hcc
      exact h.path_ne_nil n hn hcc.1.symm
    · rw [hpath, List.dropLast_concat] at hcc
      have : d = n := h.path_inj d n hdm hn hcc.1
      subst this
      simp [hdclus]
  · rintro ⟨c, hc, hcc⟩
    simp only [beq_iff_eq] at hcc
    refine ⟨c, hc, ?_⟩
    simp only [Function.comp, toS, Bool.and_eq_true, beq_iff_eq, bne_iff_ne, ne_eq]
    rcases h.link c hc with ⟨hp0, hpath⟩ | ⟨d, hdm, hddir, hdclus, hpath⟩
    · exfalso
      exact h.dirClus n hn hd (by rw [← hcc]; exact hp0)
    · have : d = n := h.dirId d hdm n hn hddir hd (by rw [hdclus, hcc])
      subst this
      rw [hpath]
      simp

theorem removedir_refines (v : Vol) (s : St) (path : List Nat) (h : TreeInv s.nodes) :
    Refines s (.removedir path) (removedir v s path) := by
  unfold Refines removedir
  simp only [specStep]
  cases hsl : splitLast path with
  | none =>
    have hp : path = [] := (splitLast_none path).mp hsl
    subst hp; right; simp [abs_eq]
  | some dk =>
    obtain ⟨dir, k⟩ := dk
    have hp : path = dir ++ [k] := (splitLast_some path dir k).mp hsl
    subst hp
    have hne : (dir ++ [k]) ≠ [] := by simp
    simp only [hne, ↓reduceIte]
    rw [abs_eq, get_abs]
    have hrf := resolve_eq_find h (dir ++ [k]) hne
    cases hf : s.nodes.find? (fun n => n.path == dir ++ [k]) with
    | none =>
      rw [hf] at hrf
      simp only [Option.map_none] at hrf
      right; simp [hrf, abs_eq]
    | some n =>
      rw [hf] at hrf
      simp only [Option.map_some] at hrf
      obtain ⟨hn, hnp⟩ := find_path hf
      obtain ⟨ploc, hpl⟩ := resolve_parent hrf
      simp only [hrf, hpl, Option.map_some, toS]
      cases hnd : n.isDir with
      | false => right; simp [abs_eq]
      | true =>
        simp only [Bool.not_true, Bool.false_eq_true, ↓reduceIte]
        have hc := hasChildren_abs h n hn hnd
        rw [hnp] at hc
        rw [hc]
        cases hany : s.nodes.any (fun c => c.parent == n.clus) with
        | true => right; simp [abs_eq]
        | false =>
          simp only [Bool.false_eq_true, ↓reduceIte]
          rcases removeEntry_abs v s ploc n h hn with hs | ⟨h1, h2⟩
          · left; exact hs
          · right; rw [h1, h2, hnp, abs_eq]; simp

theorem replace_self (nodes : List Node) (f : Node) : replaceNode nodes f f = nodes := by
  unfold replaceNode
  rw [List.map_congr_left (g := id)]
  · simp
  · intro x _; by_cases hx : x = f <;> simp [hx]

theorem fwrite_refines (v : Vol) (s : St) (path : List Nat) (pos n : Nat) (h : TreeInv s.nodes)
    (hdom : ∀ f ∈ s.nodes, f.path = path → pos ≤ f.size) :
    Refines s (.fwrite path pos n) (fwrite v s path pos n) := by
  unfold Refines fwrite
  simp only [specStep]
  cases hsl : splitLast path with
  | none =>
    have hp : path = [] := (splitLast_none path).mp hsl
    subst hp; right; simp [abs_eq]
  | some dk =>
    obtain ⟨dir, k⟩ := dk
    have hp : path = dir ++ [k] := (splitLast_some path dir k).mp hsl
    subst hp
    have hne : (dir ++ [k]) ≠ [] := by simp
    simp only [hne, ↓reduceIte]
    rw [abs_eq, get_abs]
    have hrf := resolve_eq_find h (dir ++ [k]) hne
    cases hf : s.nodes.find? (fun n => n.path == dir ++ [k]) with
    | none =>
      rw [hf] at hrf
      simp only [Option.map_none] at hrf
      right; simp [hrf, abs_eq]
    | some f =>
      rw [hf] at hrf
      simp only [Option.map_some] at hrf
      obtain ⟨hn, hnp⟩ := find_path hf
      obtain ⟨ploc, hpl⟩ := resolve_parent hrf
      have hpos : pos ≤ f.size := hdom f hn hnp
      simp only [hrf, hpl, Option.map_some, toS]
      cases hnd : f.isDir with
      | true => right; simp [abs_eq]
      | false =>
        simp only [Bool.false_eq_true, ↓reduceIte]
        by_cases hn0 : n = 0
        · subst hn0
          right
          simp only [↓reduceIte, flush, abs_eq, true_and, Nat.add_zero]
          have e1 := absN_replace h f f hn rfl
          rw [replace_self] at e1
          have e2 : toS f = ⟨dir ++ [k], false, max f.size pos⟩ := by
            simp [toS, hnp, hnd, Nat.max_eq_left hpos]
          rw [← e2]; exact e1
        · simp only [hn0, ↓reduceIte]
          split
          · rename_i e hw; left; exact soft_of (writeChain_err hw)
          · rename_i fat hint chain hw
            split
            · rename_i e hu; left; exact soft_of (updateDir_err hu)
            · rename_i s2 hu
              right
              simp only [flush, abs_eq, updateDir_abs hu, true_and]
              rw [absN_replace h f _ hn (by rfl)]
              simp [toS, hnp, Nat.min_eq_left hpos]

theorem ftrunc_refines (v : Vol) (s : St) (path : List Nat) (m : Nat) (h : TreeInv s.nodes) :
    Refines s (.ftrunc path m) (ftrunc v s path m) := by
  unfold Refines ftrunc
  simp only [specStep]
  cases hsl : splitLast path with
  | none =>
    have hp : path = [] := (splitLast_none path).mp hsl
    subst hp; right; simp [abs_eq]
  | some dk =>
    obtain ⟨dir, k⟩ := dk
    have hp : path = dir ++ [k] := (splitLast_some path dir k).mp hsl
    subst hp
    have hne : (dir ++ [k]) ≠ [] := by simp
    simp only [hne, ↓reduceIte]
    rw [abs_eq, get_abs]
    have hrf := resolve_eq_find h (dir ++ [k]) hne
    cases hf : s.nodes.find? (fun n => n.path == dir ++ [k]) with
    | none =>
      rw [hf] at hrf
      simp only [Option.map_none] at hrf
      right; simp [hrf, abs_eq]
    | some f =>
      rw [hf] at hrf
      simp only [Option.map_some] at hrf
      obtain ⟨hn, hnp⟩ := find_path hf
      obtain ⟨ploc, hpl⟩ := resolve_parent hrf
      simp only [hrf, hpl, Option.map_some, toS]
      cases hnd : f.isDir with
      | true => right; simp [abs_eq]
      | false =>
        simp only [Bool.false_eq_true, ↓reduceIte]
        split
        · -- grow
          cases hw : writeChain v s.fat s.hint f.chain f.size f.size (m - f.size) with
          | error e => left; exact soft_of (writeChain_err hw)
          | ok r =>
            obtain ⟨fat, hint, chain⟩ := r
            simp only
            split
            · rename_i e hu; left; exact soft_of (updateDir_err hu)
            · rename_i s2 hu
              right
              simp only [flush, abs_eq, updateDir_abs hu, true_and]
              rw [absN_replace h f _ hn (by rfl)]
              simp [toS, hnp]
        · -- shrink or same size
          generalize hS1 : (if m < f.size ∧ max 1 (numClus v.bpc m) < f.chain.length then
              match (List.take (max 1 (numClus v.bpc m)) f.chain).getLast? with
              | some l => flush { s with
                    fat := (Model.Alloc.freeList v.p.cv.free s.fat (List.drop (max 1 (numClus v.bpc m)) f.chain)).set l v.p.cv.eocMax,
                    hint := Model.Alloc.lowerHint s.hint (List.drop (max 1 (numClus v.bpc m)) f.chain) }
              | none => s
            else s) = s1
          have hs1 : s1.nodes = s.nodes := by
            rw [← hS1]
            split
            · split <;> rfl
            · rfl
          split
          · rename_i e hu; left; exact soft_of (updateDir_err hu)
          · rename_i s2 hu
            right
            simp only [flush, abs_eq, updateDir_abs hu, true_and, hs1]
            rw [absN_replace h f _ hn (by rfl)]
            simp [toS, hnp]

/-- the domain of the property: a write starts inside the file (beyond it pyfatfs clamps: known finding D17c) -/
def InDomain (s : St) : Op → Prop
  | .fwrite p pos _ => ∀ f ∈ s.nodes, f.path = p → pos ≤ f.size
  | _ => True

/-- **every call refines the reference filesystem** (or stops with out-of-space) -/
theorem step_refines (v : Vol) (s : St) (op : Op) (h : TreeInv s.nodes) (hdom : InDomain s op) :
    Refines s op (step v s op) := by
  cases op with
  | create p sl w => exact create_refines v s p sl w h
  | makedir p sl => exact makedir_refines v s p sl h
  | remove p => exact remove_refines v s p h
  | removedir p => exact removedir_refines v s p h
  | fwrite p pos n => exact fwrite_refines v s p pos n h hdom
  | ftrunc p m => exact ftrunc_refines v s p m h

end Proofs.FsRefine
