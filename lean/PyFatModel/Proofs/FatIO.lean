import PyFatModel.Model.FatIO

open Model.FatIO

namespace Proofs.FatIO

/-- clusters all have the cluster size -/
def Uniform (bpc : Nat) (cs : List (List Nat)) : Prop := ∀ c ∈ cs, c.length = bpc

theorem flatten_length_uniform (bpc : Nat) (cs : List (List Nat)) (h : Uniform bpc cs) :
    cs.flatten.length = cs.length * bpc := by
  induction cs with
  | nil => simp
  | cons c rest ih =>
    have hc : c.length = bpc := h c (by simp)
    have := ih (fun x hx => h x (by simp [hx]))
    simp [List.flatten_cons, hc, this, Nat.add_mul]; omega

/-- **the read loop returns exactly the requested slice** of the concatenated clusters -/
theorem readLoop_eq_slice (bpc : Nat) (hb : 0 < bpc) :
    ∀ (cs : List (List Nat)) (off n : Nat), Uniform bpc cs → off ≤ bpc → 0 < n →
      off + n ≤ cs.length * bpc →
      readLoop bpc cs off n = (cs.flatten.drop off).take n := by
  intro cs
  induction cs with
  | nil => intro off n _ _ hn h; simp at h; omega
  | cons c rest ih =>
    intro off n hu hoff hn hfit
    have hc : c.length = bpc := hu c (by simp)
    have hur : Uniform bpc rest := fun x hx => hu x (by simp [hx])
    simp only [readLoop, List.flatten_cons]
    by_cases hle : n ≤ bpc - off
    · -- everything comes from this cluster
      have hmin : min (bpc - off) n = n := by omega
      simp only [hmin, if_true]
      rw [List.drop_append_of_le_length (by omega), List.take_append_of_le_length (by simp; omega)]
    · have hmin : min (bpc - off) n = bpc - off := by omega
      have hne : ¬ (bpc - off = n) := by omega
      simp only [hmin, hne, if_false]
      have hfit' : 0 + (n - (bpc - off)) ≤ rest.length * bpc := by
        simp only [List.length_cons, Nat.add_mul] at hfit; omega
      rw [ih 0 (n - (bpc - off)) hur (by omega) (by omega) hfit']
      simp only [List.drop_zero]
      rw [List.drop_append_of_le_length (by omega)]
      have hl : (c.drop off).length = bpc - off := by simp [hc]
      rw [List.take_append, hl]
      congr 1
      have hlen2 : (c.drop off).length ≤ n := by omega
      have hlen3 : (c.drop off).length ≤ bpc - off := by omega
      rw [List.take_of_length_le hlen2, List.take_of_length_le hlen3]

theorem drop_clusters (bpc : Nat) : ∀ (k : Nat) (l : List (List Nat)), Uniform bpc l →
    (l.drop k).flatten = l.flatten.drop (k * bpc) := by
  intro k
  induction k with
  | zero => intro l _; simp
  | succ k ih =>
    intro l hl
    cases l with
    | nil => simp
    | cons c rest =>
      have hc : c.length = bpc := hl c (by simp)
      simp only [List.drop_succ_cons, List.flatten_cons]
      rw [ih rest (fun x hx => hl x (by simp [hx])), List.drop_append]
      have h1 : c.drop ((k + 1) * bpc) = [] := List.drop_of_length_le (by rw [hc, Nat.add_mul]; omega)
      have h2 : (k + 1) * bpc - c.length = k * bpc := by rw [hc, Nat.add_mul]; omega
      rw [h1, h2]; rfl

/-- the cursor `seek` computes addresses byte `offset` of the file: dropping `cindex`
    clusters and then `coffpos` bytes is dropping `offset` bytes (end-of-cluster case included) -/
theorem seekCursor_addresses (bpc : Nat) (hb : 0 < bpc) (cs : List (List Nat)) (hu : Uniform bpc cs)
    (filesize offset : Nat) (hoff : offset ≤ filesize) (hsz : filesize ≤ cs.length * bpc) :
    let cur := seekCursor bpc filesize offset
    cur.bpos = offset ∧ cur.coffpos ≤ bpc ∧
    ((cs.drop cur.cindex).flatten.drop cur.coffpos) = cs.flatten.drop offset := by
  have hmin : min offset filesize = offset := by omega
  have key := drop_clusters bpc
  simp only [seekCursor, hmin]
  split
  · rename_i h
    obtain ⟨h1, h2, h3⟩ := h
    refine ⟨rfl, Nat.le_refl _, ?_⟩
    simp only
    rw [key (offset / bpc - 1) cs hu, List.drop_drop]
    congr 1
    have hd : offset = offset / bpc * bpc := by
      have := Nat.div_add_mod offset bpc; rw [h3] at this; rw [Nat.mul_comm]; omega
    have hpos : 0 < offset / bpc := by
      rcases Nat.eq_zero_or_pos (offset / bpc) with h0 | hp
      · rw [h0] at hd; omega
      · exact hp
    have : (offset / bpc - 1) * bpc + bpc = offset / bpc * bpc := by
      have := Nat.sub_add_cancel hpos
      calc (offset / bpc - 1) * bpc + bpc = (offset / bpc - 1 + 1) * bpc := by rw [Nat.add_mul, Nat.one_mul]
        _ = offset / bpc * bpc := by rw [this]
    omega
  · refine ⟨rfl, Nat.le_of_lt (Nat.mod_lt _ hb), ?_⟩
    simp only
    rw [key (offset / bpc) cs hu, List.drop_drop]
    congr 1
    have := Nat.div_add_mod offset bpc
    rw [Nat.mul_comm] at this; omega

/-- **read refines the byte buffer**: for a position inside the file, `FatIO.read`
    returns what `Spec.ByteBuf.read` returns on the file's bytes, and moves the position alike -/
theorem read_refines (bpc : Nat) (hb : 0 < bpc) (cs : List (List Nat)) (hu : Uniform bpc cs)
    (filesize pos : Nat) (hpos : pos ≤ filesize) (hsz : filesize ≤ cs.length * bpc) (n : Nat) :
    let file : Buf := { data := cs.flatten.take filesize, pos := pos }
    let r := read bpc cs filesize (seekCursor bpc filesize pos) (n : Int)
    r.1 = (file.read n).1 ∧ r.2.bpos = (file.read n).2.pos := by
  obtain ⟨hbp, hco, haddr⟩ := seekCursor_addresses bpc hb cs hu filesize pos hpos hsz
  simp only [Model.FatIO.read, Buf.read, hbp]
  have hrs : readSize filesize pos (n : Int) = min n (filesize - pos) := by
    unfold readSize
    split
    · rename_i h; omega
    · rename_i h; simp at h ⊢; omega
  rw [hrs]
  have hflat := flatten_length_uniform bpc cs hu
  by_cases h0 : min n (filesize - pos) = 0
  · simp only [h0, if_true]
    have : ((cs.flatten.take filesize).drop pos).take n = [] := by
      rcases Nat.eq_zero_or_pos n with hn | hn
      · simp [hn]
      · have : filesize - pos = 0 := by omega
        have : ((cs.flatten.take filesize).drop pos).length = 0 := by simp; omega
        simp [List.eq_nil_of_length_eq_zero this]
    simp [this, hbp]
  · simp only [h0, if_false]
    have hfit : (seekCursor bpc filesize pos).coffpos + min n (filesize - pos)
        ≤ (cs.drop (seekCursor bpc filesize pos).cindex).length * bpc := by
      have h1 := flatten_length_uniform bpc (cs.drop (seekCursor bpc filesize pos).cindex)
        (fun x hx => hu x (List.mem_of_mem_drop hx))
      have h2 : ((cs.drop (seekCursor bpc filesize pos).cindex).flatten.drop (seekCursor bpc filesize pos).coffpos).length
          = (cs.flatten.drop pos).length := by rw [haddr]
      simp only [List.length_drop] at h2
      rw [h1, hflat] at h2
      omega
    rw [readLoop_eq_slice bpc hb _ _ _ (fun x hx => hu x (List.mem_of_mem_drop hx)) hco (by omega) hfit, haddr]
    constructor
    · -- slices of the untruncated and the size-truncated content agree inside the file
      rw [List.drop_take]
      rw [List.take_take]
    · have hm : min (pos + min n (filesize - pos)) filesize = pos + min n (filesize - pos) := by omega
      have hlen : (((cs.flatten.take filesize).drop pos).take n).length = min n (filesize - pos) := by
        rw [List.length_take, List.length_drop, List.length_take, hflat]; omega
      rw [hlen]
      simp only [seekCursor, hm]
      split <;> rfl

end Proofs.FatIO
