import PyFatModel.Model.Layout

open Model.Bytes Model.Layout Gen

namespace Proofs.Layout

theorem slice_length (bs : List Nat) (off w : Nat) (h : off + w ≤ bs.length) :
    (slice bs off w).length = w := by
  simp [slice]; omega

theorem slice_allBytes (bs : List Nat) (off w : Nat) (hb : allBytes bs) : allBytes (slice bs off w) := by
  intro b hb'
  exact hb b (List.mem_of_mem_drop (List.mem_of_mem_take hb'))

theorem packField_unpackField (bs : List Nat) (f : Field) (hb : allBytes bs)
    (h : f.off + f.width ≤ bs.length) :
    packField f (unpackField bs f) = slice bs f.off f.width := by
  unfold unpackField
  by_cases hi : f.isInt = true
  · simp only [hi, if_true, packField]
    have := le_ofLe (slice bs f.off f.width) (slice_allBytes bs _ _ hb)
    rw [slice_length bs _ _ h] at this
    exact this
  · simp only [hi, packField]
    have hl := slice_length bs f.off f.width h
    simp [List.take_append_of_le_length, hl]

theorem slice_append (bs : List Nat) (pos w n : Nat) :
    slice bs pos w ++ slice bs (pos + w) n = slice bs pos (w + n) := by
  unfold slice
  rw [← List.drop_drop, List.take_add]

/-- **generic layout round trip**: for any gap-free layout, re-packing the unpacked
    fields reproduces the bytes it covers. -/
theorem packFrom_unpack (bs : List Nat) (hb : allBytes bs) :
    ∀ (fs : List Field) (pos : Nat), chained pos fs = true → endOf pos fs ≤ bs.length →
      packFrom pos fs (fs.map (unpackField bs)) = slice bs pos (endOf pos fs - pos) := by
  intro fs
  induction fs with
  | nil => intro pos _ _; simp [packFrom, endOf, slice]
  | cons f fs ih =>
    intro pos hc he
    simp only [chained, Bool.and_eq_true, beq_iff_eq] at hc
    obtain ⟨hoff, hc'⟩ := hc
    simp only [endOf] at he ⊢
    have hmono : ∀ (gs : List Field) (p : Nat), p ≤ endOf p gs := by
      intro gs; induction gs with
      | nil => intro p; simp [endOf]
      | cons g gs ih2 => intro p; simp only [endOf]; have := ih2 (p + g.width); omega
    have h1 := hmono fs (pos + f.width)
    simp only [List.map_cons, packFrom, hoff, Nat.sub_self, List.replicate_zero, List.nil_append]
    rw [packField_unpackField bs f hb (by omega), hoff, ih (pos + f.width) hc' he, slice_append]
    congr 1; omega

theorem pack_unpack (layout : List Field) (size : Nat) (bs : List Nat) (hb : allBytes bs)
    (hc : chained 0 layout = true) (he : endOf 0 layout = size) (hl : size ≤ bs.length) :
    pack layout size (unpack layout bs) = bs.take size := by
  unfold pack unpack
  have := packFrom_unpack bs hb layout 0 hc (by omega)
  simp only [this, he, Nat.sub_zero, slice, List.drop_zero]
  simp [List.length_take, Nat.min_eq_left hl]

/-! the layouts extracted from the source are gap-free and have the size `struct.calcsize` reports -/
theorem bpb_chained : chained 0 Gen.bpbLayout = true ∧ endOf 0 Gen.bpbLayout = Gen.bpbLayoutSize := by decide
theorem bpb12_chained : chained 0 Gen.bpb12Layout = true ∧ endOf 0 Gen.bpb12Layout = Gen.bpb12LayoutSize := by decide
theorem bpb32_chained : chained 0 Gen.bpb32Layout = true ∧ endOf 0 Gen.bpb32Layout = Gen.bpb32LayoutSize := by decide
theorem dir_chained : chained 0 Gen.dirLayout = true ∧ endOf 0 Gen.dirLayout = Gen.dirLayoutSize := by decide
theorem lfn_chained : chained 0 Gen.lfnLayout = true ∧ endOf 0 Gen.lfnLayout = Gen.lfnLayoutSize := by decide

end Proofs.Layout
