/-
Frame of the operations of the filesystem model: a call on path `P` changes only
the entry at `P` and the entry of its parent directory (whose chain may grow);
every other entry — name, kind, cluster chain, size — is the same object
afterwards, however the call ends.  With the disjointness of chains in the
post-state (`Inv`) this is what C12's crash frame needs from each primitive: no
cluster of an entry outside the footprint belongs to anything the call writes.
-/
import PyFatModel.Proofs.FsData

namespace Proofs.FsFrame
open Model.Fs Model.Alloc Proofs.FsTree Proofs.FsFat Proofs.FsInv

/-- the path an operation is about -/
def opPath : Op → List Nat
  | .create p _ _ => p
  | .makedir p _ => p
  | .remove p => p
  | .removedir p => p
  | .fwrite p _ _ => p
  | .ftrunc p _ => p

/-- every entry other than the target and its parent directory survives unchanged -/
def Frame (s : St) (P : List Nat) (out : St × Res) : Prop :=
  ∀ g ∈ s.nodes, g.path ≠ P → g.path ≠ P.dropLast → g ∈ out.1.nodes

theorem updateDir_mem {v : Vol} {s s2 : St} {nodes : List Node} {loc : Loc} {g : Node}
    (hu : updateDir v s nodes loc = .ok s2) (hg : g ∈ nodes) (hne : ∀ d, loc = .node d → g ≠ d) : g ∈ s2.nodes := by
  unfold updateDir at hu
  split at hu
  · split at hu
    · split at hu
      · simp at hu
      · simp only [Except.ok.injEq] at hu; subst hu; exact hg
    · split at hu
      · simp at hu
      · simp only [Except.ok.injEq] at hu; subst hu; exact hg
  · rename_i d
    split at hu
    · simp at hu
    · simp only [Except.ok.injEq] at hu
      subst hu
      simp only
      split
      · exact hg
      · exact mem_replace_of hg (hne d rfl)

/-- the result of `match updateDir … with | error => (stErr, _) | ok s2 => (flush s2, _)` keeps `g` -/
theorem frame_update {v : Vol} {s1 : St} {nodes1 : List Node} {loc : Loc} {g : Node} (stErr : St) (rOk : Res)
    (hg : g ∈ nodes1) (hne : ∀ d, loc = .node d → g ≠ d) (hErr : g ∈ stErr.nodes) :
    g ∈ (match updateDir v s1 nodes1 loc with
          | .error e => (stErr, Res.err e)
          | .ok s2 => (flush s2, rOk)).1.nodes := by
  split
  · exact hErr
  · rename_i s2 hu
    exact (updateDir_mem hu hg hne : g ∈ s2.nodes)

theorem loc_ne {nodes : List Node} (h : TreeInv nodes) {dir : List Nat} {ploc : Loc} (hr : resolve nodes dir = some ploc)
    {g : Node} (hgd : g.path ≠ dir) : ∀ d, ploc = .node d → g ≠ d := by
  intro d e
  subst e
  intro e2
  subst e2
  exact hgd (resolve_node h dir g hr).2

theorem target_ne {nodes : List Node} (h : TreeInv nodes) {P : List Nat} {n : Node} (hr : resolve nodes P = some (.node n))
    {g : Node} (hgp : g.path ≠ P) : g ≠ n := by
  intro e
  subst e
  exact hgp (resolve_node h P g hr).2

theorem child_target {nodes : List Node} (h : TreeInv nodes) {dir : List Nat} {k : Nat} {ploc : Loc} {n : Node}
    (hr : resolve nodes dir = some ploc) (hpd : ploc.isDir = true) (hc : child nodes ploc.id k = some n) :
    resolve nodes (dir ++ [k]) = some (.node n) := by
  rw [resolve_snoc, hr]
  simp [walk, hpd, hc]

theorem create_frame (v : Vol) (s : St) (path : List Nat) (slots : Nat) (wipe : Bool) (h : TreeInv s.nodes) :
    Frame s path (create v s path slots wipe) := by
  intro g hg hp hpd
  unfold create
  cases hsl : splitLast path with
  | none => exact hg
  | some dk =>
    obtain ⟨dir, k⟩ := dk
    have hpe : path = dir ++ [k] := (splitLast_some path dir k).mp hsl
    subst hpe
    rw [List.dropLast_concat] at hpd
    simp only
    cases hr : resolve s.nodes dir with
    | none => exact hg
    | some ploc =>
      have hne := loc_ne h hr hpd
      simp only
      by_cases hd : ploc.isDir = true
      case neg => simp only [hd, Bool.not_false, ↓reduceIte]; exact hg
      case pos =>
        simp only [hd, Bool.not_true, Bool.false_eq_true, ↓reduceIte]
        cases hc : child s.nodes ploc.id k with
        | none =>
          simp only
          split
          · exact hg
          · rename_i s2 hu
            exact (updateDir_mem hu (List.mem_append_left _ hg) hne : g ∈ s2.nodes)
        | some n =>
          have hgn := target_ne h (child_target h hr hd hc) hp
          simp only
          split
          · exact hg
          · split
            · exact hg
            · have hs1 : (if n.chain = [] then s else release v s n.chain).nodes = s.nodes := by split <;> rfl
              split
              · simp only; rw [hs1]; exact mem_replace_of hg hgn
              · rename_i s2 hu
                exact (updateDir_mem hu (by rw [hs1]; exact mem_replace_of hg hgn) hne : g ∈ s2.nodes)

theorem makedir_frame (v : Vol) (s : St) (path : List Nat) (slots : Nat) (h : TreeInv s.nodes) :
    Frame s path (makedir v s path slots) := by
  intro g hg hp hpd
  unfold makedir
  cases hsl : splitLast path with
  | none => exact hg
  | some dk =>
    obtain ⟨dir, k⟩ := dk
    have hpe : path = dir ++ [k] := (splitLast_some path dir k).mp hsl
    subst hpe
    rw [List.dropLast_concat] at hpd
    simp only
    cases hr : resolve s.nodes dir with
    | none => exact hg
    | some ploc =>
      have hne := loc_ne h hr hpd
      simp only
      by_cases hd : ploc.isDir = true
      case neg => simp only [hd, Bool.not_false, ↓reduceIte]; exact hg
      case pos =>
        simp only [hd, Bool.not_true, Bool.false_eq_true, ↓reduceIte]
        cases hc : child s.nodes ploc.id k with
        | some n => exact hg
        | none =>
          simp only
          cases ha : allocate v.p s.fat s.hint v.bound (numClus v.bpc 64) with
          | none => exact hg
          | some r =>
            simp only
            split
            · exact hg
            · rename_i s2 hu
              exact (updateDir_mem hu (List.mem_append_left _ hg) hne : g ∈ s2.nodes)

theorem removeEntry_frame (v : Vol) (s : St) (ploc : Loc) (n : Node) {g : Node} (hg : g ∈ s.nodes) (hgn : g ≠ n)
    (hne : ∀ d, ploc = .node d → g ≠ d) : g ∈ (removeEntry v s ploc n).1.nodes := by
  unfold removeEntry
  have hge : g ∈ s.nodes.erase n := (List.mem_erase_of_ne hgn).mpr hg
  split
  · exact hge
  · rename_i s1 hu
    have := updateDir_mem hu hge hne
    split
    · exact this
    · exact this

/-- the shared shape of remove / removedir / fwrite / ftrunc: resolve the entry and its directory -/
theorem resolved_frame {s : St} (h : TreeInv s.nodes) {dir : List Nat} {k : Nat} {g : Node}
    (hp : g.path ≠ dir ++ [k]) (hpd : g.path ≠ dir) :
    ∀ (n : Node) (ploc : Loc), resolve s.nodes (dir ++ [k]) = some (.node n) → resolve s.nodes dir = some ploc →
      g ≠ n ∧ ∀ d, ploc = .node d → g ≠ d :=
  fun _ _ hrn hrp => ⟨target_ne h hrn hp, loc_ne h hrp hpd⟩

theorem remove_frame (v : Vol) (s : St) (path : List Nat) (h : TreeInv s.nodes) : Frame s path (remove v s path) := by
  intro g hg hp hpd
  unfold remove
  cases hsl : splitLast path with
  | none => exact hg
  | some dk =>
    obtain ⟨dir, k⟩ := dk
    have hpe : path = dir ++ [k] := (splitLast_some path dir k).mp hsl
    subst hpe
    rw [List.dropLast_concat] at hpd
    simp only
    split
    · rename_i n ploc hrn hrp
      obtain ⟨hgn, hne⟩ := resolved_frame h hp hpd n ploc hrn hrp
      split
      · exact hg
      · exact removeEntry_frame v s ploc n hg hgn hne
    · exact hg
    · exact hg

theorem removedir_frame (v : Vol) (s : St) (path : List Nat) (h : TreeInv s.nodes) : Frame s path (removedir v s path) := by
  intro g hg hp hpd
  unfold removedir
  cases hsl : splitLast path with
  | none => exact hg
  | some dk =>
    obtain ⟨dir, k⟩ := dk
    have hpe : path = dir ++ [k] := (splitLast_some path dir k).mp hsl
    subst hpe
    rw [List.dropLast_concat] at hpd
    simp only
    split
    · rename_i n ploc hrn hrp
      obtain ⟨hgn, hne⟩ := resolved_frame h hp hpd n ploc hrn hrp
      split
      · exact hg
      · split
        · exact hg
        · exact removeEntry_frame v s ploc n hg hgn hne
    · exact hg
    · exact hg

theorem fwrite_frame (v : Vol) (s : St) (path : List Nat) (pos n : Nat) (h : TreeInv s.nodes) :
    Frame s path (fwrite v s path pos n) := by
  intro g hg hp hpd
  unfold fwrite
  cases hsl : splitLast path with
  | none => exact hg
  | some dk =>
    obtain ⟨dir, k⟩ := dk
    have hpe : path = dir ++ [k] := (splitLast_some path dir k).mp hsl
    subst hpe
    rw [List.dropLast_concat] at hpd
    simp only
    split
    · rename_i f ploc hrn hrp
      obtain ⟨hgn, hne⟩ := resolved_frame h hp hpd f ploc hrn hrp
      split
      · exact hg
      · split
        · exact hg
        · split
          · exact hg
          · split
            · exact mem_replace_of hg hgn
            · rename_i s2 hu
              exact (updateDir_mem hu (mem_replace_of hg hgn) hne : g ∈ s2.nodes)
    · exact hg
    · exact hg

theorem ftrunc_frame (v : Vol) (s : St) (path : List Nat) (m : Nat) (h : TreeInv s.nodes) :
    Frame s path (ftrunc v s path m) := by
  intro g hg hp hpd
  unfold ftrunc
  cases hsl : splitLast path with
  | none => exact hg
  | some dk =>
    obtain ⟨dir, k⟩ := dk
    have hpe : path = dir ++ [k] := (splitLast_some path dir k).mp hsl
    subst hpe
    rw [List.dropLast_concat] at hpd
    simp only
    split
    · rename_i f ploc hrn hrp
      obtain ⟨hgn, hne⟩ := resolved_frame h hp hpd f ploc hrn hrp
      split
      · exact hg
      · split
        · split
          · exact hg
          · split
            · exact mem_replace_of hg hgn
            · rename_i s2 hu
              exact (updateDir_mem hu (mem_replace_of hg hgn) hne : g ∈ s2.nodes)
        · -- shrink / same size: the state before the directory rewrite has the same entries
          generalize hS1 : (if m < f.size ∧ max 1 (numClus v.bpc m) < f.chain.length then
              match (List.take (max 1 (numClus v.bpc m)) f.chain).getLast? with
              | some l => flush { s with
                    fat := (freeList v.p.cv.free s.fat (List.drop (max 1 (numClus v.bpc m)) f.chain)).set l v.p.cv.eocMax,
                    hint := lowerHint s.hint (List.drop (max 1 (numClus v.bpc m)) f.chain) }
              | none => s
            else s) = s1
          have hs1 : s1.nodes = s.nodes := by
            rw [← hS1]
            split
            · split <;> rfl
            · rfl
          split
          · simp only [flush]; rw [hs1]; exact mem_replace_of hg hgn
          · rename_i s2 hu
            exact (updateDir_mem hu (by rw [hs1]; exact mem_replace_of hg hgn) hne : g ∈ s2.nodes)
    · exact hg
    · exact hg

/-- **frame of every call** -/
theorem step_frame (v : Vol) (s : St) (op : Op) (h : TreeInv s.nodes) : Frame s (opPath op) (step v s op) := by
  cases op with
  | create p sl w => exact create_frame v s p sl w h
  | makedir p sl => exact makedir_frame v s p sl h
  | remove p => exact remove_frame v s p h
  | removedir p => exact removedir_frame v s p h
  | fwrite p pos n => exact fwrite_frame v s p pos n h
  | ftrunc p m => exact ftrunc_frame v s p m h

/-- **what C12 needs from a primitive**: an entry outside the footprint (not the target, not its parent directory)
    is an entry of the state after the call, with the same chain and size, and none of its clusters belongs to
    any other entry of that state — in particular not to the target or the rewritten directory, whose clusters
    (and clusters that were free) are the only ones the call writes data to -/
theorem outside_footprint_untouched {v : Vol} {count : Nat} (hv : VolOK v count) {s : St} (h : Inv v count s) (op : Op)
    (g : Node) (hg : g ∈ s.nodes) (hp : g.path ≠ opPath op) (hpd : g.path ≠ (opPath op).dropLast) :
    g ∈ (step v s op).1.nodes ∧
      ∀ x ∈ (step v s op).1.nodes, x ≠ g → ∀ c ∈ g.chain, c ∉ x.chain := by
  have hmem := step_frame v s op h.tree g hg hp hpd
  refine ⟨hmem, ?_⟩
  intro x hx hne c hc
  exact Proofs.FsData.chains_disjoint (step_good hv h op).1 g x hmem hx (fun e => hne e.symm) c hc

end Proofs.FsFrame
