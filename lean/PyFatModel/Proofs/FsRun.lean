/-
Whole histories of the filesystem model: the invariant holds in every reachable
state; every call answers like the reference filesystem or stops with
out-of-space and then changes nothing; the chain follower, run on the FAT of any
reachable state from an entry's first cluster, yields exactly that entry's chain.
-/
import PyFatModel.Proofs.FsInv

namespace Proofs.FsRun
open Model.Fs Model.Alloc Proofs.FatRep Proofs.FsTree Proofs.FsFat Proofs.FsInv Proofs.FsRefine

instance (r : Res) : Decidable (Soft r) := by unfold Soft; exact inferInstance

/-- the reference filesystem does the call too — unless the implementation ran out of space -/
def specFollow (t : Spec) (op : Op) (r : Res) : Spec := if Soft r then t else (specStep t op).1

/-- every write of the history starts inside its file (the property's domain) -/
def DomAll (v : Vol) : St → List Op → Prop
  | _, [] => True
  | s, op :: rest => InDomain s op ∧ DomAll v (step v s op).1 rest

/-- the reference filesystem driven along a history of the implementation -/
def specRun (v : Vol) : St → Spec → List Op → Spec
  | _, t, [] => t
  | s, t, op :: rest => specRun v (step v s op).1 (specFollow t op (step v s op).2) rest

/-- one call: the answer is the reference's (or out-of-space), the abstraction follows the reference -/
theorem step_sim {v : Vol} {count : Nat} (hv : VolOK v count) {s : St} (h : Inv v count s) (op : Op)
    (hdom : InDomain s op) :
    abs (step v s op).1 = specFollow (abs s) op (step v s op).2 ∧
      (¬ Soft (step v s op).2 → (step v s op).2 = (specStep (abs s) op).2) := by
  have hg := step_good hv h op
  have hr := step_refines v s op h.tree hdom
  unfold specFollow
  by_cases hs : Soft (step v s op).2
  · simp only [hs, ↓reduceIte, not_true_eq_false, false_implies, and_true]
    have := (hg.2.1 hs).1
    simp [abs, this]
  · simp only [hs, ↓reduceIte, not_false_eq_true, true_implies]
    rcases hr with h1 | ⟨h1, h2⟩
    · exact absurd h1 hs
    · exact ⟨h2, h1⟩

/-- **all histories**: the final tree (paths, kinds, sizes) is the reference filesystem's -/
theorem run_sim {v : Vol} {count : Nat} (hv : VolOK v count) (ops : List Op) :
    ∀ s : St, Inv v count s → DomAll v s ops → abs (run v s ops) = specRun v s (abs s) ops := by
  induction ops with
  | nil => intro s _ _; rfl
  | cons op rest ih =>
    intro s h hd
    simp only [run, List.foldl_cons, specRun]
    have := ih (step v s op).1 (step_good hv h op).1 hd.2
    simp only [run] at this
    rw [this, (step_sim hv h op hd.1).1]

/-- the follower, run on the FAT of a state that satisfies the invariant from an entry's first
    cluster, yields exactly the entry's chain: the ghost chains of the model are what the real
    `get_cluster_chain` computes -/
theorem follow_node {v : Vol} {count : Nat} (hv : VolOK v count) {s : St} (h : Inv v count s) (n : Node)
    (hn : n ∈ s.nodes) (hc : n.chain ≠ []) : chainOf v.p s.fat n.clus = .ok n.chain := by
  have hmem : n.chain ∈ own s.rootChain s.nodes := chain_mem_own hn hc
  have hch := h.rep.chain n.chain (by simpa using hmem)
  cases hcc : n.chain with
  | nil => exact absurd hcc hc
  | cons c rest =>
    rw [clus_of_chain hcc]
    rw [hcc] at hch
    exact free_follows_chain hv.params c rest hch rfl

/-- no cluster belongs to two entries, none to an entry and the root directory -/
theorem no_crosslink {v : Vol} {count : Nat} {s : St} (h : Inv v count s) :
    (own s.rootChain s.nodes).flatten.Nodup := by simpa using h.rep.disjoint

/-- no leak: a data cluster that no entry (and not the root directory) owns is free or marked bad -/
theorem no_leak {v : Vol} {count : Nat} {s : St} (h : Inv v count s) (c : Nat) (h2 : 2 ≤ c) (hc : c < count + 2)
    (hfree : c ∉ (own s.rootChain s.nodes).flatten) :
    s.fat.getD c 0 = v.p.cv.free ∨ s.fat.getD c 0 = v.p.cv.bad :=
  h.rep.rest c h2 hc (by simpa using hfree)

/-- an empty volume with a fixed root directory satisfies the invariant -/
theorem inv_empty_fixed (v : Vol) (count : Nat) (fat : List Nat) (hint : Nat) (dfat : List Nat) (disk : List DEnt)
    (hfix : v.fixedRoot = true) (hlen : count + 2 ≤ fat.length)
    (hfree : ∀ c, 2 ≤ c → c < count + 2 → fat.getD c 0 = v.p.cv.free ∨ fat.getD c 0 = v.p.cv.bad)
    (hroot : 32 * v.rootBase ≤ v.rootCap) (hh : Proofs.FsHint.HintOK v.p v.bound fat hint) :
    Inv v count ⟨fat, hint, [], [], dfat, disk⟩ := by
  have htree : TreeInv ([] : List Node) :=
    ⟨fun n hn => (nomatch hn), List.nodup_nil, fun d hd => (nomatch hd), fun d hd => (nomatch hd)⟩
  have hrep : FatRep v.p count fat ([] ++ own [] []) := by
    refine ⟨hlen, ?_, ?_, ?_, ?_⟩
    · intro cs hcs; simp [own, ne] at hcs
    · intro cs hcs; simp [own, ne] at hcs
    · simp [own, ne]
    · intro c h2 hc _; exact hfree c h2 hc
  refine ⟨htree, hrep, hh, fun _ => rfl, (fun (hf : v.fixedRoot = false) => by rw [hfix] at hf; cases hf),
    (fun d hd => (nomatch hd)), fun _ => ?_, (fun d hd => (nomatch hd))⟩
  simp only [dirBytes, childSlots, hfix, Loc.id, List.filter_nil, List.map_nil, List.sum_nil, Nat.add_zero, ↓reduceIte]
  exact hroot

/-- **no spurious out-of-space in any reachable state**: when an allocation of `n` clusters is refused, the whole
    volume holds at most `n` allocatable clusters (the allocator needs one index behind the last cluster it takes) -/
theorem enospc_means_full {v : Vol} {count : Nat} {s : St} (h : Inv v count s) (n : Nat)
    (hno : allocate v.p s.fat s.hint v.bound n = none) : Proofs.Alloc.avail v.p s.fat v.bound 0 ≤ n :=
  Proofs.FsHint.enospc_means_full h.hintOK hno

/-- the model's I/O-error branches (a cursor outside the chain, a directory without a cluster, an empty
    allocation) are never taken: in a state with the invariant and well-shaped files no call ends in `eio` -/
theorem never_eio {v : Vol} {count : Nat} (hv : VolOK v count) {s : St} (h : Inv v count s)
    (hs : Proofs.FsShape.ShapeNodes v.bpc s.nodes) (op : Op) : (step v s op).2 ≠ .err .eio :=
  (step_good hv h op).2.2.2.2 hs

/-! ## `removetree`: the compound call of pyfatfs' own -/

/-- only removals -/
def Removal : Op → Prop
  | .remove _ => True
  | .removedir _ => True
  | _ => False

theorem expandTree_removals : ∀ (fuel : Nat) (nodes : List Node) (path : List Nat) (loc : Loc),
    ∀ op ∈ expandTree fuel nodes path loc, Removal op := by
  intro fuel
  induction fuel with
  | zero => intro nodes path loc op h; simp [expandTree] at h
  | succ f ih =>
    intro nodes path loc op h
    simp only [expandTree, List.mem_append, List.mem_map, List.mem_flatMap] at h
    rcases h with (⟨x, _, rfl⟩ | ⟨d, _, hd⟩) | h
    · trivial
    · exact ih nodes _ _ op hd
    · cases loc with
      | root => simp at h
      | node n => simp at h; subst h; trivial

theorem domAll_removals (v : Vol) : ∀ (ops : List Op) (s : St), (∀ op ∈ ops, Removal op) → DomAll v s ops := by
  intro ops
  induction ops with
  | nil => intro s _; trivial
  | cons op rest ih =>
    intro s h
    refine ⟨?_, ih _ (fun o ho => h o (by simp [ho]))⟩
    have := h op (by simp)
    cases op <;> simp_all [Removal, InDomain]

/-- `removetree` keeps the invariant, memory = device and the shape of files: it is a run of primitive calls -/
theorem removetree_good {v : Vol} {count : Nat} (hv : VolOK v count) {s : St} (h : Inv v count s) (path : List Nat) :
    Inv v count (removetree v s path).1 ∧
      (Proofs.FsSync.Sync s → Proofs.FsSync.Sync (removetree v s path).1) ∧
      (Proofs.FsShape.ShapeNodes v.bpc s.nodes → Proofs.FsShape.ShapeNodes v.bpc (removetree v s path).1.nodes) := by
  unfold removetree
  split
  · exact ⟨h, fun x => x, fun x => x⟩
  · split
    · exact ⟨h, fun x => x, fun x => x⟩
    · exact ⟨run_inv hv _ s h, run_sync hv _ s h, run_shape hv _ s h⟩

/-- `removetree` answers like the reference filesystem making the same primitive calls -/
theorem removetree_sim {v : Vol} {count : Nat} (hv : VolOK v count) {s : St} (h : Inv v count s) (path : List Nat)
    (loc : Loc) (hr : resolve s.nodes path = some loc) (hd : loc.isDir = true) :
    abs (removetree v s path).1 =
      specRun v s (abs s) (expandTree (s.nodes.length + 1) s.nodes path loc) := by
  unfold removetree
  simp only [hr, hd, Bool.not_true, Bool.false_eq_true, ↓reduceIte]
  exact run_sim hv _ s h (domAll_removals v _ s (expandTree_removals _ _ _ _))

end Proofs.FsRun
