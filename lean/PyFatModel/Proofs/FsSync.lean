/-
Memory and device are the same after every call of the filesystem model: the
FAT as last flushed is the in-memory FAT, and the directory entries as last
written are the entries of the in-memory tree — whatever the call was and
however it ended (C03 at the level of the primitives: "everything acknowledged
is on the device"; C09: a failed call leaves the device alone).
-/
import PyFatModel.Proofs.FsFat
import PyFatModel.Proofs.FsRefine

namespace Proofs.FsSync
open Model.Fs Model.Alloc Proofs.FatRep Proofs.FsTree Proofs.FsFat Proofs.FsRefine

/-- the entries as `update_directory_entry` writes them -/
def D (nodes : List Node) : List DEnt := nodes.map Node.dent

structure Sync (s : St) : Prop where
  fat : s.dfat = s.fat
  disk : s.disk.Perm (D s.nodes)

/-- entries outside directory `d` -/
def others (d : Nat) (l : List DEnt) : List DEnt := l.filter (fun e => e.parent != d)

theorem writeDir_perm {disk : List DEnt} {old new : List Node} {d : Nat}
    (h : disk.Perm (D old)) (hsame : others d (D new) = others d (D old)) :
    (writeDir disk new d).Perm (D new) := by
  unfold writeDir
  have h1 : (disk.filter (fun e => e.parent != d)).Perm (others d (D new)) := by
    rw [hsame]; exact h.filter _
  have h2 : (new.filter (fun n => n.parent == d)).map Node.dent = (D new).filter (fun e => !(e.parent != d)) := by
    unfold D
    rw [List.filter_map]
    congr 1
    apply List.filter_congr
    intro x _
    simp [Node.dent, bne]
  rw [h2]
  exact (List.Perm.append_right _ h1).trans (List.filter_append_perm _ _)

theorem growChain_headD {v : Vol} {fat : List Nat} {hint : Nat} {c : List Nat} {bytes : Nat}
    {fat' : List Nat} {hint' : Nat} {c' : List Nat}
    (h : growChain v fat hint c bytes = .ok (fat', hint', c')) : c'.headD 0 = c.headD 0 := by
  unfold growChain at h
  split at h
  · simp only [Except.ok.injEq, Prod.mk.injEq] at h; rw [h.2.2]
  · split at h
    · rename_i l r hl _
      split at h
      · simp only [Except.ok.injEq, Prod.mk.injEq] at h
        rw [← h.2.2]
        cases c with
        | nil => simp at hl
        | cons x xs => simp
      · simp at h
    · simp at h
    · simp at h

theorem D_replace_same (nodes : List Node) (o n : Node) (h : n.dent = o.dent) : D (replaceNode nodes o n) = D nodes := by
  unfold D replaceNode
  rw [List.map_map]
  apply List.map_congr_left
  intro x _
  simp only [Function.comp]
  split
  · rename_i hx; rw [h, hx]
  · rfl

/-- what `update_directory_entry` does to the device: the FAT region is not touched, the directory is
    rewritten from the in-memory entries, and those are (as far as the device format sees them) the ones passed in -/
theorem updateDir_dev {v : Vol} {s s2 : St} {nodes : List Node} {loc : Loc} (h : updateDir v s nodes loc = .ok s2) :
    s2.dfat = s.dfat ∧ s2.disk = writeDir s.disk s2.nodes loc.id ∧ D s2.nodes = D nodes := by
  unfold updateDir at h
  split at h
  · split at h
    · split at h
      · simp at h
      · simp only [Except.ok.injEq] at h; subst h; exact ⟨rfl, rfl, rfl⟩
    · split at h
      · simp at h
      · simp only [Except.ok.injEq] at h; subst h; exact ⟨rfl, rfl, rfl⟩
  · rename_i d
    split at h
    · simp at h
    · rename_i fat hint chain hg
      simp only [Except.ok.injEq] at h
      subst h
      refine ⟨rfl, rfl, ?_⟩
      simp only
      split
      · rfl
      · apply D_replace_same
        simp only [Node.dent, Node.clus, growChain_headD hg]

/-! ## entries of the other directories under list surgery -/

theorem others_append (nodes : List Node) (n : Node) (d : Nat) (h : n.parent = d) :
    others d (D (nodes ++ [n])) = others d (D nodes) := by
  unfold others D
  rw [List.map_append, List.filter_append]
  simp [Node.dent, h]

theorem others_replace (nodes : List Node) (o n : Node) (d : Nat) (ho : o.parent = d) (hn : n.parent = d) :
    others d (D (replaceNode nodes o n)) = others d (D nodes) := by
  unfold others D replaceNode
  induction nodes with
  | nil => rfl
  | cons x xs ih =>
    simp only [List.map_cons, List.filter_cons]
    by_cases hx : x = o
    · subst hx
      simp only [↓reduceIte, Node.dent, hn, ho, bne_self_eq_false, Bool.false_eq_true]
      exact ih
    · simp only [hx, ↓reduceIte]
      split
      · rw [ih]
      · exact ih

theorem others_erase (nodes : List Node) (n : Node) (d : Nat) (h : n.parent = d) :
    others d (D (nodes.erase n)) = others d (D nodes) := by
  unfold others D
  induction nodes with
  | nil => rfl
  | cons x xs ih =>
    by_cases hx : x = n
    · subst hx
      simp only [List.erase_cons_head, List.map_cons, List.filter_cons, Node.dent, h, bne_self_eq_false,
        Bool.false_eq_true, ↓reduceIte]
    · have hne : (x == n) = false := by simpa using hx
      simp only [List.erase_cons, hne, Bool.false_eq_true, ↓reduceIte, List.map_cons, List.filter_cons]
      split
      · rw [ih]
      · exact ih

/-- after the directory has been rewritten (and the FAT flushed), memory and device agree again -/
theorem sync_flush_update {v : Vol} {s s1 s2 : St} {nodes1 : List Node} {loc : Loc} (hs : Sync s) (ed : s1.disk = s.disk)
    (hu : updateDir v s1 nodes1 loc = .ok s2) (hsame : others loc.id (D nodes1) = others loc.id (D s.nodes)) :
    Sync (flush s2) := by
  obtain ⟨_, e2, e3⟩ := updateDir_dev hu
  refine ⟨rfl, ?_⟩
  simp only [flush]
  rw [e2, ed]
  exact writeDir_perm hs.disk (by unfold D at e3 ⊢; rw [e3]; exact hsame)

theorem sync_update {v : Vol} {s s1 s2 : St} {nodes1 : List Node} {loc : Loc} (hs : Sync s) (ed : s1.disk = s.disk)
    (hu : updateDir v s1 nodes1 loc = .ok s2) (hsame : others loc.id (D nodes1) = others loc.id (D s.nodes)) :
    s2.disk.Perm (D s2.nodes) := (sync_flush_update hs ed hu hsame).disk

/-! ## the table after allocating and releasing again is the table before -/

theorem list_ext_getD (a b : List Nat) (hl : a.length = b.length) (h : ∀ i, i < a.length → a.getD i 0 = b.getD i 0) : a = b := by
  apply List.ext_getElem hl
  intro i h1 h2
  have := h i h1
  simp only [List.getD_eq_getElem?_getD, List.getElem?_eq_getElem h1, List.getElem?_eq_getElem h2, Option.getD_some] at this
  exact this

theorem alloc_release_cancel {p : Params} {fat : List Nat} {hint bound n : Nat} {r : AllocResult}
    (h : allocate p fat hint bound n = some r) (hb : bound ≤ fat.length) :
    freeList p.cv.free r.fat r.clusters = fat := by
  unfold allocate at h
  split at h
  · simp at h
  · rename_i cs j hscan
    simp only [Option.some.injEq] at h
    subst h
    simp only
    obtain ⟨hok, hj, _⟩ := Proofs.Alloc.scan_spec0 p fat n hint bound cs j hscan
    apply list_ext_getD
    · rw [freeList_length, Proofs.Alloc.link_length]
    · intro i _
      by_cases hi : i ∈ cs
      · have hlt : i < fat.length := by
          have h1 := (hok.range i hi).2
          have h2 := (hok.range i hi).1
          omega
        rw [freeList_freed _ _ _ _ hi (by rw [Proofs.Alloc.link_length]; exact hlt)]
        exact (hok.free i hi).symm
      · rw [freeList_frame _ _ _ _ hi, Proofs.Alloc.link_frame _ _ _ _ hi]

end Proofs.FsSync
