/-
The FAT side of the filesystem model: which chains a state owns, how list
surgery on the node list permutes them, and what `growChain` / `writeChain` /
release / truncate do to the representation invariant `FatRep`.
-/
import PyFatModel.Model.Fs
import PyFatModel.Proofs.FatMachine
import PyFatModel.Proofs.FsTree

namespace Proofs.FsFat
open Model.Fs Model.Alloc Proofs.FatRep Proofs.FatMachine Proofs.FsTree

/-! ## owned chains -/

def ne (c : List Nat) : Bool := !c.isEmpty

/-- `[c]` unless `c` is empty -/
def opt (c : List Nat) : List (List Nat) := if c = [] then [] else [c]

/-- every chain the state owns: the (FAT32) root directory's and each entry's -/
def own (root : List Nat) (nodes : List Node) : List (List Nat) :=
  (root :: nodes.map (·.chain)).filter ne

theorem filter_ne_cons (c : List Nat) (l : List (List Nat)) : (c :: l).filter ne = opt c ++ l.filter ne := by
  unfold opt ne
  cases c <;> simp

theorem opt_of_ne {c : List Nat} (h : c ≠ []) : opt c = [c] := by simp [opt, h]

theorem own_perm {root : List Nat} {a b : List Node} (h : a.Perm b) : (own root a).Perm (own root b) := by
  unfold own
  exact ((h.map _).cons root).filter _

theorem own_cons (root : List Nat) (n : Node) (rest : List Node) :
    (own root (n :: rest)).Perm (opt n.chain ++ own root rest) := by
  unfold own
  simp only [List.map_cons]
  have : (root :: n.chain :: rest.map (·.chain)).Perm (n.chain :: root :: rest.map (·.chain)) := List.Perm.swap _ _ _
  refine (this.filter ne).trans ?_
  rw [filter_ne_cons]

theorem own_append (root : List Nat) (nodes : List Node) (n : Node) :
    (own root (nodes ++ [n])).Perm (opt n.chain ++ own root nodes) :=
  (own_perm (List.perm_append_comm (l₁ := nodes) (l₂ := [n]))).trans (own_cons root n nodes)

theorem own_erase (root : List Nat) {nodes : List Node} {n : Node} (hn : n ∈ nodes) :
    (own root nodes).Perm (opt n.chain ++ own root (nodes.erase n)) :=
  (own_perm (List.perm_cons_erase hn)).trans (own_cons root n _)

theorem replace_perm : ∀ (nodes : List Node) (old new : Node), nodes.Nodup → old ∈ nodes →
    (replaceNode nodes old new).Perm (new :: nodes.erase old) := by
  intro nodes
  induction nodes with
  | nil => intro _ _ _ h; simp at h
  | cons x xs ih =>
    intro old new hnd hmem
    rw [List.nodup_cons] at hnd
    unfold replaceNode
    simp only [List.map_cons]
    by_cases hx : x = old
    · subst hx
      simp only [↓reduceIte, List.erase_cons_head]
      have : xs.map (fun y => if y = x then new else y) = xs := by
        rw [List.map_congr_left (g := id)]
        · simp
        · intro y hy
          have : y ≠ x := fun e => hnd.1 (e ▸ hy)
          simp [this]
      rw [this]
    · have hmem' : old ∈ xs := by
        simp only [List.mem_cons] at hmem
        rcases hmem with h | h
        · exact absurd h.symm hx
        · exact h
      have hne : (x == old) = false := by simpa using hx
      simp only [hx, ↓reduceIte, List.erase_cons, hne, Bool.false_eq_true]
      have := ih old new hnd.2 hmem'
      unfold replaceNode at this
      exact (this.cons x).trans (List.Perm.swap _ _ _)

theorem own_replace (root : List Nat) {nodes : List Node} {old new : Node} (hnd : nodes.Nodup) (hn : old ∈ nodes) :
    (own root (replaceNode nodes old new)).Perm (opt new.chain ++ own root (nodes.erase old)) :=
  (own_perm (replace_perm nodes old new hnd hn)).trans (own_cons root new _)

theorem own_root (root : List Nat) (nodes : List Node) : own root nodes = opt root ++ own [] nodes := by
  unfold own
  rw [filter_ne_cons, filter_ne_cons]
  simp [opt]

theorem mem_replace {nodes : List Node} {old new x : Node} (h : x ∈ replaceNode nodes old new) :
    x = new ∨ (x ∈ nodes ∧ x ≠ old) := by
  unfold replaceNode at h
  rw [List.mem_map] at h
  obtain ⟨y, hy, hyx⟩ := h
  split at hyx
  · left; exact hyx.symm
  · right; subst hyx; exact ⟨hy, by assumption⟩

theorem mem_replace_of {nodes : List Node} {old new x : Node} (hx : x ∈ nodes) (hne : x ≠ old) :
    x ∈ replaceNode nodes old new := by
  unfold replaceNode
  rw [List.mem_map]
  exact ⟨x, hx, by simp [hne]⟩

theorem new_mem_replace {nodes : List Node} {old new : Node} (h : old ∈ nodes) : new ∈ replaceNode nodes old new := by
  unfold replaceNode
  rw [List.mem_map]
  exact ⟨old, h, by simp⟩

/-! ## `calc_num_clusters` (the translated function) is a ceiling -/

theorem numClus_mul_ge (bpc x : Nat) (hb : 0 < bpc) : x ≤ numClus bpc x * bpc := by
  unfold numClus Gen.Arith.calc_num_clusters Py.ceilDiv
  have hb' : (0 : Int) < (bpc : Int) := by exact_mod_cast hb
  rw [Int.fdiv_eq_ediv_of_nonneg _ (Int.le_of_lt hb')]
  have h1 : (-(x : Int)) / (bpc : Int) * (bpc : Int) ≤ -(x : Int) := Int.ediv_mul_le _ (Int.ne_of_gt hb')
  have h2 : (-(x : Int)) / (bpc : Int) ≤ 0 := Int.ediv_le_of_le_mul hb' (by simp)
  generalize (-(x : Int)) / (bpc : Int) = q at h1 h2
  have hq : ((-q).toNat : Int) = -q := Int.toNat_of_nonneg (by omega)
  have : (x : Int) ≤ ((-q).toNat : Int) * (bpc : Int) := by
    rw [hq]
    have : -q * (bpc : Int) = -(q * bpc) := Int.neg_mul _ _
    omega
  exact_mod_cast this

theorem numClus_pos (bpc x : Nat) (hb : 0 < bpc) (hx : 0 < x) : 0 < numClus bpc x := by
  have := numClus_mul_ge bpc x hb
  rcases Nat.eq_zero_or_pos (numClus bpc x) with h | h
  · rw [h] at this; omega
  · exact h

/-! ## allocation facts -/

theorem alloc_head_data {p : Params} {fat : List Nat} {hint bound n : Nat} {r : AllocResult}
    (h : allocate p fat hint bound n = some r) (c : Nat) (hc : c ∈ r.clusters) :
    p.cv.minData ≤ c ∧ c ≤ p.cv.maxData := by
  unfold allocate at h
  split at h
  · simp at h
  · rename_i cs j hscan
    simp only [Option.some.injEq] at h
    subst h
    exact (Proofs.Alloc.scan_spec0 p fat n hint bound cs j hscan).1.data c hc

/-- what `growChain` / the extension in `writeChain` does: allocate `n > 0` clusters and link them behind `b` -/
theorem extend_rep {p : Params} (hp : ParamsOK p) {count bound : Nat} (hb : bound ≤ count + 2)
    {fat : List Nat} {hint n : Nat} {b : List Nat} {rest : List (List Nat)} (inv : FatRep p count fat (b :: rest))
    (hn : 0 < n) {l : Nat} (hl : b.getLast? = some l) {r : AllocResult}
    (ha : allocate p fat hint bound n = some r) {hd : Nat} (hh : r.clusters.head? = some hd) :
    FatRep p count (r.fat.set l hd) ((b ++ r.clusters) :: rest) ∧ r.clusters.length = n := by
  obtain ⟨inv2, hlen⟩ := allocate_preserves hp inv hint bound n hb hn r ha
  have hdata := alloc_head_data ha hd (List.mem_of_mem_head? hh)
  exact ⟨join_preserves hp inv2 l hd hl hh hdata, hlen⟩

theorem growChain_rep {v : Vol} (hp : ParamsOK v.p) {count : Nat} (hb : v.bound ≤ count + 2) (hbpc : 0 < v.bpc)
    {fat : List Nat} {hint : Nat} {b : List Nat} {bytes : Nat} {rest : List (List Nat)}
    {fat' : List Nat} {hint' : Nat} {b' : List Nat}
    (inv : FatRep v.p count fat (b :: rest))
    (h : growChain v fat hint b bytes = .ok (fat', hint', b')) :
    FatRep v.p count fat' (b' :: rest) ∧ b'.head? = b.head? ∧ b.length ≤ b'.length ∧ bytes ≤ b'.length * v.bpc ∧
      (bytes ≤ b.length * v.bpc → fat' = fat ∧ hint' = hint ∧ b' = b) := by
  have hbne : b ≠ [] := (inv.chain b (by simp)).ne
  unfold growChain at h
  split at h
  · rename_i hle
    simp only [Except.ok.injEq, Prod.mk.injEq] at h
    obtain ⟨rfl, rfl, rfl⟩ := h
    exact ⟨inv, rfl, Nat.le_refl _, hle, fun _ => ⟨rfl, rfl, rfl⟩⟩
  · rename_i hgt
    split at h
    · rename_i l r hl ha
      split at h
      · rename_i hd hh
        simp only [Except.ok.injEq, Prod.mk.injEq] at h
        obtain ⟨rfl, rfl, rfl⟩ := h
        have hpos : 0 < numClus v.bpc (bytes - b.length * v.bpc) := numClus_pos _ _ hbpc (by omega)
        obtain ⟨inv2, hlen⟩ := extend_rep hp hb inv hpos hl ha hh
        refine ⟨inv2, ?_, by simp, ?_, fun hle => absurd hle hgt⟩
        · cases b with
          | nil => exact absurd rfl hbne
          | cons x xs => simp
        · have := numClus_mul_ge v.bpc (bytes - b.length * v.bpc) hbpc
          rw [List.length_append, hlen, Nat.add_mul]
          omega
      · simp at h
    · simp at h
    · simp at h

theorem growChain_fits {v : Vol} {fat : List Nat} {hint : Nat} {b : List Nat} {bytes : Nat}
    (hle : bytes ≤ b.length * v.bpc) : growChain v fat hint b bytes = .ok (fat, hint, b) := by
  unfold growChain; simp [hle]

/-- release of an owned chain -/
theorem release_rep {p : Params} (hp : ParamsOK p) {count : Nat} {fat : List Nat} {c : List Nat} {rest : List (List Nat)}
    (inv : FatRep p count fat (opt c ++ rest)) (hc : c ≠ []) : FatRep p count (freeList p.cv.free fat c) rest := by
  rw [opt_of_ne hc] at inv
  exact free_preserves hp inv

end Proofs.FsFat
