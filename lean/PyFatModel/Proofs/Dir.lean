import PyFatModel.Model.Dir

open Model.Dir

namespace Proofs.Dir

/-! ## padding and chunking -/

theorem chunks13_flatten : ∀ (fuel : Nat) (l : List Nat), l.length ≤ 13 * fuel → (chunks13 fuel l).flatten = l := by
  intro fuel
  induction fuel with
  | zero => intro l h; simp at h; subst h; rfl
  | succ f ih =>
    intro l h
    cases l with
    | nil => simp [chunks13]
    | cons a t =>
      simp only [chunks13, List.flatten_cons]
      rw [ih ((a :: t).drop 13) (by simp at h ⊢; omega)]
      exact List.take_append_drop 13 (a :: t)

theorem chunks13_all13 : ∀ (fuel : Nat) (l : List Nat), l.length % 13 = 0 →
    ∀ c ∈ chunks13 fuel l, c.length = 13 := by
  intro fuel
  induction fuel with
  | zero => intro l _ c hc; simp [chunks13] at hc
  | succ f ih =>
    intro l h c hc
    cases l with
    | nil => simp [chunks13] at hc
    | cons a t =>
      simp only [chunks13, List.mem_cons] at hc
      have hl : 13 ≤ (a :: t).length := by
        have : (a :: t).length ≠ 0 := by simp
        omega
      rcases hc with rfl | hc
      · simp at hl ⊢; omega
      · exact ih ((a :: t).drop 13) (by simp at h hl ⊢; omega) c hc

theorem chunks13_length : ∀ (fuel : Nat) (l : List Nat), l.length % 13 = 0 → l.length ≤ 13 * fuel →
    (chunks13 fuel l).length = l.length / 13 := by
  intro fuel
  induction fuel with
  | zero => intro l _ h; simp at h; subst h; rfl
  | succ f ih =>
    intro l h hf
    cases l with
    | nil => simp [chunks13]
    | cons a t =>
      have hl : 13 ≤ (a :: t).length := by
        have : (a :: t).length ≠ 0 := by simp
        omega
      simp only [chunks13, List.length_cons]
      rw [ih ((a :: t).drop 13) (by simp at h hl ⊢; omega) (by simp at hf hl ⊢; omega)]
      simp at hl ⊢; omega

theorem padUnits_mod (name : List Nat) : (padUnits name).length % 13 = 0 := by
  unfold padUnits
  split
  · assumption
  · simp; omega

theorem padUnits_eq (name : List Nat) :
    padUnits name = name ∨ ∃ k, padUnits name = name ++ [0] ++ List.replicate k 65535 := by
  unfold padUnits
  split
  · left; rfl
  · right; exact ⟨_, rfl⟩

/-! ## decode ∘ make = id -/

theorem dropWhile_replicate_append (k : Nat) (l : List Nat) (h : ∀ x, l.head? = some x → x ≠ 65535) :
    (List.replicate k 65535 ++ l).dropWhile (· == 65535) = l := by
  induction k with
  | zero =>
    cases l with
    | nil => rfl
    | cons a t =>
      have := h a rfl
      simp [List.dropWhile, this]
  | succ k ih => simp [List.replicate_succ, List.dropWhile, ih]

/-- stripping the padding of a padded name gives the name back, provided the name
    itself contains neither NUL nor 0xFFFF (both illegal in file names) -/
theorem stripPad_padUnits (name : List Nat) (hne : name ≠ [])
    (hl : ∀ u ∈ name, u ≠ 0 ∧ u ≠ 65535) : stripPad (padUnits name) = name := by
  obtain ⟨l, hlast⟩ : ∃ l, name.getLast? = some l := by
    cases h : name.getLast? with
    | none => simp [List.getLast?_eq_none_iff] at h; exact absurd h hne
    | some l => exact ⟨l, rfl⟩
  have hlmem := List.mem_of_getLast? hlast
  have hrev : name.reverse.head? = some l := by simpa [List.head?_reverse] using hlast
  rcases padUnits_eq name with h | ⟨k, h⟩
  · rw [h]; unfold stripPad
    have h1 : name.reverse.dropWhile (· == 65535) = name.reverse := by
      have := dropWhile_replicate_append 0 name.reverse (fun x hx => by
        rw [hrev] at hx; simp at hx; subst hx; exact (hl l hlmem).2)
      simpa using this
    simp only [h1, List.reverse_reverse]
    cases hr : name.reverse with
    | nil => simp at hr; exact absurd hr hne
    | cons a t =>
      rw [hr] at hrev; simp at hrev; subst hrev
      have := (hl a hlmem).1
      split
      · rename_i r heq; simp at heq; exact absurd heq.1.symm (by omega)
      · rfl
  · rw [h]; unfold stripPad
    have h1 : (name ++ [0] ++ List.replicate k 65535).reverse.dropWhile (· == 65535) = 0 :: name.reverse := by
      simp only [List.reverse_append, List.reverse_replicate, List.reverse_cons, List.reverse_nil, List.nil_append,
        List.singleton_append]
      exact dropWhile_replicate_append k (0 :: name.reverse) (fun x hx => by simp at hx; omega)
    simp [h1]

theorem numberSlots_units (cks : Nat) : ∀ (i : Nat) (cs : List (List Nat)),
    (numberSlots cks i cs).flatMap (·.units) = cs.flatten := by
  intro i cs
  induction cs generalizing i with
  | nil => rfl
  | cons c rest ih =>
    cases rest with
    | nil => simp [numberSlots]
    | cons d rest' =>
      simp only [numberSlots, List.flatMap_cons, List.flatten_cons]
      rw [ih (i + 1)]; rfl

/-- **Long-name round trip** (all lengths, the 13-multiples without terminator
    included): decoding the slots `make_lfn_entry` builds gives the name back. -/
theorem decode_make (name : List Nat) (cks : Nat) (hne : name ≠ [])
    (hl : ∀ u ∈ name, u ≠ 0 ∧ u ≠ 65535) : decodeLfn (makeLfn name cks) = name := by
  unfold decodeLfn makeLfn
  simp only
  rw [numberSlots_units, chunks13_flatten _ _ (by omega)]
  exact stripPad_padUnits name hne hl

/-! ## shape of the slots `make_lfn_entry` builds -/

/-- ordinals are `i+1, i+2, …` and the last one carries the 0x40 flag -/
inductive Numbered : Nat → List LfnSlot → Prop where
  | last (i : Nat) (s : LfnSlot) : s.ord = 64 ||| (i + 1) → Numbered i [s]
  | cons (i : Nat) (s : LfnSlot) (rest : List LfnSlot) : s.ord = i + 1 → rest ≠ [] → Numbered (i + 1) rest →
      Numbered i (s :: rest)

theorem numberSlots_numbered (cks : Nat) : ∀ (cs : List (List Nat)) (i : Nat), cs ≠ [] →
    Numbered i (numberSlots cks i cs) := by
  intro cs
  induction cs with
  | nil => intro i h; exact absurd rfl h
  | cons c rest ih =>
    intro i _
    cases rest with
    | nil => exact Numbered.last i _ rfl
    | cons d rest' =>
      simp only [numberSlots]
      refine Numbered.cons i _ _ rfl ?_ (ih (i + 1) (by simp))
      cases rest' <;> simp [numberSlots]

theorem numberSlots_fields (cks : Nat) : ∀ (cs : List (List Nat)) (i : Nat),
    ∀ s ∈ numberSlots cks i cs, s.chksum = cks ∧ s.clusLo = 0 ∧ s.attr = 15 ∧ s.type = 0 ∧ s.units ∈ cs := by
  intro cs
  induction cs with
  | nil => intro i s hs; simp [numberSlots] at hs
  | cons c rest ih =>
    intro i s hs
    cases rest with
    | nil => simp [numberSlots] at hs; subst hs; simp
    | cons d rest' =>
      simp only [numberSlots, List.mem_cons] at hs
      rcases hs with rfl | hs
      · simp
      · have := ih (i + 1) s (by simpa [numberSlots] using hs)
        refine ⟨this.1, this.2.1, this.2.2.1, this.2.2.2.1, ?_⟩
        simp at this ⊢; right; exact this.2.2.2.2

theorem numberSlots_length (cks : Nat) : ∀ (cs : List (List Nat)) (i : Nat),
    (numberSlots cks i cs).length = cs.length := by
  intro cs
  induction cs with
  | nil => intro i; rfl
  | cons c rest ih =>
    intro i
    cases rest with
    | nil => rfl
    | cons d rest' => simp only [numberSlots, List.length_cons]; rw [ih (i + 1)]; rfl

theorem or64' : ∀ k, k < 64 → 64 ||| k = 64 + k := by decide
theorem and64' : ∀ k, k < 64 → (64 + k) &&& 64 = 64 := by decide
theorem or64 (k : Nat) (h : k < 64) : 64 ||| k = 64 + k := or64' k h

/-- ordinals of a numbered set that fits below 64 slots: bounds, and the flag only on the last -/
theorem numbered_ords {i : Nat} {ls : List LfnSlot} (h : Numbered i ls) (hb : i + ls.length < 64) :
    (∀ s ∈ ls, i < s.ord) ∧ (ls.map (·.ord)).Pairwise (· < ·) ∧ complete ls = true := by
  induction h with
  | last i s ho =>
    simp at hb
    rw [or64 _ (by omega)] at ho
    refine ⟨by intro t ht; simp at ht; subst ht; omega, by simp, ?_⟩
    simp only [complete, List.any_cons, List.any_nil, Bool.or_false, beq_iff_eq, ho]
    exact and64' (i + 1) (by omega)
  | cons i s rest ho hne hr ih =>
    simp at hb
    obtain ⟨ih1, ih2, ih3⟩ := ih (by omega)
    refine ⟨?_, ?_, ?_⟩
    · intro t ht; simp at ht
      rcases ht with rfl | ht
      · omega
      · have := ih1 t ht; omega
    · simp only [List.map_cons, List.pairwise_cons]
      refine ⟨?_, ih2⟩
      intro o ho'
      simp at ho'
      obtain ⟨t, ht, rfl⟩ := ho'
      have := ih1 t ht; omega
    · simp only [complete, List.any_cons] at ih3 ⊢
      simp [ih3]

/-- a list already sorted by ordinal is a fixed point of `ordered` -/
theorem ordered_of_sorted : ∀ (ls : List LfnSlot), (ls.map (·.ord)).Pairwise (· < ·) → ordered ls = ls := by
  intro ls
  induction ls with
  | nil => intro _; rfl
  | cons s rest ih =>
    intro h
    simp only [List.map_cons, List.pairwise_cons] at h
    simp only [ordered, ih h.2]
    cases rest with
    | nil => rfl
    | cons t rest' =>
      have : s.ord < t.ord := h.1 t.ord (by simp)
      simp [insertByOrd]; omega

/-! ## scan ∘ serialise = id -/

/-- pushing a run of long-name slots (disk order) onto the pending stack -/
theorem scan_run (cks : List Nat → Nat) : ∀ (q : List LfnSlot) (pre : Pending) (rest : List Slot),
    (∀ s ∈ q, s.clusLo = 0) → ((q.reverse ++ pre).map (·.ord)).Nodup →
    scan cks pre (q.map Slot.lfn ++ rest) = scan cks (q.reverse ++ pre) rest := by
  intro q
  induction q with
  | nil => intro pre rest _ _; rfl
  | cons s q' ih =>
    intro pre rest hc hnd
    have hs : s.clusLo = 0 := hc s (by simp)
    have hnd' : ((q'.reverse ++ (s :: pre)).map (·.ord)).Nodup := by
      simpa [List.reverse_cons, List.append_assoc] using hnd
    have hnot : pre.any (fun t => t.ord == s.ord) = false := by
      rw [List.any_eq_false]
      intro t ht
      simp only [List.map_append, List.map_reverse, List.map_cons] at hnd'
      rw [List.nodup_append] at hnd'
      have := (List.nodup_cons.mp hnd'.2.1).1
      simp only [beq_iff_eq]
      intro heq
      exact this (List.mem_map.mpr ⟨t, ht, heq⟩)
    simp only [List.map_cons, List.cons_append, scan, hs, ne_eq, not_true_eq_false, if_false, hnot]
    rw [ih (s :: pre) rest (fun t ht => hc t (by simp [ht])) hnd']
    simp [List.reverse_cons, List.append_assoc]

/-- what the writer guarantees about an in-memory entry -/
def WellFormed (cks : List Nat → Nat) (e : Ent) : Prop :=
  match e.lfn with
  | none => True
  | some ls =>
    (∀ s ∈ ls, s.clusLo = 0 ∧ s.chksum = cks e.short.name) ∧
    (ls.map (·.ord)).Pairwise (· < ·) ∧ complete ls = true

theorem scan_serEnt (cks : List Nat → Nat) (e : Ent) (rest : List Slot) (hw : WellFormed cks e) :
    scan cks [] (serEnt e ++ rest) = (scan cks [] rest).map (e :: ·) := by
  unfold serEnt
  cases hl : e.lfn with
  | none =>
    simp only [List.cons_append, List.nil_append, scan, complete, List.any_nil, Bool.false_and]
    cases scan cks [] rest <;> simp [Except.map, hl]
    all_goals (cases e; simp_all)
  | some ls =>
    unfold WellFormed at hw
    rw [hl] at hw
    obtain ⟨hf, hsorted, hcomp⟩ := hw
    have hnd : ((ls.reverse.reverse ++ []).map (fun (s : LfnSlot) => s.ord)).Nodup := by
      simp only [List.reverse_reverse, List.append_nil]
      exact List.Pairwise.imp (fun {a b} (h : a < b) => Nat.ne_of_lt h) hsorted
    simp only [List.append_assoc]
    rw [scan_run cks ls.reverse [] _ (fun s hs => (hf s (by simpa using hs)).1) hnd]
    simp only [List.reverse_reverse, List.append_nil, List.cons_append, List.nil_append, scan, hcomp, Bool.true_and]
    have hall : ls.all (fun s => s.chksum == cks e.short.name) = true := by
      rw [List.all_eq_true]; intro s hs; simp [(hf s hs).2]
    rw [hall, ordered_of_sorted ls hsorted]
    cases scan cks [] rest <;> simp [Except.map]
    cases e; simp_all

/-- **Directory round trip**: scanning the serialisation of any list of
    well-formed entries — followed by nothing, or by an end mark and arbitrary
    junk — returns exactly those entries, in order. -/
theorem scan_serDir (cks : List Nat → Nat) (es : List Ent) (junk : List Slot)
    (hw : ∀ e ∈ es, WellFormed cks e) :
    scan cks [] (serDir es ++ Slot.endMark :: junk) = .ok es ∧ scan cks [] (serDir es) = .ok es := by
  induction es with
  | nil => simp [serDir, scan]
  | cons e rest ih =>
    obtain ⟨ih1, ih2⟩ := ih (fun x hx => hw x (by simp [hx]))
    have he := hw e (by simp)
    simp only [serDir, List.flatMap_cons] at ih1 ih2 ⊢
    constructor
    · rw [List.append_assoc, scan_serEnt cks e _ he, ih1]; rfl
    · rw [scan_serEnt cks e _ he, ih2]; rfl

/-- the sets `make_lfn_entry` builds are well-formed for names of 1‥255 units -/
theorem makeLfn_wellformed (cks : List Nat → Nat) (short : ShortEnt) (name : List Nat)
    (hne : name ≠ []) (hlen : name.length ≤ 255) :
    WellFormed cks { short := short, lfn := some (makeLfn name (cks short.name)) } := by
  unfold WellFormed makeLfn
  simp only
  have hmod := padUnits_mod name
  have hplen : (padUnits name).length ≤ 273 := by
    rcases padUnits_eq name with h | ⟨k, h⟩
    · rw [h]; omega
    · have := hmod; rw [h] at this ⊢; simp at this ⊢
      unfold padUnits at h
      split at h
      · simp at h
      · simp at h; omega
  have hpne : padUnits name ≠ [] := by
    rcases padUnits_eq name with h | ⟨k, h⟩ <;> rw [h] <;> simp [hne]
  have hclen := chunks13_length (padUnits name).length (padUnits name) hmod (by omega)
  have hcne : chunks13 (padUnits name).length (padUnits name) ≠ [] := by
    intro h; rw [h] at hclen; simp at hclen
    have : (padUnits name).length ≠ 0 := by simpa using hpne
    omega
  have hnum := numberSlots_numbered (cks short.name) _ 0 hcne
  have hb : 0 + (numberSlots (cks short.name) 0 (chunks13 (padUnits name).length (padUnits name))).length < 64 := by
    rw [numberSlots_length, hclen]; omega
  obtain ⟨_, h2, h3⟩ := numbered_ords hnum hb
  refine ⟨?_, h2, h3⟩
  intro s hs
  have := numberSlots_fields (cks short.name) _ 0 s hs
  exact ⟨this.2.1, this.1⟩

/-- slot count of a long name: `⌈(len+1)/13⌉`, except `len/13` when `len` is a multiple of 13 -/
theorem makeLfn_length (name : List Nat) (cks : Nat) :
    (makeLfn name cks).length = if name.length % 13 = 0 then name.length / 13 else name.length / 13 + 1 := by
  unfold makeLfn
  simp only
  rw [numberSlots_length, chunks13_length _ _ (padUnits_mod name) (by omega)]
  unfold padUnits
  split
  · rfl
  · simp; omega

end Proofs.Dir
