/-
`removetree` against the abstract "delete a subtree" specification — the frame half.

`Model.Fs.removetree` is the run of primitive removals `PyFatFS.removetree` makes.  Here: every one of those
calls names a path *below* the argument, a removal of the reference filesystem deletes nothing but the path it
names, hence — in every state with the invariant, whatever the shape of the tree, whether or not a call inside
fails — the entries outside the subtree are exactly those before the call, in the same order, with the same
kinds and sizes, and nothing is ever added.
-/
import PyFatModel.Proofs.FsRun

namespace Proofs.FsTreeRm
open Model.Fs Proofs.FsRun Proofs.FsInv Proofs.FsRefine

/-- the path a call names -/
def target : Op → List Nat
  | .create p _ _ => p
  | .makedir p _ => p
  | .remove p => p
  | .removedir p => p
  | .fwrite p _ _ => p
  | .ftrunc p _ => p

/-- a removal of something at or below `path` -/
def Under (path : List Nat) (op : Op) : Prop := Removal op ∧ path <+: target op

/-- not at or below `path` -/
def outside (path : List Nat) (e : SEnt) : Bool := !(path.isPrefixOf e.path)

theorem expandTree_under : ∀ (fuel : Nat) (nodes : List Node) (path : List Nat) (loc : Loc),
    ∀ op ∈ expandTree fuel nodes path loc, Under path op := by
  intro fuel
  induction fuel with
  | zero => intro nodes path loc op h; simp [expandTree] at h
  | succ f ih =>
    intro nodes path loc op h
    simp only [expandTree, List.mem_append, List.mem_map, List.mem_flatMap] at h
    rcases h with (⟨x, _, rfl⟩ | ⟨d, _, hd⟩) | h
    · exact ⟨trivial, List.prefix_append _ _⟩
    · have := ih nodes _ _ op hd
      exact ⟨this.1, (List.prefix_append path [d.key]).trans this.2⟩
    · cases loc with
      | root => simp at h
      | node n => simp at h; subst h; exact ⟨trivial, List.prefix_refl _⟩

/-- a removal of the reference filesystem either fails (nothing changes) or deletes exactly the named path -/
theorem specStep_removal (t : Spec) (op : Op) (h : Removal op) :
    (specStep t op).1 = t ∨ (specStep t op).1 = t.del (target op) := by
  cases op with
  | remove p =>
    simp only [specStep, target]
    split
    · exact .inl rfl
    · split
      · exact .inl rfl
      · split
        · exact .inl rfl
        · exact .inr rfl
  | removedir p =>
    simp only [specStep, target]
    split
    · exact .inl rfl
    · split
      · exact .inl rfl
      · split
        · exact .inl rfl
        · split
          · exact .inl rfl
          · exact .inr rfl
  | create _ _ _ => exact absurd h (by simp [Removal])
  | makedir _ _ => exact absurd h (by simp [Removal])
  | fwrite _ _ _ => exact absurd h (by simp [Removal])
  | ftrunc _ _ => exact absurd h (by simp [Removal])

theorem del_outside (t : Spec) (path p : List Nat) (hp : path <+: p) :
    (t.del p).filter (outside path) = t.filter (outside path) := by
  unfold Spec.del
  rw [List.filter_filter]
  apply List.filter_congr
  intro e _
  by_cases ho : outside path e = true
  · have : (e.path != p) = true := by
      simp only [bne_iff_ne, ne_eq]
      intro he
      have hpre : path.isPrefixOf e.path = true := by rw [he]; exact List.isPrefixOf_iff_prefix.mpr hp
      simp [outside, hpre] at ho
    simp [ho, this]
  · simp only [Bool.not_eq_true] at ho
    simp [ho]

theorem del_sublist (t : Spec) (p : List Nat) : (t.del p).Sublist t := List.filter_sublist

/-- a run of removals at or below `path`, along any history of the implementation: outside the subtree the
    reference filesystem keeps every entry, and it never gains one -/
theorem specRun_frame (v : Vol) (path : List Nat) : ∀ (ops : List Op) (s : St) (t : Spec),
    (∀ op ∈ ops, Under path op) →
      (specRun v s t ops).filter (outside path) = t.filter (outside path) ∧ (specRun v s t ops).Sublist t := by
  intro ops
  induction ops with
  | nil => intro s t _; exact ⟨rfl, List.Sublist.refl _⟩
  | cons op rest ih =>
    intro s t h
    have hu := h op (by simp)
    have hrest := ih (step v s op).1 (specFollow t op (step v s op).2) (fun o ho => h o (by simp [ho]))
    simp only [specRun]
    have hf : specFollow t op (step v s op).2 = t ∨ specFollow t op (step v s op).2 = t.del (target op) := by
      unfold specFollow
      split
      · exact .inl rfl
      · exact specStep_removal t op hu.1
    rcases hf with hf | hf
    · rw [hf] at hrest ⊢; exact hrest
    · rw [hf] at hrest ⊢
      exact ⟨hrest.1.trans (del_outside t path _ hu.2), hrest.2.trans (del_sublist t _)⟩

/-- **`removetree(path)` touches nothing outside the subtree of `path`**: in every state with the invariant —
    any tree, any FAT width, whether the call succeeds, fails at once or fails half-way — the entries that are
    not at or below `path` are the ones before the call (same order, kinds, sizes), and the call adds none -/
theorem removetree_frame {v : Vol} {count : Nat} (hv : VolOK v count) {s : St} (h : Inv v count s)
    (path : List Nat) :
    (abs (removetree v s path).1).filter (outside path) = (abs s).filter (outside path) ∧
      (abs (removetree v s path).1).Sublist (abs s) := by
  unfold removetree
  split
  · exact ⟨rfl, List.Sublist.refl _⟩
  · split
    · exact ⟨rfl, List.Sublist.refl _⟩
    · rw [run_sim hv _ s h (domAll_removals v _ s (expandTree_removals _ _ _ _))]
      exact specRun_frame v path _ s (abs s) (expandTree_under _ _ _ _)

/-! ## the other half: after a successful call nothing at or below `path` is left -/

/-- every entry's parent directory is an entry too (or the root) -/
def Closed (t : Spec) : Prop :=
  ∀ e ∈ t, e.path ≠ [] ∧ (e.path.dropLast = [] ∨ ∃ d ∈ t, d.path = e.path.dropLast)

theorem closed_abs {s : St} (h : Proofs.FsTree.TreeInv s.nodes) : Closed (abs s) := by
  intro e he
  simp only [abs, List.mem_map] at he
  obtain ⟨n, hn, rfl⟩ := he
  rcases h.link n hn with ⟨_, hp⟩ | ⟨d, hd, _, _, hp⟩
  · simp [hp]
  · refine ⟨by simp [hp], .inr ⟨⟨d.path, d.isDir, d.size⟩, ?_, by simp [hp]⟩⟩
    simp only [abs, List.mem_map]
    exact ⟨d, hd, rfl⟩

/-- in a parent-closed tree a directory without children has no descendants -/
theorem no_descendants (t : Spec) (hc : Closed t) (p : List Nat) (hn : t.hasChildren p = false) :
    ∀ (k : Nat) (e : SEnt), e ∈ t → ∀ q : List Nat, e.path = p ++ q → q.length = k + 1 → False := by
  intro k
  induction k with
  | zero =>
    intro e he q hq hl
    match q, hl with
    | [a], _ =>
      simp only [Spec.hasChildren, List.any_eq_false] at hn
      have := hn e he
      simp [hq] at this
  | succ k ih =>
    intro e he q hq hl
    have hqne : q ≠ [] := by intro h0; simp [h0] at hl
    have hdl : e.path.dropLast = p ++ q.dropLast := by rw [hq, List.dropLast_append_of_ne_nil hqne]
    have hql : q.dropLast.length = k + 1 := by simp [hl]
    rcases (hc e he).2 with h0 | ⟨d, hd, hdp⟩
    · rw [hdl] at h0
      have : q.dropLast = [] := (List.append_eq_nil_iff.mp h0).2
      simp [this] at hql
    · exact ih d hd q.dropLast (hdp.trans hdl) hql

/-- what a successful `removedir` of the reference filesystem means -/
theorem specStep_removedir_ok (t : Spec) (p : List Nat) (h : (specStep t (.removedir p)).2 = .ok true) :
    t.hasChildren p = false ∧ (specStep t (.removedir p)).1 = t.del p := by
  simp only [specStep] at h ⊢
  split at h
  · simp at h
  · split at h
    · simp at h
    · split at h
      · simp at h
      · split at h
        · simp at h
        · rename_i hch
          rename_i hp _ _ heq _
          simp only [hp, ↓reduceIte]
          simp_all

/-- **`removetree(path)` deletes the whole subtree**: when the last call it makes — `removedir(path)` on what is
    left of the directory — succeeds, no entry at or below `path` remains.  (With `removetree_frame`: the tree
    afterwards is the tree before minus the subtree of `path`.) -/
theorem removetree_complete {v : Vol} {count : Nat} (hv : VolOK v count) {s : St} (h : Inv v count s)
    (path : List Nat) (d : Node) (hr : resolve s.nodes path = some (.node d)) (hd : d.isDir = true)
    (hok : (step v (run v s (expandTree (s.nodes.length + 1) s.nodes path (.node d)).dropLast)
      (.removedir path)).2 = .ok true) :
    ∀ e ∈ abs (removetree v s path).1, outside path e = true := by
  have hexp : ∃ front, expandTree (s.nodes.length + 1) s.nodes path (.node d) = front ++ [Op.removedir path] :=
    ⟨_, rfl⟩
  obtain ⟨front, hfront⟩ := hexp
  rw [hfront, List.dropLast_concat] at hok
  have hrt : (removetree v s path).1 = (step v (run v s front) (.removedir path)).1 := by
    unfold removetree
    simp only [hr, Loc.isDir, hd, Bool.not_true, Bool.false_eq_true, ↓reduceIte, hfront]
    simp [run, List.foldl_append]
  have h1 : Inv v count (run v s front) := run_inv hv _ s h
  have hsim := step_sim hv h1 (.removedir path) (by simp [InDomain])
  have hns : ¬ Soft (step v (run v s front) (.removedir path)).2 := by rw [hok]; simp [Soft]
  have hres := hsim.2 hns
  rw [hok] at hres
  have hspec := specStep_removedir_ok _ _ hres.symm
  have habs : abs (removetree v s path).1 = (abs (run v s front)).del path := by
    rw [hrt, hsim.1]; unfold specFollow; rw [if_neg hns]; exact hspec.2
  intro e he
  rw [habs] at he
  simp only [Spec.del, List.mem_filter, bne_iff_ne, ne_eq] at he
  by_cases ho : outside path e = true
  · exact ho
  exfalso
  have hpre : path <+: e.path := List.isPrefixOf_iff_prefix.mp (by simpa [outside] using ho)
  obtain ⟨q, hq⟩ := hpre
  have hqne : q ≠ [] := by intro h0; apply he.2; simp [← hq, h0]
  have hlen : q.length = (q.length - 1) + 1 := by
    have := List.length_pos_iff.mpr hqne; omega
  exact no_descendants _ (closed_abs h1.tree) path hspec.1 _ e he.1 q hq.symm hlen

end Proofs.FsTreeRm
