/-
Bridge: the cursor model `Model.FatIO.seekCursor` (used by every C02 theorem and by
`Model.Fs.writeChain`) is what the *translated* body of `FatIO.seek` computes —
the clamp to the file size, cluster index and in-cluster offset, and the
end-of-cluster adjustment, taken from the source on every run (`Gen.Arith.seek_*`).
-/
import PyFatModel.Gen.Arith
import PyFatModel.Model.FatIO

namespace Proofs.SeekBridge
open Model.FatIO

theorem fdiv_nat (a b : Nat) : Py.fdiv (a : Int) (b : Int) = ((a / b : Nat) : Int) := by
  unfold Py.fdiv
  rw [Int.fdiv_eq_ediv_of_nonneg _ (Int.natCast_nonneg b)]
  exact (Int.natCast_ediv a b).symm

theorem fmod_nat (a b : Nat) : Py.fmod (a : Int) (b : Int) = ((a % b : Nat) : Int) := by
  unfold Py.fmod
  rw [Int.fmod_eq_emod_of_nonneg _ (Int.natCast_nonneg b)]
  exact (Int.ofNat_mod_ofNat a b)

theorem pmin_nat (a b : Nat) : Py.pmin (a : Int) (b : Int) = ((min a b : Nat) : Int) := by
  unfold Py.pmin
  split
  · rename_i h
    have : a ≤ b := by exact_mod_cast h
    rw [Nat.min_eq_left this]
  · rename_i h
    have : ¬ a ≤ b := by intro h'; exact h (by exact_mod_cast h')
    rw [Nat.min_eq_right (by omega)]

/-- the three cursor fields of the model are the values the translated `seek` assigns, for every
    cluster size, file size and (non-negative) target -/
theorem seekCursor_is_source (bpc size off : Nat) (junk : Int) :
    ((seekCursor bpc size off).bpos : Int) = Gen.Arith.seek_bpos (offset := off) (filesize := size) ∧
    ((seekCursor bpc size off).coffpos : Int) =
      Gen.Arith.seek_coffpos (offset := off) (filesize := size) (bytes_per_cluster := bpc) ∧
    ((seekCursor bpc size off).cindex : Int) =
      Gen.Arith.seek_cindex (offset := off) (filesize := size) (cindex := junk) (bytes_per_cluster := bpc) := by
  unfold Gen.Arith.seek_bpos Gen.Arith.seek_coffpos Gen.Arith.seek_cindex seekCursor
  simp only [pmin_nat, fdiv_nat, fmod_nat]
  generalize min off size = m
  have e1 : ((m : Int) = (size : Int)) ↔ (m = size) := by
    constructor
    · intro h; exact_mod_cast h
    · intro h; rw [h]
  have e2 : ((m : Int) > 0) ↔ (m > 0) := by
    constructor
    · intro h; exact_mod_cast h
    · intro h; exact_mod_cast h
  have e3 : (((m % bpc : Nat) : Int) = 0) ↔ (m % bpc = 0) := by
    constructor
    · intro h; exact_mod_cast h
    · intro h; rw [h]; rfl
  by_cases hc : m = size ∧ m > 0 ∧ m % bpc = 0
  · have hb : (decide ((m : Int) = (size : Int)) && decide ((m : Int) > 0) && decide (((m % bpc : Nat) : Int) = 0)) = true := by
      simp only [Bool.and_eq_true, decide_eq_true_eq]
      exact ⟨⟨e1.mpr hc.1, e2.mpr hc.2.1⟩, e3.mpr hc.2.2⟩
    rw [if_pos hc, hb]
    simp only [↓reduceIte]
    refine ⟨trivial, trivial, ?_⟩
    have hq : 1 ≤ m / bpc := by
      rcases Nat.eq_zero_or_pos bpc with h0 | hbpos
      · rw [h0] at hc; simp at hc; omega
      · have hdm := Nat.div_add_mod m bpc
        rcases Nat.eq_zero_or_pos (m / bpc) with h0 | h0
        · rw [h0, hc.2.2] at hdm; omega
        · exact h0
    omega
  · have hb : (decide ((m : Int) = (size : Int)) && decide ((m : Int) > 0) && decide (((m % bpc : Nat) : Int) = 0)) = false := by
      rw [Bool.eq_false_iff]
      intro h
      simp only [Bool.and_eq_true, decide_eq_true_eq] at h
      exact hc ⟨e1.mp h.1.1, e2.mp h.1.2, e3.mp h.2⟩
    rw [if_neg hc, hb]
    simp only [Bool.false_eq_true, ↓reduceIte]
    exact ⟨trivial, trivial, trivial⟩

end Proofs.SeekBridge
