import PyFatModel.Model.FatMachine
import PyFatModel.Proofs.FatRep

open Model.Alloc Model.FatMachine Proofs.FatRep Proofs.Alloc

namespace Proofs.FatMachine

theorem pick_perm {α : Type} : ∀ (k : Nat) (l : List α) (x : α) (rest : List α),
    pick k l = some (x, rest) → List.Perm l (x :: rest) := by
  intro k l
  induction l generalizing k with
  | nil => intro x rest h; simp [pick] at h
  | cons a t ih =>
    intro x rest h
    cases k with
    | zero => simp [pick] at h; obtain ⟨rfl, rfl⟩ := h; exact List.Perm.refl _
    | succ k =>
      simp only [pick, Option.map_eq_some_iff] at h
      obtain ⟨⟨y, ys⟩, hp, heq⟩ := h
      simp only [Prod.mk.injEq] at heq
      obtain ⟨rfl, rfl⟩ := heq
      have := ih k y ys hp
      exact (List.Perm.cons a this).trans (List.Perm.swap y a ys)

/-- the invariant does not depend on the order in which chains are listed -/
theorem fatRep_perm {p : Params} {count : Nat} {fat : List Nat} {c1 c2 : List (List Nat)}
    (h : List.Perm c1 c2) (inv : FatRep p count fat c1) : FatRep p count fat c2 := by
  have hf : List.Perm c1.flatten c2.flatten := List.Perm.flatten h
  refine ⟨inv.len, fun cs hcs => inv.chain cs (h.mem_iff.mpr hcs),
    fun cs hcs => inv.inData cs (h.mem_iff.mpr hcs), hf.nodup_iff.mp inv.disjoint, ?_⟩
  intro c h2 hc hnot
  exact inv.rest c h2 hc (fun hm => hnot (hf.mem_iff.mp hm))

theorem getLast?_isSome_of_ne {l : List Nat} (h : l ≠ []) : ∃ x, l.getLast? = some x := by
  cases hl : l.getLast? with
  | none => simp [List.getLast?_eq_none_iff] at hl; exact absurd hl h
  | some x => exact ⟨x, rfl⟩

/-- **One step of the FAT machine preserves the invariant.** -/
theorem step_preserves {p : Params} (hp : ParamsOK p) {count bound : Nat} (hb : bound ≤ count + 2)
    (s s' : St) (op : Op) (inv : FatRep p count s.fat s.chains) (h : step p bound s op = some s') :
    FatRep p count s'.fat s'.chains := by
  cases op with
  | allocNew n =>
    simp only [step] at h
    split at h
    · simp at h
    · rename_i hn
      simp only [Option.map_eq_some_iff] at h
      obtain ⟨r, hr, rfl⟩ := h
      exact (allocate_preserves hp inv s.hint bound n hb (by omega) r hr).1
  | extend k n =>
    simp only [step] at h
    split at h
    · simp at h
    · rename_i hn
      split at h
      · simp at h
      · rename_i c rest hpick
        have hperm := pick_perm k s.chains c rest hpick
        have inv1 := fatRep_perm hperm inv
        split at h
        · rename_i l r hl hr
          split at h
          · rename_i hd hhd
            simp only [Option.some.injEq] at h
            subst h
            obtain ⟨inv2, hlen⟩ := allocate_preserves hp inv1 s.hint bound n hb (by omega) r hr
            -- the fresh clusters are data-range cluster numbers (from the scan)
            have hmem : hd ∈ r.clusters := List.mem_of_mem_head? hhd
            have hdata : p.cv.minData ≤ hd ∧ hd ≤ p.cv.maxData := by
              unfold allocate at hr
              split at hr
              · simp at hr
              · rename_i cs j hscan
                simp only [Option.some.injEq] at hr
                subst hr
                exact (scan_spec0 p s.fat n s.hint bound cs j hscan).1.data hd hmem
            exact join_preserves hp inv2 l hd hl hhd hdata
          · simp at h
        · simp at h
  | freeChain k =>
    simp only [step] at h
    split at h
    · simp at h
    · rename_i c rest hpick
      simp only [Option.some.injEq] at h
      subst h
      exact free_preserves hp (fatRep_perm (pick_perm k s.chains c rest hpick) inv)
  | truncate k keep =>
    simp only [step] at h
    split at h
    · simp at h
    · rename_i c rest hpick
      have inv1 := fatRep_perm (pick_perm k s.chains c rest hpick) inv
      split at h
      · simp at h
      · split at h
        · rename_i l hl
          simp only [Option.some.injEq] at h
          subst h
          have : FatRep p count s.fat ((c.take keep ++ c.drop keep) :: rest) := by
            rw [List.take_append_drop]; exact inv1
          exact split_preserves hp this l hl
        · simp at h

/-- **C04 core, every reachable state**: from any state satisfying the invariant,
    after any finite sequence of FAT operations (failed ones included) the table
    still represents disjoint, well-formed, in-range chains and nothing else. -/
theorem run_preserves {p : Params} (hp : ParamsOK p) {count bound : Nat} (hb : bound ≤ count + 2)
    (ops : List Op) : ∀ (s : St), FatRep p count s.fat s.chains →
      FatRep p count (run p bound s ops).fat (run p bound s ops).chains := by
  induction ops with
  | nil => intro s h; exact h
  | cons op rest ih =>
    intro s h
    simp only [run, List.foldl_cons]
    apply ih
    unfold stepOrStay
    cases hs : step p bound s op with
    | none => simpa using h
    | some s' => simpa using step_preserves hp hb s s' op h hs

end Proofs.FatMachine
