/-
Soundness of the executable hypothesis check: a state that passes
`Model.Fs.checkCore` satisfies the invariant `Inv` and has well-shaped files —
so every theorem about reachable states applies to every run that starts from a
state the checker accepted (any image: empty or pre-populated, made by pyfatfs'
mkfs or by the independent formatter).
-/
import PyFatModel.Model.FsCheck
import PyFatModel.Proofs.FsRun

namespace Proofs.FsCheck
open Model.Fs Model.Alloc Proofs.FatRep Proofs.Alloc Proofs.FsTree Proofs.FsFat Proofs.FsInv Proofs.FsShape Proofs.FsHint

theorem nodupN_sound : ∀ l : List Nat, nodupN l = true → l.Nodup := by
  intro l
  induction l with
  | nil => intro _; exact List.nodup_nil
  | cons x xs ih =>
    intro h
    simp only [nodupN, Bool.and_eq_true, Bool.not_eq_true', List.contains_eq_mem, decide_eq_false_iff_not] at h
    exact List.nodup_cons.mpr ⟨h.1, ih h.2⟩

theorem nodupB_sound : ∀ l : List (List Nat), nodupB l = true → l.Nodup := by
  intro l
  induction l with
  | nil => intro _; exact List.nodup_nil
  | cons x xs ih =>
    intro h
    simp only [nodupB, Bool.and_eq_true, Bool.not_eq_true', List.contains_eq_mem, decide_eq_false_iff_not] at h
    exact List.nodup_cons.mpr ⟨h.1, ih h.2⟩

theorem nodup_of_mem_flatten : ∀ (L : List (List Nat)), L.flatten.Nodup → ∀ l ∈ L, l.Nodup := by
  intro L
  induction L with
  | nil => intro _ l hl; simp at hl
  | cons x xs ih =>
    intro h l hl
    simp only [List.flatten_cons] at h
    rw [List.nodup_append] at h
    simp only [List.mem_cons] at hl
    rcases hl with rfl | hl
    · exact h.1
    · exact ih h.2.1 l hl

theorem classify_data_range {p : Params} {v : Nat} (h : classify p v = .data) : p.cv.minData ≤ v ∧ v ≤ p.cv.maxData := by
  unfold classify at h
  split at h
  · assumption
  · split at h
    · cases h
    · split at h
      · cases h
      · split at h
        · cases h
        · split at h <;> cases h

theorem classify_eoc_end {p : Params} {v : Nat} (h : classify p v = .eoc) : isEnd p v := by
  unfold classify at h
  split at h
  · cases h
  · split at h
    · rename_i h12; exact Or.inl h12
    · split at h
      · rename_i he; exact Or.inr he
      · split at h
        · cases h
        · split at h <;> cases h

/-- what an `.ok` walk of the follower visited -/
theorem follow_ok (p : Params) (fat : List Nat) : ∀ (fuel steps i : Nat) (acc r : List Nat),
    follow p fat fuel steps i acc = .ok r →
    ∃ tail, r = acc ++ tail ∧ tail.head? = some i ∧ (∀ c ∈ tail, c < fat.length) ∧
      (∀ ab ∈ pairs tail, fat.getD ab.1 0 = ab.2 ∧ p.cv.minData ≤ ab.2 ∧ ab.2 ≤ p.cv.maxData) ∧
      (∀ l, tail.getLast? = some l → isEnd p (fat.getD l 0)) := by
  intro fuel
  induction fuel with
  | zero => intro steps i acc r h; simp [follow] at h
  | succ fuel ih =>
    intro steps i acc r h
    rw [follow] at h
    split at h
    · cases h
    · rename_i hlen
      split at h
      · cases h
      · split at h
        · -- data: continue at the next cluster
          rename_i hcl
          obtain ⟨tail, hr, hhead, hlt, hnext, hlast⟩ := ih (steps + 1) (fat.getD i 0) (acc ++ [i]) r h
          refine ⟨i :: tail, by rw [hr]; simp, rfl, ?_, ?_, ?_⟩
          · intro c hc
            simp only [List.mem_cons] at hc
            rcases hc with rfl | hc
            · omega
            · exact hlt c hc
          · cases tail with
            | nil => simp at hhead
            | cons t ts =>
              simp only [List.head?_cons, Option.some.injEq] at hhead
              intro ab hab
              simp only [pairs, List.mem_cons] at hab
              rcases hab with rfl | hab
              · simp only
                rw [hhead]
                exact ⟨rfl, classify_data_range hcl⟩
              · exact hnext ab hab
          · intro l hl
            cases tail with
            | nil => simp at hhead
            | cons t ts =>
              rw [List.getLast?_cons_cons] at hl
              exact hlast l hl
        · rename_i hcl
          simp only [Walk.ok.injEq] at h
          refine ⟨[i], h.symm, rfl, ?_, by simp [pairs], ?_⟩
          · intro c hc; simp at hc; subst hc; omega
          · intro l hl; simp at hl; subst hl; exact classify_eoc_end hcl
        · cases h
        · cases h
        · cases h

theorem chainOf_ok_isChain {p : Params} {fat c : List Nat} (hne : c ≠ []) (hnd : c.Nodup)
    (h : chainOf p fat (c.headD 0) = .ok c) : IsChain p fat c := by
  unfold chainOf at h
  obtain ⟨tail, hr, _, hlt, hnext, hlast⟩ := follow_ok p fat _ _ _ _ _ h
  simp only [List.nil_append] at hr
  subst hr
  exact ⟨hne, hnd, hlt, hnext, hlast⟩

theorem ownedB_eq (s : St) : ownedB s = own s.rootChain s.nodes := rfl

theorem allocatableB_eq (v : Vol) (fat : List Nat) (i : Nat) : allocatableB v fat i = allocatable v.p fat i := rfl

/-- **the checker is sound** -/
theorem checkCore_sound (v : Vol) (count : Nat) (s : St) (hp : ParamsOK v.p) (h : checkCore v count s = true) :
    VolOK v count ∧ Inv v count s ∧ ShapeNodes v.bpc s.nodes := by
  simp only [checkCore, Bool.and_eq_true] at h
  obtain ⟨⟨⟨⟨⟨⟨⟨⟨⟨⟨⟨⟨⟨⟨⟨hvol, hlink⟩, hpaths⟩, hdc⟩, hdid⟩, hlen⟩, hchain⟩, hin⟩, hdis⟩, hrest⟩, hhint⟩, hroot⟩, hdirs⟩, hfr⟩, hfd⟩, hshape⟩ := h
  simp only [ckVol, Bool.and_eq_true, decide_eq_true_eq] at hvol
  have hflatnd : (own s.rootChain s.nodes).flatten.Nodup := by
    rw [← ownedB_eq]; exact nodupN_sound _ hdis
  have htree : TreeInv s.nodes := by
    refine ⟨?_, nodupB_sound _ hpaths, ?_, ?_⟩
    · intro n hn
      simp only [ckLink, List.all_eq_true] at hlink
      have := hlink n hn
      simp only [Bool.or_eq_true, Bool.and_eq_true, beq_iff_eq, List.any_eq_true] at this
      rcases this with ⟨h0, h1⟩ | ⟨d, hd, ⟨hdd, hdc'⟩, hdp⟩
      · exact Or.inl ⟨h0, h1⟩
      · exact Or.inr ⟨d, hd, hdd, hdc', hdp⟩
    · intro d hd hdd
      simp only [ckDirClus, List.all_eq_true] at hdc
      have := hdc d hd
      simp only [hdd, Bool.not_true, Bool.false_or, bne_iff_ne, ne_eq] at this
      exact this
    · intro d hd d' hd' hdd hdd' hc
      have hnd := nodupN_sound _ hdid
      exact inj_of_nodup_map (·.clus) _ hnd d (List.mem_filter.mpr ⟨hd, hdd⟩) d' (List.mem_filter.mpr ⟨hd', hdd'⟩) hc
  have hrep : FatRep v.p count s.fat ([] ++ own s.rootChain s.nodes) := by
    simp only [List.nil_append]
    refine ⟨by simpa [ckLen] using hlen, ?_, ?_, hflatnd, ?_⟩
    · intro cs hcs
      have hne : cs ≠ [] := by
        unfold own at hcs
        rw [List.mem_filter] at hcs
        intro e; rw [e] at hcs; simp [Proofs.FsFat.ne] at hcs
      have hnd : cs.Nodup := by
        exact nodup_of_mem_flatten _ hflatnd cs hcs
      simp only [ckChain, List.all_eq_true, beq_iff_eq] at hchain
      exact chainOf_ok_isChain hne hnd (hchain cs (by rw [ownedB_eq]; exact hcs))
    · intro cs hcs c hc
      simp only [ckInData, List.all_eq_true, decide_eq_true_eq] at hin
      exact hin c (by rw [ownedB_eq]; exact List.mem_flatten.mpr ⟨cs, hcs, hc⟩)
    · intro c h2 hc hnot
      simp only [ckRest, List.all_eq_true, List.mem_range, Bool.or_eq_true, decide_eq_true_eq, List.contains_eq_mem] at hrest
      have := hrest c hc
      rw [ownedB_eq] at this
      rcases this with ((h | h) | h) | h
      · omega
      · exact absurd h hnot
      · exact Or.inl h
      · exact Or.inr h
  have hhintOK : HintOK v.p v.bound s.fat s.hint := by
    intro i hi hib
    simp only [ckHint, List.all_eq_true, List.mem_range, Bool.not_eq_true'] at hhint
    have := hhint i (by omega)
    rw [allocatableB_eq] at this
    exact this
  refine ⟨⟨hp, hvol.1, hvol.2⟩, ⟨htree, hrep, hhintOK, ?_, ?_, ?_, fun _ => ?_, ?_⟩, ?_⟩
  · intro hf
    simp only [ckRoot, hf, ↓reduceIte, List.isEmpty_iff] at hroot
    exact hroot
  · intro hf
    simp only [ckRoot, hf, Bool.false_eq_true, ↓reduceIte, Bool.not_eq_true', List.isEmpty_eq_false_iff] at hroot
    exact hroot
  · intro d hd hdd
    simp only [ckDirs, List.all_eq_true] at hdirs
    have := hdirs d hd
    simp only [hdd, Bool.not_true, Bool.false_or, Bool.not_eq_true', List.isEmpty_eq_false_iff] at this
    exact this
  · simpa [ckFitsRoot] using hfr
  · intro d hd hdd _
    simp only [ckFitsDir, List.all_eq_true] at hfd
    have := hfd d hd
    simpa [hdd] using this
  · intro f hf hfd'
    simp only [ckShape, List.all_eq_true] at hshape
    have := hshape f hf
    simp only [hfd', Bool.false_or, Bool.or_eq_true, Bool.and_eq_true, List.isEmpty_iff, beq_iff_eq, Bool.not_eq_true',
      List.isEmpty_eq_false_iff] at this
    rcases this with ⟨h1, h2⟩ | ⟨h1, h2⟩
    · exact Or.inl ⟨h1, h2⟩
    · exact Or.inr ⟨h1, h2⟩

end Proofs.FsCheck

namespace Proofs.FsCheck
open Model.Fs

theorem filter_map_nil {α β : Type} (f : α → β) (p : α → Bool) (l : List α) (h : (l.filter p).map f = []) :
    ∀ a ∈ l, p a = false := by
  intro a ha
  have h1 : l.filter p = [] := List.map_eq_nil_iff.mp h
  rw [List.filter_eq_nil_iff] at h1
  have := h1 a ha
  simpa using this

/-- an empty answer of the driver's `fs check` means the verified core check passed -/
theorem checkInv_core (v : Vol) (count : Nat) (s : St) (h : checkInv v count s = []) : checkCore v count s = true := by
  unfold checkInv at h
  have key := filter_map_nil _ _ _ h
  have g : ∀ (nm : String) (b : Bool), (nm, b) ∈ [
      ("vol", ckVol v count), ("tree.link", ckLink s), ("tree.paths", ckPaths s), ("tree.dirClus", ckDirClus s),
      ("tree.dirId", ckDirId s), ("rep.len", ckLen count s), ("rep.chain", ckChain v s), ("rep.inData", ckInData count s),
      ("rep.disjoint", ckDisjoint s), ("rep.rest", ckRest v count s), ("hint", ckHint v s), ("root", ckRoot v s),
      ("dirs", ckDirs s), ("fitsRoot", ckFitsRoot v s), ("fitsDir", ckFitsDir v s), ("shape", ckShape v s),
      ("sync", ckSync s)] → b = true := by
    intro nm b hm
    have := key (nm, b) hm
    simpa using this
  unfold checkCore
  simp only [Bool.and_eq_true]
  refine ⟨⟨⟨⟨⟨⟨⟨⟨⟨⟨⟨⟨⟨⟨⟨?_, ?_⟩, ?_⟩, ?_⟩, ?_⟩, ?_⟩, ?_⟩, ?_⟩, ?_⟩, ?_⟩, ?_⟩, ?_⟩, ?_⟩, ?_⟩, ?_⟩, ?_⟩
  · exact g "vol" _ (by simp)
  · exact g "tree.link" _ (by simp)
  · exact g "tree.paths" _ (by simp)
  · exact g "tree.dirClus" _ (by simp)
  · exact g "tree.dirId" _ (by simp)
  · exact g "rep.len" _ (by simp)
  · exact g "rep.chain" _ (by simp)
  · exact g "rep.inData" _ (by simp)
  · exact g "rep.disjoint" _ (by simp)
  · exact g "rep.rest" _ (by simp)
  · exact g "hint" _ (by simp)
  · exact g "root" _ (by simp)
  · exact g "dirs" _ (by simp)
  · exact g "fitsRoot" _ (by simp)
  · exact g "fitsDir" _ (by simp)
  · exact g "shape" _ (by simp)

/-- **from a checked start, everything**: a state the driver's check accepted satisfies the invariant and the shape,
    and so does every state any history reaches from it -/
theorem checked_start (v : Vol) (count : Nat) (s : St) (hp : Proofs.FatRep.ParamsOK v.p) (h : checkInv v count s = [])
    (ops : List Op) :
    Proofs.FsInv.Inv v count (run v s ops) ∧ Proofs.FsShape.ShapeNodes v.bpc (run v s ops).nodes := by
  obtain ⟨hv, hi, hs⟩ := checkCore_sound v count s hp (checkInv_core v count s h)
  exact ⟨Proofs.FsInv.run_inv hv ops s hi, Proofs.FsInv.run_shape hv ops s hi hs⟩

end Proofs.FsCheck
