import PyFatModel.Gen.Arith
import PyFatModel.Model.Sfn
import PyFatModel.Proofs.Bits

open Model.Sfn

namespace Proofs.Sfn

theorem checksumStep_lt (s c : Nat) : checksumStep s c < 256 := by
  unfold checksumStep; omega

/-- one step of the translated Python loop = one step of the specification's loop -/
theorem gen_step (s c : Nat) (hs : s < 256) :
    Py.land (Py.lor (Py.shr (s : Int) 1) (Py.shl (Py.land (s : Int) 1) 7) + (c : Int)) 255
      = ((checksumStep s c : Nat) : Int) := by
  show Py.land (Py.lor (Py.shr (s : Int) ((1 : Nat) : Int))
      (Py.shl (Py.land (s : Int) ((1 : Nat) : Int)) ((7 : Nat) : Int)) + (c : Int)) ((255 : Nat) : Int) = _
  simp only [Py.shr_ofNat, Py.land_ofNat, Py.shl_ofNat, Py.lor_ofNat]
  have e1 : s &&& 1 = s % 2 := by simpa using Bits.and_mask s 1
  have e2 : s >>> 1 ||| (s % 2) <<< 7 = (s % 2) * 128 + s / 2 := by
    rw [Nat.or_comm, Bits.shl_or _ _ _ (by rw [Bits.shr]; omega), Bits.shr]
  rw [e1, e2]
  have e3 : (((s % 2 * 128 + s / 2 : Nat) : Int) + (c : Int)) = ((s % 2 * 128 + s / 2 + c : Nat) : Int) := by
    omega
  rw [e3, Py.land_ofNat]
  have := Bits.and_mask (s % 2 * 128 + s / 2 + c) 8
  simp at this
  simp [checksumStep, this]

/-- **bridge**: `EightDotThree.checksum` as translated from the source equals the
    specification's rotate-and-add checksum, for byte strings of any length. -/
theorem gen_checksum (name : List Nat) :
    Gen.Arith.checksum (name.map Int.ofNat) = ((checksum name : Nat) : Int) := by
  unfold Gen.Arith.checksum checksum
  suffices h : ∀ (s : Nat), s < 256 →
      List.foldl (fun (chksum c : Int) =>
        Py.land (Py.lor (Py.shr chksum 1) (Py.shl (Py.land chksum 1) 7) + c) 255)
        (s : Int) (name.map Int.ofNat) = ((List.foldl checksumStep s name : Nat) : Int) by
    exact h 0 (by omega)
  induction name with
  | nil => intro s _; rfl
  | cons c cs ih =>
    intro s hs
    simp only [List.map_cons, List.foldl_cons]
    rw [show (Int.ofNat c) = (c : Int) from rfl, gen_step s c hs]
    exact ih _ (checksumStep_lt s c)

theorem checksum_lt (name : List Nat) : checksum name < 256 := by
  unfold checksum
  suffices h : ∀ s, s < 256 → List.foldl checksumStep s name < 256 from h 0 (by omega)
  induction name with
  | nil => intro s hs; exact hs
  | cons c cs ih => intro s _; exact ih _ (checksumStep_lt s c)

/-! ### 0x05 / 0xE5 lead byte -/

/-- storing then reading a name that starts with 0xE5 gives 0xE5 back -/
theorem lead_roundtrip (b : Nat) (rest : List Nat) (h : b ≠ 5) :
    strMutate (storeLead (b :: rest)) = b :: rest := by
  simp only [storeLead, strMutate]
  by_cases h1 : b = 229 <;> simp [h1, h]

/-- a stored lead byte is never the free mark -/
theorem storeLead_not_free (bs : List Nat) : classify (storeLead bs) ≠ .free := by
  match bs with
  | [] => simp [storeLead, classify]
  | b :: rest =>
    simp only [storeLead, classify]
    by_cases h1 : b = 229
    · simp [h1]
    · simp only [h1, if_false]
      by_cases h0 : b = 0 <;> simp [h0, h1]

/-- **`__str__` is not read-only** (defect D2): on a stored name with lead byte
    0x05 the in-memory bytes become 0xE5…, which `classify` reads as a deleted slot. -/
theorem strMutate_makes_free (rest : List Nat) : classify (strMutate (5 :: rest)) = .free := by
  simp [strMutate, classify]

end Proofs.Sfn
