/-
Timestamps: what `setinfo` stores and `getinfo` reports.  The time-zone database
is a parameter (`TzEnv`): `toFields` = `datetime.fromtimestamp(t, tz)` (tz = UTC with
`utc=True`, otherwise naive local time with the platform's rules), `ofFields` = the
inverse conversion `getinfo` applies (`replace(tzinfo=utc).timestamp()` resp. naive
`.timestamp()`).  Seconds since the epoch are `Int`.
-/
import PyFatModel.Model.DosTime

namespace Model.Time
open Model.DosTime

structure Fields where
  y : Nat
  m : Nat
  d : Nat
  h : Nat
  mi : Nat
  s : Nat
  deriving Repr, DecidableEq

structure TzEnv where
  toFields : Int → Fields
  ofFields : Fields → Int

/-- the laws a time-zone database satisfies for instant `t` (checked per instant by suite `time`
    through CPython; `¬fold` is part of `inverse`) -/
structure Lawful (e : TzEnv) (t : Int) : Prop where
  validDate : validDate (e.toFields t).y (e.toFields t).m (e.toFields t).d = true
  validTime : validTime (e.toFields t).h (e.toFields t).mi (e.toFields t).s = true
  inRange : 1980 ≤ (e.toFields t).y ∧ (e.toFields t).y ≤ 2107
  /-- UTC offsets are whole even numbers of seconds: dropping the odd second commutes with the conversion,
      and the conversion is invertible at `t` (no fold) -/
  inverseFloor : e.ofFields { e.toFields t with s := (e.toFields t).s / 2 * 2 } = t - ((e.toFields t).s % 2 : Nat)
  /-- the start of the local day converts back to an instant not after `t` (used for `accessed`) -/
  dayStart : e.ofFields { e.toFields t with h := 0, mi := 0, s := 0 } ≤ t

/-- `setinfo`: the two words stored for created/modified -/
def store (e : TzEnv) (t : Int) : Nat × Nat :=
  let f := e.toFields t
  (dateWord f.y f.m f.d, timeWord f.h f.mi f.s)

/-- `getinfo`: decode both words, combine, convert back -/
def load (e : TzEnv) (w : Nat × Nat) : Int :=
  let (y, m, d) := decodeDate w.1
  let (h, mi, s) := decodeTime w.2
  e.ofFields ⟨y, m, d, h, mi, s⟩

/-- `accessed` keeps the date only -/
def loadDate (e : TzEnv) (dw : Nat) : Int :=
  let (y, m, d) := decodeDate dw
  e.ofFields ⟨y, m, d, 0, 0, 0⟩

end Model.Time
