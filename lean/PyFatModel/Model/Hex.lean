namespace Model.Hex

def hexDigit (c : Char) : Option Nat :=
  if '0' ≤ c ∧ c ≤ '9' then some (c.toNat - '0'.toNat)
  else if 'a' ≤ c ∧ c ≤ 'f' then some (c.toNat - 'a'.toNat + 10)
  else if 'A' ≤ c ∧ c ≤ 'F' then some (c.toNat - 'A'.toNat + 10)
  else none

def parseHexAux : List Char → List Nat → Option (List Nat)
  | [], acc => some acc.reverse
  | [_], _ => none
  | a :: b :: rest, acc =>
    match hexDigit a, hexDigit b with
    | some x, some y => parseHexAux rest ((x * 16 + y) :: acc)
    | _, _ => none

/-- "-" is the empty byte string -/
def parseHex (s : String) : Option (List Nat) :=
  if s == "-" then some [] else parseHexAux s.toList []

def digitChar (n : Nat) : Char :=
  if n < 10 then Char.ofNat ('0'.toNat + n) else Char.ofNat ('a'.toNat + n - 10)

def toHex (bs : List Nat) : String :=
  if bs.isEmpty then "-" else
  String.mk (bs.foldr (fun b acc => digitChar (b / 16 % 16) :: digitChar (b % 16) :: acc) [])

def parseNatList (s : String) : Option (List Nat) :=
  if s == "-" then some [] else (s.splitOn ",").mapM String.toNat?

def showNatList (xs : List Nat) : String :=
  if xs.isEmpty then "-" else ",".intercalate (xs.map toString)

end Model.Hex
