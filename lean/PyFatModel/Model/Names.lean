/-
Name handling of `EightDotThree` / `PyFatFS.create`: `os.path.splitext`,
8.3 conformance, padding, short-alias generation, and the decision whether a
long-name set is written.  Strings are lists of code points; everything that
depends on Unicode tables or the OEM code page is a parameter (`CharEnv`)
whose values the harness obtains from CPython for the names it uses.
-/
import PyFatModel.Gen.Consts

namespace Model.Names

structure CharEnv where
  upper : List Nat → List Nat          -- `str.upper()` (string level: may change the length)
  isSpace : Nat → Bool                 -- `str.isspace()` per code point (what strip() removes)
  enc : Nat → Option Nat               -- single-byte code page: code point → byte, none = unencodable
  dec : Nat → Nat                      -- byte → code point

def dot : Nat := 46
def tilde : Nat := 126

/-- `genericpath._splitext` for a name without separators: split at the last dot,
    unless only dots precede it. -/
def splitext (p : List Nat) : List Nat × List Nat :=
  match p.reverse.idxOf? dot with
  | none => (p, [])
  | some r =>
    let dotIndex := p.length - 1 - r
    if (p.take dotIndex).all (· == dot) then (p, []) else (p.take dotIndex, p.drop dotIndex)

def lstrip (e : CharEnv) (s : List Nat) : List Nat := s.dropWhile e.isSpace
def rstrip (e : CharEnv) (s : List Nat) : List Nat := (s.reverse.dropWhile e.isSpace).reverse
def strip (e : CharEnv) (s : List Nat) : List Nat := rstrip e (lstrip e s)

def ljust (n : Nat) (s : List Nat) : List Nat := s ++ List.replicate (n - s.length) 32

def encStrict (e : CharEnv) (s : List Nat) : Option (List Nat) := s.mapM e.enc
def encReplace (e : CharEnv) (s : List Nat) : List Nat := s.map (fun c => (e.enc c).getD 63)

def invalidByte (b : Nat) : Bool := Gen.invalidSfnBytes.contains b

/-- `EightDotThree.is_8dot3_conform` -/
def conform (e : CharEnv) (name : List Nat) : Bool :=
  if name != e.upper name then false else
  let (root, ext0) := splitext name
  let ext := ext0.drop 1
  if root.length + ext.length > 11 then false
  else if root.length > 8 || ext.length > 3 then false
  else if root != strip e root || ext != strip e ext then false
  else
    [root, ext].all fun part =>
      match encStrict e part with
      | none => false
      | some bs => !bs.any invalidByte

/-- `_pad_8dot3_name` then `.encode(encoding)` then the 0xE5 → 0x05 lead byte (set_str_name) -/
def padName (e : CharEnv) (name : List Nat) : Option (List Nat) :=
  let (root, ext0) := splitext name
  let ext := ext0.drop 1
  match encStrict e (ljust 8 (strip e root) ++ ljust 3 (strip e ext)) with
  | none => none
  | some [] => some []
  | some (b :: rest) => some ((if b = 229 then 5 else b) :: rest)

/-- `map_chars`: drop spaces, replace invalid bytes by '_' -/
def mapChars (bs : List Nat) : List Nat :=
  bs.filterMap fun b => if b = 32 then none else if invalidByte b then some 95 else some b

def digits (n : Nat) : List Nat := (toString n).toList.map Char.toNat

/-- `basename = f"{basename[0:maxlen]}~{i}"` for `i > 0` (reassigned cumulatively, as in the source) -/
def nextBase (i : Nat) (basename : List Nat) : List Nat :=
  if i > 0 then basename.take (8 - (1 + (digits i).length)) ++ [tilde] ++ digits i else basename

/-- the `while len(str(i)) + 1 <= 7` loop -/
def aliasLoop (existing : List (List Nat)) (extsep extname : List Nat) :
    (fuel : Nat) → (i : Nat) → (basename : List Nat) → Option (List Nat)
  | 0, _, _ => none
  | fuel + 1, i, basename =>
    if (digits i).length + 1 ≤ 7 then
      if !existing.contains (nextBase i basename ++ extsep ++ extname) then some (nextBase i basename ++ extsep ++ extname)
      else aliasLoop existing extsep extname fuel (i + 1) (nextBase i basename)
    else none

/-- `EightDotThree.make_8dot3_name(dir_name, parent)`; `existing` = short names of the
    parent's files and directories; `none` = EEXIST (all tails exhausted). -/
def makeAlias (e : CharEnv) (name : List Nat) (existing : List (List Nat)) : Option (List Nat) :=
  let u := e.upper name
  if !existing.contains u && conform e u then some u else
  let (root, ext) := splitext u
  let basename := (mapChars (encReplace e (strip e (root.take 8)))).map e.dec
  let extname := (mapChars (encReplace e (strip e ((ext.drop 1).take 3)))).map e.dec
  let extsep := if extname.isEmpty then [] else [dot]
  aliasLoop existing extsep extname 1000001 0 basename

/-- unpadded form of a stored 11-byte name (`get_unpadded_filename`), as code points -/
def unpad (e : CharEnv) (bs : List Nat) : List Nat :=
  let bs := match bs with
    | 5 :: rest => 229 :: rest
    | _ => bs
  let base := rstrip e ((bs.take 8).map e.dec)
  let ext := rstrip e (((bs.drop 8).take 3).map e.dec)
  if ext.isEmpty then base else base ++ [dot] ++ ext

inductive NameErr where
  | exhausted      -- EEXIST from make_8dot3_name
  | nonconform     -- EINVAL from set_str_name (alias is not 8.3 conform)
  | lfnOnConform   -- EINVAL from make_lfn_entry ("already 8.3 conform")
  | tooLong        -- ENAMETOOLONG
  | unencodable    -- UnicodeEncodeError (internal)
  deriving Repr, DecidableEq

structure NewName where
  short11 : List Nat                 -- stored bytes
  lfn : Option (List Nat)            -- UTF-16 units of the long name, when a set is written
  deriving Repr, DecidableEq

/-- UTF-16 units of a string of code points -/
def utf16 (s : List Nat) : List Nat :=
  s.flatMap fun c => if c < 65536 then [c] else
    let v := c - 65536
    [55296 + v / 1024, 56320 + v % 1024]

/-- the naming part of `PyFatFS.create` / `makedir`: alias, stored bytes, long-name decision.
    `maxUnits`: the length limit `make_lfn_entry` applies (255 UTF-16 units). -/
def newName (e : CharEnv) (preserveCase : Bool) (name : List Nat) (existing : List (List Nat)) :
    Except NameErr NewName :=
  match makeAlias e name existing with
  | none => .error .exhausted
  | some n =>
    if !conform e n then .error .nonconform else
    match padName e n with
    | none => .error .unencodable
    | some b11 =>
      let sfn := unpad e b11
      -- `get_unpadded_filename()` → `__str__` rewrites a stored 0x05 lead byte to 0xE5 *in place*
      let b11 := match b11 with
        | 5 :: rest => 229 :: rest
        | _ => b11
      if sfn != e.upper name || (sfn != name && preserveCase) then
        if conform e name then .error .lfnOnConform
        else if (utf16 name).length > 255 then .error .tooLong
        else .ok { short11 := b11, lfn := some (utf16 name) }
      else .ok { short11 := b11, lfn := none }

end Model.Names
