/-
Directory layer: long-name slot construction (`make_lfn_entry`), long-name
decoding (`FATLongDirectoryEntry.__str__`), serialisation of an entry with its
long-name set (`FATDirectoryEntry.__bytes__`) and the directory scan
(`PyFat.parse_dir_entries_in_address`).  Structured level: a slot is a
constructor, not 32 bytes; `Model.DirBytes` connects the two.
Names are lists of UTF-16 code units.
-/
import PyFatModel.Model.Sfn

namespace Model.Dir

/-- one long-name slot (the fields pyfatfs keeps) -/
structure LfnSlot where
  ord : Nat
  units : List Nat        -- 13 UTF-16 units (Name1 ++ Name2 ++ Name3)
  attr : Nat := 15
  type : Nat := 0
  chksum : Nat
  clusLo : Nat := 0
  deriving Repr, DecidableEq

/-- a short (8.3) directory entry: 11 name bytes + the numeric fields -/
structure ShortEnt where
  name : List Nat
  attr : Nat
  rest : List Nat := []    -- NTRes, times, cluster, size (opaque here)
  deriving Repr, DecidableEq

inductive Slot where
  | endMark
  | free
  | lfn (s : LfnSlot)
  | short (e : ShortEnt)
  deriving Repr, DecidableEq

/-- an entry as the in-memory tree holds it: short entry + optional long-name set
    (slots in *ordinal* order 1, 2, …, n|0x40) -/
structure Ent where
  short : ShortEnt
  lfn : Option (List LfnSlot)
  deriving Repr, DecidableEq

/-! ## `make_lfn_entry` -/

/-- split into chunks of 13 (structural recursion on a fuel argument) -/
def chunks13 : (fuel : Nat) → List Nat → List (List Nat)
  | 0, _ => []
  | _, [] => []
  | f + 1, l => l.take 13 :: chunks13 f (l.drop 13)

/-- NUL-terminate unless the length is a multiple of 13, then pad with 0xFFFF to a multiple of 13 -/
def padUnits (name : List Nat) : List Nat :=
  if name.length % 13 = 0 then name
  else
    let t := name ++ [0]
    t ++ List.replicate ((13 - t.length % 13) % 13) 65535

def numberSlots (cks : Nat) : (i : Nat) → List (List Nat) → List LfnSlot
  | _, [] => []
  | i, [c] => [{ ord := 64 ||| (i + 1), units := c, chksum := cks }]
  | i, c :: rest => { ord := i + 1, units := c, chksum := cks } :: numberSlots cks (i + 1) rest

/-- `make_lfn_entry(name, short_name)`: slots in ordinal order -/
def makeLfn (name : List Nat) (cks : Nat) : List LfnSlot :=
  let p := padUnits name
  numberSlots cks 0 (chunks13 p.length p)

/-! ## `FATLongDirectoryEntry.__str__` -/

/-- strip trailing 0xFFFF units, then one trailing NUL -/
def stripPad (units : List Nat) : List Nat :=
  let a := (units.reverse.dropWhile (· == 65535)).reverse
  match a.reverse with
  | 0 :: r => r.reverse
  | _ => a

/-- decode a set given in ordinal order -/
def decodeLfn (slots : List LfnSlot) : List Nat := stripPad (slots.flatMap (·.units))

/-! ## serialisation -/

/-- `FATDirectoryEntry.__bytes__`: long-name slots in *reverse* ordinal order, then the short entry -/
def serEnt (e : Ent) : List Slot :=
  match e.lfn with
  | some ls => ls.reverse.map Slot.lfn ++ [Slot.short e.short]
  | none => [Slot.short e.short]

def serDir (es : List Ent) : List Slot := es.flatMap serEnt

/-! ## the scan -/

/-- pending long-name slots (the `tmp_lfn_entry` dictionary), most recent first -/
abbrev Pending := List LfnSlot

def isLfnSlot (attr ord : Nat) : Bool := (attr &&& 63) == 15 && ord != 229

def complete (p : Pending) : Bool := p.any (fun s => s.ord &&& 64 == 64)

def insertByOrd (s : LfnSlot) : List LfnSlot → List LfnSlot
  | [] => [s]
  | t :: rest => if s.ord ≤ t.ord then s :: t :: rest else t :: insertByOrd s rest

/-- `sorted(lfn_entries.items(), key=LDIR_Ord)` (stable insertion sort) -/
def ordered : Pending → List LfnSlot
  | [] => []
  | s :: rest => insertByOrd s (ordered rest)

inductive ScanErr where
  | lfnCluster        -- LDIR_FstClusLO ≠ 0  → PyFATException(EFAULT)
  | lfnDuplicate      -- ordinal seen twice   → PyFATException
  deriving Repr, DecidableEq

/-- `parse_dir_entries_in_address` over a slot list; `cks` computes the short-name
    checksum.  Returns the entries in slot order. -/
def scan (cks : List Nat → Nat) : Pending → List Slot → Except ScanErr (List Ent)
  | _, [] => .ok []
  | _, Slot.endMark :: _ => .ok []
  | _, Slot.free :: rest => scan cks [] rest
  | p, Slot.lfn s :: rest =>
    if s.clusLo ≠ 0 then .error .lfnCluster
    else if p.any (fun t => t.ord == s.ord) then .error .lfnDuplicate
    else scan cks (s :: p) rest
  | p, Slot.short e :: rest =>
    let lfn :=
      if complete p && p.all (fun s => s.chksum == cks e.name) then some (ordered p) else none
    match scan cks [] rest with
    | .ok es => .ok ({ short := e, lfn := lfn } :: es)
    | .error x => .error x

end Model.Dir
