/-
File contents at the filesystem level: the data area as a function from cluster
number to the bytes of that cluster, the content of an entry (the first `size`
bytes along its chain), and what `FatIO.__write` does to the data area once the
FAT side (`Model.Fs.writeChain`) has fixed the chain.
-/
import PyFatModel.Model.Fs

namespace Model.Fs

abbrev Data := Nat → List Nat

/-- the bytes of an entry: the first `size` bytes of the clusters of its chain -/
def contentOf (data : Data) (n : Node) : List Nat := ((n.chain.map data).flatten).take n.size

/-- the data area after `__write` of `bs` at `pos` through a handle on a file with the (already extended)
    chain `chain'` and the old size `size`: the clusters of the chain get what `writeClusters` computes,
    every other cluster is left alone -/
def writeData (bpc : Nat) (data : Data) (chain' : List Nat) (size pos : Nat) (bs : List Nat) : Data :=
  let cs' := Model.FatIO.writeClusters bpc (chain'.map data) size (min pos size) bs
  fun c => if c ∈ chain' then cs'.getD (chain'.idxOf c) [] else data c

end Model.Fs
