/-
Concurrency models (C18, C19).  Threads are deterministic state machines taking
*atomic steps* on a shared state; a schedule is the list of thread ids that step.
Every schedule is a legal execution (a thread that cannot move — blocked on the
lock, or finished — stutters), so a theorem "for every schedule" covers every
interleaving at the granularity of the steps.

`Mutex`   writers: each operation is a list of micro-steps on the shared state
          (in-memory FAT, hint, directory tree, device), executed between taking and
          releasing ONE lock — what `@_fs_locked` / `with self._lock` make of every
          mutating entry point of pyfatfs (`Gen.Sites.mutatingEntryPoints`).
`Readers` readers: listing a lazily loaded directory = test the loaded flag, read the
          slots one device access at a time (each an atomic seek+read pair under the
          device lock), link, publish; no filesystem-wide lock.

The broken variants (no lock around the allocator's scan→link; seek and read as two
steps; publish before linking; flag set before the parse) are executable too, and
exhibit the failures as `decide`d witnesses in `Props.C18` / `Props.C19`.
-/
import PyFatModel.Model.Alloc

namespace Model.Conc

def upd {α : Type} (f : Nat → α) (i : Nat) (v : α) : Nat → α := fun j => if j = i then v else f j

/-! ## writers under one lock -/
namespace Mutex

variable {S : Type}

/-- an operation: its micro-steps on the shared state, in order -/
abbrev Op (S : Type) := List (S → S)

def applyOp (op : Op S) (s : S) : S := op.foldl (fun s m => m s) s

def applyOps (ops : List (Op S)) (s : S) : S := ops.foldl (fun s op => applyOp op s) s

structure Thread (S : Type) where
  todo : List (Op S)                 -- operations not yet started
  cur : Option (List (S → S))        -- micro-steps left of the operation in progress (lock held)

structure G (S : Type) where
  shared : S
  owner : Option Nat                 -- who holds the lock
  th : Nat → Thread S
  log : List (Nat × Op S)            -- ghost: operations in the order the lock was taken

/-- one atomic step of thread `i` -/
def step (g : G S) (i : Nat) : G S :=
  match (g.th i).cur, (g.th i).todo, g.owner with
  | none, op :: rest, none =>        -- take the lock, start the next operation
    { g with owner := some i, th := upd g.th i ⟨rest, some op⟩, log := g.log ++ [(i, op)] }
  | some (m :: ms), todo, _ =>       -- one micro-step on the shared state
    { g with shared := m g.shared, th := upd g.th i ⟨todo, some ms⟩ }
  | some [], todo, _ =>              -- operation complete: release
    { g with owner := none, th := upd g.th i ⟨todo, none⟩ }
  | _, _, _ => g                     -- blocked on the lock, or finished

def run (g : G S) (sched : List Nat) : G S := sched.foldl step g

def init (s : S) (progs : Nat → List (Op S)) : G S :=
  { shared := s, owner := none, th := fun i => ⟨progs i, none⟩, log := [] }

/-- the operations of thread `i` in the log, in order -/
def issued (log : List (Nat × Op S)) (i : Nat) : List (Op S) := (log.filter (fun e => e.1 == i)).map (·.2)

end Mutex

/-! ## the unprotected allocator: scan and link as two steps (what `allocate_bytes` is without a lock) -/
namespace Racy
open Model.Alloc

structure Th where
  want : Nat                         -- clusters wanted
  found : Option (List Nat)          -- result of the scan, not yet linked
  chain : Option (List Nat)          -- linked chain (done)
  deriving Repr, DecidableEq

structure G where
  fat : List Nat
  hint : Nat
  th : List Th
  deriving Repr, DecidableEq

/-- step of thread `i`: first the scan (reads the shared table), then the link (writes it) -/
def step (p : Params) (bound : Nat) (g : G) (i : Nat) : G :=
  match g.th[i]? with
  | none => g
  | some t =>
    match t.chain, t.found with
    | some _, _ => g
    | none, none =>
      match scan p g.fat t.want (bound - g.hint) g.hint [] with
      | some (cs, _) => { g with th := g.th.set i { t with found := some cs } }
      | none => g
    | none, some cs =>
      { g with fat := link p.cv.eocMax g.fat cs, th := g.th.set i { t with chain := some cs } }

def run (p : Params) (bound : Nat) (g : G) (sched : List Nat) : G := sched.foldl (step p bound) g

end Racy

/-! ## readers without a filesystem lock -/
namespace Readers

/-- the (constant) device as the directory reader sees it: directory `d` has `len d` slots -/
structure Dev where
  len : Nat → Nat
  slot : Nat → Nat → Nat

/-- what listing directory `d` returns when nobody else is around -/
def parseDir (dev : Dev) (d : Nat) : List Nat := (List.range (dev.len d)).map (dev.slot d)

structure Shared where
  pos : Nat × Nat                    -- device cursor (directory, slot index)
  cache : Nat → Option (List Nat)    -- published listings (`__dirs` with `__lazy_load = False`)

inductive Pc where
  | start (d : Nat)                              -- about to test the loaded flag
  | parsing (d k : Nat) (acc : List Nat)         -- next: locked seek+read of slot k
  | seeked (d k : Nat) (acc : List Nat)          -- (racy variant only) seek done, read pending
  | publish (d : Nat) (l : List Nat)             -- parsed and linked, about to publish
  deriving Repr, DecidableEq

structure Thread where
  todo : List Nat                    -- directories still to list
  pc : Option Pc
  results : List (List Nat)          -- listings obtained so far
  deriving Repr, DecidableEq

structure G where
  sh : Shared
  th : Nat → Thread

/-- `atomicRead = true`: seek+read is one step (under the device lock); `false`: two steps -/
def stepThread (dev : Dev) (atomicRead : Bool) (sh : Shared) (t : Thread) : Shared × Thread :=
  match t.pc with
  | none =>
    match t.todo with
    | [] => (sh, t)
    | d :: rest => (sh, { t with todo := rest, pc := some (.start d) })
  | some (.start d) =>
    match sh.cache d with
    | some l => (sh, { t with pc := none, results := t.results ++ [l] })
    | none => (sh, { t with pc := some (.parsing d 0 []) })
  | some (.parsing d k acc) =>
    if k < dev.len d then
      if atomicRead then
        ({ sh with pos := (d, k + 1) }, { t with pc := some (.parsing d (k + 1) (acc ++ [dev.slot d k])) })
      else
        ({ sh with pos := (d, k) }, { t with pc := some (.seeked d k acc) })
    else (sh, { t with pc := some (.publish d acc) })
  | some (.seeked d k acc) =>
    -- the read uses the SHARED cursor, wherever another thread may have left it
    ({ sh with pos := (sh.pos.1, sh.pos.2 + 1) },
     { t with pc := some (.parsing d (k + 1) (acc ++ [dev.slot sh.pos.1 sh.pos.2])) })
  | some (.publish d l) =>
    ({ sh with cache := upd sh.cache d (some l) }, { t with pc := none, results := t.results ++ [l] })

def step (dev : Dev) (atomicRead : Bool) (g : G) (i : Nat) : G :=
  let r := stepThread dev atomicRead g.sh (g.th i)
  { sh := r.1, th := upd g.th i r.2 }

def run (dev : Dev) (atomicRead : Bool) (g : G) (sched : List Nat) : G := sched.foldl (step dev atomicRead) g

def init (progs : Nat → List Nat) : G :=
  { sh := { pos := (0, 0), cache := fun _ => none }, th := fun i => ⟨progs i, none, []⟩ }

/-- what thread `i` must have obtained given what it has finished -/
def expected (dev : Dev) (prog : List Nat) (t : Thread) : Prop :=
  ∃ donePart, prog = donePart ++ (match t.pc with
      | none => t.todo
      | some (.start d) => d :: t.todo
      | some (.parsing d _ _) => d :: t.todo
      | some (.seeked d _ _) => d :: t.todo
      | some (.publish d _) => d :: t.todo) ∧ t.results = donePart.map (parseDir dev)

end Readers

end Model.Conc
