/-
Short (8.3) names: checksum, 0x05/0xE5 lead byte, padding, un-padding.
Strings are lists of code points; the code page is a parameter.
-/
namespace Model.Sfn

/-- fatgen103 `ChkSum`: rotate right by one within 8 bits, add the byte, wrap. -/
def checksumStep (s c : Nat) : Nat := ((s % 2) * 128 + s / 2 + c) % 256
def checksum (name : List Nat) : Nat := name.foldl checksumStep 0

/-- what a code page provides (`CharEnv`): supplied by CPython to the driver,
    universally quantified in theorems. -/
structure CodePage where
  dec : Nat → Nat            -- byte → code point (`bytes.decode`)
  isSpace : Nat → Bool       -- `str.isspace` of a code point (what `rstrip()`/`strip()` remove)

/-- `set_byte_name`: classification of a raw 11-byte name field -/
inductive RawName where
  | free            -- first byte 0xE5
  | last            -- first byte 0x00
  | name (bs : List Nat)
  deriving Repr, DecidableEq

def classify : List Nat → RawName
  | [] => .name []
  | b :: rest => if b = 0 then .last else if b = 229 then .free else .name (b :: rest)

/-- `__str__` first normalises the stored lead byte **in place** (0x05 → 0xE5). -/
def strMutate : List Nat → List Nat
  | [] => []
  | b :: rest => (if b = 5 then 229 else b) :: rest

def rstrip (cp : CodePage) (s : List Nat) : List Nat :=
  (s.reverse.dropWhile cp.isSpace).reverse

/-- `EightDotThree.__str__` on the (already normalised) bytes: decode, right-strip, join. -/
def unpad (cp : CodePage) (bs : List Nat) : List Nat :=
  let base := rstrip cp ((bs.take 8).map cp.dec)
  let ext := rstrip cp (((bs.drop 8).take 3).map cp.dec)
  if ext.isEmpty then base else base ++ [46] ++ ext

/-- `set_str_name` lead byte: a name whose first encoded byte is 0xE5 is stored as 0x05. -/
def storeLead : List Nat → List Nat
  | [] => []
  | b :: rest => (if b = 229 then 5 else b) :: rest

end Model.Sfn
