/-
The filesystem-level model: the composition of every PyFatFS / FatIO primitive
that changes the volume, on a state made of

* the in-memory FAT and the allocation hint (`PyFat.fat`, `first_free_cluster`),
* the in-memory directory tree (`FATDirectoryEntry.__dirs`), flattened: one `Node`
  per directory entry, its directory identified by that directory's first cluster
  (0 = the root), exactly the way the on-disk format identifies it,
* the device: the FAT as last flushed (`flush_fat`) and the directory entries as last
  written (`update_directory_entry`, one directory at a time).

Each operation is written after the source, call by call (`create`, `makedir`,
`remove`, `removedir`, `_remove`, `update_directory_entry` → `write_data_to_cluster`
→ `allocate_bytes`, `free_cluster_chain`, `FatIO.__write`, `FatIO.truncate`,
`flush_fat`), including what stays behind when a call raises half way.  The order
of entries inside a directory and the bytes of file contents are not part of this
model (they are the subject of `Model.Dir` and `Model.FatIO`).

Suite `fsmodel` runs this model and the real code in lock step on the same
programs and compares, after every call: the result class, the whole in-memory FAT
and hint, every entry (directory id, first cluster, chain, size, slots), and the
FAT and directory entries an independent reader finds on the device.
-/
import PyFatModel.Gen.Arith
import PyFatModel.Model.Alloc
import PyFatModel.Model.FatIO

namespace Model.Fs
open Model.Alloc

/-- one directory entry (with its long-name slots) of the in-memory tree -/
structure Node where
  path : List Nat        -- ghost: the names from the root down to this entry
  parent : Nat           -- the directory it is in: that directory's first cluster, 0 = root
  key : Nat              -- its name
  isDir : Bool
  chain : List Nat       -- its cluster chain, first = DIR_FstClus; [] = none (cluster 0)
  size : Nat             -- DIR_FileSize
  slots : Nat            -- 32-byte slots the entry occupies (long-name slots + 1)
  deriving DecidableEq, Repr

def Node.clus (n : Node) : Nat := n.chain.headD 0

/-- what `update_directory_entry` puts on the device for one entry -/
structure DEnt where
  parent : Nat
  key : Nat
  isDir : Bool
  clus : Nat
  size : Nat
  slots : Nat
  deriving DecidableEq, Repr

def Node.dent (n : Node) : DEnt := ⟨n.parent, n.key, n.isDir, n.clus, n.size, n.slots⟩

/-- the volume's constants -/
structure Vol where
  p : Params
  bound : Nat            -- `min(len(fat), cluster_count + 2)`
  bpc : Nat              -- bytes per cluster
  fixedRoot : Bool       -- FAT12/16: the root directory is a fixed region
  rootCap : Nat          -- its size in bytes
  rootBase : Nat         -- slots of the root that belong to no node (volume label)
  deriving Repr

structure St where
  fat : List Nat
  hint : Nat
  rootChain : List Nat   -- FAT32: the root directory's chain; [] with a fixed root
  nodes : List Node
  dfat : List Nat        -- device: the FAT as last flushed
  disk : List DEnt       -- device: the directory entries as last written
  deriving Repr

inductive Err where
  | notFound | fileExpected | dirExpected | dirExists | notEmpty | removeRoot | noSpace | eio
  deriving DecidableEq, Repr

inductive Res where
  | ok (created : Bool)
  | err (e : Err)
  deriving DecidableEq, Repr

/-! ## path resolution (`FATDirectoryEntry.get_entry`) -/

inductive Loc where
  | root
  | node (n : Node)
  deriving DecidableEq, Repr

def Loc.id : Loc → Nat
  | .root => 0
  | .node n => n.clus

def Loc.isDir : Loc → Bool
  | .root => true
  | .node n => n.isDir

/-- `_search_entry`: the entry of directory `dir` named `k` -/
def child (nodes : List Node) (dir k : Nat) : Option Node :=
  nodes.find? (fun n => n.parent == dir && n.key == k)

/-- one segment of `get_entry`: `_verify_is_directory` (ENOTDIR), then `_search_entry` (ENOENT) -/
def walk (nodes : List Node) (cur : Option Loc) (k : Nat) : Option Loc :=
  match cur with
  | none => none
  | some loc => if loc.isDir then (child nodes loc.id k).map Loc.node else none

def resolve (nodes : List Node) (path : List Nat) : Option Loc :=
  path.foldl (walk nodes) (some .root)

/-! ## directory sizes and `update_directory_entry` -/

/-- `calc_num_clusters`, the translated source function -/
def numClus (bpc size : Nat) : Nat :=
  (Gen.Arith.calc_num_clusters (size := size) (bytes_per_cluster := bpc)).toNat

def childSlots (nodes : List Node) (dir : Nat) : Nat :=
  ((nodes.filter (fun n => n.parent == dir)).map (·.slots)).sum

/-- `len(dir_entries)` in `update_directory_entry`: 32 bytes per slot; every directory but
    the root starts with the two dot entries -/
def dirBytes (v : Vol) (nodes : List Node) (loc : Loc) : Nat :=
  32 * ((match loc with | .root => v.rootBase | .node _ => 2) + childSlots nodes loc.id)

/-- `write_data_to_cluster(data, chain[0], erase=True)` as far as the FAT is concerned: the
    loop runs over the whole chain; if the data is longer, `allocate_bytes` for the
    difference and `fat[last] = new[0]`.  -/
def growChain (v : Vol) (fat : List Nat) (hint : Nat) (chain : List Nat) (bytes : Nat) :
    Except Err (List Nat × Nat × List Nat) :=
  if bytes ≤ chain.length * v.bpc then .ok (fat, hint, chain)
  else
    match chain.getLast?, allocate v.p fat hint v.bound (numClus v.bpc (bytes - chain.length * v.bpc)) with
    | some l, some r =>
      match r.clusters.head? with
      | some h => .ok (r.fat.set l h, r.hint, chain ++ r.clusters)
      | none => .error .eio
    | none, _ => .error .eio
    | _, none => .error .noSpace

/-- entries of directory `d` as they go to the device -/
def writeDir (disk : List DEnt) (nodes : List Node) (d : Nat) : List DEnt :=
  disk.filter (fun e => e.parent != d) ++ ((nodes.filter (fun n => n.parent == d)).map Node.dent)

/-- replace one node in place (entries keep their position, like the Python list) -/
def replaceNode (nodes : List Node) (old new : Node) : List Node :=
  nodes.map fun x => if x = old then new else x

/-- `update_directory_entry(loc)` with the in-memory entries `nodes`: the FAT, hint and
    chains afterwards and the directory on the device, or the error (nothing written). -/
def updateDir (v : Vol) (s : St) (nodes : List Node) (loc : Loc) : Except Err St :=
  match loc with
  | .root =>
    if v.fixedRoot then
      if dirBytes v nodes .root > v.rootCap then .error .noSpace
      else .ok { s with nodes := nodes, disk := writeDir s.disk nodes 0 }
    else
      match growChain v s.fat s.hint s.rootChain (dirBytes v nodes .root) with
      | .error e => .error e
      | .ok (fat, hint, chain) =>
        .ok { s with fat := fat, hint := hint, rootChain := chain, nodes := nodes, disk := writeDir s.disk nodes 0 }
  | .node d =>
    match growChain v s.fat s.hint d.chain (dirBytes v nodes (.node d)) with
    | .error e => .error e
    | .ok (fat, hint, chain) =>
      let nodes' := if chain = d.chain then nodes else replaceNode nodes d { d with chain := chain }
      .ok { s with fat := fat, hint := hint, nodes := nodes', disk := writeDir s.disk nodes' d.clus }

def flush (s : St) : St := { s with dfat := s.fat }

/-- `free_cluster_chain(chain[0])` -/
def release (v : Vol) (s : St) (chain : List Nat) : St :=
  { s with fat := freeList v.p.cv.free s.fat chain, hint := lowerHint s.hint chain }

/-- split a path into directory part and name -/
def splitLast : List Nat → Option (List Nat × Nat)
  | [] => none
  | [k] => some ([], k)
  | a :: b :: rest => (splitLast (b :: rest)).map fun (d, k) => (a :: d, k)

/-! ## the primitives -/

/-- `PyFatFS.create(path, wipe)`; `slots` = slots of the new entry (decided by the naming layer) -/
def create (v : Vol) (s : St) (path : List Nat) (slots : Nat) (wipe : Bool) : St × Res :=
  match splitLast path with
  | none => (s, .err .fileExpected)
  | some (dir, k) =>
    match resolve s.nodes dir with
    | none => (s, .err .notFound)
    | some ploc =>
      if !ploc.isDir then (s, .err .notFound) else
      match child s.nodes ploc.id k with
      | some n =>
        if n.isDir then (s, .err .fileExpected)
        else if !wipe then (s, .ok false)
        else
          -- size 0, cluster 0, release the old chain, rewrite the directory, flush
          let n' := { n with size := 0, chain := [] }
          let s1 := if n.chain = [] then s else release v s n.chain
          match updateDir v s1 (replaceNode s1.nodes n n') ploc with
          | .error e => ({ s1 with nodes := replaceNode s1.nodes n n' }, .err e)
          | .ok s2 => (flush s2, .ok true)
      | none =>
        let n : Node := ⟨path, ploc.id, k, false, [], 0, slots⟩
        match updateDir v s (s.nodes ++ [n]) ploc with
        | .error e => (s, .err e)          -- `__forget_dir_entry`
        | .ok s1 => (flush s1, .ok true)

/-- `PyFatFS.makedir(path)` -/
def makedir (v : Vol) (s : St) (path : List Nat) (slots : Nat) : St × Res :=
  match splitLast path with
  | none => (s, .err .dirExists)
  | some (dir, k) =>
    match resolve s.nodes dir with
    | none => (s, .err .notFound)
    | some ploc =>
      if !ploc.isDir then (s, .err .notFound) else
      match child s.nodes ploc.id k with
      | some _ => (s, .err .dirExists)
      | none =>
        -- `allocate_bytes(64, erase=True)[0]`
        match allocate v.p s.fat s.hint v.bound (numClus v.bpc 64) with
        | none => (s, .err .noSpace)
        | some r =>
          let n : Node := ⟨path, ploc.id, k, true, r.clusters, 0, slots⟩
          let s1 := { s with fat := r.fat, hint := r.hint }
          -- `update_directory_entry(newdir)` writes the two dot entries into the new cluster
          -- (64 bytes ≤ one cluster: the FAT does not change), then the parent is rewritten
          match updateDir v s1 (s1.nodes ++ [n]) ploc with
          | .error e => (release v s1 n.chain, .err e)      -- forget the entry, free its chain
          | .ok s2 => (flush s2, .ok true)

/-- `PyFatFS._remove(parent, entry)` -/
def removeEntry (v : Vol) (s : St) (ploc : Loc) (n : Node) : St × Res :=
  match updateDir v s (s.nodes.erase n) ploc with
  | .error e => ({ s with nodes := s.nodes.erase n }, .err e)
  | .ok s1 =>
    -- (a directory's own clusters are rewritten with its dot entries first: 64 bytes, no FAT change)
    if n.chain = [] then (s1, .ok true)
    else (flush (release v s1 n.chain), .ok true)

/-- `PyFatFS.remove(path)` -/
def remove (v : Vol) (s : St) (path : List Nat) : St × Res :=
  match splitLast path with
  | none => (s, .err .fileExpected)
  | some (dir, _) =>
    match resolve s.nodes path, resolve s.nodes dir with
    | some (.node n), some ploc => if n.isDir then (s, .err .fileExpected) else removeEntry v s ploc n
    | some .root, _ => (s, .err .fileExpected)
    | _, _ => (s, .err .notFound)

/-- `PyFatFS.removedir(path)` -/
def removedir (v : Vol) (s : St) (path : List Nat) : St × Res :=
  match splitLast path with
  | none => (s, .err .removeRoot)
  | some (dir, _) =>
    match resolve s.nodes path, resolve s.nodes dir with
    | some (.node n), some ploc =>
      if !n.isDir then (s, .err .dirExpected)
      else if s.nodes.any (fun c => c.parent == n.clus) then (s, .err .notEmpty)
      else removeEntry v s ploc n
    | some .root, _ => (s, .err .removeRoot)
    | _, _ => (s, .err .notFound)

/-- the FAT side of `FatIO.__write` of `n > 0` bytes at position `pos ≤ size` of a file with
    chain `chain`: the chain afterwards -/
def writeChain (v : Vol) (fat : List Nat) (hint : Nat) (chain : List Nat) (size pos n : Nat) :
    Except Err (List Nat × Nat × List Nat) :=
  match chain with
  | [] =>
    match allocate v.p fat hint v.bound (numClus v.bpc n) with
    | none => .error .noSpace
    | some r => .ok (r.fat, r.hint, r.clusters)
  | _ :: _ =>
    let cur := Model.FatIO.seekCursor v.bpc size pos
    if chain.length ≤ cur.cindex then .error .eio
    else
      -- `write_data_to_cluster(prefix + b, cpos)`: the loop runs over the clusters from `cpos` on
      let have_ := (chain.length - cur.cindex) * v.bpc
      let need := cur.coffpos + n
      if need ≤ have_ then .ok (fat, hint, chain)
      else
        match chain.getLast?, allocate v.p fat hint v.bound (numClus v.bpc (need - have_)) with
        | some l, some r =>
          match r.clusters.head? with
          | some h => .ok (r.fat.set l h, r.hint, chain ++ r.clusters)
          | none => .error .eio
        | none, _ => .error .eio
        | _, none => .error .noSpace

/-- `openbin(path, "r+b")`, `seek(pos)`, `write(n bytes)`, `close()` -/
def fwrite (v : Vol) (s : St) (path : List Nat) (pos n : Nat) : St × Res :=
  match splitLast path with
  | none => (s, .err .fileExpected)
  | some (dir, _) =>
    match resolve s.nodes path, resolve s.nodes dir with
    | some (.node f), some ploc =>
      if f.isDir then (s, .err .fileExpected) else
      if n = 0 then (flush s, .ok true) else        -- `write(b"")` returns at once; `close()` flushes
      match writeChain v s.fat s.hint f.chain f.size pos n with
      | .error e => (flush s, .err e)
      | .ok (fat, hint, chain) =>
        -- `seek` clamps the position to the size (known finding D17c): the bytes land at `min pos size`
        let f' := { f with chain := chain, size := max f.size (min pos f.size + n) }
        let s1 := { s with fat := fat, hint := hint }
        match updateDir v s1 (replaceNode s1.nodes f f') ploc with
        | .error e => (flush { s1 with nodes := replaceNode s1.nodes f f' }, .err e)
        | .ok s2 => (flush s2, .ok true)
    | some .root, _ => (s, .err .fileExpected)
    | _, _ => (s, .err .notFound)

/-- `openbin(path, "r+b")`, `truncate(m)`, `close()` -/
def ftrunc (v : Vol) (s : St) (path : List Nat) (m : Nat) : St × Res :=
  match splitLast path with
  | none => (s, .err .fileExpected)
  | some (dir, _) =>
    match resolve s.nodes path, resolve s.nodes dir with
    | some (.node f), some ploc =>
      if f.isDir then (s, .err .fileExpected) else
      if m > f.size then
        -- grow: `__write(b"\0" * (m - size))` at the end
        match writeChain v s.fat s.hint f.chain f.size f.size (m - f.size) with
        | .error e => (flush s, .err e)
        | .ok (fat, hint, chain) =>
          let f' := { f with chain := chain, size := m }
          let s1 := { s with fat := fat, hint := hint }
          match updateDir v s1 (replaceNode s1.nodes f f') ploc with
          | .error e => (flush { s1 with nodes := replaceNode s1.nodes f f' }, .err e)
          | .ok s2 => (flush s2, .ok true)
      else
        -- shrink: keep `max(1, calc_num_clusters(m))` clusters, free the rest, end mark, flush
        let keep := max 1 (numClus v.bpc m)
        let cut := m < f.size ∧ keep < f.chain.length
        let s1 :=
          if cut then
            match (f.chain.take keep).getLast? with
            | some l =>
              flush { s with fat := (freeList v.p.cv.free s.fat (f.chain.drop keep)).set l v.p.cv.eocMax,
                             hint := lowerHint s.hint (f.chain.drop keep) }
            | none => s
          else s
        let f' := { f with chain := if cut then f.chain.take keep else f.chain, size := m }
        match updateDir v s1 (replaceNode s1.nodes f f') ploc with
        | .error e => (flush { s1 with nodes := replaceNode s1.nodes f f' }, .err e)
        | .ok s2 => (flush s2, .ok true)
    | some .root, _ => (s, .err .fileExpected)
    | _, _ => (s, .err .notFound)

inductive Op where
  | create (path : List Nat) (slots : Nat) (wipe : Bool)
  | makedir (path : List Nat) (slots : Nat)
  | remove (path : List Nat)
  | removedir (path : List Nat)
  | fwrite (path : List Nat) (pos n : Nat)
  | ftrunc (path : List Nat) (m : Nat)
  deriving Repr

def step (v : Vol) (s : St) : Op → St × Res
  | .create p sl w => create v s p sl w
  | .makedir p sl => makedir v s p sl
  | .remove p => remove v s p
  | .removedir p => removedir v s p
  | .fwrite p pos n => fwrite v s p pos n
  | .ftrunc p m => ftrunc v s p m

def run (v : Vol) (s : St) (ops : List Op) : St := ops.foldl (fun s op => (step v s op).1) s

/-! ## `removetree`: a compound call of pyfatfs' own, as the primitive calls it makes -/

/-- entries of directory `id`, in entry order -/
def children (nodes : List Node) (id : Nat) : List Node := nodes.filter (fun n => n.parent == id)

/-- `PyFatFS.removetree(path)` on the directory at `loc`: `_remove` every file of the directory, recurse into
    every sub-directory, then `removedir` the directory itself (the root stays).  The entries are those of the
    tree at the time of the call (what `get_entries()` returns when each level is entered: removals elsewhere
    do not change them). -/
def expandTree : Nat → List Node → List Nat → Loc → List Op
  | 0, _, _, _ => []
  | fuel + 1, nodes, path, loc =>
    let kids := children nodes loc.id
    (kids.filter (fun n => !n.isDir)).map (fun f => Op.remove (path ++ [f.key])) ++
    (kids.filter (fun n => n.isDir)).flatMap (fun d => expandTree fuel nodes (path ++ [d.key]) (.node d)) ++
    (match loc with | .root => [] | .node _ => [Op.removedir path])

def removetree (v : Vol) (s : St) (path : List Nat) : St × Res :=
  match resolve s.nodes path with
  | none => (s, .err .notFound)
  | some loc =>
    if !loc.isDir then (s, .err .dirExpected)
    else (run v s (expandTree (s.nodes.length + 1) s.nodes path loc), .ok true)

/-! ## the reference filesystem: a set of paths -/

structure SEnt where
  path : List Nat
  isDir : Bool
  size : Nat
  deriving DecidableEq, Repr

abbrev Spec := List SEnt

def Spec.get (t : Spec) (p : List Nat) : Option SEnt := t.find? (fun e => e.path == p)

/-- is `p` a directory of the reference filesystem (the root is) -/
def Spec.isDirAt (t : Spec) (p : List Nat) : Bool :=
  p == [] || (match t.get p with | some e => e.isDir | none => false)

def Spec.hasChildren (t : Spec) (p : List Nat) : Bool :=
  t.any (fun e => e.path.dropLast == p && e.path != [])

/-- overwrite the entry with `e`'s path, in place -/
def Spec.set (t : Spec) (e : SEnt) : Spec := t.map fun x => if x.path = e.path then e else x

/-- a new entry goes to the end -/
def Spec.add (t : Spec) (e : SEnt) : Spec := t ++ [e]

def Spec.del (t : Spec) (p : List Nat) : Spec := t.filter (fun x => x.path != p)

def specStep (t : Spec) : Op → Spec × Res
  | .create p _ wipe =>
    if p = [] then (t, .err .fileExpected)
    else if !t.isDirAt p.dropLast then (t, .err .notFound)
    else match t.get p with
      | some e => if e.isDir then (t, .err .fileExpected)
                  else if !wipe then (t, .ok false) else (t.set ⟨p, false, 0⟩, .ok true)
      | none => (t.add ⟨p, false, 0⟩, .ok true)
  | .makedir p _ =>
    if p = [] then (t, .err .dirExists)
    else if !t.isDirAt p.dropLast then (t, .err .notFound)
    else match t.get p with
      | some _ => (t, .err .dirExists)
      | none => (t.add ⟨p, true, 0⟩, .ok true)
  | .remove p =>
    if p = [] then (t, .err .fileExpected)
    else match t.get p with
      | none => (t, .err .notFound)
      | some e => if e.isDir then (t, .err .fileExpected) else (t.del p, .ok true)
  | .removedir p =>
    if p = [] then (t, .err .removeRoot)
    else match t.get p with
      | none => (t, .err .notFound)
      | some e => if !e.isDir then (t, .err .dirExpected)
                  else if t.hasChildren p then (t, .err .notEmpty)
                  else (t.del p, .ok true)
  | .fwrite p pos n =>
    if p = [] then (t, .err .fileExpected)
    else match t.get p with
      | none => (t, .err .notFound)
      | some e => if e.isDir then (t, .err .fileExpected)
                  else (t.set ⟨p, false, max e.size (pos + n)⟩, .ok true)
  | .ftrunc p m =>
    if p = [] then (t, .err .fileExpected)
    else match t.get p with
      | none => (t, .err .notFound)
      | some e => if e.isDir then (t, .err .fileExpected) else (t.set ⟨p, false, m⟩, .ok true)

/-- the abstraction: forget clusters, keep paths, kinds and sizes -/
def abs (s : St) : Spec := s.nodes.map fun n => ⟨n.path, n.isDir, n.size⟩

end Model.Fs
