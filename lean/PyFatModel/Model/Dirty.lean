/-
The unclean-shutdown protocol: which device writes a session (mount, history,
close) issues, in which order, and what each does to the two dirty indicators
(boot-sector flag `BS_Reserved1 & 1`; on FAT16/32 the clean-shutdown bit of
FAT[1] in the first FAT copy).
-/
namespace Model.Dirty

inductive W where
  | fatCopy (i : Nat) (cleanBit : Bool)   -- whole FAT copy i, with FAT[1]'s clean-shutdown bit as given
  | bootHdr (flag : Bool)                 -- BPB at offset 0 with the dirty flag as given
  | bootSig                               -- 55 AA at 510
  | backupHdr (flag : Bool)               -- FAT32 backup boot sector
  | backupSig
  | data                                  -- cluster / root-directory write
  deriving Repr, DecidableEq

/-- indicator state of an image -/
structure Ind where
  flag : Bool        -- boot-sector dirty flag
  fat1Clean : Bool   -- clean-shutdown bit of FAT[1] (first copy); irrelevant on FAT12
  deriving Repr, DecidableEq

def apply (s : Ind) : W → Ind
  | .fatCopy 0 c => { s with fat1Clean := c }
  | .bootHdr f => { s with flag := f }
  | _ => s

def marked (is12 : Bool) (s : Ind) : Bool := s.flag || (!is12 && !s.fat1Clean)

def isBootCopy : W → Bool
  | .bootHdr _ | .bootSig | .backupHdr _ | .backupSig => true
  | _ => false

def flushFat (nfats : Nat) (clean : Bool) : List W := (List.range nfats).map (fun i => W.fatCopy i clean)

def writeBpb (is32 : Bool) (flag : Bool) : List W :=
  [.bootHdr flag, .bootSig] ++ (if is32 then [.backupHdr flag, .backupSig] else [])

/-- `_mark_dirty` / `_mark_clean` -/
def markDirty (is12 is32 : Bool) (nfats : Nat) : List W :=
  (if is12 then [] else flushFat nfats false) ++ writeBpb is32 true
def markClean (is12 is32 : Bool) (nfats : Nat) : List W :=
  (if is12 then [] else flushFat nfats true) ++ writeBpb is32 false

/-- what operations may write while mounted: data, and FAT flushes carrying the (cleared) dirty bit -/
def bodyOK : List W → Bool
  | [] => true
  | .data :: r => bodyOK r
  | .fatCopy _ false :: r => bodyOK r
  | _ => false

def session (is12 is32 : Bool) (nfats : Nat) (body : List W) : List W :=
  markDirty is12 is32 nfats ++ body ++ markClean is12 is32 nfats

def run (s : Ind) (ws : List W) : Ind := ws.foldl apply s

end Model.Dirty
