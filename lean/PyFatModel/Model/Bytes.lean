/-
Bytes are `Nat`s (`< 256` as an explicit hypothesis where it matters).
Little-endian packing as `struct.pack('<H' / '<L' / '<B')` does it.
-/
namespace Model.Bytes

/-- `n` little-endian bytes of `v` (low `8n` bits). -/
def le : (n : Nat) → (v : Nat) → List Nat
  | 0, _ => []
  | n + 1, v => v % 256 :: le n (v / 256)

/-- value of a little-endian byte list -/
def ofLe : List Nat → Nat
  | [] => 0
  | b :: bs => b + 256 * ofLe bs

def allBytes (bs : List Nat) : Prop := ∀ b ∈ bs, b < 256

@[simp] theorem le_length (n v : Nat) : (le n v).length = n := by
  induction n generalizing v with
  | zero => rfl
  | succ n ih => simp [le, ih]

theorem ofLe_le (n v : Nat) (h : v < 256 ^ n) : ofLe (le n v) = v := by
  induction n generalizing v with
  | zero => simp [le, ofLe] at *; omega
  | succ n ih =>
    have : v / 256 < 256 ^ n := by
      rw [Nat.pow_succ] at h; omega
    simp [le, ofLe, ih _ this]; omega

theorem le_ofLe (bs : List Nat) (h : allBytes bs) : le bs.length (ofLe bs) = bs := by
  induction bs with
  | nil => rfl
  | cons b bs ih =>
    have hb : b < 256 := h b (by simp)
    have hbs : allBytes bs := fun x hx => h x (by simp [hx])
    simp only [List.length_cons, le, ofLe]
    have e1 : (b + 256 * ofLe bs) % 256 = b := by omega
    have e2 : (b + 256 * ofLe bs) / 256 = ofLe bs := by omega
    rw [e1, e2, ih hbs]

theorem le_allBytes (n v : Nat) : allBytes (le n v) := by
  induction n generalizing v with
  | zero => intro b hb; simp [le] at hb
  | succ n ih =>
    intro b hb
    simp only [le, List.mem_cons] at hb
    rcases hb with rfl | hb
    · omega
    · exact ih _ b hb

theorem ofLe_lt (bs : List Nat) (h : allBytes bs) : ofLe bs < 256 ^ bs.length := by
  induction bs with
  | nil => simp [ofLe]
  | cons b bs ih =>
    have hb : b < 256 := h b (by simp)
    have := ih (fun x hx => h x (by simp [hx]))
    simp only [ofLe, List.length_cons, Nat.pow_succ]; omega

end Model.Bytes
