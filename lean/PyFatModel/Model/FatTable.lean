/-
FAT table packing: `PyFat._parse_fat` and `PyFat.__bytes__`, plus the
specification's entry decoding (fatgen103 "FAT Data Structure").
-/
import PyFatModel.Model.Bytes

namespace Model.FatTable
open Model.Bytes

/-! ## specification: entry `k` of a table held in `bs` -/

/-- 16-bit little-endian word at byte `a`; bytes past the end read as 0
    (that is what `ljust(2, b"\0")` does for the FAT12 tail). -/
def word (bs : List Nat) (a : Nat) : Nat := bs.getD a 0 + 256 * bs.getD (a + 1) 0

/-- FAT12 entry `k`: 12 bits at bit offset `12k` (fatgen103: `FATOffset = N + N/2`). -/
def entry12 (bs : List Nat) (k : Nat) : Nat :=
  if k % 2 = 0 then word bs (3 * k / 2) % 4096 else word bs (3 * k / 2) / 16

def entry16 (bs : List Nat) (k : Nat) : Nat := word bs (2 * k)

/-- FAT32 entry: low 28 bits of the 32-bit word (fatgen103: `& 0x0FFFFFFF`). -/
def entry32 (bs : List Nat) (k : Nat) : Nat :=
  (word bs (4 * k) + 65536 * word bs (4 * k + 2)) % 268435456

/-- the 4 reserved bits of a FAT32 entry, which a writer must preserve -/
def reserved32 (bs : List Nat) (k : Nat) : Nat :=
  (word bs (4 * k) + 65536 * word bs (4 * k + 2)) / 268435456

/-! ## model of `_parse_fat` -/

/-- Control skeleton of the FAT12 branch (it does not depend on the data):
    `n` = table bytes, `total = int(n // 1.5)`; result `(parsed, len)`:
    entries `0..parsed-1` were assigned, the list has `len` cells at the end.
    `curr` is a float in the source (`1.5k`); here doubled. -/
def parse12Ctl (n total : Nat) : (fuel : Nat) → (k : Nat) → Nat × Nat
  | 0, k => (k, total)
  | f + 1, k =>
    if 3 * k < 2 * n then                       -- while curr < fat_size
      if total ≤ k then (k, total)              -- self.fat[cluster] = …  → IndexError → break
      else parse12Ctl n total f (k + 1)
    else (k, total)

inductive ParseErr where
  | assertion      -- "None in self.fat"
  | structShort    -- struct.unpack on a short slice (FAT16/32 with odd sizes)
  deriving Repr, DecidableEq

def total12 (n : Nat) : Nat := 2 * n / 3      -- int(fat_size // 1.5)

/-- three bytes hold two FAT12 entries; a 2-byte tail holds one (even) entry,
    a 1-byte tail is zero-padded by `ljust`. -/
def dec12 : List Nat → List Nat
  | b0 :: b1 :: b2 :: rest => (b0 + 256 * (b1 % 16)) :: (b1 / 16 + 16 * b2) :: dec12 rest
  | [b0, b1] => [b0 + 256 * (b1 % 16)]
  | [b0] => [b0]
  | [] => []

def dec16 : List Nat → List Nat
  | b0 :: b1 :: rest => (b0 + 256 * b1) :: dec16 rest
  | _ => []

def dec32 : List Nat → List Nat
  | b0 :: b1 :: b2 :: b3 :: rest => (b0 + 256 * b1 + 65536 * b2 + 16777216 * (b3 % 16)) :: dec32 rest
  | _ => []

/-- `_parse_fat`, FAT12: the in-memory table (or the AssertionError). -/
def parse12 (bs : List Nat) : Except ParseErr (List Nat) :=
  let n := bs.length
  let (parsed, len) := parse12Ctl n (total12 n) (total12 n + 2) 0
  if parsed < len then .error .assertion
  else .ok ((dec12 bs).take len)

/-- `_parse_fat`, FAT16 (table length even, as `BytsPerSec` is). -/
def parse16 (bs : List Nat) : List Nat := dec16 bs

/-- the reserved bits (`& 0xF0000000`) of every 4-byte group -/
def res32 : List Nat → List Nat
  | _ :: _ :: _ :: b3 :: rest => (b3 / 16 % 16) * 268435456 :: res32 rest
  | _ => []

/-- `_parse_fat`, FAT32: entries masked to 28 bits; the reserved bits are kept
    aside in `_fat32_reserved_bits`. -/
def parse32 (bs : List Nat) : List Nat := dec32 bs
def parse32Reserved (bs : List Nat) : List Nat := res32 bs

/-! ## model of `__bytes__` -/

/-- FAT12 `__bytes__`: even entries append `<H`, odd entries merge into the last byte. -/
def ser12 : List Nat → List Nat
  | [] => []
  | [e] => [e % 256, e / 256]
  | e0 :: e1 :: rest => e0 % 256 :: ((e1 % 16) * 16 ||| e0 / 256) :: e1 / 16 :: ser12 rest

def ser16 : List Nat → List Nat
  | [] => []
  | e :: es => e % 256 :: e / 256 % 256 :: ser16 es

def ser32 : List Nat → List Nat
  | [] => []
  | e :: es => e % 256 :: e / 256 % 256 :: e / 65536 % 256 :: e / 16777216 % 256 :: ser32 es

def orList : List Nat → List Nat → List Nat
  | e :: es, r :: rs => (e ||| r) :: orList es rs
  | _, _ => []

/-- FAT32 `__bytes__`: the reserved bits read at mount are OR-ed back when the
    two lists have the same length (they do unless `fat` was replaced wholesale, as `mkfs` does). -/
def ser32r (es rs : List Nat) : List Nat :=
  if rs.length = es.length then ser32 (orList es rs) else ser32 es

/-- `struct.pack` accepts the table (`<H`: < 65536 and, for FAT12, the odd-entry
    bytes `< 256`, i.e. entries `< 4096`; an even last entry may use 16 bits). -/
def packable12 (es : List Nat) : Prop := ∀ e ∈ es, e < 4096
def packable16 (es : List Nat) : Prop := ∀ e ∈ es, e < 65536
def packable32 (es : List Nat) : Prop := ∀ e ∈ es, e < 4294967296

/-- what `flush_fat` leaves in a FAT region that held `old`: the serialised
    table overwrites a prefix, the rest is untouched. -/
def flushed (ser : List Nat) (old : List Nat) : List Nat := ser ++ old.drop ser.length

end Model.FatTable
