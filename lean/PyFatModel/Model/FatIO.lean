/-
`FatIO`: the cached cursor (byte position, cluster index, in-cluster offset), the
read loop and the read-modify-write of `write`, over a file whose content is the
concatenation of its chain's clusters.  `Spec.ByteBuf` is the byte-buffer
semantics the property compares with.
-/
namespace Model.FatIO

/-! ## Spec.ByteBuf — Python binary-file semantics over a buffer -/
structure Buf where
  data : List Nat
  pos : Nat
  deriving Repr, DecidableEq

namespace Buf
def read (b : Buf) (n : Nat) : List Nat × Buf :=
  let chunk := (b.data.drop b.pos).take n
  (chunk, { b with pos := b.pos + chunk.length })

/-- write at the position (position ≤ size: the property's domain) -/
def write (b : Buf) (bs : List Nat) : Buf :=
  { data := b.data.take b.pos ++ bs ++ b.data.drop (b.pos + bs.length), pos := b.pos + bs.length }

def seekSet (b : Buf) (off : Nat) : Buf := { b with pos := off }

def truncate (b : Buf) (size : Nat) : Buf :=
  { b with data := b.data.take size ++ List.replicate (size - b.data.length) 0 }
end Buf

/-! ## the cursor of `FatIO.seek` -/

structure Cursor where
  bpos : Nat
  cindex : Nat
  coffpos : Nat
  deriving Repr, DecidableEq

/-- `seek(offset)` for `0 ≤ offset` (already made absolute): clamp to the size, split into
    cluster index and offset, and step back to the end of the previous cluster at end-of-file -/
def seekCursor (bpc filesize offset : Nat) : Cursor :=
  let off := min offset filesize
  let ci := off / bpc
  let co := off % bpc
  if off = filesize ∧ off > 0 ∧ co = 0 then { bpos := off, cindex := ci - 1, coffpos := bpc }
  else { bpos := off, cindex := ci, coffpos := co }

/-! ## the read loop -/

/-- `FatIO.read`'s loop over the clusters from the current one on: `off` = in-cluster
    offset for the first cluster, `n` = bytes still to read. -/
def readLoop (bpc : Nat) : List (List Nat) → (off n : Nat) → List Nat
  | [], _, _ => []
  | c :: rest, off, n =>
    let chunkSize := min (bpc - off) n
    let chunk := (c.drop off).take chunkSize
    if chunkSize = n then chunk else chunk ++ readLoop bpc rest 0 (n - chunkSize)

/-- size clipping at the top of `read` (after the fix: nothing to read at/behind EOF) -/
def readSize (filesize bpos : Nat) (size : Int) : Nat :=
  if size < 0 ∨ size + bpos > filesize then filesize - bpos else size.toNat

/-- `FatIO.read(size)` on a file given by its clusters -/
def read (bpc : Nat) (clusters : List (List Nat)) (filesize : Nat) (cur : Cursor) (size : Int) : List Nat × Cursor :=
  let n := readSize filesize cur.bpos size
  if n = 0 then ([], cur) else
  let out := readLoop bpc (clusters.drop cur.cindex) cur.coffpos n
  (out, seekCursor bpc filesize (cur.bpos + n))

/-! ## `write`: read-modify-write of the current cluster, then whole clusters -/

/-- the byte string handed to `write_data_to_cluster(…, cpos)`: the part of the current
    cluster before the position, then the new bytes -/
def writePayload (cluster : List Nat) (coffpos : Nat) (bs : List Nat) : List Nat :=
  if coffpos ≠ 0 then cluster.take coffpos ++ bs else bs

/-- `write_data_to_cluster` without extension: overwrite cluster by cluster from the start of the
    first cluster; a shorter last chunk leaves the rest of that cluster as it was -/
def overwrite (bpc : Nat) : List (List Nat) → List Nat → List (List Nat)
  | [], _ => []
  | c :: rest, data =>
    if data.isEmpty then c :: rest
    else (data.take bpc ++ c.drop (min bpc data.length)) :: overwrite bpc rest (data.drop bpc)

/-- `FatIO.__write` on the clusters of the file (`cs` = the chain after the FAT side has extended it,
    new clusters with whatever bytes they held): read-modify-write of the cluster the cursor is in, then
    cluster-sized chunks from there on -/
def writeClusters (bpc : Nat) (cs : List (List Nat)) (filesize pos : Nat) (bs : List Nat) : List (List Nat) :=
  let cur := seekCursor bpc filesize pos
  let payload := writePayload (cs.getD cur.cindex []) cur.coffpos bs
  cs.take cur.cindex ++ overwrite bpc (cs.drop cur.cindex) payload

end Model.FatIO
