/-
Executable check of the hypotheses of the filesystem-level theorems
(`Proofs.FsInv.Inv`, `Proofs.FsShape.ShapeNodes`, `Proofs.FsSync.Sync`) on a
concrete state.  The lock-step suite asks for it on the initial state it derives
from each image and after every call: the theorems then speak about the very
states the real code is compared with.  `Proofs.FsCheck.checkInv_sound` proves
that a passed check implies `Inv` and `ShapeNodes` (the `sync.*` clauses are a
test only).
-/
import PyFatModel.Model.Fs

namespace Model.Fs

def nodupB : List (List Nat) → Bool
  | [] => true
  | x :: xs => !xs.contains x && nodupB xs

def nodupN : List Nat → Bool
  | [] => true
  | x :: xs => !xs.contains x && nodupN xs

def ownedB (s : St) : List (List Nat) := (s.rootChain :: s.nodes.map (·.chain)).filter (fun c => !c.isEmpty)

def allocatableB (v : Vol) (fat : List Nat) (i : Nat) : Bool :=
  !(decide (v.p.cv.minData > i ∨ i > v.p.cv.maxData)) && decide (fat.getD i 0 = v.p.cv.free) && !Model.Alloc.skipIdx v.p i

def ckVol (v : Vol) (count : Nat) : Bool := decide (v.bound ≤ count + 2) && decide (64 ≤ v.bpc)
def ckLink (s : St) : Bool :=
  s.nodes.all fun n => (n.parent == 0 && n.path == [n.key]) ||
    s.nodes.any (fun d => d.isDir && d.clus == n.parent && n.path == d.path ++ [n.key])
def ckPaths (s : St) : Bool := nodupB (s.nodes.map (·.path))
def ckDirClus (s : St) : Bool := s.nodes.all fun d => !d.isDir || d.clus != 0
def ckDirId (s : St) : Bool := nodupN ((s.nodes.filter (·.isDir)).map (·.clus))
def ckLen (count : Nat) (s : St) : Bool := decide (count + 2 ≤ s.fat.length)
def ckChain (v : Vol) (s : St) : Bool := (ownedB s).all fun c => Model.Alloc.chainOf v.p s.fat (c.headD 0) == .ok c
def ckInData (count : Nat) (s : St) : Bool := (ownedB s).flatten.all fun c => decide (2 ≤ c ∧ c < count + 2)
def ckDisjoint (s : St) : Bool := nodupN (ownedB s).flatten
def ckRest (v : Vol) (count : Nat) (s : St) : Bool :=
  (List.range (count + 2)).all fun c => decide (c < 2) || (ownedB s).flatten.contains c ||
    decide (s.fat.getD c 0 = v.p.cv.free) || decide (s.fat.getD c 0 = v.p.cv.bad)
def ckHint (v : Vol) (s : St) : Bool := (List.range (min s.hint v.bound)).all fun i => !allocatableB v s.fat i
def ckRoot (v : Vol) (s : St) : Bool := if v.fixedRoot then s.rootChain.isEmpty else !s.rootChain.isEmpty
def ckDirs (s : St) : Bool := s.nodes.all fun d => !d.isDir || !d.chain.isEmpty
def ckFitsRoot (v : Vol) (s : St) : Bool :=
  decide (dirBytes v s.nodes .root ≤ (if v.fixedRoot then v.rootCap else s.rootChain.length * v.bpc))
def ckFitsDir (v : Vol) (s : St) : Bool :=
  s.nodes.all fun d => !d.isDir || decide (dirBytes v s.nodes (.node d) ≤ d.chain.length * v.bpc)
def ckShape (v : Vol) (s : St) : Bool :=
  s.nodes.all fun f => f.isDir || (f.chain.isEmpty && f.size == 0) ||
    (!f.chain.isEmpty && f.chain.length == max 1 (numClus v.bpc f.size))
def ckSync (s : St) : Bool :=
  s.dfat == s.fat && (s.nodes.map Node.dent).all (fun e => s.disk.contains e) &&
    s.disk.all (fun e => (s.nodes.map Node.dent).contains e) && s.disk.length == s.nodes.length

/-- everything the theorems assume (without the test-only `sync` clause) -/
def checkCore (v : Vol) (count : Nat) (s : St) : Bool :=
  ckVol v count && ckLink s && ckPaths s && ckDirClus s && ckDirId s && ckLen count s && ckChain v s && ckInData count s &&
    ckDisjoint s && ckRest v count s && ckHint v s && ckRoot v s && ckDirs s && ckFitsRoot v s && ckFitsDir v s && ckShape v s

/-- one failed clause per entry of the answer; `[]` = every hypothesis holds -/
def checkInv (v : Vol) (count : Nat) (s : St) : List String :=
  let clauses : List (String × Bool) := [
    ("vol", ckVol v count), ("tree.link", ckLink s), ("tree.paths", ckPaths s), ("tree.dirClus", ckDirClus s),
    ("tree.dirId", ckDirId s), ("rep.len", ckLen count s), ("rep.chain", ckChain v s), ("rep.inData", ckInData count s),
    ("rep.disjoint", ckDisjoint s), ("rep.rest", ckRest v count s), ("hint", ckHint v s), ("root", ckRoot v s),
    ("dirs", ckDirs s), ("fitsRoot", ckFitsRoot v s), ("fitsDir", ckFitsDir v s), ("shape", ckShape v s),
    ("sync", ckSync s)]
  (clauses.filter (fun c => !c.2)).map (·.1)

end Model.Fs
