/-
Executable check of the hypotheses of the filesystem-level theorems
(`Proofs.FsInv.Inv`, `Proofs.FsShape.ShapeNodes`, `Proofs.FsSync.Sync`) on a
concrete state.  The lock-step suite asks for it on the initial state it derives
from each image and after every call: the theorems then speak about the very
states the real code is compared with.  (This is a test of the hypotheses, not a
proof that the checker is sound.)
-/
import PyFatModel.Model.Fs

namespace Model.Fs

def nodupB : List (List Nat) → Bool
  | [] => true
  | x :: xs => !xs.contains x && nodupB xs

def nodupN : List Nat → Bool
  | [] => true
  | x :: xs => !xs.contains x && nodupN xs

/-- one failed clause per entry of the answer; `[]` = every hypothesis holds -/
def checkInv (v : Vol) (count : Nat) (s : St) : List String :=
  let owned := (s.rootChain :: s.nodes.map (·.chain)).filter (fun c => !c.isEmpty)
  let flat := owned.flatten
  let isFree := fun (c : Nat) => s.fat.getD c 0 == v.p.cv.free || s.fat.getD c 0 == v.p.cv.bad
  let allocatable := fun (i : Nat) =>
    !(decide (v.p.cv.minData > i ∨ i > v.p.cv.maxData)) && s.fat.getD i 0 == v.p.cv.free && !Model.Alloc.skipIdx v.p i
  let clauses : List (String × Bool) := [
    ("vol.bound", decide (v.bound ≤ count + 2)),
    ("vol.bpc", decide (64 ≤ v.bpc)),
    ("tree.link", s.nodes.all fun n => (n.parent == 0 && n.path == [n.key]) ||
        s.nodes.any (fun d => d.isDir && d.clus == n.parent && n.path == d.path ++ [n.key])),
    ("tree.paths", nodupB (s.nodes.map (·.path))),
    ("tree.dirClus", s.nodes.all fun d => !d.isDir || d.clus != 0),
    ("tree.dirId", nodupN ((s.nodes.filter (·.isDir)).map (·.clus))),
    ("rep.len", decide (count + 2 ≤ s.fat.length)),
    ("rep.chain", owned.all fun c => Model.Alloc.chainOf v.p s.fat (c.headD 0) == .ok c),
    ("rep.inData", flat.all fun c => decide (2 ≤ c ∧ c < count + 2)),
    ("rep.disjoint", nodupN flat),
    ("rep.rest", (List.range (count + 2)).all fun c => c < 2 || flat.contains c || isFree c),
    ("hint", (List.range (min s.hint v.bound)).all fun i => !allocatable i),
    ("root", if v.fixedRoot then s.rootChain.isEmpty else !s.rootChain.isEmpty),
    ("dirs", s.nodes.all fun d => !d.isDir || !d.chain.isEmpty),
    ("fitsRoot", decide (dirBytes v s.nodes .root ≤ (if v.fixedRoot then v.rootCap else s.rootChain.length * v.bpc))),
    ("fitsDir", s.nodes.all fun d => !d.isDir || decide (dirBytes v s.nodes (.node d) ≤ d.chain.length * v.bpc)),
    ("shape", s.nodes.all fun f => f.isDir || (f.chain.isEmpty && f.size == 0) ||
        (!f.chain.isEmpty && f.chain.length == max 1 (numClus v.bpc f.size))),
    ("sync.fat", s.dfat == s.fat),
    ("sync.disk", (s.nodes.map Node.dent).all (fun e => s.disk.contains e) && s.disk.all (fun e => (s.nodes.map Node.dent).contains e)
        && s.disk.length == s.nodes.length)]
  (clauses.filter (fun c => !c.2)).map (·.1)

end Model.Fs
