/-
In-memory FAT as `List Nat`: the allocator (`PyFat.allocate_bytes`), chain
linking, the chain follower (`get_cluster_chain`) and chain release
(`free_cluster_chain`).  Cluster-value tables come from `Gen.Consts`.
-/
import PyFatModel.Gen.Consts

namespace Model.Alloc
open Gen

structure Params where
  cv : ClusterValues
  is12 : Bool
  deriving Repr

def params (fatType : Nat) : Params :=
  if fatType = 12 then ⟨Gen.clusterValuesFor12, true⟩
  else if fatType = 16 then ⟨Gen.clusterValuesFor16, false⟩
  else ⟨Gen.clusterValuesFor32, false⟩

/-- may index `i` be handed out at all (the `continue` tests inside the loop) -/
def skipIdx (p : Params) (i : Nat) : Bool :=
  i == p.cv.bad || (p.is12 && i == Gen.fat12SpecialEoc)

/-- The `for i in range(hint, bound): … else: raise ENOSPC` loop.
    `fuel = bound - i`.  `none` = the range ran out (the `else` clause: ENOSPC);
    `some (clusters, i)` = left through `break` at index `i` (the new hint). -/
def scan (p : Params) (fat : List Nat) (n : Nat) : (fuel i : Nat) → (acc : List Nat) → Option (List Nat × Nat)
  | 0, _, _ => none
  | fuel + 1, i, acc =>
    if p.cv.minData > i ∨ i > p.cv.maxData then scan p fat n fuel (i + 1) acc
    else if n = acc.length then some (acc, i)
    else if fat.getD i 0 = p.cv.free ∧ skipIdx p i = false then scan p fat n fuel (i + 1) (acc ++ [i])
    else scan p fat n fuel (i + 1) acc

/-- link the found clusters into a chain terminated by `END_OF_CLUSTER_MAX` -/
def link (eoc : Nat) (fat : List Nat) : List Nat → List Nat
  | [] => fat
  | [c] => fat.set c eoc
  | c :: d :: rest => link eoc (fat.set c d) (d :: rest)

structure AllocResult where
  fat : List Nat
  hint : Nat
  clusters : List Nat
  deriving Repr

/-- `allocate_bytes` on the in-memory table: `bound = min(len(fat), clusterCount + 2)`. -/
def allocate (p : Params) (fat : List Nat) (hint bound n : Nat) : Option AllocResult :=
  match scan p fat n (bound - hint) hint [] with
  | none => none
  | some (cs, i) => some ⟨link p.cv.eocMax fat cs, i, cs⟩

/-! ### chain follower -/

inductive Walk where
  | ok (chain : List Nat)
  | leaves (chain : List Nat)           -- PyFATException(EIO): a link outside the table
  | loop (chain : List Nat)             -- PyFATException(EIO): chain longer than the table (a cycle)
  | bad (chain : List Nat)              -- PyFATException "Bad cluster"
  | free (chain : List Nat)             -- PyFATException "FREE_CLUSTER mark"
  | invalid (chain : List Nat)          -- PyFATException "Invalid or unknown"
  | hang (chain : List Nat)             -- fuel exhausted: would mean the real generator never ends
  deriving Repr, DecidableEq

inductive Cls where
  | data | eoc | bad | free | invalid
  deriving Repr, DecidableEq

/-- the `if/elif` ladder of `get_cluster_chain` on one FAT value -/
def classify (p : Params) (v : Nat) : Cls :=
  if p.cv.minData ≤ v ∧ v ≤ p.cv.maxData then .data
  else if p.is12 = true ∧ v = Gen.fat12SpecialEoc then .eoc
  else if p.cv.eocMin ≤ v ∧ v ≤ p.cv.eocMax then .eoc
  else if v = p.cv.bad then .bad
  else if v = p.cv.free then .free
  else .invalid

/-- `get_cluster_chain`, collected into a list; `steps` is the loop counter of the source. -/
def follow (p : Params) (fat : List Nat) : (fuel steps i : Nat) → (acc : List Nat) → Walk
  | 0, _, _, acc => .hang acc
  | fuel + 1, steps, i, acc =>
    if fat.length ≤ i then .leaves acc
    else if fat.length < steps then .loop acc
    else
      match classify p (fat.getD i 0) with
      | .data => follow p fat fuel (steps + 1) (fat.getD i 0) (acc ++ [i])
      | .eoc => .ok (acc ++ [i])
      | .bad => .bad acc
      | .free => .free acc
      | .invalid => .invalid acc

def chainOf (p : Params) (fat : List Nat) (start : Nat) : Walk :=
  follow p fat (fat.length + 2) 0 start []

/-- `free_cluster_chain`: every cluster the follower yields is set to FREE, the
    hint is lowered.  (The follower reads the *old* table: `tmp_fat` is a copy.) -/
def freeList (free : Nat) (fat : List Nat) (cs : List Nat) : List Nat :=
  cs.foldl (fun f c => f.set c free) fat

def lowerHint (hint : Nat) (cs : List Nat) : Nat := cs.foldl (fun h c => min c h) hint

end Model.Alloc
