/-
Byte level of the directory layer: 32-byte slots ⇄ structured `Slot`s, using
the field tables extracted from the source (`Gen.dirLayout`, `Gen.lfnLayout`).
-/
import PyFatModel.Model.Dir
import PyFatModel.Model.Layout
import PyFatModel.Model.Bytes

namespace Model.DirBytes
open Model.Dir Model.Bytes Model.Layout

def unitsOfBytes : List Nat → List Nat
  | lo :: hi :: rest => (lo + 256 * hi) :: unitsOfBytes rest
  | _ => []

def bytesOfUnits : List Nat → List Nat
  | [] => []
  | u :: rest => u % 256 :: u / 256 % 256 :: bytesOfUnits rest

def getInt (vals : List (String × Val)) (k : String) : Nat :=
  match vals.lookup k with
  | some (.int n) => n
  | _ => 0

def getBytes (vals : List (String × Val)) (k : String) : List Nat :=
  match vals.lookup k with
  | some (.bytes b) => b
  | _ => []

def named (layout : List Gen.Field) (bs : List Nat) : List (String × Val) :=
  layout.map (fun f => (f.name, unpackField bs f))

/-- classification and field extraction of one 32-byte slot, as
    `parse_dir_entries_in_address` does it (`struct.unpack` with both layouts) -/
def decodeSlot (bs : List Nat) : Slot :=
  let d := named Gen.dirLayout bs
  let name := getBytes d "DIR_Name"
  let attr := getInt d "DIR_Attr"
  match name with
  | 0 :: _ => .endMark
  | first :: _ =>
    if first = Gen.freeDirEntryMark then .free
    else if isLfnSlot attr first then
      let l := named Gen.lfnLayout bs
      .lfn { ord := getInt l "LDIR_Ord",
             units := unitsOfBytes (getBytes l "LDIR_Name1" ++ getBytes l "LDIR_Name2" ++ getBytes l "LDIR_Name3"),
             attr := getInt l "LDIR_Attr", type := getInt l "LDIR_Type", chksum := getInt l "LDIR_Chksum",
             clusLo := getInt l "LDIR_FstClusLO" }
    else .short { name := name, attr := attr, rest := bs.drop 12 }
  | [] => .endMark

def slots32 : (fuel : Nat) → List Nat → List (List Nat)
  | 0, _ => []
  | _, [] => []
  | f + 1, l => l.take 32 :: slots32 f (l.drop 32)

def decodeDir (bs : List Nat) : List Slot := (slots32 bs.length bs).map decodeSlot

def encodeLfn (s : LfnSlot) : List Nat :=
  let b := bytesOfUnits s.units
  [s.ord] ++ b.take 10 ++ [s.attr, s.type, s.chksum] ++ (b.drop 10).take 12 ++ le 2 s.clusLo ++ (b.drop 22).take 4

def encodeSlot : Slot → List Nat
  | .endMark => List.replicate 32 0
  | .free => 229 :: List.replicate 31 0
  | .lfn s => encodeLfn s
  | .short e => e.name ++ [e.attr] ++ e.rest

/-- UTF-16 well-formedness (what `bytes.decode('utf-16-le')` accepts) -/
def utf16Valid : List Nat → Bool
  | [] => true
  | u :: rest =>
    if 0xD800 ≤ u ∧ u ≤ 0xDBFF then
      match rest with
      | v :: rest' => if 0xDC00 ≤ v ∧ v ≤ 0xDFFF then utf16Valid rest' else false
      | [] => false
    else if 0xDC00 ≤ u ∧ u ≤ 0xDFFF then false
    else utf16Valid rest

end Model.DirBytes
