/-
Crash images (C12): the device as a function from addresses to bytes, the ordered
write log of an operation, and the image left behind when the device stops
accepting writes after `k` complete writes and `j` bytes of the next one.

`harness/fatdev.py: image_at_prefix` is the same construction on the real write
log; the suite `crash` rebuilds every such image and mounts it with the real code,
the driver command `crashfat` runs this definition on real logs and compares the
decoded FAT entries with what pyfatfs' `_parse_fat` reads from the torn region.
-/
import PyFatModel.Model.FatTable
import PyFatModel.Model.Geom

namespace Model.Crash

abbrev Img := Nat → Nat

structure Write where
  pos : Nat
  data : List Nat
  deriving Repr

/-- address `a` is overwritten by `w` -/
def Write.covers (w : Write) (a : Nat) : Prop := w.pos ≤ a ∧ a < w.pos + w.data.length

instance (w : Write) (a : Nat) : Decidable (w.covers a) := by unfold Write.covers; infer_instance

/-- the write touches no byte of `[lo, lo + n)` -/
def Write.misses (w : Write) (lo n : Nat) : Prop := w.pos + w.data.length ≤ lo ∨ lo + n ≤ w.pos

/-- the write stays inside `[lo, lo + n)` -/
def Write.within (w : Write) (lo n : Nat) : Prop := lo ≤ w.pos ∧ w.pos + w.data.length ≤ lo + n

def apply (img : Img) (w : Write) : Img :=
  fun a => if w.covers a then w.data.getD (a - w.pos) 0 else img a

def applyAll (img : Img) (ws : List Write) : Img := ws.foldl apply img

/-- the device stopped inside write `w` after `j` bytes -/
def torn (w : Write) (j : Nat) : Write := { w with data := w.data.take j }

/-- crash image: the first `k` writes are complete, `j` bytes of the next one (if any) made it -/
def crash (base : Img) (ws : List Write) (k j : Nat) : Img :=
  match ws[k]? with
  | none => applyAll base (ws.take k)
  | some w => apply (applyAll base (ws.take k)) (torn w j)

/-- the `n` bytes at `off` -/
def region (img : Img) (off n : Nat) : List Nat := (List.range n).map (fun i => img (off + i))

/-- an image given as a list (driver side) -/
def ofList (bs : List Nat) : Img := fun a => bs.getD a 0

/-- the in-memory table a mount would decode from the bytes of a FAT region:
    `len` entries, each by the specification's entry formula -/
def tableOf (entry : List Nat → Nat → Nat) (bytes : List Nat) (len : Nat) : List Nat :=
  (List.range len).map (fun k => entry bytes k)

/-- the content of a file / directory whose chain is `cs`: whole clusters, cut at `size` -/
def chainBytes (img : Img) (b : Model.Geom.Bpb) (cs : List Nat) : List Nat :=
  (cs.map (fun c => region img (b.clusterOffset c) b.bytesPerCluster)).flatten

def fileBytes (img : Img) (b : Model.Geom.Bpb) (cs : List Nat) (size : Nat) : List Nat :=
  (chainBytes img b cs).take size

/-! ### path resolution over an abstract directory reader

`readDir d` = the bytes of the directory whose first cluster is `d` (or the fixed
root for `d = 0`), `lookup bytes name` = what the directory scan finds for a name:
`(first cluster, size, is directory)`.  Both are parameters: the frame theorem holds
for every scan function, in particular for `Model.Dir.scan`. -/

structure Found where
  first : Nat
  size : Nat
  isDir : Bool
  deriving Repr, DecidableEq

def resolve {Name : Type} (readDir : Nat → Option (List Nat)) (lookup : List Nat → Name → Option Found) :
    (dir : Nat) → List Name → Option Found
  | dir, [] => some ⟨dir, 0, true⟩
  | dir, [n] => (readDir dir).bind (fun bs => lookup bs n)
  | dir, n :: rest =>
    match (readDir dir).bind (fun bs => lookup bs n) with
    | some f => if f.isDir then resolve readDir lookup f.first rest else none
    | none => none

/-- the directories a resolution reads -/
def visited {Name : Type} (readDir : Nat → Option (List Nat)) (lookup : List Nat → Name → Option Found) :
    (dir : Nat) → List Name → List Nat
  | _, [] => []
  | dir, [_] => [dir]
  | dir, n :: rest =>
    dir :: match (readDir dir).bind (fun bs => lookup bs n) with
      | some f => if f.isDir then visited readDir lookup f.first rest else []
      | none => []

end Model.Crash
