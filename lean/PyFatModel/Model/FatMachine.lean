/-
The FAT-level state machine: every way pyfatfs changes the in-memory FAT,
as operations on (table, allocation hint) with *ghost* ownership (the list of
chains).  The trace suite (`fatops`) replays the real code's calls to
`allocate_bytes` / `free_cluster_chain` / chain linking on this machine and
compares the tables after every step.
-/
import PyFatModel.Model.Alloc

namespace Model.FatMachine
open Model.Alloc

structure St where
  fat : List Nat
  hint : Nat
  chains : List (List Nat)      -- ghost: who owns what
  deriving Repr

inductive Op where
  | allocNew (n : Nat)              -- a new chain of n clusters (first write to an empty file, makedir)
  | extend (k : Nat) (n : Nat)      -- append n fresh clusters to chain k (write_data_to_cluster)
  | freeChain (k : Nat)             -- release chain k (remove, removedir, create(wipe))
  | truncate (k : Nat) (keep : Nat) -- keep the first `keep` clusters of chain k (FatIO.truncate)
  deriving Repr

/-- take element `k` out of a list -/
def pick : Nat → List α → Option (α × List α)
  | _, [] => none
  | 0, x :: xs => some (x, xs)
  | k + 1, x :: xs => (pick k xs).map (fun (y, ys) => (y, x :: ys))

/-- one step; `none` = the operation raised (ENOSPC, bad index) and changed nothing -/
def step (p : Params) (bound : Nat) (s : St) : Op → Option St
  | .allocNew n =>
    if n = 0 then none else
    (allocate p s.fat s.hint bound n).map fun r => { fat := r.fat, hint := r.hint, chains := r.clusters :: s.chains }
  | .extend k n =>
    if n = 0 then none else
    match pick k s.chains with
    | none => none
    | some (c, rest) =>
      match c.getLast?, allocate p s.fat s.hint bound n with
      | some l, some r =>
        match r.clusters.head? with
        | some h => some { fat := r.fat.set l h, hint := r.hint, chains := (c ++ r.clusters) :: rest }
        | none => none
      | _, _ => none
  | .freeChain k =>
    match pick k s.chains with
    | none => none
    | some (c, rest) => some { fat := freeList p.cv.free s.fat c, hint := lowerHint s.hint c, chains := rest }
  | .truncate k keep =>
    match pick k s.chains with
    | none => none
    | some (c, rest) =>
      if keep = 0 ∨ c.length ≤ keep then none else
      match (c.take keep).getLast? with
      | some l => some { fat := (freeList p.cv.free s.fat (c.drop keep)).set l p.cv.eocMax,
                         hint := lowerHint s.hint (c.drop keep), chains := c.take keep :: rest }
      | none => none

/-- a failed operation leaves the state as it was -/
def stepOrStay (p : Params) (bound : Nat) (s : St) (op : Op) : St := (step p bound s op).getD s

def run (p : Params) (bound : Nat) (s : St) (ops : List Op) : St := ops.foldl (stepOrStay p bound) s

end Model.FatMachine
