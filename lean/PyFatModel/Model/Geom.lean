/-
Volume geometry: the specification's formulas (fatgen103) and the region map
used to classify device accesses.
-/
namespace Model.Geom

structure Bpb where
  bps : Nat          -- BPB_BytsPerSec
  spc : Nat          -- BPB_SecPerClus
  rsvd : Nat         -- BPB_RsvdSecCnt
  nfats : Nat        -- BPB_NumFATs
  rootEnt : Nat      -- BPB_RootEntCnt
  totSec16 : Nat
  totSec32 : Nat
  fatSz16 : Nat
  fatSz32 : Nat
  bkBoot : Nat := 0  -- BPB_BkBootSec (FAT32)
  deriving Repr, DecidableEq

namespace Bpb

def totSec (b : Bpb) : Nat := if b.totSec16 ≠ 0 then b.totSec16 else b.totSec32
def fatSz (b : Bpb) : Nat := if b.fatSz16 ≠ 0 then b.fatSz16 else b.fatSz32
def rootDirSectors (b : Bpb) : Nat := (b.rootEnt * 32 + (b.bps - 1)) / b.bps
def rootDirSector (b : Bpb) : Nat := b.rsvd + b.fatSz * b.nfats
def firstDataSector (b : Bpb) : Nat := b.rsvd + b.nfats * b.fatSz + b.rootDirSectors
def dataSec (b : Bpb) : Nat := b.totSec - b.firstDataSector
def countOfClusters (b : Bpb) : Nat := b.dataSec / b.spc

/-- fatgen103 "FAT Type Determination": the *only* rule -/
def fatType (b : Bpb) : Nat :=
  if b.countOfClusters < 4085 then 12 else if b.countOfClusters < 65525 then 16 else 32

def bytesPerCluster (b : Bpb) : Nat := b.bps * b.spc
def volumeBytes (b : Bpb) : Nat := b.totSec * b.bps

/-- `FirstSectorofCluster(N) * BytsPerSec` -/
def clusterOffset (b : Bpb) (c : Nat) : Nat := ((c - 2) * b.spc + b.firstDataSector) * b.bps

def fatOffset (b : Bpb) (i : Nat) : Nat := (b.rsvd + i * b.fatSz) * b.bps
def fatBytes (b : Bpb) : Nat := b.fatSz * b.bps
def rootOffset (b : Bpb) : Nat := b.rootDirSector * b.bps
def rootBytes (b : Bpb) : Nat := b.rootDirSectors * b.bps

/-- a specification-valid BPB (what the independent builder produces) -/
structure Valid (b : Bpb) : Prop where
  bps : b.bps = 512 ∨ b.bps = 1024 ∨ b.bps = 2048 ∨ b.bps = 4096
  spc : 0 < b.spc
  rsvd : 0 < b.rsvd
  nfats : 0 < b.nfats
  fits : b.firstDataSector < b.totSec
  rootAligned : (b.rootEnt * 32) % b.bps = 0
  layout16 : b.fatSz16 ≠ 0 → b.countOfClusters < 65525
  layout32 : b.fatSz16 = 0 → b.fatSz32 ≠ 0 ∧ 65525 ≤ b.countOfClusters

end Bpb

/-! ### device access kinds (every device access pyfatfs may issue while mounted) -/

inductive Access where
  | bootSector                 -- read/write of the BPB at 0 (≤ 512 bytes) and the 0xAA55 signature
  | backupBoot                 -- FAT32 backup boot sector (+ signature)
  | fat (i : Nat)              -- whole FAT copy `i`
  | root                       -- whole fixed root area (write) / one slot inside it (read)
  | cluster (c : Nat)          -- whole cluster `c`, or one 32-byte slot inside it
  deriving Repr, DecidableEq

/-- the byte range `[lo, hi)` an access kind may touch, relative to the volume start -/
def Access.range (b : Bpb) : Access → Nat × Nat
  | .bootSector => (0, 512)
  | .backupBoot => (b.bkBoot * b.bps, b.bkBoot * b.bps + 512)
  | .fat i => (b.fatOffset i, b.fatOffset i + b.fatBytes)
  | .root => (b.rootOffset, b.rootOffset + b.rootBytes)
  | .cluster c => (b.clusterOffset c, b.clusterOffset c + b.bytesPerCluster)

def Access.admissible (b : Bpb) : Access → Prop
  | .bootSector => True
  | .backupBoot => b.bkBoot < b.rsvd
  | .fat i => i < b.nfats
  | .root => True
  | .cluster c => 2 ≤ c ∧ c < b.countOfClusters + 2

/-- classify a concrete access `(off, len)`: which admissible kind contains it -/
def classifyAccess (b : Bpb) (off len : Nat) : Option Access :=
  let inside (r : Nat × Nat) : Bool := r.1 ≤ off && off + len ≤ r.2
  if inside (Access.range b .bootSector) then some .bootSector
  else if b.bkBoot ≠ 0 && b.bkBoot < b.rsvd && inside (Access.range b .backupBoot) then some .backupBoot
  else if b.firstDataSector * b.bps ≤ off then
    let c := (off / b.bps - b.firstDataSector) / b.spc + 2
    if c < b.countOfClusters + 2 && inside (Access.range b (.cluster c)) then some (.cluster c) else none
  else if b.rootOffset ≤ off then
    if inside (Access.range b .root) then some .root else none
  else if b.rsvd * b.bps ≤ off then
    let i := (off / b.bps - b.rsvd) / b.fatSz
    if b.fatSz ≠ 0 && i < b.nfats && inside (Access.range b (.fat i)) then some (.fat i) else none
  else none

end Model.Geom
