/-
DOS date/time words.  `Spec` side: the bit layout of fatgen103 §"Date and Time
Formats" as plain arithmetic; `Model` side: what `DosDateTime` does, including
the `try/except ValueError` defaults of the decoders.
-/
namespace Model.DosTime

/-! ### specification (fatgen103): bits 0–4 day, 5–8 month, 9–15 years since 1980;
    bits 0–4 two-second count, 5–10 minutes, 11–15 hours -/
def dateWord (y m d : Nat) : Nat := ((y - 1980) * 16 + m) * 32 + d
def timeWord (h mi s : Nat) : Nat := (h * 64 + mi) * 32 + s / 2

def dateDay (w : Nat) : Nat := w % 32
def dateMonth (w : Nat) : Nat := w / 32 % 16
def dateYear (w : Nat) : Nat := w / 512 % 128 + 1980
def timeSecond (w : Nat) : Nat := w % 32 * 2
def timeMinute (w : Nat) : Nat := w / 32 % 64
def timeHour (w : Nat) : Nat := w / 2048 % 32

/-! ### calendar validity as `datetime.date(y, m, d)` / `datetime.time(h, mi, s)` check it -/
def isLeap (y : Nat) : Bool := y % 4 == 0 && (y % 100 != 0 || y % 400 == 0)

def daysInMonth (y m : Nat) : Nat :=
  if m == 2 then (if isLeap y then 29 else 28)
  else if m == 4 || m == 6 || m == 9 || m == 11 then 30 else 31

def validDate (y m d : Nat) : Bool :=
  1 ≤ y && y ≤ 9999 && 1 ≤ m && m ≤ 12 && 1 ≤ d && d ≤ daysInMonth y m

def validTime (h mi s : Nat) : Bool := h < 24 && mi < 60 && s < 60

/-- `DosDateTime.deserialize_date`: fields, or 1980-01-01 when `datetime` rejects them. -/
def decodeDate (w : Nat) : Nat × Nat × Nat :=
  if validDate (dateYear w) (dateMonth w) (dateDay w)
  then (dateYear w, dateMonth w, dateDay w) else (1980, 1, 1)

/-- `DosDateTime.deserialize_time`: fields, or 00:00:00. -/
def decodeTime (w : Nat) : Nat × Nat × Nat :=
  if validTime (timeHour w) (timeMinute w) (timeSecond w)
  then (timeHour w, timeMinute w, timeSecond w) else (0, 0, 0)

/-- `serialize_date` as Python computes it for any `datetime` (year 1..9999):
    negative for years before 1980, more than 16 bits after 2107; the caller's
    `struct.pack('H')` rejects both. -/
def encodeDate (y m d : Int) : Int := ((y - 1980) * 16 + m) * 32 + d

def encodeTime (h mi s : Nat) : Nat := timeWord h mi s

/-- does the date word fit the on-disk field -/
def dateFits (y : Int) : Bool := 1980 ≤ y && y ≤ 2107

end Model.DosTime
