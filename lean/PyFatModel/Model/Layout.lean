/-
`struct`-style fixed layouts (boot sector, FSInfo, directory entry, LFN slot),
generic over the field tables extracted into `Gen.Consts`.
-/
import PyFatModel.Gen.Consts
import PyFatModel.Model.Bytes

namespace Model.Layout
open Model.Bytes Gen

inductive Val where
  | int (n : Nat)
  | bytes (bs : List Nat)
  deriving Repr, DecidableEq, Inhabited

def slice (bs : List Nat) (off width : Nat) : List Nat := (bs.drop off).take width

/-- `struct.unpack` of one field -/
def unpackField (bs : List Nat) (f : Field) : Val :=
  if f.isInt then .int (ofLe (slice bs f.off f.width)) else .bytes (slice bs f.off f.width)

def unpack (layout : List Field) (bs : List Nat) : List Val := layout.map (unpackField bs)

/-- `struct.pack` of one field: integers little-endian, `Ns` fields zero-padded/truncated -/
def packField (f : Field) : Val → List Nat
  | .int n => le f.width n
  | .bytes b => (b ++ List.replicate f.width 0).take f.width

/-- does `struct.pack` accept the value (no `struct.error`) -/
def fits (f : Field) : Val → Bool
  | .int n => f.isInt && n < 256 ^ f.width
  | .bytes _ => !f.isInt

def packFrom (pos : Nat) : List Field → List Val → List Nat
  | f :: fs, v :: vs =>
      List.replicate (f.off - pos) 0 ++ packField f v ++ packFrom (f.off + f.width) fs vs
  | _, _ => []

/-- `struct.pack(layout, *vals)`; pad bytes (`x`) are zero -/
def pack (layout : List Field) (size : Nat) (vals : List Val) : List Nat :=
  let b := packFrom 0 layout vals
  b ++ List.replicate (size - b.length) 0

/-- fields follow each other without gaps from `pos` on -/
def chained (pos : Nat) : List Field → Bool
  | [] => true
  | f :: fs => f.off == pos && chained (pos + f.width) fs

def endOf (pos : Nat) : List Field → Nat
  | [] => pos
  | f :: fs => endOf (pos + f.width) fs

def lookup (layout : List Field) (vals : List Val) (name : String) : Option Val :=
  match layout, vals with
  | f :: fs, v :: vs => if f.name == name then some v else lookup fs vs name
  | _, _ => none

end Model.Layout
