/-
Python integer semantics on Lean `Int` (unbounded, two's complement view for
bit operations).  The translator (`tools/gen_model.py`) emits calls to these
so that a generated definition computes exactly what CPython computes for
every integer argument, negative ones included (`x & ~mask` in
`PyFat._mark_dirty` has a negative operand).

No Mathlib.  Core has `~~~`, `<<<`, `>>>` on `Int` but no and/or.
-/
namespace Py

/-- Python `a & b`. -/
def land : Int → Int → Int
  | .ofNat m,   .ofNat n   => .ofNat (m &&& n)
  | .ofNat m,   .negSucc n => .ofNat (m - (m &&& n))
  | .negSucc m, .ofNat n   => .ofNat (n - (n &&& m))
  | .negSucc m, .negSucc n => .negSucc (m ||| n)

/-- Python `a | b`. -/
def lor : Int → Int → Int
  | .ofNat m,   .ofNat n   => .ofNat (m ||| n)
  | .ofNat m,   .negSucc n => .negSucc (n - (n &&& m))
  | .negSucc m, .ofNat n   => .negSucc (m - (m &&& n))
  | .negSucc m, .negSucc n => .negSucc (m &&& n)

/-- Python `~a`. -/
def lnot (a : Int) : Int := ~~~a

/-- Python `a << k` for a literal / non-negative `k` (negative `k` raises
`ValueError` in Python; the translator only accepts non-negative literal
shift counts or emits a guard). -/
def shl (a : Int) (k : Int) : Int := a <<< k.toNat

/-- Python `a >> k`, `k ≥ 0`. -/
def shr (a : Int) (k : Int) : Int := a >>> k.toNat

/-- Python `a // b` (floor division); `b = 0` raises in Python, the caller's
guard excludes it. -/
def fdiv (a b : Int) : Int := Int.fdiv a b

/-- Python `a % b` (sign of the divisor). -/
def fmod (a b : Int) : Int := Int.fmod a b

/-- `math.ceil(a / b)` for integers `a`, `b > 0`, exact while the float
quotient is (|a| < 2^52). -/
def ceilDiv (a b : Int) : Int := -(Int.fdiv (-a) b)

/-- Python `int(a // f)` is not needed; `min`/`max` are Lean's. -/
def pmin (a b : Int) : Int := if a ≤ b then a else b
def pmax (a b : Int) : Int := if a ≥ b then a else b

/-! ### Non-negative fragment: reduction to `Nat` -/

@[simp] theorem land_ofNat (m n : Nat) : land (m : Int) (n : Int) = ((m &&& n : Nat) : Int) := rfl
@[simp] theorem lor_ofNat (m n : Nat) : lor (m : Int) (n : Int) = ((m ||| n : Nat) : Int) := rfl
@[simp] theorem shl_ofNat (m k : Nat) : shl (m : Int) (k : Int) = ((m <<< k : Nat) : Int) := rfl
@[simp] theorem shr_ofNat (m k : Nat) : shr (m : Int) (k : Int) = ((m >>> k : Nat) : Int) := rfl

theorem land_not_ofNat (m n : Nat) :
    land (m : Int) (lnot (n : Int)) = ((m - (m &&& n) : Nat) : Int) := rfl

end Py
