/-
Audit: for the given root modules, list every theorem declared in any
`PyFatModel.*` module of their import cone together with the axioms it depends
on.  Run:  lake env lean --run Audit.lean PyFatModel.Props.C20 …
One JSON object per line.
-/
import Lean
open Lean

instance : MonadEnv (StateM Environment) where
  getEnv := get
  modifyEnv f := modify f

def axiomsOf (env : Environment) (c : Name) : Array Name :=
  ((collectAxioms c : StateM Environment (Array Name)).run' env)

def main (args : List String) : IO UInt32 := do
  initSearchPath (← findSysroot)
  let roots := args.map String.toName
  let env ← importModules (roots.toArray.map fun m => { module := m }) {} (loadExts := false)
  let modNames := env.header.moduleNames
  let mut n := 0
  for (c, info) in env.constants.map₁.toList do
    match info with
    | .thmInfo _ =>
      match env.getModuleIdxFor? c with
      | some idx =>
        let m := modNames[idx.toNat]!
        if (`PyFatModel).isPrefixOf m && !c.isInternalDetail then
          let ax := axiomsOf env c
          IO.println (Json.compress (Json.mkObj [
            ("module", Json.str m.toString), ("theorem", Json.str c.toString),
            ("axioms", Json.arr (ax.map fun a => Json.str a.toString))]))
          n := n + 1
      | none => pure ()
    | _ => pure ()
  IO.eprintln s!"audited {n} theorems"
  return 0
